// Two threads call Shutdown() on one PeriodicExportingMetricReader at the same time.
#include <atomic>
#include <chrono>
#include <cstdio>
#include <thread>
#include "opentelemetry/sdk/metrics/export/periodic_exporting_metric_reader.h"
#include "opentelemetry/sdk/metrics/export/periodic_exporting_metric_reader_options.h"
#include "opentelemetry/sdk/metrics/export/metric_producer.h"
#include "opentelemetry/sdk/metrics/push_metric_exporter.h"
namespace sm = opentelemetry::sdk::metrics;
struct Exp : sm::PushMetricExporter {
  opentelemetry::sdk::common::ExportResult Export(const sm::ResourceMetrics &) noexcept override {
    std::this_thread::sleep_for(std::chrono::milliseconds(300)); return opentelemetry::sdk::common::ExportResult::kSuccess; }
  sm::AggregationTemporality GetAggregationTemporality(sm::InstrumentType) const noexcept override { return sm::AggregationTemporality::kCumulative; }
  bool ForceFlush(std::chrono::microseconds) noexcept override { return true; }
  bool Shutdown(std::chrono::microseconds) noexcept override { return true; }
};
struct Prod : sm::MetricProducer { Result Produce() noexcept override { return Result{sm::ResourceMetrics{}, Status::kSuccess}; } };
int main() {
  for (int round = 0; round < 20; round++) {
    sm::PeriodicExportingMetricReaderOptions o; o.export_interval_millis = std::chrono::milliseconds(1000); o.export_timeout_millis = std::chrono::milliseconds(500);
    auto *r = new sm::PeriodicExportingMetricReader(std::unique_ptr<sm::PushMetricExporter>(new Exp), o);
    Prod p; r->SetMetricProducer(&p);
    std::this_thread::sleep_for(std::chrono::milliseconds(50));   // the worker is inside its first (slow) Export
    std::atomic<int> go{0};
    auto f = [&] { go++; while (go < 2) {} r->Shutdown(); };
    std::thread a(f), b(f); a.join(); b.join();
    delete r;
    printf("round %d ok\n", round); fflush(stdout);
  }
  puts("PASS"); return 0;
}
