#!/usr/bin/env python3
"""Entry point named in MANIFEST.json:  check.py <ID> --tier quick|thorough [--replay <file>]"""
import argparse, os, sys
sys.path.insert(0, os.path.dirname(os.path.abspath(__file__)))
os.chdir(os.path.dirname(os.path.abspath(__file__)))
import vcore


def main():
    ap = argparse.ArgumentParser()
    ap.add_argument('prop')
    ap.add_argument('--tier', default=os.environ.get('VERIF_TIER', 'quick'), choices=['quick', 'thorough'])
    ap.add_argument('--replay')
    a = ap.parse_args()
    seed = int(os.environ.get('VERIF_SEED', '1'))
    try:
        rc = vcore.run_check(a.prop.upper(), a.tier, seed, a.replay)
    except Exception:
        import traceback
        traceback.print_exc()
        print(f'INTERNAL-ERROR property={a.prop.upper()}', file=sys.stderr)
        sys.exit(2)
    sys.exit(rc)


if __name__ == '__main__':
    main()
