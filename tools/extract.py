#!/usr/bin/env python3
"""Source -> Lean fragments (lean/OtelVerif/Gen/*.lean).

Every check run calls `extract_all(repo)`.  Each generator re-reads the C++ source of the
current working tree and renders the constants / tables / regular expressions the models and
theorems depend on.  A fragment that cannot be found any more raises ExtractError: the tie
between model and code is then broken and the check reports it (DESIGN.md 2.2 / 2.5).
Files are only rewritten when their content changes, so an unchanged tree costs no rebuild.
"""
import hashlib, os, subprocess, re, sys

HERE = os.path.dirname(os.path.abspath(__file__))
VERIF = os.path.dirname(HERE)
GEN_DIR = os.path.join(VERIF, 'lean', 'OtelVerif', 'Gen')


class ExtractError(Exception):
    pass


class ShapeChanged(ExtractError):
    """the text the extractor looks for is not there any more (a function was split, a local renamed, a constant spelled
    differently ...) - nothing is known to have changed in value.  The fragment committed for the unchanged tree is kept, and
    the check ESCALATES the correspondence run of the property instead of declaring the tie broken (vcore.run_check): the
    differential run is what shows that the model still mirrors the code; the text pattern was only a cheap proxy for that.
    An extracted value that DIFFERS still goes into the fragment and breaks the theorems that depend on it, and a pattern
    that is found but says something else (`unexpected ...`) stays an ExtractError."""


def committed_fragment(name):
    """Gen/<name>.lean as committed in /verif (the values of the tree the models were validated against), else what is on disk"""
    rel = f'lean/OtelVerif/Gen/{name}.lean'
    try:
        r = subprocess.run(['git', '-C', VERIF, 'show', 'HEAD:' + rel], stdout=subprocess.PIPE, stderr=subprocess.DEVNULL)
        if r.returncode == 0 and r.stdout:
            return r.stdout.decode('utf-8')
    except OSError:
        pass
    p = os.path.join(VERIF, rel)
    if os.path.exists(p):
        with open(p, encoding='utf-8') as f:
            return f.read()
    return None


def probe(repo, src, sdk_srcs=(), includes=('api/include', 'sdk/include'), flags=()):
    """OBSERVATIONAL extraction: compile the small program `src` (a path under /verif) together with the repo-relative
    `sdk_srcs` from the working tree, run it, return its stdout.  The executable is cached under .cache/probe by the hash of
    the preprocessed translation units, so an unchanged tree costs one preprocessor run.  A value obtained this way does not
    depend on how the source spells it."""
    cache = os.path.join(VERIF, '.cache', 'probe')
    os.makedirs(cache, exist_ok=True)
    cxx = os.environ.get('VERIF_CXX', 'g++')
    base = [cxx, '-std=gnu++17', '-O0', '-DOPENTELEMETRY_ABI_VERSION_NO=1'] + list(flags) + ['-I' + os.path.join(repo, i) for i in includes]
    tus = [os.path.join(VERIF, src)] + [os.path.join(repo, f) for f in sdk_srcs]
    h = hashlib.sha256(' '.join(base[1:]).encode())
    for tu in tus:
        pp = subprocess.run(base + ['-E', '-P', tu], stdout=subprocess.PIPE, stderr=subprocess.PIPE)
        if pp.returncode != 0:
            raise ExtractError(f'probe {src}: {os.path.basename(tu)} does not preprocess against the current tree: ' + pp.stderr.decode(errors='replace')[-600:])
        h.update(pp.stdout)
    exe = os.path.join(cache, os.path.basename(src).replace('.cc', '') + '-' + h.hexdigest()[:24])
    if not os.path.exists(exe):
        tmp = exe + f'.tmp{os.getpid()}'
        r = subprocess.run(base + tus + ['-pthread', '-o', tmp], stdout=subprocess.PIPE, stderr=subprocess.PIPE)
        if r.returncode != 0:
            raise ExtractError(f'probe {src} does not compile against the current tree: ' + r.stderr.decode(errors='replace')[-1200:])
        os.replace(tmp, exe)
    r = subprocess.run([exe], stdout=subprocess.PIPE, stderr=subprocess.PIPE, timeout=60)
    if r.returncode != 0:
        raise ExtractError(f'probe {src} exited with {r.returncode}: ' + r.stderr.decode(errors='replace')[-600:])
    return r.stdout.decode('utf-8', errors='replace')


def _read(repo, rel):
    p = os.path.join(repo, rel)
    try:
        with open(p, encoding='utf-8', errors='replace') as f:
            return f.read()
    except OSError as e:
        raise ExtractError(f'{rel}: {e}')


def _strip_comments(txt):
    txt = re.sub(r'/\*.*?\*/', ' ', txt, flags=re.S)
    txt = re.sub(r'//[^\n]*', ' ', txt)
    return txt


def _one(pattern, txt, what, flags=re.S):
    m = re.search(pattern, txt, flags)
    if not m:
        raise ShapeChanged(f'cannot find {what}')
    return m


def _int_const(txt, name, what=None):
    m = _one(r'\b' + re.escape(name) + r'\s*=\s*(0[xX][0-9a-fA-F]+|\d+)\s*[uUlL]*\s*;', txt, what or name)
    return int(m.group(1), 0)


def _c_string_literal(s):
    """decode a C string literal body (between the quotes) to bytes"""
    out = bytearray()
    i = 0
    while i < len(s):
        c = s[i]
        if c != '\\':
            out.append(ord(c)); i += 1; continue
        i += 1
        c = s[i]
        if c == 'x':
            j = i + 1
            while j < len(s) and s[j] in '0123456789abcdefABCDEF':
                j += 1
            out.append(int(s[i + 1:j], 16) & 0xFF); i = j
        elif c in '01234567':
            j = i
            while j < len(s) and j < i + 3 and s[j] in '01234567':
                j += 1
            out.append(int(s[i:j], 8) & 0xFF); i = j
        else:
            out.append({'n': 10, 't': 9, 'r': 13, '0': 0, '\\': 92, '"': 34, "'": 39, 'a': 7, 'b': 8,
                        'f': 12, 'v': 11}.get(c, ord(c))); i += 1
    return bytes(out)


def lean_nat_list(xs):
    return '[' + ', '.join(str(int(x)) for x in xs) + ']'


def lean_bytes(bs):
    return '[' + ', '.join(str(b) for b in bs) + ']'


# ---------------------------------------------------------------------------------------------
# regular expressions -> Lean predicate terms (fragment used by the repo: anchors, classes,
# {m,n}, concatenation, a parenthesised literal)

def parse_regex(rx: bytes):
    """returns a list of items (set_of_bytes, min, max).  Only the fragment
    ^ item* $ with item = class | literal | (literal), optional {m,n}/{n}/*/+/? is accepted."""
    s = rx
    i = 0
    if s[:1] == b'^':
        i = 1
    end = len(s)
    if s[-1:] == b'$':
        end -= 1
    items = []

    def esc(j):
        c = s[j]
        if c == ord('x'):
            return int(s[j + 1:j + 3], 16), j + 3
        if chr(c) in 'dws':
            raise ExtractError('regex escape \\%s not supported' % chr(c))
        return c, j + 1

    while i < end:
        c = s[i]
        if c == ord('['):
            j = i + 1
            neg = False
            if s[j] == ord('^'):
                neg = True; j += 1
            members = set()
            first = True
            while s[j] != ord(']') or first:
                first = False
                if s[j] == ord('\\'):
                    lo, j = esc(j + 1)
                else:
                    lo = s[j]; j += 1
                if s[j] == ord('-') and s[j + 1] != ord(']'):
                    j += 1
                    if s[j] == ord('\\'):
                        hi, j = esc(j + 1)
                    else:
                        hi = s[j]; j += 1
                    members.update(range(lo, hi + 1))
                else:
                    members.add(lo)
            i = j + 1
            cls = set(range(256)) - members if neg else members
        elif c == ord('('):
            j = s.index(b')', i)
            inner = s[i + 1:j]
            if len(inner) != 1:
                raise ExtractError('regex group not a single literal')
            cls = {inner[0]}
            i = j + 1
        elif c == ord('\\'):
            v, i = esc(i + 1)
            cls = {v}
        elif c == ord('.'):
            cls = set(range(256)) - {10, 13}
            i += 1
        elif chr(c) in '|)*+?{}':
            raise ExtractError('regex construct %r not supported' % chr(c))
        else:
            cls = {c}; i += 1
        lo_n, hi_n = 1, 1
        if i < end and s[i] == ord('{'):
            j = s.index(b'}', i)
            body = s[i + 1:j].decode()
            if ',' in body:
                a, b = body.split(',')
                lo_n = int(a); hi_n = int(b) if b.strip() else None
            else:
                lo_n = hi_n = int(body)
            i = j + 1
        elif i < end and s[i] == ord('*'):
            lo_n, hi_n = 0, None; i += 1
        elif i < end and s[i] == ord('+'):
            lo_n, hi_n = 1, None; i += 1
        elif i < end and s[i] == ord('?'):
            lo_n, hi_n = 0, 1; i += 1
        items.append((frozenset(cls), lo_n, hi_n))
    return items


def ranges_of(cls):
    xs = sorted(cls)
    out = []
    for x in xs:
        if out and out[-1][1] == x - 1:
            out[-1][1] = x
        else:
            out.append([x, x])
    return [(a, b) for a, b in out]


def lean_regex(items):
    """render as a Lean term of type `List Otel.RxItem`"""
    parts = []
    for cls, lo, hi in items:
        rs = '[' + ', '.join(f'({a}, {b})' for a, b in ranges_of(cls)) + ']'
        his = 'none' if hi is None else f'some {hi}'
        parts.append(f'⟨{rs}, {lo}, {his}⟩')
    return '[' + ', '.join(parts) + ']'


def _regex_literal(txt, var, what):
    # static std::regex var( "...." "...." );
    m = _one(r'\b' + re.escape(var) + r'\s*\(\s*((?:"(?:[^"\\]|\\.)*"\s*)+)\)', txt, what)
    lits = re.findall(r'"((?:[^"\\]|\\.)*)"', m.group(1))
    return b''.join(_c_string_literal(l) for l in lits)


# ---------------------------------------------------------------------------------------------
GENERATORS = {}


def gen(name):
    def deco(f):
        GENERATORS[name] = f
        return f
    return deco


HDR = '/- GENERATED by tools/extract.py from /repo on every check run. Do not edit. -/\n'


@gen('Hex')
def gen_hex(repo):
    out = [HDR, 'namespace Otel.Gen\n']
    # three digit tables used by ToLowerBase16
    for name, rel in (('traceIdHex', 'api/include/opentelemetry/trace/trace_id.h'),
                      ('spanIdHex', 'api/include/opentelemetry/trace/span_id.h'),
                      ('traceFlagsHex', 'api/include/opentelemetry/trace/trace_flags.h')):
        txt = _strip_comments(_read(repo, rel))
        fn = _one(r'void\s+ToLowerBase16\s*\(.*?\{(.*?)\n  \}', txt, f'ToLowerBase16 in {rel}').group(1)
        m = _one(r'kHex\[\]\s*=\s*"((?:[^"\\]|\\.)*)"', fn, f'kHex table in {rel}')
        tab = _c_string_literal(m.group(1))
        if not re.search(r'>>\s*4\s*\)\s*&\s*0xF', fn) or not re.search(r'>>\s*0\s*\)\s*&\s*0xF', fn):
            raise ShapeChanged(f'{rel}: ToLowerBase16 no longer has the (x>>4)&0xF / (x>>0)&0xF shape')
        out.append(f'/-- `kHex` of `{rel}` -/\ndef {name} : List UInt8 := {lean_bytes(tab)}\n')
    txt = _strip_comments(_read(repo, 'api/include/opentelemetry/trace/propagation/detail/hex.h'))
    m = _one(r'kHexDigits\s*\[\s*256\s*\]\s*=\s*\{(.*?)\}', txt, 'kHexDigits[256]')
    vals = [int(x) for x in re.findall(r'-?\d+', m.group(1))]
    if len(vals) != 256:
        raise ExtractError(f'kHexDigits has {len(vals)} entries')
    out.append('/-- `kHexDigits` (int8_t table), each entry as its uint8_t bit pattern (-1 = 255) -/\n'
               f'def kHexDigits : List UInt8 := {lean_bytes([v & 0xFF for v in vals])}\n')
    txt = _strip_comments(_read(repo, 'api/include/opentelemetry/trace/propagation/http_trace_context.h'))
    for c in ('kVersionSize', 'kTraceIdSize', 'kSpanIdSize', 'kTraceFlagsSize', 'kTraceParentSize'):
        out.append(f'def {c} : Nat := {_int_const(txt, c)}\n')
    out.append(f'def kInvalidVersion : Nat := {_int_const(txt, "kInvalidVersion")}\n')
    out.append(f'def kDefaultAssumedVersion : Nat := {_int_const(txt, "kDefaultAssumedVersion")}\n')
    txt = _strip_comments(_read(repo, 'api/include/opentelemetry/trace/trace_flags.h'))
    out.append(f'def kIsSampled : Nat := {_int_const(txt, "kIsSampled")}\n')
    out.append(f'def kIsRandom : Nat := {_int_const(txt, "kIsRandom")}\n')
    txt = _strip_comments(_read(repo, 'api/include/opentelemetry/trace/trace_id.h'))
    out.append(f'def traceIdSize : Nat := {_int_const(txt, "kSize", "TraceId::kSize")}\n')
    txt = _strip_comments(_read(repo, 'api/include/opentelemetry/trace/span_id.h'))
    out.append(f'def spanIdSize : Nat := {_int_const(txt, "kSize", "SpanId::kSize")}\n')
    out.append('end Otel.Gen\n')
    return '\n'.join(out)


@gen('TraceState')
def gen_tracestate(repo):
    txt = _strip_comments(_read(repo, 'api/include/opentelemetry/trace/trace_state.h'))
    out = [HDR, 'import OtelVerif.Model.Regex\nnamespace Otel.Gen\n']
    for c in ('kKeyMaxSize', 'kValueMaxSize', 'kMaxKeyValuePairs'):
        out.append(f'def {c} : Nat := {_int_const(txt, c)}\n')
    for c in ('kKeyValueSeparator', 'kMembersSeparator'):
        m = _one(r'\b' + c + r"\s*=\s*'(.)'", txt, c)
        out.append(f'def {c} : UInt8 := {ord(m.group(1))}\n')
    for var, name in (('reg_key', 'regKey'), ('reg_key_multitenant', 'regKeyMultitenant'), ('reg_value', 'regValue')):
        rx = _regex_literal(txt, var, f'std::regex {var}')
        out.append(f'-- regex literal in the source: {rx.decode("latin1")}\ndef {name} : List Otel.RxItem := {lean_regex(parse_regex(rx))}\n')
    # which variant is compiled is decided by OPENTELEMETRY_HAVE_WORKING_REGEX (1 with g++ >= 4.9)
    out.append('end Otel.Gen\n')
    return '\n'.join(out)


def _load_plugins():
    """tools/gen_*.py: per-property generator modules (`import extract as X; @X.gen('Name') def …`)"""
    import glob, importlib
    if __name__ == '__main__':
        sys.modules.setdefault('extract', sys.modules['__main__'])
    if HERE not in sys.path:
        sys.path.insert(0, HERE)
    for f in sorted(glob.glob(os.path.join(HERE, 'gen_*.py'))):
        importlib.import_module(os.path.basename(f)[:-3])


_load_plugins()


def extract_all(repo, only=None):
    """returns (changed_files, errors)"""
    os.makedirs(GEN_DIR, exist_ok=True)
    changed, errors = [], []
    for name, f in GENERATORS.items():
        if only and name not in only:
            continue
        path = os.path.join(GEN_DIR, name + '.lean')
        try:
            content = f(repo)
        except ShapeChanged as e:
            keep = committed_fragment(name)
            if keep is None:
                errors.append(f'Gen.{name}: {e}')
                continue
            errors.append(f'SHAPE Gen.{name}: {e}')
            content = keep                      # the committed values; the caller escalates the correspondence run
        except ExtractError as e:
            errors.append(f'Gen.{name}: {e}')
            continue
        except Exception as e:  # malformed source in an unexpected way: still a broken tie
            errors.append(f'Gen.{name}: {type(e).__name__}: {e}')
            continue
        old = None
        if os.path.exists(path):
            with open(path, encoding='utf-8') as fh:
                old = fh.read()
        if old != content:
            with open(path, 'w', encoding='utf-8') as fh:
                fh.write(content)
            changed.append(name)
    return changed, errors


if __name__ == '__main__':
    repo = sys.argv[1] if len(sys.argv) > 1 else '/repo'
    ch, er = extract_all(repo)
    print('changed:', ch)
    for e in er:
        print('ERROR', e)
    sys.exit(1 if er else 0)
