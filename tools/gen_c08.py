"""Generated fragment for C08: default cardinality limit, the overflow attribute, the shape of the overflow test and of
the allow-list lookup, and how Collect / buildMetrics create their tables."""
import re
import extract as X

HM = 'sdk/include/opentelemetry/sdk/metrics/state/attributes_hashmap.h'
AP = 'sdk/include/opentelemetry/sdk/metrics/view/attributes_processor.h'
SS = 'sdk/src/metrics/state/sync_metric_storage.cc'
TS = 'sdk/src/metrics/state/temporal_metric_storage.cc'


@X.gen('Series')
def gen_series(repo):
    hm = X._strip_comments(X._read(repo, HM))
    ap = X._strip_comments(X._read(repo, AP))
    ss = X._strip_comments(X._read(repo, SS))
    ts = X._strip_comments(X._read(repo, TS))
    out = [X.HDR, 'namespace Otel.Gen\n']
    out.append(f'def kAggregationCardinalityLimit : Nat := {X._int_const(hm, "kAggregationCardinalityLimit")}\n')
    m = X._one(r'kAttributesLimitOverflowKey\s*=\s*"((?:[^"\\]|\\.)*)"', hm, 'kAttributesLimitOverflowKey')
    out.append(f'def kAttributesLimitOverflowKey : List UInt8 := {X.lean_bytes(X._c_string_literal(m.group(1)))}\n')
    m = X._one(r'kAttributesLimitOverflowValue\s*=\s*(true|false)\s*;', hm, 'kAttributesLimitOverflowValue')
    out.append(f'def kAttributesLimitOverflowValue : Bool := {m.group(1)}\n')
    if not re.search(r'IsOverflowAttributes\(\)\s*const\s*\{\s*return\s*\(?\s*hash_map_\.size\(\)\s*\+\s*1\s*>=\s*attributes_limit_\s*\)?\s*;', hm):
        raise X.ShapeChanged('IsOverflowAttributes is no longer `hash_map_.size() + 1 >= attributes_limit_`')
    # allow-list lookup: by value (std::string(key) / key) or through key.data() as a C string (D11)
    finds = re.findall(r'allowed_attribute_keys_\.find\(\s*([^)]*\)?)\s*\)', ap)
    if not finds:
        raise X.ShapeChanged('FilteringAttributesProcessor: allow-list lookup not found')
    by_value = all('.data()' not in f for f in finds)
    out.append('/-- the allow-list is searched with the key\'s own bytes (not with `key.data()` read as a C string) -/\n'
               f'def filterLooksUpByValue : Bool := {"true" if by_value else "false"}\n')
    # tables re-created with the configured limit (D10a, D10b)
    m = X._one(r'attributes_hashmap_\.reset\(\s*new\s+AttributesHashMap\s*(\([^)]*\))?\s*\)', ss, 'Collect re-creating the interval table')
    out.append('/-- `Collect` re-creates the interval table with the storage\'s limit (not the default) -/\n'
               f'def collectKeepsLimit : Bool := {"true" if m.group(1) and "limit" in m.group(1) else "false"}\n')
    m = X._one(r'merged_metrics\s*\(\s*new\s+AttributesHashMap\s*(\([^)]*\))?\s*\)', ts, 'buildMetrics creating the merged table')
    out.append('/-- `buildMetrics` creates the merged table with the storage\'s limit (not the default) -/\n'
               f'def mergedUsesLimit : Bool := {"true" if m.group(1) and "limit" in m.group(1) else "false"}\n')
    # folding while merging goes through GetOrSetDefault (merge into the overflow series) rather than Set alone (D10c)
    n_set = len(re.findall(r'merged_metrics->Set\(', ts))
    n_slot = len(re.findall(r'merged_metrics->GetOrSetDefault\(', ts))
    out.append('/-- new series are merged through the slot returned by `GetOrSetDefault` (own slot or the overflow series) -/\n'
               f'def mergeFoldsIntoOverflow : Bool := {"true" if n_slot >= 2 and n_set == 4 else "false"}\n')
    out.append('end Otel.Gen\n')
    return '\n'.join(out)
