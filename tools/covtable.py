#!/usr/bin/env python3
"""covtable.py - before / after table (markdown) from coverage/before/<P>.json and coverage/<P>.json (tools/covaudit.py)."""
import json, os, sys
V = os.path.dirname(os.path.dirname(os.path.abspath(__file__)))
props = sys.argv[1:] or ['C01', 'C02', 'C03', 'C04', 'C05', 'C09', 'C10', 'C11', 'C12', 'C13', 'C14', 'C15', 'C16', 'C20']


def load(p):
    try:
        return json.load(open(p))
    except OSError:
        return None


def cell(s, k):
    if not s:
        return '-'
    a = s[k]
    return f'{a["lines_covered"]}/{a["lines_total"]} = {a["line_pct"]}% / {a["branches_covered"]}/{a["branches_total"]} = {a["branch_pct"]}%'


print('| prop | anchors before (lines / branches) | anchors after | anchors+related before | anchors+related after | functions never entered (anchors) | cases |')
print('|---|---|---|---|---|---|---|')
for p in props:
    b, a = load(os.path.join(V, 'coverage', 'before', p + '.json')), load(os.path.join(V, 'coverage', p + '.json'))
    fn = lambda s: str(s['anchors']['uncovered_functions']) if s else '-'
    cs = lambda s: str(s['cases']) if s else '-'
    print(f'| {p} | {cell(b, "anchors")} | {cell(a, "anchors")} | {cell(b, "anchors_and_related")} | {cell(a, "anchors_and_related")} | {fn(b)} -> {fn(a)} | {cs(b)} -> {cs(a)} |')
