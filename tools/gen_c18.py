"""Generated fragments for C18 (resources, environment readers): lean/OtelVerif/Gen/C18.lean

 * the default resource attributes of Resource::GetDefault (semconv constants resolved through the semconv headers,
   OPENTELEMETRY_SDK_VERSION from sdk/version/version.h), the service.name / process.executable.name keys and the
   "unknown_service" literal of Resource::Create;
 * the unit table of GetTimeoutFromString (unit literal -> std::chrono type -> nanoseconds per unit);
 * the literals GetBoolEnvironmentVariable compares with, and the bit width the uint reader compares against.
"""
import re
import extract as X

CHRONO_NS = {'nanoseconds': 1, 'microseconds': 10**3, 'milliseconds': 10**6, 'seconds': 10**9,
             'minutes': 60 * 10**9, 'hours': 3600 * 10**9}
SEMCONV_HEADERS = {
    'service': 'api/include/opentelemetry/semconv/service_attributes.h',
    'telemetry': 'api/include/opentelemetry/semconv/telemetry_attributes.h',
    'process': 'api/include/opentelemetry/semconv/incubating/process_attributes.h',
}


def _semconv(repo, ns, name):
    txt = X._strip_comments(X._read(repo, SEMCONV_HEADERS[ns]))
    m = X._one(r'\b' + re.escape(name) + r'\s*=\s*"((?:[^"\\]|\\.)*)"\s*;', txt, f'semconv::{ns}::{name}')
    return X._c_string_literal(m.group(1))


@X.gen('C18')
def gen_c18(repo):
    out = [X.HDR, 'namespace Otel.Gen\n']
    rc = X._strip_comments(X._read(repo, 'sdk/src/resource/resource.cc'))
    ver = X._one(r'#\s*define\s+OPENTELEMETRY_SDK_VERSION\s+"((?:[^"\\]|\\.)*)"',
                 X._read(repo, 'sdk/include/opentelemetry/sdk/version/version.h'), 'OPENTELEMETRY_SDK_VERSION')
    ver = X._c_string_literal(ver.group(1))
    body = X._one(r'Resource\s*&\s*Resource::GetDefault\s*\(\s*\)\s*\{(.*?)\n\}', rc, 'Resource::GetDefault').group(1)
    pairs = re.findall(r'\{\s*semconv::(\w+)::(\w+)\s*,\s*("(?:[^"\\]|\\.)*"|OPENTELEMETRY_SDK_VERSION)\s*\}', body)
    if len(pairs) < 1:
        raise X.ExtractError('Resource::GetDefault: no {semconv::…, value} pairs found')
    if not re.search(r'\}\s*\}\s*,\s*std::string\s*\{\s*\}\s*\)', body):
        raise X.ShapeChanged('Resource::GetDefault: schema url is no longer the empty string')
    items = []
    for ns, name, val in pairs:
        k = _semconv(repo, ns, name)
        v = ver if val == 'OPENTELEMETRY_SDK_VERSION' else X._c_string_literal(val[1:-1])
        items.append(f'({X.lean_bytes(k)}, {X.lean_bytes(v)})')
        out.append(f'-- {k.decode()} = {v.decode()}')
    out.append('/-- attributes of `Resource::GetDefault()` (its schema URL is empty) -/\n'
               f'def resDefaultAttrs : List (List UInt8 × List UInt8) := [{", ".join(items)}]\n')
    cr = X._one(r'Resource\s+Resource::Create\s*\(.*?\)\s*\{(.*?)\n\}', rc, 'Resource::Create').group(1)
    m = X._one(r'attributes_\.find\(\s*semconv::(\w+)::(\w+)\s*\)\s*==\s*resource\.attributes_\.end\(\)', cr, 'service.name test in Resource::Create')
    out.append(f'def resServiceNameKey : List UInt8 := {X.lean_bytes(_semconv(repo, m.group(1), m.group(2)))}\n')
    m2 = X._one(r'attributes_\[\s*semconv::(\w+)::(\w+)\s*\]\s*=\s*default_service_name', cr, 'service.name assignment in Resource::Create')
    if (m2.group(1), m2.group(2)) != (m.group(1), m.group(2)):
        raise X.ExtractError('Resource::Create tests one key and assigns another')
    m = X._one(r'it_process_executable_name\s*=\s*resource\.attributes_\.find\(\s*semconv::(\w+)::(\w+)\s*\)', cr, 'process.executable.name lookup')
    out.append(f'def resProcessExeKey : List UInt8 := {X.lean_bytes(_semconv(repo, m.group(1), m.group(2)))}\n')
    m = X._one(r'default_service_name\s*=\s*"((?:[^"\\]|\\.)*)"', cr, 'unknown_service literal')
    out.append(f'def resUnknownService : List UInt8 := {X.lean_bytes(X._c_string_literal(m.group(1)))}\n')
    m = X._one(r'default_service_name\s*\+=\s*"((?:[^"\\]|\\.)*)"\s*\+', cr, 'separator before the executable name')
    out.append(f'def resUnknownServiceSep : List UInt8 := {X.lean_bytes(X._c_string_literal(m.group(1)))}\n')
    if not re.search(r'GetDefault\(\)\s*\.Merge\(\s*otel_resource\s*\)\s*\.Merge\(\s*Resource\s*\{\s*attributes\s*,\s*schema_url\s*\}\s*\)', cr):
        raise X.ShapeChanged('Resource::Create is no longer GetDefault().Merge(env).Merge(user)')
    # the detector's separators
    rd = X._strip_comments(X._read(repo, 'sdk/src/resource/resource_detector.cc'))
    m = X._one(r"std::getline\(\s*iss\s*,\s*token\s*,\s*'(.)'\s*\)", rd, "list separator of OTELResourceDetector::Detect")
    out.append(f'def resListSep : UInt8 := {ord(m.group(1))}\n')
    m = X._one(r"token\.find\(\s*'(.)'\s*\)", rd, "key/value separator of OTELResourceDetector::Detect")
    out.append(f'def resKvSep : UInt8 := {ord(m.group(1))}\n')

    ev = X._strip_comments(X._read(repo, 'sdk/src/common/env_variables.cc'))
    fn = X._one(r'static bool GetTimeoutFromString\s*\(.*?\)\s*\{(.*?)\n\}', ev, 'GetTimeoutFromString').group(1)
    units = re.findall(r'if\s*\(\s*unit\s*==\s*"(\w*)"\s*\)\s*\{(.*?)\}', fn, re.S)
    if not units:
        raise X.ExtractError('GetTimeoutFromString: no unit table found')
    rows = []
    for u, blk in units:
        m = re.search(r'std::chrono::(nanoseconds|microseconds|milliseconds|seconds|minutes|hours)\b', blk)
        if not m:
            raise X.ExtractError(f'GetTimeoutFromString: unit "{u}" has no std::chrono type')
        rows.append(f'({X.lean_bytes(u.encode())}, {CHRONO_NS[m.group(1)]})')
        out.append(f'-- "{u}" -> std::chrono::{m.group(1)}')
    out.append('/-- unit literal -> nanoseconds per unit, in the order `GetTimeoutFromString` tests them -/\n'
               f'def envDurationUnits : List (List UInt8 × Nat) := [{", ".join(rows)}]\n')
    fb = X._one(r'bool GetBoolEnvironmentVariable\s*\(.*?\)\s*\{(.*?)\n\}', ev, 'GetBoolEnvironmentVariable').group(1)
    lits = re.findall(r'strcasecmp\(\s*raw_value\.c_str\(\)\s*,\s*"(\w+)"\s*\)\s*==\s*0\s*\)\s*\{\s*value\s*=\s*(true|false)', fb)
    if len(lits) != 2:
        raise X.ShapeChanged('GetBoolEnvironmentVariable: expected two strcasecmp literals')
    out.append('/-- literals compared with `strcasecmp`, and the value each yields -/\n'
               'def envBoolLiterals : List (List UInt8 × Bool) := [' +
               ', '.join(f'({X.lean_bytes(l.encode())}, {v})' for l, v in lits) + ']\n')
    fu = X._one(r'bool GetUintEnvironmentVariable\s*\(.*?\)\s*\{(.*?)\n\}', ev, 'GetUintEnvironmentVariable').group(1)
    m = X._one(r'std::numeric_limits<std::uint(\d+)_t>::max\(\)\s*<\s*temp', fu, 'upper bound of GetUintEnvironmentVariable')
    out.append(f'def envUintBits : Nat := {int(m.group(1))}\n')
    m = X._one(r'strtoull\(\s*raw_value\.c_str\(\)\s*,\s*&actual_end\s*,\s*(\d+)\s*\)', fu, 'strtoull base')
    out.append(f'def envUintBase : Nat := {int(m.group(1))}\n')
    out.append('end Otel.Gen\n')
    return '\n'.join(out)
