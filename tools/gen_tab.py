"""Registers the tabulated-graph fragments (Gen/Tab*.lean) with tools/extract.py: see tools/tabulate.py."""
import tabulate  # noqa: F401  (its import registers one @gen per fragment)
