"""Generated fragments for C15 (Baggage, BaggagePropagator) -> lean/OtelVerif/Gen/Baggage.lean.

Re-extracted from the working tree on every run: the three limits, the three separators, the header name, the
printable range of IsPrintableString, the characters UrlEncode leaves alone / maps to '+', and its hex digit table."""
import re
import extract as X

BG = 'api/include/opentelemetry/baggage/baggage.h'
BC = 'api/include/opentelemetry/baggage/baggage_context.h'


def _char_const(txt, name):
    m = X._one(r'\b' + re.escape(name) + r"\s*=\s*'((?:[^'\\]|\\.)+)'\s*;", txt, name)
    return X._c_string_literal(m.group(1))[0]


@X.gen('Baggage')
def gen_baggage(repo):
    txt = X._strip_comments(X._read(repo, BG))
    out = [X.HDR, 'namespace Otel.Gen\n']
    out.append(f'def baggageMaxPairs : Nat := {X._int_const(txt, "kMaxKeyValuePairs")}\n')
    out.append(f'def baggageMaxKeyValueSize : Nat := {X._int_const(txt, "kMaxKeyValueSize")}\n')
    out.append(f'def baggageMaxSize : Nat := {X._int_const(txt, "kMaxSize")}\n')
    out.append(f'def baggageKvSep : UInt8 := {_char_const(txt, "kKeyValueSeparator")}\n')
    out.append(f'def baggageMemberSep : UInt8 := {_char_const(txt, "kMembersSeparator")}\n')
    out.append(f'def baggageMetaSep : UInt8 := {_char_const(txt, "kMetadataSeparator")}\n')
    # IsPrintableString: ch < ' ' || ch > '~'
    m = X._one(r"(\w+)\s*<\s*'(.)'\s*\|\|\s*\1\s*>\s*'(.)'", txt, "IsPrintableString bounds")
    out.append(f'def baggagePrintLo : UInt8 := {ord(m.group(2))}\n')
    out.append(f'def baggagePrintHi : UInt8 := {ord(m.group(3))}\n')
    # UrlEncode: std::isalnum(c) || c == '-' || c == '_' || c == '.' || c == '~'  /  c == ' ' -> '+'  /  '%' + hex
    enc = X._one(r'static\s+std::string\s+UrlEncode\s*\(.*?\n  \}', txt, 'UrlEncode').group(0)
    m = X._one(r'std::isalnum\((\w+)\)((?:\s*\|\|\s*\1\s*==\s*\'.\')+)\s*\)', enc, 'UrlEncode unreserved set')
    keep = [ord(c) for c in re.findall(r"'(.)'", m.group(2))]
    out.append(f'/-- the non-alphanumeric characters `UrlEncode` leaves alone -/\ndef baggageKeep : List UInt8 := {X.lean_bytes(keep)}\n')
    m = X._one(r'const\s+char\s*\*\s*\w+\s*=\s*"((?:[^"\\]|\\.)*)"', enc, 'UrlEncode hex table')
    out.append(f'def baggageHex : List UInt8 := {X.lean_bytes(X._c_string_literal(m.group(1)))}\n')
    m = X._one(r"\w+\s*==\s*'(.)'\s*\)\s*\{\s*\w+\.push_back\('(.)'\)", enc, "UrlEncode space -> plus")
    out.append(f'def baggageSpace : UInt8 := {ord(m.group(1))}\n')
    out.append(f'def baggagePlus : UInt8 := {ord(m.group(2))}\n')
    m = X._one(r"\w+\.push_back\('(.)'\);\s*\w+\.push_back\(\w+\(\w+\s*>>\s*4\)\);\s*\w+\.push_back\(\w+\(\w+\s*&\s*15\)\);", enc, "UrlEncode escape")
    out.append(f'def baggageEscape : UInt8 := {ord(m.group(1))}\n')
    dec = X._one(r'static\s+std::string\s+UrlDecode\s*\(.*?\n  \}', txt, 'UrlDecode').group(0)
    if not re.search(r'(\w+)\s*\+\s*2\s*>=\s*(\w+)\.size\(\)\s*\|\|\s*!\w+\(\2\[\1\s*\+\s*1\]\)\s*\|\|\s*!\w+\(\2\[\1\s*\+\s*2\]\)', dec):
        raise X.ShapeChanged('UrlDecode: the guard `i + 2 >= str.size() || !IsHex(str[i + 1]) || !IsHex(str[i + 2])` is gone')
    m = X._one(r'std::isalnum\((\w+\[\w+\])\)((?:\s*\|\|\s*\w+\[\w+\]\s*==\s*\'.\')+)\s*\)', dec, 'UrlDecode unreserved set')
    keepd = [ord(c) for c in re.findall(r"'(.)'", m.group(2))]
    out.append(f'/-- the non-alphanumeric characters `UrlDecode` copies -/\ndef baggageKeepDecode : List UInt8 := {X.lean_bytes(keepd)}\n')
    txt2 = X._strip_comments(X._read(repo, BC))
    m = X._one(r'kBaggageHeader\s*=\s*"((?:[^"\\]|\\.)*)"', txt2, 'kBaggageHeader')
    out.append(f'/-- `kBaggageHeader` -/\ndef baggageHeader : List UInt8 := {X.lean_bytes(X._c_string_literal(m.group(1)))}\n')
    out.append('end Otel.Gen\n')
    return '\n'.join(out)
