#!/usr/bin/env python3
"""Entries on which the code's tabulated graph (tools/tabulate.py) and the model's graph (driver word `tab <name>`) differ,
as case lines of the property's harness.

    python3 tools/tabdiff.py [repo] [PROP ...]      prints `<table> <input> code=<..> model=<..>` and the case lines

vcore.run_check calls `cases(prop_id, repo, driver)` before the generated cases: when a table theorem no longer closes, the
differing inputs are then judged by the implementation-side oracle like any other case (no difference -> no case added, so an
unchanged or harmlessly rewritten tree is not affected).  The comparison covers EVERY entry of every table, including the
65 536-entry ones of which the kernel-checked theorems only cover sub-grids.
"""
import os, subprocess, sys

HERE = os.path.dirname(os.path.abspath(__file__))
if HERE not in sys.path:
    sys.path.insert(0, HERE)
import extract as X  # noqa: E402
import tabulate as T  # noqa: E402

VERIF = os.path.dirname(HERE)
DRIVER = os.path.join(VERIF, 'lean', '.lake', 'build', 'bin', 'otel_model')
TID = bytes(range(1, 17))
SID = bytes(range(17, 25))
TIDH = TID.hex().encode()
SIDH = SID.hex().encode()


def hx(b):
    return bytes(b).hex() if b else '-'


def _tp(ver, flags=b'01', sfx=b''):
    return bytes(ver) + b'-' + TIDH + b'-' + SIDH + b'-' + flags + sfx


def _low(v):
    return f'{v:02x}'.encode()


SFX = {0: b'', 1: b'-00', 2: b'0'}
F9, F15, F16, S18, S19 = 'f_c09', 'f_c15', 'f_c16', 's_c18', 's_c19'

# table -> (properties it supports, input -> [(harness, case line)]).  Input: a byte (int), a pair of bytes, or the input bytes
# of a `pairs` entry.
T_HEX = {
    'hexToInt': lambda b: [(F9, f'tc extract {hx(_tp(bytes([b]) + b"1"))} -'), (F9, f'tc extract {hx(_tp(b"00", bytes([b]) + b"1"))} -')],
    'isValidHex1': lambda b: [(F9, f'tc extract {hx(_tp(b"0" + bytes([b])))} -')],
    'hexToBinary1': lambda b: [(F16, f'jg extract {hx(TIDH + b":" + SIDH + b":0:" + bytes([b]))}')],
    'hexToBinary2': lambda ab: [(F9, f'tc extract {hx(_tp(b"00", bytes(ab)))} -'), (F9, f'tc extract {hx(_tp(bytes(ab)))} -')],
    'hexToBinaryShort': lambda x: [(F16, f'jg extract {hx(TIDH + b":" + SIDH + b":0:" + x[1:])}'),
                                   (F16, f'b3 extract {hx(x[1:] + b"-" + SIDH + b"-1")} - - -')],
    'traceIdLower': lambda x: [(F9, f'tc inject {bytes((16 * x[0] + i) % 256 for i in range(16)).hex()} {SID.hex()} 01 -')],
    'spanIdLower': lambda x: [(F9, f'tc inject {TID.hex()} {bytes((8 * x[0] + i) % 256 for i in range(8)).hex()} 01 -')],
    'flagsLower': lambda b: [(F9, f'tc inject {TID.hex()} {SID.hex()} {b:02x} -')],
    'flagsIsSampled': lambda b: [(F16, f'b3 inject-single {TID.hex()} {SID.hex()} {b:02x}'), (F16, f'jg inject {TID.hex()} {SID.hex()} {b:02x}')],
    'flagsIsRandom': lambda b: [(F9, f'tc roundtrip {TID.hex()} {SID.hex()} {b:02x} -')],
    'tpVersion': lambda x: [(F9, f'tc extract {hx(_tp(x[:2], b"01", SFX[x[2]]))} -')],
    'tpFlagsByte': lambda b: [(F9, f'tc extract {hx(_tp(b"00", _low(b)))} -')],
    'tpInjectFlags': lambda b: [(F9, f'tc inject {TID.hex()} {SID.hex()} {b:02x} -'), (F9, f'tc roundtrip {TID.hex()} {SID.hex()} {b:02x} -')],
}
T_KV = {
    'trimDrops': lambda b: [(F9, f'tc extract {hx(bytes([b]) + _tp(b"00") + bytes([b]))} -'),
                            (F9, f'ts from {hx(b"a=1," + bytes([b]) + b"b=2" + bytes([b]))} ; hdr 1'),
                            (F15, f'bg from {hx(bytes([b]) + b"k" + bytes([b]) + b"=v")} ; hdr 1')],
    'trimShort': lambda x: [(F9, f'tc extract {hx(x + _tp(b"00") + x)} -'), (F15, f'bg from {hx(b"k=" + x + b"v" + x)} ; hdr 1')],
    'trim3Short': lambda x: [(F9, f'ts from {hx(x[2:])} ; hdr 1'), (F15, f'bg from {hx(x[2:])} ; hdr 1')],
    'kvTokSep': lambda x: [(F9, f'ts from {hx(x)} ; hdr 1'), (F15, f'bg from {hx(x)} ; hdr 1')],
    'kvTokShort': lambda x: [(F9, f'ts from {hx(x)} ; hdr 1'), (F15, f'bg from {hx(x)} ; hdr 1')],
}
T_TS = {
    'tsKey1': lambda b: [(F9, f'ts vk {hx([b])}'), (F9, f'ts from {hx(bytes([b]) + b"=v")} ; hdr 1')],
    'tsValue1': lambda b: [(F9, f'ts vv {hx([b])}'), (F9, f'ts from {hx(b"k=" + bytes([b]))} ; hdr 1')],
    'tsKey2': lambda ab: [(F9, f'ts vk {hx(ab)}'), (F9, f'ts from {hx(bytes(ab) + b"=v")} ; hdr 1')],
    'tsValue2': lambda ab: [(F9, f'ts vv {hx(ab)}'), (F9, f'ts from {hx(b"k=" + bytes(ab))} ; hdr 1')],
}
T_BG = {
    'bgEncode': lambda b: [(F15, f'bg enc {hx([b])}'), (F15, f'bg set 0 {hx(b"k")} {hx(b"v" + bytes([b]))} ; hdr 1 ; rt 1')],
    'bgDecode1': lambda b: [(F15, f'bg dec {hx([b])}'), (F15, f'bg from {hx(b"k=v" + bytes([b]))} ; hdr 1')],
    'bgDecodePct1': lambda b: [(F15, f'bg dec {hx(b"%" + bytes([b]))}'), (F15, f'bg from {hx(b"k=%" + bytes([b]))} ; hdr 1')],
    'bgDecodePct': lambda ab: [(F15, f'bg dec {hx(b"%" + bytes(ab))}'), (F15, f'bg from {hx(b"k=%" + bytes(ab))} ; hdr 1')],
    'bgValidKey1': lambda b: [(F15, f'bg set 0 {hx([b])} {hx(b"v")} ; hdr 1'), (F15, f'bg from {hx(b"%%%02x=v" % b)} ; hdr 1')],
    'bgValidValue1': lambda b: [(F15, f'bg set 0 {hx(b"k")} {hx([b])} ; hdr 1'), (F15, f'bg from {hx(b"k=%%%02x" % b)} ; hdr 1')],
}
T_B3 = {
    'b3FlagsFromHex1': lambda b: [(F16, f'b3 extract {hx(TIDH + b"-" + SIDH + b"-" + bytes([b]))} - - -'),
                                  (F16, f'b3 extract - {hx(TIDH)} {hx(SIDH)} {hx([b])}')],
    'b3FlagsFromHexShort': lambda x: [(F16, f'b3 extract - {hx(TIDH)} {hx(SIDH)} {hx(x)}')],
    'b3InjectSingleChar': lambda b: [(F16, f'b3 inject-single {TID.hex()} {SID.hex()} {b:02x}'), (F16, f'b3 rt-single {TID.hex()} {SID.hex()} {b:02x}')],
    'b3InjectMultiSampled': lambda b: [(F16, f'b3 inject-multi {TID.hex()} {SID.hex()} {b:02x}'), (F16, f'b3 rt-multi {TID.hex()} {SID.hex()} {b:02x}')],
    'b3ExtractSingleFlag': lambda b: [(F16, f'b3 extract {hx(TIDH + b"-" + SIDH + b"-" + bytes([b]))} - - -')],
    'b3ExtractMultiFlag': lambda b: [(F16, f'b3 extract - {hx(TIDH)} {hx(SIDH)} {hx([b])}')],
    'jaegerGetTraceFlags': lambda b: [(F16, f'jg extract {hx(TIDH + b":" + SIDH + b":0:" + _low(b))}')],
    'jaegerInjectChar': lambda b: [(F16, f'jg inject {TID.hex()} {SID.hex()} {b:02x}'), (F16, f'jg rt {TID.hex()} {SID.hex()} {b:02x}')],
    'jaegerExtractFlag1': lambda b: [(F16, f'jg extract {hx(TIDH + b":" + SIDH + b":0:" + bytes([b]))}')],
    'jaegerExtractFlagByte': lambda b: [(F16, f'jg extract {hx(TIDH + b":" + SIDH + b":0:" + _low(b))}')],
}
T_NM = {
    'nameValid1': lambda b: [(S19, f'val name {hx([b])}')],
    'nameValidA': lambda b: [(S19, f'val name {hx([97, b])}')],
    'nameValidB': lambda b: [(S19, f'val name {hx([b, 97])}')],
    'unitValid1': lambda b: [(S19, f'val unit {hx([b])}')],
    'unitValidA': lambda b: [(S19, f'val unit {hx([97, b])}')],
    'nameUnitLen': lambda x: [(S19, f'val name {hx(b"a" * (x[0] * 256 + x[1]))}'), (S19, f'val unit {hx(b"a" * (x[0] * 256 + x[1]))}')],
}
T_ENV = {
    'envBool': lambda x: [(S18, f'env bool {hx(x)}'), (S18, f'env disabled {hx(x)}')] if x else [],
    'envDurUnit': lambda x: [(S18, f'env dur {hx(x)}')],
    'envDurByte': lambda x: [(S18, f'env dur {hx(x)}')] if x else [],
    'envUintByte': lambda x: [(S18, f'env uint 0 {hx(x)}')] if x else [],
}
BY_PROP = {
    'C09': [T_HEX, T_KV], 'C14': [T_TS, T_KV], 'C15': [T_BG, T_KV], 'C16': [T_B3, T_HEX], 'C18': [T_ENV], 'C19': [T_NM],
}
PROGRAM_OF = {n: prog for frag, (prog, names) in T.FRAGMENTS.items() for n in names}


def model_tables(names, driver=None):
    """{name: (kind, data)} as the model driver prints them"""
    driver = driver or DRIVER
    if not os.path.exists(driver):
        return {}
    try:
        r = subprocess.run([driver], input=''.join(f'tab {n}\n' for n in names).encode(), stdout=subprocess.PIPE,
                           stderr=subprocess.PIPE, timeout=300)
    except (OSError, subprocess.TimeoutExpired):
        return {}
    text = '\n'.join(ln for ln in r.stdout.decode('ascii', 'replace').split('\n') if ln and not ln.startswith('bad-op'))
    try:
        return T._parse(text)
    except Exception:
        return {}


def _entries(kind, data):
    if kind == 'pairs':
        return list(data)
    if kind.endswith('x2'):
        return [((a, b), data[a][b]) for a in range(256) for b in range(256)]
    return list(enumerate(data))


def differences(prop_id, repo, driver=None):
    """[(table, input, code value, model value)] over every entry of the tables supporting `prop_id`"""
    tmpl = {}
    for d in BY_PROP.get(prop_id, []):
        tmpl.update(d)
    code = {}
    for prog in sorted({PROGRAM_OF[n] for n in tmpl}):
        try:
            code.update(T.tables(repo, prog))
        except X.ExtractError:
            pass    # reported by the extraction step as a broken tie
    names = [n for n in tmpl if n in code]
    model = model_tables(names, driver)
    out = []
    for n in names:
        if n not in model or model[n][0] != code[n][0]:
            continue
        ce, me = _entries(*code[n]), dict((repr(k), v) for k, v in _entries(*model[n]))
        for k, v in ce:
            mv = me.get(repr(k))
            if mv is not None and mv != v:
                out.append((n, k, v, mv))
    return out, tmpl


def cases(prop_id, repo, driver=None, limit=400):
    """[(harness, case line, table)] for the differing entries (at most `limit` per table)"""
    diffs, tmpl = differences(prop_id, repo, driver)
    out, per = [], {}
    for n, k, _, _ in diffs:
        per[n] = per.get(n, 0) + 1
        if per[n] > limit:
            continue
        for h, line in tmpl[n](k):
            out.append((h, line, n))
    return out


if __name__ == '__main__':
    args = sys.argv[1:]
    repo = args.pop(0) if args and not args[0].startswith('C') else os.environ.get('VERIF_REPO', '/repo')
    for p in (args or sorted(BY_PROP)):
        diffs, tmpl = differences(p, repo)
        print(f'# {p}: {len(diffs)} differing entries')
        for n, k, v, mv in diffs[:200]:
            print(f'{n} {k!r} code={v!r} model={mv!r}')
            for h, line in tmpl[n](k):
                print(f'  {h}\t{line}')
