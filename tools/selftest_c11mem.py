#!/usr/bin/env python3
"""Self-test of the weak-memory sub-check of C11 (props/c11_mem.py): weakened / strengthened / reformatted memory orders in a
scratch worktree of /repo, `VERIF_REPO=<scratch> python3 check.py C11 --tier quick` on each, verdict table on stdout.
Nothing is applied to /repo; the worktree is removed at the end.   usage: tools/selftest_c11mem.py [name ...]"""
import json, os, re, subprocess, sys, time

VERIF = os.path.dirname(os.path.dirname(os.path.abspath(__file__)))
SCRATCH = os.environ.get('C11MEM_SCRATCH', '/tmp/vw/ra-repo')
SPIN = 'api/include/opentelemetry/common/spin_lock_mutex.h'
AUP = 'sdk/include/opentelemetry/sdk/common/atomic_unique_ptr.h'
RING = 'sdk/include/opentelemetry/sdk/common/circular_buffer.h'

# name -> (expected verdict, [(file, old, new)])
CHANGES = {
    'weak-unlock-relaxed': ('VIOLATION', [(SPIN, 'flag_.store(false, std::memory_order_release)', 'flag_.store(false, std::memory_order_relaxed)')]),
    'weak-slot-cas-relaxed': ('VIOLATION', [(AUP, 'ptr_.compare_exchange_weak(expected, ptr, std::memory_order_release,',
                                             'ptr_.compare_exchange_weak(expected, ptr, std::memory_order_relaxed,')]),
    'weak-lock-exchange-relaxed': ('VIOLATION', [(SPIN, 'if (!flag_.exchange(true, std::memory_order_acquire))',
                                                  'if (!flag_.exchange(true, std::memory_order_relaxed))')]),
    'weak-trylock-exchange-relaxed': ('VIOLATION', [(SPIN, '!flag_.exchange(true, std::memory_order_acquire);',
                                                     '!flag_.exchange(true, std::memory_order_relaxed);')]),
    'weak-swap-exchange-relaxed': ('VIOLATION', [(AUP, 'other.reset(ptr_.exchange(other.release()));',
                                                  'other.reset(ptr_.exchange(other.release(), std::memory_order_relaxed));')]),
    'weak-reset-exchange-relaxed': ('VIOLATION', [(AUP, 'ptr = ptr_.exchange(ptr);', 'ptr = ptr_.exchange(ptr, std::memory_order_relaxed);')]),
    'weak-fadd-tail-relaxed': ('VIOLATION', [(RING, '    tail_ += n;', '    tail_.fetch_add(n, std::memory_order_relaxed);')]),
    'weak-add-tail-load-relaxed': ('VIOLATION', [(RING, '      uint64_t tail = tail_;\n      uint64_t head = head_;\n\n      // The circular buffer is full',
                                                  '      uint64_t tail = tail_.load(std::memory_order_relaxed);\n      uint64_t head = head_;\n\n      // The circular buffer is full')]),
    'strong-release-to-seqcst': ('OK', [(SPIN, 'flag_.store(false, std::memory_order_release)', 'flag_.store(false, std::memory_order_seq_cst)'),
                                        (AUP, 'ptr_.compare_exchange_weak(expected, ptr, std::memory_order_release,',
                                         'ptr_.compare_exchange_weak(expected, ptr, std::memory_order_seq_cst,'),
                                        (RING, 'head_.compare_exchange_weak(expected_head, new_head, std::memory_order_release,',
                                         'head_.compare_exchange_weak(expected_head, new_head, std::memory_order_seq_cst,')]),
    'strong-test-load-acquire': ('OK', [(SPIN, 'return !flag_.load(std::memory_order_relaxed) &&', 'return !flag_.load(std::memory_order_acquire) &&'),
                                        (SPIN, 'if (!flag_.exchange(true, std::memory_order_acquire))', 'if (!flag_.exchange(true, std::memory_order_acq_rel))')]),
    'reformat': ('OK', [
        (SPIN, 'void unlock() noexcept { flag_.store(false, std::memory_order_release); }',
         'void unlock() noexcept\n  {\n    flag_.store( false ,\n                 std::memory_order_release ) ;\n  }'),
        (SPIN, 'return !flag_.load(std::memory_order_relaxed) &&\n           !flag_.exchange(true, std::memory_order_acquire);',
         'return !flag_.load( std::memory_order_relaxed )\n           && !flag_.exchange(\n                  true,\n                  std::memory_order_acquire );'),
        (AUP, '''    auto ptr            = owner.get();
    T *expected         = nullptr;
    auto was_successful = ptr_.compare_exchange_weak(expected, ptr, std::memory_order_release,
                                                     std::memory_order_relaxed);
    if (was_successful)''', '''    T *const raw = owner.get();
    T *want      = nullptr;
    const bool swapped =
        ptr_.compare_exchange_weak(want, raw,
                                   std::memory_order_release, std::memory_order_relaxed);
    if (swapped)'''),
        (RING, '''        auto new_head      = head + 1;
        auto expected_head = head;
        if (head_.compare_exchange_weak(expected_head, new_head, std::memory_order_release,
                                        std::memory_order_relaxed))''', '''        uint64_t seen = head;
        if (head_.compare_exchange_weak(seen, head + 1,
                                        std::memory_order_release,
                                        std::memory_order_relaxed))'''),
        (RING, '      uint64_t tail = tail_;\n      uint64_t head = head_;\n\n      // The circular buffer is full',
         '      const uint64_t tail = tail_.load();\n      const uint64_t head = head_.load();\n\n      // The circular buffer is full')]),
}


def sh(cmd, **kw):
    return subprocess.run(cmd, stdout=subprocess.PIPE, stderr=subprocess.STDOUT, text=True, **kw)


def main():
    names = sys.argv[1:] or list(CHANGES)
    if not os.path.isdir(SCRATCH):
        r = sh(['git', '-C', '/repo', 'worktree', 'add', '--detach', SCRATCH, 'HEAD'])
        if r.returncode != 0:
            print(r.stdout); return 2
    rows = []
    try:
        for name in names:
            want, edits = CHANGES[name]
            sh(['git', '-C', SCRATCH, 'checkout', '-q', '.'])
            for rel, old, new in edits:
                p = os.path.join(SCRATCH, rel)
                s = open(p).read()
                if s.count(old) != 1:
                    print(f'{name}: pattern not found exactly once in {rel}: {old[:60]!r}'); return 2
                open(p, 'w').write(s.replace(old, new))
            env = dict(os.environ, VERIF_REPO=SCRATCH, VERIF_SEED=os.environ.get('VERIF_SEED', '1'),
                       VERIF_EVIDENCE_DIR=os.path.join(VERIF, 'ev'))
            t0 = time.time()
            r = sh([sys.executable, 'check.py', 'C11', '--tier', 'quick'], cwd=VERIF, env=env)
            last = [ln for ln in r.stdout.splitlines() if ln.startswith(('OK ', 'VIOLATION', 'KNOWN'))]
            verdict = last[-1] if last else r.stdout[-300:]
            detail = ''
            m = re.search(r'replay=(\S+)', verdict)
            if m and os.path.exists(m.group(1)):
                rp = json.load(open(m.group(1)))
                if rp.get('kind') == 'failing-input':
                    detail = f"failing input `{rp['case'][0][:70]}` -> {str(rp.get('observed'))[:40]} [{rp.get('oracle_clause')}]"
                else:
                    detail = 'broken: ' + '; '.join(b.get('what', '')[:160] for b in rp.get('theorem_or_correspondence', [])[:2])
            got = 'VIOLATION' if verdict.startswith('VIOLATION') else 'OK' if verdict.startswith('OK') else '?'
            rows.append((name, want, got, r.returncode, round(time.time() - t0), verdict, detail))
            print(f'{name}: expected {want}, got {got} (exit {r.returncode}, {rows[-1][4]} s)\n    {verdict}\n    {detail}', flush=True)
    finally:
        sh(['git', '-C', SCRATCH, 'checkout', '-q', '.'])
        if not os.environ.get('C11MEM_KEEP'):
            sh(['git', '-C', '/repo', 'worktree', 'remove', '--force', SCRATCH])
    print('\n| change | expected | got | exit | s | detail |\n|---|---|---|---|---|---|')
    for name, want, got, rc, dt, verdict, detail in rows:
        print(f'| {name} | {want} | {got} | {rc} | {dt} | {"no-failing-input-found; " if "no-failing-input-found" in verdict else ""}{detail} |')
    return 0 if all(w == g for _, w, g, *_ in rows) else 1


if __name__ == '__main__':
    sys.exit(main())
