"""Generated tie for the lock-protocol models of C04 / C17 (Model/SpanLock.lean, Model/ObsRegLock.lean): the facts of the
source text the models' step structure stands on, re-extracted on every run.
   -> lean/OtelVerif/Gen/SpanLock.lean, lean/OtelVerif/Gen/ObsRegLock.lean
Only the lock discipline is extracted (which guard, declared where relative to the first use of the guarded members,
never released early) - not the formatting, not the statements in between."""
import re
import extract as X

GUARD = r'std::(?:lock_guard|unique_lock|scoped_lock)\s*<\s*std::mutex\s*>\s*\w+\s*[{(]\s*%s\s*[})]\s*;'


def functions(txt, cls):
    """[(name, body)] of the out-of-line member functions `… cls::name(…) … { body }` (balanced braces)"""
    out = []
    for m in re.finditer(r'\b' + cls + r'::(~?\w+)\s*\(', txt):
        # skip the parameter list (balanced parentheses), then expect qualifiers / an initialiser list and `{`
        i = m.end() - 1
        depth = 0
        while i < len(txt):
            if txt[i] == '(':
                depth += 1
            elif txt[i] == ')':
                depth -= 1
                if depth == 0:
                    break
            i += 1
        j = i + 1
        # a definition: the next `{` comes before the next `;` at parenthesis depth 0 (initialiser lists may hold braces)
        k = j
        pd = 0
        while k < len(txt):
            c = txt[k]
            if c == '(':
                pd += 1
            elif c == ')':
                pd -= 1
            elif c == ';' and pd == 0:
                k = -1
                break
            elif c == '{' and pd == 0 and re.search(r'(noexcept|const|\))\s*$', txt[j - 1:k]):
                break
            k += 1
        if k < 0 or k >= len(txt):
            continue
        depth, e = 0, k
        while e < len(txt):
            if txt[e] == '{':
                depth += 1
            elif txt[e] == '}':
                depth -= 1
                if depth == 0:
                    break
            e += 1
        out.append((m.group(1), txt[k:e + 1]))
    return out


def depth_at(body, pos):
    return body[:pos].count('{') - body[:pos].count('}')


def lock_facts(body, mutex, members):
    """(guard declared at the function's top level before the first use of any guarded member, never released early)"""
    g = re.search(GUARD % mutex, body)
    uses = [m.start() for mem in members for m in re.finditer(r'\b' + mem + r'\b', body)]
    if not uses:
        return None
    first = min(uses)
    before = bool(g) and g.start() < first and depth_at(body, g.start()) == 1
    held = bool(g) and not re.search(r'\.\s*(unlock|release)\s*\(', body) and not re.search(r'\b' + mutex + r'\s*\.\s*unlock', body)
    return before, held


@X.gen('SpanLock')
def gen_span_lock(repo):
    rel = 'sdk/src/trace/span.cc'
    txt = X._strip_comments(X._read(repo, rel))
    fns = [(n, b) for n, b in functions(txt, 'Span') if n not in ('Span', '~Span')]
    if not fns:
        raise X.ExtractError(f'{rel}: no member functions of Span found')
    seen, before, held = 0, True, True
    names = []
    for n, b in fns:
        f = lock_facts(b, 'mu_', ('recordable_', 'has_ended_'))
        if f is None:
            continue
        seen += 1
        names.append(n)
        before = before and f[0]
        held = held and f[1]
    end = [b for n, b in fns if n == 'End']
    if len(end) != 1:
        raise X.ExtractError(f'{rel}: Span::End not found')
    e = end[0]
    g = re.search(GUARD % 'mu_', e)
    t = re.search(r'\bhas_ended_\b', e)
    s = re.search(r'\bhas_ended_\s*=\s*true\s*;', e)
    # ONE hand-over `OnEnd(...)` after the latch, and `recordable_` is moved out (directly into the call, or into a local that
    # is handed over) after the latch as well - how the argument is spelled is not part of the lock discipline
    o = re.search(r'OnEnd\s*\(', e)
    mv = [m.start() for m in re.finditer(r'std::move\s*\(\s*recordable_\s*\)', e)]
    order = bool(g and t and s and o and mv) and g.start() < t.start() <= s.start() < o.start() and len(re.findall(r'OnEnd\s*\(', e)) == 1 \
        and all(s.start() < p for p in mv)
    for must in ('SetAttribute', 'AddEvent', 'SetStatus', 'UpdateName', 'End', 'IsRecording'):
        if must not in names:
            raise X.ExtractError(f'{rel}: Span::{must} does not use recordable_ / has_ended_ any more')
    b2l = lambda v: 'true' if v else 'false'
    return X.HDR + 'namespace Otel.Gen\n' + \
        '/-- every Span member function that touches `recordable_` / `has_ended_` declares a lock guard on `mu_` at its top level before the first such use -/\n' + \
        f'def spanLockGuardBeforeFirstUse : Bool := {b2l(before)}\n' + \
        '/-- none of them releases the guard before it returns -/\n' + \
        f'def spanLockHeldToReturn : Bool := {b2l(held)}\n' + \
        '/-- `End`: guard, then the `has_ended_` test and latch, then ONE `OnEnd(std::move(recordable_))` -/\n' + \
        f'def spanEndHandsOffUnderLock : Bool := {b2l(order)}\n' + \
        f'/-- the functions checked: {" ".join(names)} -/\n' + \
        f'def spanGuardedFunctions : Nat := {seen}\n' + 'end Otel.Gen\n'


@X.gen('ObsRegLock')
def gen_obsreg_lock(repo):
    rel = 'sdk/src/metrics/state/observable_registry.cc'
    txt = X._strip_comments(X._read(repo, rel))
    fns = dict(functions(txt, 'ObservableRegistry'))
    for must in ('AddCallback', 'RemoveCallback', 'CleanupCallback', 'Observe'):
        if must not in fns:
            raise X.ExtractError(f'{rel}: ObservableRegistry::{must} not found')
    before, held = True, True
    for n, b in fns.items():
        f = lock_facts(b, 'callbacks_m_', ('callbacks_',))
        if f is None:
            continue
        before = before and f[0]
        held = held and f[1]
    ob = fns['Observe']
    g = re.search(GUARD % 'callbacks_m_', ob)
    loop = re.search(r'for\s*\(\s*(?:const\s+)?auto\s*&\s*(\w+)\s*:\s*callbacks_\s*\)', ob)
    inloop = False
    if g and loop and g.start() < loop.start() and depth_at(ob, g.start()) == 1:
        # the loop body: from the `{` after the loop header to its matching `}`
        k = ob.index('{', loop.end())
        depth, e = 0, k
        while e < len(ob):
            if ob[e] == '{':
                depth += 1
            elif ob[e] == '}':
                depth -= 1
                if depth == 0:
                    break
            e += 1
        body = ob[k:e + 1]
        calls = [m.start() for m in re.finditer(r'->\s*callback\s*\(', ob)]
        inloop = bool(calls) and all(k < c < e for c in calls) and loop.group(1) + '->callback' in re.sub(r'\s+', '', body)
    if g and loop and g.start() < loop.start() and depth_at(ob, g.start()) == 1 and not inloop:
        # guard and loop are where they were, but the invocation is not written out inside the loop body any more (a helper, a
        # template): the registry schedules under the scheduler observe directly that every callback runs with callbacks_m_
        # held - a change of shape; the committed fact is kept and the replay of every schedule decides
        raise X.ShapeChanged('ObservableRegistry::Observe: the callback invocation is not written inside the loop over callbacks_ any more')
    erase = all(re.search(r'callbacks_\.erase\s*\(', fns[n]) for n in ('RemoveCallback', 'CleanupCallback'))
    push = bool(re.search(r'callbacks_\.(push_back|emplace_back)\s*\(', fns['AddCallback']))
    b2l = lambda v: 'true' if v else 'false'
    return X.HDR + 'namespace Otel.Gen\n' + \
        '/-- every ObservableRegistry member function that touches `callbacks_` declares a lock guard on `callbacks_m_` at its top level before the first such use -/\n' + \
        f'def obsRegGuardBeforeFirstUse : Bool := {b2l(before)}\n' + \
        '/-- none of them releases the guard before it returns -/\n' + \
        f'def obsRegLockHeldToReturn : Bool := {b2l(held)}\n' + \
        '/-- `Observe` invokes the callbacks only inside its loop over the live `callbacks_`, which runs under the guard -/\n' + \
        f'def obsRegObserveInvokesUnderLock : Bool := {b2l(inloop)}\n' + \
        '/-- `AddCallback` appends, `RemoveCallback` / `CleanupCallback` erase -/\n' + \
        f'def obsRegAddAppendsRemoveErases : Bool := {b2l(erase and push)}\n' + 'end Otel.Gen\n'
