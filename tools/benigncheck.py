#!/usr/bin/env python3
"""Self-validation against BENIGN changes: realistic, behaviour-preserving edits of the anchored code (refactorings, renames,
reordered independent statements, extra logging, stronger synchronisation, performance tweaks) under which the property still
holds.  A check must stay quiet on them.

  benigncheck.py <dir> [...]     <dir> holds patch.diff + meta.json (property, kind, summary, why_property_still_holds).
                                 The patch is applied to a scratch worktree of /repo HEAD (SEED_SCRATCH, default /tmp/mutrepo; never
                                 to /repo), the property's quick check runs with VERIF_REPO pointing there, the verdict is appended
                                 to benign/RESULTS.jsonl and the change is kept as benign/<id>/.
"""
import json, os, re, shutil, subprocess, sys, time
sys.path.insert(0, os.path.dirname(os.path.abspath(__file__)))
import seedcheck as S

VERIF = S.VERIF


def run(d):
    name = os.path.basename(d.rstrip('/'))
    meta = json.load(open(os.path.join(d, 'meta.json')))
    prop = meta['property'][:3]
    keep = os.path.join(VERIF, 'benign', name)
    if os.path.abspath(d) != keep:
        os.makedirs(keep, exist_ok=True)
        for fn in ('patch.diff', 'meta.json'):
            shutil.copy(os.path.join(d, fn), os.path.join(keep, fn))
    S.ensure_scratch()
    pf = os.path.join(keep, 'patch.diff')
    rc, out = S.sh(f'git apply {pf} || git apply --3way {pf}', cwd=S.SCRATCH)
    if rc:
        res = {'change': name, 'property': prop, 'applied': False, 'note': out[-300:]}
    else:
        evd = '/tmp/seed/evidence' + os.path.basename(S.SCRATCH)
        os.makedirs(evd, exist_ok=True)
        env = dict(os.environ, VERIF_REPO=S.SCRATCH, VERIF_SEED=os.environ.get('VERIF_SEED', '1'), VERIF_EVIDENCE_DIR=evd)
        t0 = time.time()
        rc, out = S.sh(f'python3 check.py {prop} --tier quick', cwd=VERIF, env=env, timeout=3000)
        viol = [l for l in out.split('\n') if l.startswith('VIOLATION')]
        detail = None
        if viol:
            m = re.search(r'replay=(\S+)', viol[0])
            if m and os.path.exists(m.group(1)):
                rp = json.load(open(m.group(1)))
                detail = {k: str(rp.get(k))[:600] for k in ('kind', 'case', 'oracle_clause', 'detail', 'theorem_or_correspondence', 'broken') if rp.get(k) is not None}
                json.dump(rp, open(os.path.join(keep, f'alarm_{prop}.json'), 'w'), indent=1)
        res = {'change': name, 'property': prop, 'applied': True, 'kind': meta.get('kind'), 'exit': rc, 'quiet': rc == 0 and not viol,
               'violation': viol[0] if viol else None, 'detail': detail, 'tail': out[-300:] if rc not in (0, 1) else None, 'wall_s': round(time.time() - t0, 1)}
    S.sh('git reset -q --hard && git clean -fdq', cwd=S.SCRATCH)
    os.makedirs(os.path.join(VERIF, 'benign'), exist_ok=True)
    with open(os.path.join(VERIF, 'benign', 'RESULTS.jsonl'), 'a') as f:
        f.write(json.dumps(res) + '\n')
    print(json.dumps(res, indent=1))


if __name__ == '__main__':
    for d in sys.argv[1:]:
        run(d)
