"""Generated fragments for C05 (new-span identity/flags): the flag constants of trace_flags.h and the mask
`Tracer::StartSpan` applies (the live `#if 1` block of sdk/src/trace/tracer.cc), re-read on every run."""
import re
import extract as X


def _flag_consts(txt):
    vals = {}
    for m in re.finditer(r'static\s+constexpr\s+uint8_t\s+(k\w+)\s*=\s*([^;]+);', txt):
        name, expr = m.group(1), m.group(2).strip()
        v = 0
        for part in expr.split('|'):
            part = part.strip()
            if re.fullmatch(r'0[xX][0-9a-fA-F]+|\d+', part):
                v |= int(part, 0)
            elif part in vals:
                v |= vals[part]
            else:
                raise X.ExtractError(f'trace_flags.h: cannot evaluate {name} = {expr}')
        vals[name] = v
    return vals


@X.gen('Tracer')
def gen_tracer(repo):
    flags = _flag_consts(X._strip_comments(X._read(repo, 'api/include/opentelemetry/trace/trace_flags.h')))
    for k in ('kIsSampled', 'kIsRandom'):
        if k not in flags:
            raise X.ShapeChanged(f'trace_flags.h: {k} not found')
    txt = X._strip_comments(X._read(repo, 'sdk/src/trace/tracer.cc'))
    txt = re.sub(r'#if\s+0\b.*?#endif', ' ', txt, flags=re.S)       # dead blocks
    body = X._one(r'Tracer::StartSpan\s*\(.*?\n\}', txt, 'Tracer::StartSpan').group(0)
    masks = re.findall(r'flags\s*&=\s*(?:opentelemetry::)?trace::TraceFlags::(k\w+)\s*;', body)
    if len(masks) != 1 or masks[0] not in flags:
        raise X.ShapeChanged(f'tracer.cc: expected exactly one live `flags &= TraceFlags::k…;`, found {masks}')
    ors = re.findall(r'flags\s*\|=\s*(?:opentelemetry::)?trace::TraceFlags::(k\w+)\s*;', body)
    if ors != ['kIsSampled']:
        raise X.ShapeChanged(f'tracer.cc: expected `flags |= TraceFlags::kIsSampled;`, found {ors}')
    rnd = re.findall(r'flags\s*=\s*(?:opentelemetry::)?trace::TraceFlags::(k\w+)\s*;', body)
    if rnd != ['kIsRandom']:
        raise X.ShapeChanged(f'tracer.cc: expected `flags = TraceFlags::kIsRandom;`, found {rnd}')
    out = [X.HDR, 'namespace Otel.Gen\n',
           '/-- `TraceFlags::kIsSampled` -/', f'def tracerIsSampled : Nat := {flags["kIsSampled"]}\n',
           '/-- `TraceFlags::kIsRandom` -/', f'def tracerIsRandom : Nat := {flags["kIsRandom"]}\n',
           f'/-- the mask `Tracer::StartSpan` applies: `TraceFlags::{masks[0]}` -/', f'def tracerFlagMask : Nat := {flags[masks[0]]}\n',
           'end Otel.Gen\n']
    return '\n'.join(out)
