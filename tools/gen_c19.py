"""Generated fragments for C19 (instrument names, views, scope rules): lean/OtelVerif/Gen/C19.lean

 * kInstrumentNamePattern / kInstrumentUnitPattern of instrument_metadata_validator.cc as `List Otel.RxItem`
   (same translation as the TraceState regexes: extract.parse_regex / lean_regex), plus whether the validators hand the
   regex the whole string_view (begin/end) or only a C string (data());
 * the GetDefaultAggregationType switch of default_aggregation.h as an (instrument type, aggregation type) table;
 * the name of the default view FindViews falls back to; the shape of MatchMeter / MatchInstrument.
"""
import re
import extract as X


@X.gen('C19')
def gen_c19(repo):
    out = [X.HDR, 'import OtelVerif.Model.Regex\nnamespace Otel.Gen\n']
    txt = X._strip_comments(X._read(repo, 'sdk/src/metrics/instrument_metadata_validator.cc'))
    for var, name in (('kInstrumentNamePattern', 'instrumentNameRx'), ('kInstrumentUnitPattern', 'instrumentUnitRx')):
        m = X._one(r'\b' + var + r'\s*=\s*((?:"(?:[^"\\]|\\.)*"\s*)+);', txt, var)
        lits = re.findall(r'"((?:[^"\\]|\\.)*)"', m.group(1))
        rx = b''.join(X._c_string_literal(l) for l in lits)
        shown = ''.join(chr(c) if 32 <= c < 127 else '\\x%02x' % c for c in rx)
        out.append(f'-- regex literal in the source: {shown}\ndef {name} : List Otel.RxItem := {X.lean_regex(X.parse_regex(rx))}\n')
    # what the validators pass to std::regex_match
    for fn, name in (('ValidateName', 'validateNameWholeView'), ('ValidateUnit', 'validateUnitWholeView')):
        body = X._one(r'InstrumentMetaDataValidator::' + fn + r'\s*\(.*?\)\s*const\s*\{(.*?)#else', txt, fn).group(1)
        if re.search(r'regex_match\(\s*\w+\.begin\(\)\s*,\s*\w+\.end\(\)\s*,', body):
            whole = 'true'
        elif re.search(r'regex_match\(\s*\w+\.data\(\)\s*,', body):
            whole = 'false'
        else:
            raise X.ShapeChanged(f'{fn}: std::regex_match call not recognised')
        out.append(f'/-- `{fn}` matches the whole `string_view` (`begin(), end()`), not the C string at `data()` -/\ndef {name} : Bool := {whole}\n')

    # the hand-written variants (#else branches): bounds, the extra name characters, and the two guards of D62
    nb = X._one(r'InstrumentMetaDataValidator::ValidateName\s*\(.*?\)\s*const\s*\{.*?#else(.*?)#endif', txt, 'ValidateName #else branch').group(1)
    ub = X._one(r'InstrumentMetaDataValidator::ValidateUnit\s*\(.*?\)\s*const\s*\{.*?#else(.*?)#endif', txt, 'ValidateUnit #else branch').group(1)
    out.append(f'def handNameMaxSize : Nat := {X._int_const(nb, "kMaxSize", "kMaxSize of the hand-written ValidateName")}\n')
    out.append(f'def handUnitMaxSize : Nat := {X._int_const(ub, "kMaxSize", "kMaxSize of the hand-written ValidateUnit")}\n')
    if not re.search(r'if\s*\(\s*!\s*isalpha\(\s*name\[0\]\s*\)\s*\)\s*\{\s*return\s+false', nb):
        raise X.ShapeChanged('hand-written ValidateName: first-character test not recognised')
    m = X._one(r'return\s+!\s*isalnum\(c\)((?:\s*&&\s*\(\s*c\s*!=\s*\'.\'\s*\))*)\s*;', nb, 'hand-written ValidateName: character test')
    extra = [ord(c) for c in re.findall(r"'(.)'", m.group(1))]
    out.append(f'/-- characters the hand-written `ValidateName` allows after the first besides `isalnum` -/\ndef handNameExtraChars : List UInt8 := {X.lean_bytes(extra)}\n')
    out.append('/-- the hand-written `ValidateName` returns false for an empty name before it reads `name[0]` (D62) -/\n'
               'def handNameChecksEmpty : Bool := ' + ('true' if re.search(r'name\.empty\(\)\s*\|\|', nb) else 'false') + '\n')
    if not re.search(r'static_cast<unsigned char>\(c\)\s*>\s*127', ub):
        raise X.ShapeChanged('hand-written ValidateUnit: > 127 test not recognised')
    out.append('/-- the hand-written `ValidateUnit` rejects NUL like the regex `[\\x01-\\x7F]` does (D62) -/\n'
               'def handUnitRejectsNul : Bool := ' + ('true' if re.search(r"c\s*==\s*'\\0'\s*\|\|", ub) else 'false') + '\n')

    da = X._strip_comments(X._read(repo, 'sdk/include/opentelemetry/sdk/metrics/aggregation/default_aggregation.h'))
    fn = X._one(r'static\s+AggregationType\s+GetDefaultAggregationType\s*\(.*?\)\s*\{(.*?)\n  \}', da, 'GetDefaultAggregationType').group(1)
    rows = []
    pending = []
    default = None
    for m in re.finditer(r'case\s+InstrumentType::(\w+)\s*:|default\s*:|return\s+AggregationType::(\w+)\s*;', fn):
        if m.group(1):
            pending.append(m.group(1))
        elif m.group(2):
            if pending == ['<default>']:
                default = m.group(2)
            else:
                rows += [(p, m.group(2)) for p in pending]
            pending = []
        else:
            pending = ['<default>']
    if not rows or default is None:
        raise X.ShapeChanged('GetDefaultAggregationType: switch not recognised')
    it = X._strip_comments(X._read(repo, 'sdk/include/opentelemetry/sdk/metrics/instruments.h'))
    itypes = re.findall(r'\b(k\w+)\b', X._one(r'enum\s+class\s+InstrumentType\s*\{(.*?)\}', it, 'enum class InstrumentType').group(1))
    atypes = re.findall(r'\b(k\w+)\b', X._one(r'enum\s+class\s+AggregationType\s*\{(.*?)\}', it, 'enum class AggregationType').group(1))
    out.append('/-- enumerators of `InstrumentType` / `AggregationType` in declaration order (position = code used below) -/\n'
               'def instrumentTypes : List String := [' + ', '.join(f'"{x}"' for x in itypes) + ']\n'
               'def aggregationTypes : List String := [' + ', '.join(f'"{x}"' for x in atypes) + ']\n')
    try:
        coded = [(itypes.index(a), atypes.index(b)) for a, b in rows]
        dflt = atypes.index(default)
    except ValueError as e:
        raise X.ExtractError(f'GetDefaultAggregationType mentions an unknown enumerator: {e}')
    for a, b in rows:
        out.append(f'-- {a} -> {b}')
    out.append('/-- `GetDefaultAggregationType`: instrument type code -> aggregation type code -/\n'
               'def defaultAggTable : List (Nat × Nat) := [' + ', '.join(f'({a}, {b})' for a, b in coded) + ']\n')
    out.append(f'-- default: {default}\ndef defaultAggFallback : Nat := {dflt}\n')
    # default histogram boundaries (both constructors must agree; all values integral)
    # OBSERVED (harness/p_hist.cc compiled from the working tree), not parsed: however the constructors spell the list
    import struct
    obs = {}
    for ln in X.probe(repo, 'harness/p_hist.cc', sdk_srcs=['sdk/src/metrics/aggregation/histogram_aggregation.cc']).splitlines():
        t = ln.split()
        if len(t) >= 2 and t[1] == 'boundaries':
            obs[t[0]] = [struct.unpack('<d', struct.pack('<Q', int(x, 16)))[0] for x in t[2:]]
    if set(obs) != {'long', 'double'}:
        raise X.ExtractError('harness/p_hist.cc did not print the default boundaries of both histogram aggregations')
    parsed = [obs['long'], obs['double']]
    if parsed[0] != parsed[1] or any(v != int(v) or v < 0 for v in parsed[0]):
        raise X.ExtractError('default histogram boundaries of the long and double aggregations differ or are not non-negative integers')
    out.append('/-- default explicit bucket boundaries of `{Long,Double}HistogramAggregation` -/\n'
               f'def defaultHistogramBounds : List Nat := {X.lean_nat_list(parsed[0])}\n')
    # AsyncMetricStorage::Record builds the per-measurement aggregation with the view's aggregation config (D63)
    am = X._strip_comments(X._read(repo, 'sdk/include/opentelemetry/sdk/metrics/state/async_metric_storage.h'))
    m = X._one(r'auto\s+aggr\s*=\s*DefaultAggregation::CreateAggregation\(([^;]*)\);', am, 'CreateAggregation call of AsyncMetricStorage::Record')
    out.append('/-- `AsyncMetricStorage::Record` passes the view\'s aggregation config to `CreateAggregation` (D63) -/\n'
               'def asyncStorageUsesConfig : Bool := ' + ('true' if re.search(r'aggregation_config', m.group(1)) else 'false') + '\n')

    # Meter::storage_registry_ has one entry per stream (D09): keyed through StorageRegistryKey(descriptor, view index)
    mc = X._strip_comments(X._read(repo, 'sdk/src/metrics/meter.cc'))
    per_stream = (len(re.findall(r'storage_registry_\[\s*registry_key\s*\]\s*=\s*storage', mc)) == 2 and
                  len(re.findall(r'StorageRegistryKey\(\s*instrument_descriptor\s*,\s*view_index\+\+\s*\)', mc)) == 2 and
                  re.search(r'std::string\s+StorageRegistryKey\(.*?\)\s*\{[^}]*name_[^}]*type_[^}]*value_type_[^}]*view_index[^}]*\}', mc, re.S) is not None)
    by_name = len(re.findall(r'storage_registry_\[\s*instrument_descriptor\.name_\s*\]\s*=\s*storage', mc)) == 2
    if not per_stream and not by_name:
        raise X.ShapeChanged('meter.cc: how Register*MetricStorage keys storage_registry_ is not recognised')
    out.append('/-- `storage_registry_` is keyed per stream: instrument name, type, value type, index of the view (D09) -/\n'
               'def storageRegistryPerStream : Bool := ' + ('true' if per_stream else 'false') + '\n')

    vr = X._strip_comments(X._read(repo, 'sdk/include/opentelemetry/sdk/metrics/view/view_registry.h'))
    m = X._one(r'if\s*\(\s*!found\s*\)\s*\{\s*static\s+const\s+View\s+view\(\s*"((?:[^"\\]|\\.)*)"\s*\)', vr, 'default view of FindViews')
    out.append(f'def defaultViewName : List UInt8 := {X.lean_bytes(X._c_string_literal(m.group(1)))}\n')
    mm = X._one(r'static\s+bool\s+MatchMeter\s*\(.*?\)\s*\{(.*?)\n  \}', vr, 'MatchMeter').group(1)
    lenient = bool(re.search(r'GetVersion\(\)\.size\(\)\s*==\s*0\s*\|\|', mm)) or bool(re.search(r'GetSchemaURL\(\)\.size\(\)\s*==\s*0\s*\|\|', mm))
    for part in ('GetNameFilter\(\)->Match\(instrumentation_scope\.GetName\(\)\)', 'GetVersionFilter\(\)->Match\(instrumentation_scope\.GetVersion\(\)\)',
                 'GetSchemaFilter\(\)->Match\(instrumentation_scope\.GetSchemaURL\(\)\)'):
        if not re.search(part, mm):
            raise X.ShapeChanged('MatchMeter: expected filter call missing: ' + part)
    out.append('/-- `MatchMeter` skips the version / schema filter when the meter\'s own version / schema is empty (D13) -/\n'
               f'def matchMeterSkipsEmpty : Bool := {"true" if lenient else "false"}\n')
    mi = X._one(r'static\s+bool\s+MatchInstrument\s*\(.*?\)\s*\{(.*?)\n  \}', vr, 'MatchInstrument').group(1)
    for part in (r'GetNameFilter\(\)->Match\(instrument_descriptor\.name_\)', r'GetUnitFilter\(\)->Match\(instrument_descriptor\.unit_\)',
                 r'GetInstrumentType\(\)\s*==\s*instrument_descriptor\.type_'):
        if not re.search(part, mi):
            raise X.ShapeChanged('MatchInstrument: expected conjunct missing: ' + part)
    # predicate factory: which literal means "match everything" for each predicate type
    pf = X._strip_comments(X._read(repo, 'sdk/include/opentelemetry/sdk/metrics/view/predicate_factory.h'))
    m = X._one(r'type\s*==\s*PredicateType::kPattern\s*&&\s*pattern\s*==\s*"((?:[^"\\]|\\.)*)"', pf, 'match-everything pattern')
    out.append(f'def patternMatchAll : List UInt8 := {X.lean_bytes(X._c_string_literal(m.group(1)))}\n')
    m = X._one(r'type\s*==\s*PredicateType::kExact\s*&&\s*pattern\s*==\s*"((?:[^"\\]|\\.)*)"', pf, 'match-everything exact')
    out.append(f'def exactMatchAll : List UInt8 := {X.lean_bytes(X._c_string_literal(m.group(1)))}\n')
    out.append('end Otel.Gen\n')
    return '\n'.join(out)
