"""Generated fragment `SpanAttr` (C04, also used by C13): the alternatives of `common::AttributeValue` and of
`sdk::common::OwnedAttributeValue` in source order, the `AttributeConverter` overload table (parameter type -> owned type),
and the enumerators of `SpanKind` / `StatusCode`.  Re-read from the working tree on every check run."""
import re
import extract as X


def _split_top(s):
    """split a template argument list at top-level commas"""
    out, depth, cur = [], 0, ''
    for ch in s:
        if ch == '<':
            depth += 1
        elif ch == '>':
            depth -= 1
        if ch == ',' and depth == 0:
            out.append(cur); cur = ''
        else:
            cur += ch
    if cur.strip():
        out.append(cur)
    return [re.sub(r'\s+', ' ', x).strip() for x in out]


def _variant(txt, name, what):
    m = X._one(r'using\s+' + name + r'\s*=\s*nostd::variant\s*<(.*?)>\s*;', txt, what)
    alts = _split_top(m.group(1))
    if len(alts) < 10:
        raise X.ExtractError(f'{what}: only {len(alts)} alternatives recognised')
    return alts


def _enum(txt, name, what):
    m = X._one(r'enum\s+class\s+' + name + r'\s*\{(.*?)\}', txt, what)
    names = [x.strip() for x in m.group(1).split(',') if x.strip()]
    for n in names:
        if '=' in n:
            raise X.ExtractError(f'{what}: explicit enumerator value {n!r} not handled')
    return names


def lean_strs(xs):
    return '[' + ', '.join('"' + x.replace('\\', '\\\\').replace('"', '\\"') + '"' for x in xs) + ']'


@X.gen('SpanAttr')
def gen_spanattr(repo):
    av = X._strip_comments(X._read(repo, 'api/include/opentelemetry/common/attribute_value.h'))
    au = X._strip_comments(X._read(repo, 'sdk/include/opentelemetry/sdk/common/attribute_utils.h'))
    sm = X._strip_comments(X._read(repo, 'api/include/opentelemetry/trace/span_metadata.h'))
    alts = _variant(av, 'AttributeValue', 'common::AttributeValue')
    owned = _variant(au, 'OwnedAttributeValue', 'sdk::common::OwnedAttributeValue')
    body = X._one(r'struct\s+AttributeConverter\s*\{(.*?)\n\};', au, 'struct AttributeConverter').group(1)
    conv = []
    for m in re.finditer(r'OwnedAttributeValue\s+operator\(\)\s*\(\s*([^()]*?)\s*\bv\s*\)\s*\{(.*?)\}', body, re.S):
        pty = re.sub(r'\s+', ' ', m.group(1)).strip()
        b = re.sub(r'\s+', ' ', m.group(2)).strip()
        if re.fullmatch(r'return OwnedAttributeValue\(v\);', b):
            oty = pty
        elif re.fullmatch(r'return OwnedAttributeValue\(std::string\(v\)\);', b):
            oty = 'std::string'
        else:
            mm = re.fullmatch(r'return convertSpan<([^>]*)>\(v\);', b)
            if not mm:
                raise X.ShapeChanged(f'AttributeConverter::operator()({pty}): body not recognised: {b}')
            oty = f'std::vector<{mm.group(1).strip()}>'
        conv.append((pty, oty))
    if len(conv) < len(alts):
        raise X.ExtractError(f'AttributeConverter: {len(conv)} overloads recognised for {len(alts)} alternatives')
    cs = X._one(r'convertSpan\s*\(\s*nostd::span<const U>\s+vals\s*\)\s*\{(.*?)\}', body, 'AttributeConverter::convertSpan').group(1)
    if not re.search(r'std::vector<T>\s+copy\s*\(\s*vals\.begin\(\)\s*,\s*vals\.end\(\)\s*\)', cs):
        raise X.ShapeChanged('AttributeConverter::convertSpan no longer copies [begin, end) into a vector')
    setattr_ = X._one(r'void\s+SetAttribute\s*\(\s*nostd::string_view\s+key\s*,[^)]*\)\s*noexcept\s*\{(.*?)\}', au,
                      'AttributeMap::SetAttribute').group(1)
    if not re.search(r'\(\*this\)\[std::string\(key\)\]\s*=\s*nostd::visit\(converter_,\s*value\)', setattr_):
        raise X.ShapeChanged('AttributeMap::SetAttribute no longer is (*this)[std::string(key)] = visit(converter_, value)')
    kinds = _enum(sm, 'SpanKind', 'trace::SpanKind')
    codes = _enum(sm, 'StatusCode', 'trace::StatusCode')
    out = [X.HDR, 'namespace Otel.Gen\n',
           '/-- alternatives of `common::AttributeValue`, in source (index) order -/\n'
           f'def attrValueAlts : List String := {lean_strs(alts)}\n',
           '/-- alternatives of `sdk::common::OwnedAttributeValue`, in source (index) order -/\n'
           f'def ownedValueAlts : List String := {lean_strs(owned)}\n',
           '/-- `AttributeConverter::operator()` overloads: parameter type, owned result type -/\n'
           'def attrConverter : List (String × String) := [' + ', '.join(f'("{a}", "{b}")' for a, b in conv) + ']\n',
           f'def spanKindNames : List String := {lean_strs(kinds)}\n',
           f'def statusCodeNames : List String := {lean_strs(codes)}\n',
           'end Otel.Gen\n']
    return '\n'.join(out)
