"""Generated tie for the registry clause of C06 under concurrency (harness/d_meterreg.cc): the storage registry of a Meter is
a get-or-create table under `storage_lock_`, the protocol of Model/GetScopeLock.lean.  The facts of the source text that
protocol stands on, re-extracted on every run:
   -> lean/OtelVerif/Gen/MeterRegLock.lean
For each of Meter::RegisterSyncMetricStorage, Meter::RegisterAsyncMetricStorage and Meter::Collect (which walks the table): ONE lock guard on `storage_lock_`,
declared at the function's top brace level before the first use of `storage_registry_`, never released early."""
import re
import extract as X
import gen_c04race as R

GUARD = r'std::(?:lock_guard|unique_lock|scoped_lock)\s*<\s*[\w:]*SpinLockMutex\s*>\s*(\w+)\s*[{(]\s*storage_lock_\s*[})]\s*;'


@X.gen('MeterRegLock')
def gen_meter_reg_lock(repo):
    rel = 'sdk/src/metrics/meter.cc'
    txt = re.sub(r'(?m)^[ \t]*#.*$', '', X._strip_comments(X._read(repo, rel)))
    fns = dict(R.functions(txt, 'Meter'))
    before, held = True, True
    for fn in ('RegisterSyncMetricStorage', 'RegisterAsyncMetricStorage', 'Collect'):
        if fn not in fns:
            raise X.ExtractError(f'{rel}: Meter::{fn} not found')
        body = fns[fn]
        guards = list(re.finditer(GUARD, body))
        uses = [m.start() for m in re.finditer(r'\bstorage_registry_\b', body)]
        if not uses:
            raise X.ExtractError(f'{rel}: Meter::{fn} does not use storage_registry_')
        g = guards[0] if guards else None
        before = before and bool(g) and g.start() < min(uses) and R.depth_at(body, g.start()) == 1
        names = {m.group(1) for m in guards}
        released = any(re.search(r'\b' + n + r'\s*\.\s*(?:unlock|release|lock|try_lock|swap)\s*\(', body) for n in names) or \
            re.search(r'\bstorage_lock_\s*\.\s*(?:unlock|lock|try_lock)\b', body)
        held = held and len(guards) == 1 and not released
    b2l = lambda v: 'true' if v else 'false'
    return X.HDR + 'namespace Otel.Gen\n' + \
        '/-- Meter::RegisterSyncMetricStorage / RegisterAsyncMetricStorage / Collect: a lock guard on `storage_lock_` is declared at the top brace level before the first use of `storage_registry_` -/\n' + \
        f'def meterRegGuardBeforeFirstUse : Bool := {b2l(before)}\n' + \
        '/-- it is the only guard on `storage_lock_` in the function and nothing releases (or re-acquires) it before the return -/\n' + \
        f'def meterRegOneGuardHeldToReturn : Bool := {b2l(held)}\n' + 'end Otel.Gen\n'
