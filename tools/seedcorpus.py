#!/usr/bin/env python3
"""Turn the failing inputs found for the seeded changes (seeded/<id>/replay_<prop>.json, written by `seedcheck.py detect` /
`seedregress.py`) into corpus files corpus/<prop>/seeded.case that every run of the property's check evaluates first: a
change that comes back is then caught on the first cases.  Lines: <harness>\\t<case line>."""
import glob, json, os
VERIF = os.path.dirname(os.path.dirname(os.path.abspath(__file__)))
by = {}
for f in sorted(glob.glob(os.path.join(VERIF, 'seeded', '*', 'replay_*.json'))):
    r = json.load(open(f))
    if r.get('kind') != 'failing-input' or not r.get('harness'):
        continue
    sid = os.path.basename(os.path.dirname(f))
    for ln in r.get('case') or []:
        if len(ln) < 20000 and not ln.startswith('CRASH'):
            by.setdefault(r['property'], []).append((sid, r['harness'], ln))
for prop, items in by.items():
    d = os.path.join(VERIF, 'corpus', prop)
    os.makedirs(d, exist_ok=True)
    seen = set()
    with open(os.path.join(d, 'seeded.case'), 'w') as out:
        out.write('# failing inputs of the seeded changes (tools/seedcorpus.py); on the unchanged tree they pass\n')
        for sid, h, ln in items:
            if (h, ln) in seen:
                continue
            seen.add((h, ln))
            out.write(f'# {sid}\n{h}\t{ln}\n')
    print(prop, len(seen))
