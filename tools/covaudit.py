#!/usr/bin/env python3
"""covaudit.py <PROP> [--tier quick] [--seed N]   -   which part of the anchored code do the generated cases execute?

The theorems are about the models; what ties them to the code is the differential run.  The part of the anchored code
that the corpus + generated cases never execute is therefore a blind spot.  This tool measures it:

 1 builds the property's harnesses in vcore's coverage side mode (VERIF_COVERAGE=1: `--coverage -O0`, no sanitizers,
   own object cache .cache/covobj/<PROP>, `_exit` wrapped so that counters are flushed; see harness/cov_exit.cc),
 2 runs exactly the corpus + generated cases of the tier through the harnesses with vcore.evaluate (no model run),
 3 runs `gcov -b -c --json-format` on every object, merges the counters of header lines across translation units and
   template instantiations (exception edges are not counted as branches),
 4 reports, for the ANCHOR files of the property (properties.jsonl) and the files named in RELATED below: line / branch
   coverage, functions never entered, uncovered line ranges with their source text, lines with branches never taken;
   every other /repo file the harnesses compile is listed with its percentages only.

Output: coverage/<PROP>.json and coverage/<PROP>.txt.  Nothing of a normal check run is touched.

Limits: a function template that no harness TU instantiates, and (when -fkeep-inline-functions had to be switched off
for a harness) an inline function that no TU calls, has no counters at all - it is invisible, not "uncovered".  The
report lists the function-like definitions of anchored HEADERS that have no counter under `no_counters` (textual scan).
"""
import argparse, gzip, json, os, re, subprocess, sys, time
from concurrent.futures import ThreadPoolExecutor

VERIF = os.path.dirname(os.path.dirname(os.path.abspath(__file__)))

# files outside the anchors that are clearly part of a property's code path (regexes over repo-relative paths)
RELATED = {
    'C01': [r'sdk/include/opentelemetry/sdk/(trace|logs)/batch_.*_options\.h', r'sdk/src/(trace|logs)/batch_.*_factory\.cc',
            r'sdk/include/opentelemetry/sdk/common/circular_buffer_range\.h'],
    'C02': [r'sdk/include/opentelemetry/sdk/metrics/export/periodic_exporting_metric_reader.*\.h', r'sdk/src/metrics/export/periodic_exporting_metric_reader_factory\.cc',
            r'sdk/src/trace/tracer_context\.cc', r'sdk/src/logs/logger_context\.cc', r'sdk/include/opentelemetry/sdk/metrics/metric_reader\.h'],
    'C03': [r'sdk/src/trace/simple_processor_factory\.cc', r'sdk/src/logs/simple_log_record_processor_factory\.cc'],
    'C04': [r'api/include/opentelemetry/trace/(span|tracer|span_startoptions|span_metadata)\.h', r'api/include/opentelemetry/common/(key_value_iterable.*|attribute_value)\.h',
            r'sdk/src/trace/(tracer|tracer_context|tracer_provider)\.cc', r'api/include/opentelemetry/trace/span_context_kv_iterable.*\.h',
            r'sdk/include/opentelemetry/sdk/trace/(processor|simple_processor)\.h'],
    'C05': [r'api/include/opentelemetry/trace/(span_startoptions|default_span|span_id|trace_id|tracer_provider|provider)\.h',
            r'api/include/opentelemetry/context/runtime_context\.h', r'sdk/src/trace/tracer_context\.cc',
            r'sdk/include/opentelemetry/sdk/trace/(id_generator|random_id_generator)\.h', r'sdk/src/common/platform/fork_unix\.cc'],
    'C09': [r'api/include/opentelemetry/context/propagation/text_map_propagator\.h', r'api/include/opentelemetry/trace/(span_context|context|default_span)\.h',
            r'api/include/opentelemetry/common/kv_properties\.h'],
    'C10': [r'api/include/opentelemetry/trace/(default_span|context)\.h'],
    'C11': [],
    'C12': [r'sdk/include/opentelemetry/sdk/trace/samplers/(parent|trace_id_ratio|.*_factory)\.h', r'sdk/src/trace/samplers/.*\.cc'],
    'C13': [r'api/include/opentelemetry/logs/(log_record|event_id|severity|logger_provider|noop)\.h', r'sdk/include/opentelemetry/sdk/logs/(recordable|readable_log_record|multi_recordable|processor|logger|logger_context)\.h',
            r'sdk/src/logs/(logger_context|readable_log_record)\.cc', r'api/include/opentelemetry/common/(key_value_iterable.*|attribute_value)\.h'],
    'C14': [],
    'C15': [r'api/include/opentelemetry/context/propagation/(text_map_propagator|noop_propagator)\.h', r'api/include/opentelemetry/common/string_util\.h'],
    'C16': [r'api/include/opentelemetry/trace/(span_context|context|default_span|trace_id|span_id)\.h', r'api/include/opentelemetry/common/string_util\.h'],
    'C20': [r'api/include/opentelemetry/nostd/(type_traits|internal/.*|detail/.*)\.h'],
}


def _demangled_short(n):
    n = re.sub(r'opentelemetry::v\d+::', '', n)
    n = re.sub(r'std::__cxx11::basic_string<char, std::char_traits<char>, std::allocator<char> >', 'std::string', n)
    return n if len(n) <= 200 else n[:197] + '...'


def gcov_one(gcov_dir, base):
    """gcov JSON of one object (base = path without .o)"""
    r = subprocess.run(['gcov', '-b', '-c', '--json-format', '--stdout', os.path.basename(base) + '.gcda'], cwd=gcov_dir,
                       stdout=subprocess.PIPE, stderr=subprocess.PIPE)
    if r.returncode != 0 or not r.stdout:
        return None
    try:
        return json.loads(r.stdout)
    except Exception:
        return None


class Merged:
    def __init__(self):
        self.lines = {}      # file -> {line: count}
        self.funcs = {}      # file -> {(start, end): [count, set(names)]}
        self.br = {}         # file -> {(line, shape, idx): count}      shape = number of non-throw branches on that line in that function instance

    def add(self, js, repo):
        for f in js.get('files', []):
            fn = f['file']
            if not os.path.isabs(fn):
                fn = os.path.normpath(os.path.join(js.get('current_working_directory', '.'), fn))
            fn = os.path.realpath(fn)
            L = self.lines.setdefault(fn, {})
            F = self.funcs.setdefault(fn, {})
            B = self.br.setdefault(fn, {})
            for fu in f.get('functions', []):
                k = (fu['start_line'], fu['end_line'])
                e = F.setdefault(k, [0, set()])
                e[0] += fu.get('execution_count', 0)
                if len(e[1]) < 4:
                    e[1].add(fu.get('demangled_name') or fu.get('name'))
            for ln in f.get('lines', []):
                n = ln['line_number']
                L[n] = L.get(n, 0) + ln.get('count', 0)
                brs = [b for b in ln.get('branches', []) if not b.get('throw')]
                for i, b in enumerate(brs):
                    k = (n, len(brs), i)
                    B[k] = B.get(k, 0) + b.get('count', 0)


def ranges(nums, executable):
    """contiguous ranges of uncovered lines; a gap made only of non-executable lines does not split a range"""
    out = []
    nums = sorted(nums)
    for n in nums:
        if out and all((m not in executable) for m in range(out[-1][1] + 1, n)) and n - out[-1][1] <= 6:
            out[-1][1] = n
        else:
            out.append([n, n])
    return out


_FUNC_RE = re.compile(r'^\s*(?:template\s*<[^;{]*>\s*)?(?:static\s+|inline\s+|virtual\s+|explicit\s+|constexpr\s+|friend\s+|OPENTELEMETRY_\w+\s+)*'
                      r'[\w:<>,&*~\s]*?\b(~?\w+|operator\s*[^\s(]+)\s*\([^;{}]*\)\s*(?:const\s*)?(?:noexcept\s*(?:\([^)]*\))?\s*)?(?:override\s*)?(?:final\s*)?'
                      r'(?:->\s*[\w:<>&*\s]+)?(?::[^;{]*)?\{', re.M)


def no_counter_functions(path, func_spans, line_counts):
    """function-like definitions in a header with no gcov counter anywhere inside (templates never instantiated, inline
    functions never emitted).  Textual, approximate: used only as a hint list."""
    try:
        txt = open(path, encoding='utf-8', errors='replace').read()
    except OSError:
        return []
    res = []
    covered_starts = set()
    for (a, b) in func_spans:
        covered_starts.update(range(a, b + 1))
    for m in _FUNC_RE.finditer(txt):
        name = m.group(1)
        if name in ('if', 'for', 'while', 'switch', 'catch', 'return', 'sizeof', 'defined'):
            continue
        l0 = txt.count('\n', 0, m.start()) + 1
        l1 = txt.count('\n', 0, m.end()) + 1
        while l0 <= l1 and not txt.split('\n')[l0 - 1].strip():
            l0 += 1
        if any((l in covered_starts) or (l in line_counts) for l in range(l0, l1 + 2)):
            continue
        head = ' '.join(txt.split('\n')[l0 - 1:l1]).strip()
        res.append({'line': l0, 'name': name, 'text': head[:160]})
    return res


def main():
    ap = argparse.ArgumentParser()
    ap.add_argument('prop')
    ap.add_argument('--tier', default='quick')
    ap.add_argument('--seed', type=int, default=1)
    ap.add_argument('--out', default=os.path.join(VERIF, 'coverage'))
    ap.add_argument('--keep', action='store_true', help='keep the .gcda files of an earlier run (accumulate)')
    a = ap.parse_args()
    prop = a.prop.upper()
    os.environ['VERIF_COVERAGE'] = '1'
    covdir = os.path.join(VERIF, '.cache', 'covobj', prop)
    os.environ['VERIF_COVERAGE_DIR'] = covdir
    os.chdir(VERIF)
    sys.path.insert(0, VERIF)
    import importlib, random
    import vcore
    assert vcore.COV and vcore.COV_DIR == covdir
    repo = os.path.realpath(vcore.REPO)
    P = importlib.import_module('props.' + prop.lower())
    anchors = None
    for ln in open(os.path.join(VERIF, 'properties.jsonl')):
        d = json.loads(ln)
        if d['id'] == prop:
            anchors = d['anchors']['files']
    if anchors is None:
        sys.exit(f'unknown property {prop}')
    t0 = time.time()

    # 1 build
    os.makedirs(covdir, exist_ok=True)
    if not a.keep:
        for fn in os.listdir(covdir):
            if fn.endswith('.gcda'):
                os.remove(os.path.join(covdir, fn))
    exes, keep_inline_off = {}, []
    for h in P.HARNESSES:
        try:
            exes[h.name] = vcore.build_harness(h)
        except vcore.BuildError as e:
            if 'link:' not in str(e):
                raise
            # an inline function kept by -fkeep-inline-functions refers to something this harness does not link
            vcore.COV_KEEP_INLINE = False
            exes[h.name] = vcore.build_harness(h)
            vcore.COV_KEEP_INLINE = True
            keep_inline_off.append(h.name)
    t_build = time.time() - t0

    # 2 cases: exactly what _run_cases assembles
    rng = random.Random(a.seed * 1000003 + int(prop[1:]))
    cases = list(P.corpus())
    cdir = os.path.join(VERIF, 'corpus', prop)
    if os.path.isdir(cdir):
        for fn in sorted(os.listdir(cdir)):
            if fn.endswith('.case'):
                for ln in open(os.path.join(cdir, fn)):
                    ln = ln.rstrip('\n')
                    if ln and not ln.startswith('#'):
                        hn, _, body = ln.partition('\t')
                        cases.append(vcore.Case(body, hn, ('corpus', fn), 'corpus'))
    cases.extend(P.generate(rng, a.tier))
    cases = [c for c in cases if c.harness in exes]
    # -O0 + counters on a loaded machine: harnesses that hand a baton between spinning threads (C10) can be silent for longer
    # than the 45 s after which a normal check calls it a hang
    _rl = vcore.run_lines
    vcore.run_lines = lambda *aa, **kw: _rl(*aa, **dict({'stall': 300}, **kw))
    t1 = time.time()
    impl, _, crashes, _ = vcore.evaluate(P, cases, exes, want_model=False, budget_s=1800, stop_after=10 ** 9)
    t_run = time.time() - t1
    nfail = 0
    for c, io in zip(cases, impl):
        if io is not None and vcore._oracle_fails(P, c, io) is not None:
            nfail += 1
    vcore.log(f'{prop}: {len(cases)} cases run in {t_run:.1f}s ({sum(1 for o in impl if o is None)} not evaluated, '
              f'{len(crashes)} crashes, {nfail} oracle failures in the uninstrumented-sanitizer build - informational)')

    # 3 gcov
    bases = [os.path.join(covdir, fn[:-5]) for fn in sorted(os.listdir(covdir)) if fn.endswith('.gcda')]
    M = Merged()
    with ThreadPoolExecutor(max_workers=16) as ex:
        for js in ex.map(lambda b: gcov_one(covdir, b), bases):
            if js:
                M.add(js, repo)
    tus_nodata = [fn for fn in os.listdir(covdir) if fn.endswith('.gcno') and not os.path.exists(os.path.join(covdir, fn[:-5] + '.gcda'))]

    # 4 report
    rel = lambda p: os.path.relpath(p, repo)
    related_rx = [re.compile(x) for x in RELATED.get(prop, [])]
    files = {}
    for fn in M.lines:
        if not fn.startswith(repo + os.sep):
            continue
        r = rel(fn)
        if not (r.startswith('api/include/') or r.startswith('sdk/')):
            continue
        cls = 'anchor' if r in anchors else ('related' if any(x.fullmatch(r) for x in related_rx) else 'other')
        L = M.lines[fn]
        tot, cov = len(L), sum(1 for v in L.values() if v > 0)
        B = M.br.get(fn, {})
        btot, bcov = len(B), sum(1 for v in B.values() if v > 0)
        ent = {'class': cls, 'lines_total': tot, 'lines_covered': cov, 'line_pct': round(100.0 * cov / tot, 1) if tot else None,
               'branches_total': btot, 'branches_covered': bcov, 'branch_pct': round(100.0 * bcov / btot, 1) if btot else None}
        if cls != 'other':
            src = open(fn, encoding='utf-8', errors='replace').read().split('\n')
            unc_f = []
            for (s, e), (cnt, names) in sorted(M.funcs.get(fn, {}).items()):
                if cnt == 0 and not any(L.get(n, 0) > 0 for n in range(s, e + 1)):
                    unc_f.append({'start': s, 'end': e, 'name': _demangled_short(sorted(names)[0]), 'instances': len(names)})
            unc_lines = [n for n, v in L.items() if v == 0]
            rg = []
            for s, e in ranges(unc_lines, set(L)):
                rg.append({'start': s, 'end': e, 'text': [src[i - 1] for i in range(s, e + 1) if i - 1 < len(src)]})
            ub = {}
            for (n, shape, i), v in B.items():
                if v == 0 and L.get(n, 0) > 0:      # branches on lines that never run are already in the line ranges
                    ub.setdefault(n, []).append(i)
            ubl = [{'line': n, 'never_taken': len(v), 'text': src[n - 1].strip() if n - 1 < len(src) else ''} for n, v in sorted(ub.items())]
            ent.update({'uncovered_functions': unc_f, 'uncovered_ranges': rg, 'lines_with_untaken_branches': ubl})
            if fn.endswith('.h'):
                ent['no_counters'] = no_counter_functions(fn, list(M.funcs.get(fn, {}).keys()), L)
        files[r] = ent
    missing = [x for x in anchors if x not in files]
    for x in missing:
        p = os.path.join(repo, x)
        files[x] = {'class': 'anchor', 'lines_total': 0, 'lines_covered': 0, 'line_pct': None, 'branches_total': 0, 'branches_covered': 0,
                    'branch_pct': None, 'note': 'no counters: not compiled by any harness of this property, or no executable line',
                    'uncovered_functions': [], 'uncovered_ranges': [], 'lines_with_untaken_branches': [],
                    'no_counters': no_counter_functions(p, [], {}) if x.endswith('.h') else []}

    def agg(cls):
        es = [e for e in files.values() if e['class'] in cls]
        lt, lc = sum(e['lines_total'] for e in es), sum(e['lines_covered'] for e in es)
        bt, bc = sum(e['branches_total'] for e in es), sum(e['branches_covered'] for e in es)
        return {'lines_total': lt, 'lines_covered': lc, 'line_pct': round(100.0 * lc / lt, 1) if lt else None,
                'branches_total': bt, 'branches_covered': bc, 'branch_pct': round(100.0 * bc / bt, 1) if bt else None,
                'uncovered_functions': sum(len(e.get('uncovered_functions', [])) for e in es)}
    summ = {'property': prop, 'tier': a.tier, 'seed': a.seed, 'repo': vcore.REPO, 'cases': len(cases),
            'harnesses': sorted(exes), 'keep_inline_functions_off_for': keep_inline_off,
            'build_s': round(t_build, 1), 'run_s': round(t_run, 1), 'gcov_s': round(time.time() - t1 - t_run, 1),
            'objects_with_counters': len(bases), 'objects_never_run': len(tus_nodata),
            'anchors': agg(('anchor',)), 'anchors_and_related': agg(('anchor', 'related')), 'files': dict(sorted(files.items(), key=lambda kv: ({'anchor': 0, 'related': 1, 'other': 2}[kv[1]['class']], kv[0])))}
    os.makedirs(a.out, exist_ok=True)
    with open(os.path.join(a.out, prop + '.json'), 'w') as f:
        json.dump(summ, f, indent=1)
        f.write('\n')

    o = []
    o.append(f'coverage audit {prop}  tier={a.tier} seed={a.seed}  {len(cases)} cases through {", ".join(sorted(exes))}')
    o.append(f'build {t_build:.0f}s, run {t_run:.0f}s; branches exclude exception edges; header lines merged over all translation units / instantiations')
    if keep_inline_off:
        o.append(f'-fkeep-inline-functions off for: {", ".join(keep_inline_off)} (never-called inline functions are invisible there)')
    s = summ['anchors']
    o.append(f'ANCHORS: lines {s["lines_covered"]}/{s["lines_total"]} = {s["line_pct"]}%   branches {s["branches_covered"]}/{s["branches_total"]} = {s["branch_pct"]}%   functions never entered: {s["uncovered_functions"]}')
    s = summ['anchors_and_related']
    o.append(f'ANCHORS+RELATED: lines {s["lines_covered"]}/{s["lines_total"]} = {s["line_pct"]}%   branches {s["branches_covered"]}/{s["branches_total"]} = {s["branch_pct"]}%')
    o.append('')
    o.append(f'{"file":86s} {"class":8s} {"lines":>14s} {"branches":>14s}')
    for r, e in summ['files'].items():
        if e['class'] == 'other':
            continue
        o.append(f'{r:86s} {e["class"]:8s} {e["lines_covered"]:5d}/{e["lines_total"]:<5d}{str(e["line_pct"]):>5s}% {e["branches_covered"]:5d}/{e["branches_total"]:<5d}{str(e["branch_pct"]):>5s}%')
    o.append('')
    for r, e in summ['files'].items():
        if e['class'] == 'other':
            continue
        if not (e.get('uncovered_functions') or e.get('uncovered_ranges') or e.get('lines_with_untaken_branches') or e.get('no_counters')):
            continue
        o.append('=' * 120)
        o.append(f'{r}  [{e["class"]}]  lines {e["line_pct"]}%  branches {e["branch_pct"]}%' + ('  ' + e['note'] if e.get('note') else ''))
        if e.get('uncovered_functions'):
            o.append('  functions never entered:')
            for fu in e['uncovered_functions']:
                o.append(f'    {fu["start"]}-{fu["end"]}  {fu["name"]}')
        if e.get('no_counters'):
            o.append('  definitions without any counter (template never instantiated / inline never emitted; textual scan):')
            for fu in e['no_counters']:
                o.append(f'    {fu["line"]}  {fu["text"]}')
        if e.get('uncovered_ranges'):
            o.append('  uncovered lines:')
            for g in e['uncovered_ranges']:
                for i, t in enumerate(g['text']):
                    o.append(f'    {g["start"] + i:5d}| {t}')
                o.append('         ---')
        if e.get('lines_with_untaken_branches'):
            o.append('  executed lines with a branch never taken:')
            for b in e['lines_with_untaken_branches']:
                o.append(f'    {b["line"]:5d}| ({b["never_taken"]}) {b["text"]}')
    o.append('')
    o.append('other /repo files compiled by these harnesses (percentages only):')
    for r, e in summ['files'].items():
        if e['class'] == 'other' and e['lines_total'] >= 5:
            o.append(f'  {r:88s} {str(e["line_pct"]):>5s}% lines {str(e["branch_pct"]):>5s}% branches')
    with open(os.path.join(a.out, prop + '.txt'), 'w') as f:
        f.write('\n'.join(o) + '\n')
    print('\n'.join(o[:6 + sum(1 for e in summ['files'].values() if e['class'] != 'other') + 2]))
    print(f'-> {os.path.join(a.out, prop)}.json / .txt   total {time.time() - t0:.0f}s')


if __name__ == '__main__':
    main()
