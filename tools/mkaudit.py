#!/usr/bin/env python3
"""mkaudit.py - assembles coverage/AUDIT_A.md from coverage/AUDIT_HEAD.md, the before/after table (tools/covtable.py's data)
and the per-property files coverage/AUDIT_<P>.md (headings demoted by one level)."""
import io, os, re, subprocess, sys
V = os.path.dirname(os.path.dirname(os.path.abspath(__file__)))
ORDER = ['C04', 'C13', 'C05', 'C01', 'C02', 'C03', 'C10', 'C15', 'C16', 'C09', 'C14', 'C12', 'C20', 'C11']
out = [open(os.path.join(V, 'coverage', 'AUDIT_HEAD.md')).read().rstrip(), '']
out.append('## Before / after (seed 1, quick tier; lines / branches; branches exclude exception edges)\n')
out.append(subprocess.run([sys.executable, os.path.join(V, 'tools', 'covtable.py')] + ORDER, stdout=subprocess.PIPE, text=True).stdout)
for p in ORDER:
    f = os.path.join(V, 'coverage', f'AUDIT_{p}.md')
    if not os.path.exists(f):
        out.append(f'## {p}\n\n(no audit file)\n')
        continue
    txt = open(f).read().rstrip()
    txt = re.sub(r'^(#+) ', lambda m: '#' + m.group(1) + ' ', txt, flags=re.M)
    out.append('-' * 100 + '\n')
    out.append(txt + '\n')
extra = os.path.join(V, 'coverage', 'SELFVAL_C01_C03_C11.md')
if os.path.exists(extra):
    out.append('-' * 100 + '\n')
    out.append(re.sub(r'^(#+) ', lambda m: '#' + m.group(1) + ' ', open(extra).read().rstrip(), flags=re.M) + '\n')
open(os.path.join(V, 'coverage', 'AUDIT_A.md'), 'w').write('\n'.join(out))
print('coverage/AUDIT_A.md written')
