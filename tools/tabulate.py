#!/usr/bin/env python3
"""Complete graphs of small pure functions of the code -> Lean tables (lean/OtelVerif/Gen/Tab*.lean).

For a pure function whose domain is finite and small (a byte, a pair of bytes, a flags byte, all strings of length <= 3
over a small alphabet, ...) the complete graph IS the semantics.  On every run (wherever tools/extract.py runs) the two
tabulator programs harness/tab/tab_api.cc and harness/tab/tab_sdk.cc are compiled from the repo's CURRENT working tree
(plain g++ -O1, content-addressed cache keyed by the preprocessed translation units), call the real functions on their
whole domain and print the graphs; this module renders them as Lean definitions in `namespace Otel.Gen.Tab`.
`lean/OtelVerif/Props/Tab*.lean` proves, kernel-checked over the whole domain, that the hand-written model function equals
the table.  A rewrite of the C++ with the same behaviour yields the same table byte for byte (nothing is rebuilt, nothing
alarms); a semantic change changes an entry, the equality proof stops closing, and tools/tabdiff.py names the entry.

A tabulator that no longer compiles or runs against the tree is a broken tie: ExtractError (handled by the verdict logic).
"""
import hashlib, os, subprocess, sys, threading

HERE = os.path.dirname(os.path.abspath(__file__))
if HERE not in sys.path:
    sys.path.insert(0, HERE)
import extract as X  # noqa: E402

VERIF = os.path.dirname(HERE)
TABDIR = os.path.join(VERIF, 'harness', 'tab')
CACHE = os.path.join(VERIF, '.cache', 'tab')
CXX = os.environ.get('VERIF_CXX', 'g++')
FLAGS = ['-std=gnu++17', '-O1', '-DOPENTELEMETRY_ABI_VERSION_NO=1', '-Wno-deprecated-declarations']

# program -> (tabulator source, repo-relative sources linked with it, repo-relative include directories)
PROGRAMS = {
    'api': ('tab_api.cc', [], ['api/include']),
    'sdk': ('tab_sdk.cc', ['sdk/src/metrics/instrument_metadata_validator.cc', 'sdk/src/common/env_variables.cc',
                           'sdk/src/common/global_log_handler.cc'], ['api/include', 'sdk/include', 'sdk']),
}

# Lean fragment -> (program, tables in file order)
FRAGMENTS = {
    'TabHex': ('api', ['hexToInt', 'isValidHex1', 'hexToBinary1', 'hexToBinary2', 'hexToBinaryShort', 'traceIdLower', 'spanIdLower',
                       'flagsLower', 'flagsIsSampled', 'flagsIsRandom', 'tpVersion', 'tpFlagsByte', 'tpInjectFlags']),
    'TabKv': ('api', ['trimDrops', 'trimShort', 'trim3Short', 'kvTokSep', 'kvTokShort']),
    'TabTraceState': ('api', ['tsKey1', 'tsValue1', 'tsKey2', 'tsValue2']),
    'TabBaggage': ('api', ['bgEncode', 'bgDecode1', 'bgDecodePct1', 'bgDecodePct', 'bgValidKey1', 'bgValidValue1']),
    'TabB3': ('api', ['b3FlagsFromHex1', 'b3FlagsFromHexShort', 'b3InjectSingleChar', 'b3InjectMultiSampled', 'b3ExtractSingleFlag',
                      'b3ExtractMultiFlag', 'jaegerGetTraceFlags', 'jaegerInjectChar', 'jaegerExtractFlag1', 'jaegerExtractFlagByte']),
    'TabNaming': ('sdk', ['nameValid1', 'nameValidA', 'nameValidB', 'unitValid1', 'unitValidA', 'nameUnitLen']),
    'TabEnv': ('sdk', ['envBool', 'envDurUnit', 'envDurByte', 'envUintByte']),
}

DOC = {
    'hexToInt': '`detail::HexToInt(char)` as the uint8_t bit pattern (255 = -1)',
    'isValidHex1': '`detail::IsValidHex` on the one-byte string',
    'hexToBinary1': '`detail::HexToBinary` of the one-byte string into a 1-byte buffer: the buffer',
    'hexToBinary2': '`detail::HexToBinary` of the two-byte string into a 1-byte buffer: the buffer',
    'hexToBinaryShort': '`detail::HexToBinary`: input = buffer size (1|2) then a string over "0aF" of length <= 4; output = return value, buffer',
    'traceIdLower': '`TraceId::ToLowerBase16` of the id whose bytes are 16k, 16k+1, ..., 16k+15 (input = k < 16): the 32 characters',
    'spanIdLower': '`SpanId::ToLowerBase16` of the id whose bytes are 8k, 8k+1, ..., 8k+7 (input = k < 32): the 16 characters',
    'flagsLower': '`TraceFlags::ToLowerBase16`',
    'flagsIsSampled': '`TraceFlags::IsSampled`',
    'flagsIsRandom': '`TraceFlags::IsRandom`',
    'tpVersion': '`HttpTraceContext::Extract` of `VV-<tid>-<sid>-01<suffix>`: input = the two version bytes and the suffix selector '
                 '(0 none, 1 "-00", 2 "0"); output = flags byte of the installed context, 256 = nothing installed',
    'tpFlagsByte': '`HttpTraceContext::Extract` of a version-00 header whose flags field is the lower-case hex of the byte (256 = nothing installed)',
    'tpInjectFlags': '`HttpTraceContext::Inject`: the last two characters of the traceparent written for the flags byte',
    'trimDrops': '`StringUtil::Trim` of the one-byte string is empty (the white-space predicate really used)',
    'trimShort': '`StringUtil::Trim(str)` on every string of length <= 3 over {\\t space a NUL 85}',
    'trim3Short': '`StringUtil::Trim(str, left, right)`: input = left, right, then the string (length <= 3 over {\\t space a 85}, every window)',
    'kvTokSep': '`KeyValueStringTokenizer` (default options) on `a<byte>b`: NumTokens, then per `next`: 0 (invalid member) | 1, |key|, key, |value|, value',
    'kvTokShort': '`KeyValueStringTokenizer` (default options) on every string of length <= 3 over {, = space a ; NUL}: same encoding',
    'tsKey1': '`TraceState::IsValidKey` on the one-byte string',
    'tsValue1': '`TraceState::IsValidValue` on the one-byte string',
    'tsKey2': '`TraceState::IsValidKey` on the two-byte string',
    'tsValue2': '`TraceState::IsValidValue` on the two-byte string',
    'bgEncode': '`Baggage::UrlEncode` of the one-byte string',
    'bgDecode1': '`Baggage::UrlDecode` of the one-byte string: the byte, 256 = error, 258 = empty',
    'bgDecodePct1': '`Baggage::UrlDecode` of `%<byte>`: the byte, 256 = error',
    'bgDecodePct': '`Baggage::UrlDecode` of `%<a><b>`: the byte, 256 = error',
    'bgValidKey1': '`Baggage::IsValidKey` on the one-byte string',
    'bgValidValue1': '`Baggage::IsValidValue` on the one-byte string',
    'b3FlagsFromHex1': '`B3PropagatorExtractor::TraceFlagsFromHex` on the one-byte string',
    'b3FlagsFromHexShort': '`B3PropagatorExtractor::TraceFlagsFromHex` on every string of length <= 3 over "1d0t"',
    'b3InjectSingleChar': '`B3Propagator::Inject`: last character of the b3 header for the flags byte',
    'b3InjectMultiSampled': '`B3PropagatorMultiHeader::Inject`: value of X-B3-Sampled for the flags byte',
    'b3ExtractSingleFlag': '`B3Propagator::Extract` of `<tid>-<sid>-<byte>`: flags of the installed context, 256 = nothing installed',
    'b3ExtractMultiFlag': '`B3PropagatorMultiHeader::Extract` with X-B3-Sampled = the one-byte string',
    'jaegerGetTraceFlags': '`JaegerPropagator::GetTraceFlags`',
    'jaegerInjectChar': '`JaegerPropagator::Inject`: last character of uber-trace-id for the flags byte',
    'jaegerExtractFlag1': '`JaegerPropagator::Extract` of `<tid>:<sid>:0:<byte>`: flags of the installed context, 256 = nothing installed',
    'jaegerExtractFlagByte': '`JaegerPropagator::Extract` with the flags field = lower-case hex of the byte',
    'nameValid1': '`InstrumentMetaDataValidator::ValidateName` on the one-byte string',
    'nameValidA': '`ValidateName` on `a<byte>`',
    'nameValidB': '`ValidateName` on `<byte>a`',
    'unitValid1': '`ValidateUnit` on the one-byte string',
    'unitValidA': '`ValidateUnit` on `a<byte>`',
    'nameUnitLen': '`ValidateName`, `ValidateUnit` on `a` repeated n times: input = n as two bytes (high, low), n <= 260',
    'envBool': '`GetBoolEnvironmentVariable` (value preset to true): every case variant of true/false, the empty value, every one-byte '
               'value, near misses; output = return value, value',
    'envDurUnit': '`GetDurationEnvironmentVariable` (value preset to 12345 ns) on `1<unit>` for every unit of length <= 2 over [a-z] and '
                  'near misses; output = return value, value in ns',
    'envDurByte': '`GetDurationEnvironmentVariable` on `<b>`, `1<b>`, `<b>1` for every byte b != 0; output = return value, value in ns',
    'envUintByte': '`GetUintEnvironmentVariable` (value preset to 777, errno 0) on `<b>`, `1<b>` for every byte b != 0 and boundary '
                   'values; output = return value, value',
}

_lock = threading.Lock()
_memo = {}   # (repo, program) -> {table name: (kind, data)}


def _run(cmd, **kw):
    return subprocess.run(cmd, stdout=subprocess.PIPE, stderr=subprocess.PIPE, **kw)


def _compile(repo, src, incs, tag):
    """object file for `src`, keyed by sha256(preprocessed text + flags)"""
    cmd = [CXX] + FLAGS + incs
    pp = _run(cmd + ['-E', '-P', src])
    if pp.returncode != 0:
        raise X.ExtractError(f'tabulator {tag}: {os.path.basename(src)} does not preprocess against the tree: '
                             + pp.stderr.decode(errors='replace')[-1500:])
    key = hashlib.sha256(pp.stdout + b'\0' + ' '.join(FLAGS).encode()).hexdigest()[:32]
    obj = os.path.join(CACHE, key + '.o')
    if not os.path.exists(obj):
        tmp = obj + f'.tmp{os.getpid()}.{threading.get_ident()}'
        r = _run(cmd + ['-c', src, '-o', tmp])
        if r.returncode != 0:
            raise X.ExtractError(f'tabulator {tag}: {os.path.basename(src)} does not compile against the tree: '
                                 + r.stderr.decode(errors='replace')[-1500:])
        os.replace(tmp, obj)
    return obj, key


def build(repo, program):
    """returns the path of the tabulator binary for `program` built from `repo`'s working tree"""
    os.makedirs(CACHE, exist_ok=True)
    tsrc, sdk, incdirs = PROGRAMS[program]
    incs = ['-I' + os.path.join(repo, d) for d in incdirs] + ['-I' + TABDIR]
    srcs = [os.path.join(TABDIR, tsrc)] + [os.path.join(repo, s) for s in sdk]
    for s in srcs:
        if not os.path.exists(s):
            raise X.ExtractError(f'tabulator {program}: {s} is missing')
    res, errs = [None] * len(srcs), []

    def job(i):
        try:
            res[i] = _compile(repo, srcs[i], incs, program)
        except X.ExtractError as e:
            errs.append(str(e))
    ths = [threading.Thread(target=job, args=(i,)) for i in range(len(srcs))]
    for t in ths:
        t.start()
    for t in ths:
        t.join()
    if errs:
        raise X.ExtractError(errs[0])
    key = hashlib.sha256(' '.join(k for _, k in res).encode()).hexdigest()[:24]
    exe = os.path.join(CACHE, f'tab_{program}-{key}')
    if not os.path.exists(exe):
        tmp = exe + f'.tmp{os.getpid()}'
        r = _run([CXX] + [o for o, _ in res] + ['-pthread', '-o', tmp])
        if r.returncode != 0:
            raise X.ExtractError(f'tabulator {program}: link failed: ' + r.stderr.decode(errors='replace')[-1500:])
        os.replace(tmp, exe)
    return exe


def _parse(text):
    tabs = {}
    for ln in text.split('\n'):
        if not ln:
            continue
        t = ln.split(' ')
        kind, name, vals = t[0], t[1], t[2:]
        if kind in ('u8', 'nat'):
            data = [int(v) for v in vals]
        elif kind == 'bool':
            data = [v == '1' for v in vals]
        elif kind == 'bytes':
            data = [b'' if v == '-' else bytes.fromhex(v) for v in vals]
        elif kind == 'u8x2':
            data = [list(bytes.fromhex(v)) for v in vals]
        elif kind == 'boolx2':
            data = [[c == '1' for c in v] for v in vals]
        elif kind == 'natx2':
            data = [[int(x) for x in v.split(',')] for v in vals]
        elif kind == 'pairs':
            data = []
            for v in vals:
                i, _, o = v.partition(':')
                data.append((b'' if i == '-' else bytes.fromhex(i), [] if o == '-' else [int(x) for x in o.split(',')]))
        else:
            raise X.ExtractError(f'tabulator output: unknown table kind {kind!r}')
        if kind != 'pairs' and len(data) != 256 or kind.endswith('x2') and any(len(r) != 256 for r in data):
            raise X.ExtractError(f'tabulator output: table {name} is not complete')
        tabs[name] = (kind, data)
    return tabs


def tables(repo, program):
    """{table name: (kind, data)} of `program`, computed by the real code of `repo`'s working tree"""
    repo = os.path.abspath(repo)
    with _lock:
        if (repo, program) in _memo:
            return _memo[(repo, program)]
        exe = build(repo, program)
        outp = exe + '.out'
        if os.path.exists(outp):
            text = open(outp).read()
        else:
            env = dict(os.environ)
            env['LC_ALL'] = 'C'
            try:
                r = _run([exe], env=env, timeout=120)
            except subprocess.TimeoutExpired:
                raise X.ExtractError(f'tabulator {program}: did not finish within 120 s')
            if r.returncode != 0:
                raise X.ExtractError(f'tabulator {program}: exit {r.returncode}: ' + r.stderr.decode(errors='replace')[-800:])
            text = r.stdout.decode('ascii')
            tmp = outp + f'.tmp{os.getpid()}'
            with open(tmp, 'w') as f:
                f.write(text)
            os.replace(tmp, outp)
        tabs = _parse(text)
        _memo[(repo, program)] = tabs
        return tabs


# ---------------------------------------------------------------------------------------------------------------------
# rendering

def _bytes(bs):
    return '[' + ', '.join(str(b) for b in bs) + ']'


def _rownat(vals, bits):
    n = 0
    for i, v in enumerate(vals):
        assert 0 <= v < (1 << bits)
        n |= v << (bits * i)
    return hex(n)


def _chunks(entries, per=16):
    """entries: list of (input bytes, output naturals) -> (digit width, Lean list of (digit count, numeral))"""
    top = max([0] + [max([len(i), len(o)] + list(i) + list(o)) for i, o in entries])
    w = 8 if top < 2 ** 8 else 16 if top < 2 ** 16 else 64
    assert top < 2 ** 64
    out = []
    for k in range(0, len(entries), per):
        ds = []
        for i, o in entries[k:k + per]:
            ds += [len(i)] + list(i) + [len(o)] + list(o)
        out.append(f'({len(ds)}, {_rownat(ds, w)})')
    return w, '[' + ',\n  '.join(out) + ']'


def render_table(name, kind, data):
    doc = f'/-- {DOC[name]} -/\n' if name in DOC else ''
    if kind == 'u8':
        return (f'def {name}Row : Nat := {_rownat(data, 8)}\n' + doc +
                f'def {name} (b : UInt8) : UInt8 := Otel.TabS.val8 {name}Row b\n')
    if kind == 'nat':
        return (f'def {name}Row : Nat := {_rownat(data, 16)}\n' + doc +
                f'def {name} (b : UInt8) : Nat := Otel.TabS.val16 {name}Row b\n')
    if kind == 'bool':
        return (f'def {name}Bits : Nat := {_rownat([1 if v else 0 for v in data], 1)}\n' + doc +
                f'def {name} (b : UInt8) : Bool := Otel.TabS.bit1 {name}Bits b\n')
    if kind == 'bytes':
        w, body = _chunks([(v, []) for v in data])
        return (f'def {name}Chunks : List (Nat × Nat) := {body}\n' + doc +
                f'def {name}Tab : List (List UInt8) := Otel.TabS.unpackBytes {w} {name}Chunks\n'
                f'def {name} (b : UInt8) : List UInt8 := {name}Tab.getD b.toNat []\n')
    if kind == 'u8x2':
        return (f'-- row a = the 256 bytes for b = 0..255, little end first, as one natural number\n'
                f'def {name}Rows : List Nat := [' + ',\n  '.join(_rownat(r, 8) for r in data) + ']\n' + doc +
                f'def {name} (a b : UInt8) : UInt8 := Otel.TabS.at8 {name}Rows a b\n')
    if kind == 'boolx2':
        return (f'-- row a = bit b is the value at (a, b)\n'
                f'def {name}Rows : List Nat := [' + ',\n  '.join(_rownat([1 if v else 0 for v in r], 1) for r in data) + ']\n' + doc +
                f'def {name} (a b : UInt8) : Bool := Otel.TabS.bit {name}Rows a b\n')
    if kind == 'natx2':
        return (f'-- row a = 16 bits per entry, b = 0 first\n'
                f'def {name}Rows : List Nat := [' + ',\n  '.join(_rownat(r, 16) for r in data) + ']\n' + doc +
                f'def {name} (a b : UInt8) : Nat := Otel.TabS.at16 {name}Rows a b\n')
    if kind == 'pairs':
        w, body = _chunks(data)
        return (f'def {name}Chunks : List (Nat × Nat) := {body}\n' + doc +
                f'def {name} : List (List UInt8 × List Nat) := Otel.TabS.unpack {w} {name}Chunks\n')
    raise X.ExtractError(f'unknown table kind {kind}')


HDR = ('/- GENERATED by tools/tabulate.py on every check run: complete graphs of functions of the working tree, computed by\n'
       '   calling the real code (harness/tab/*.cc) on its whole domain. Do not edit. -/\n')


def render_fragment(repo, frag):
    program, names = FRAGMENTS[frag]
    tabs = tables(repo, program)
    out = [HDR, 'import OtelVerif.Model.TabSupport\nnamespace Otel.Gen.Tab\n']
    for n in names:
        if n not in tabs:
            raise X.ExtractError(f'tabulator {program}: table {n} was not produced')
        out.append(render_table(n, *tabs[n]))
    out.append('end Otel.Gen.Tab\n')
    return '\n'.join(out)


def _register():
    for frag in FRAGMENTS:
        X.gen(frag)(lambda repo, _f=frag: render_fragment(repo, _f))


_register()


if __name__ == '__main__':
    repo = sys.argv[1] if len(sys.argv) > 1 else '/repo'
    for p in PROGRAMS:
        t = tables(repo, p)
        print(p, {k: v[0] for k, v in t.items()})
