#!/usr/bin/env python3
"""Re-run detection for every seeded change under /verif/seeded (after the generators or harnesses changed), a few at a time,
each worker with its own scratch worktree of /repo HEAD.  Prints one line per change and a summary; exit 1 if one is missed.

  seedregress.py [-j N] [id ...]
"""
import json, os, subprocess, sys
from concurrent.futures import ThreadPoolExecutor

VERIF = os.path.dirname(os.path.dirname(os.path.abspath(__file__)))


def main():
    args = sys.argv[1:]
    j = 4
    if args[:1] == ['-j']:
        j = int(args[1]); args = args[2:]
    ids = args or sorted(d for d in os.listdir(os.path.join(VERIF, 'seeded')) if os.path.isfile(os.path.join(VERIF, 'seeded', d, 'patch.diff')))
    queue = list(ids)
    results = {}

    def worker(k):
        env = dict(os.environ, SEED_SCRATCH=f'/tmp/mutrepo_{os.getpid()}_r{k}')
        while queue:
            try:
                sid = queue.pop(0)
            except IndexError:
                return
            p = subprocess.run(['python3', os.path.join(VERIF, 'tools', 'seedcheck.py'), 'detect', os.path.join(VERIF, 'seeded', sid)],
                               cwd=VERIF, env=env, stdout=subprocess.PIPE, stderr=subprocess.STDOUT, text=True)
            try:
                r = json.loads(p.stdout[p.stdout.index('{'):])
                v = [(pid, x.get('violation'), x.get('wall_s')) for pid, x in (r.get('checks') or {}).items()]
            except Exception:
                v = [('?', None, None)]
            results[sid] = v
            print(sid, '; '.join(f"{pid}: {'caught' if viol else 'MISSED'}{' (no failing input)' if viol and 'no-failing-input' in viol else ''} {w}s" for pid, viol, w in v), flush=True)

    with ThreadPoolExecutor(j) as ex:
        list(ex.map(worker, range(j)))
    missed = [s for s, v in results.items() if not all(viol for _, viol, _ in v)]
    nofail = [s for s, v in results.items() if any(viol and 'no-failing-input' in viol for _, viol, _ in v)]
    print(f'{len(results)} changes, {len(missed)} missed {missed}, {len(nofail)} without a failing input {nofail}')
    for k in range(j):
        subprocess.run(f'git -C /repo worktree remove --force /tmp/mutrepo_{os.getpid()}_r{k}', shell=True, stdout=subprocess.DEVNULL, stderr=subprocess.DEVNULL)
    sys.exit(1 if missed else 0)


if __name__ == '__main__':
    main()
