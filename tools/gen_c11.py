import extract as X


@X.gen('SpinLock')
def gen_spinlock(repo):
    rel = 'api/include/opentelemetry/common/spin_lock_mutex.h'
    txt = X._strip_comments(X._read(repo, rel))
    out = [X.HDR, 'namespace Otel.Gen\n']
    out.append(f'def spinFastIterations : Nat := {X._int_const(txt, "SPINLOCK_FAST_ITERATIONS")}\n')
    # structural markers of lock()/try_lock()/unlock() the model mirrors
    need = [
        (r'bool\s+try_lock\s*\(\s*\)\s*noexcept\s*\{\s*return\s*!\s*flag_\.load\s*\([^)]*\)\s*&&\s*!\s*flag_\.exchange\s*\(\s*true\s*,[^)]*\)\s*;', 'try_lock = !load && !exchange(true)'),
        (r'void\s+unlock\s*\(\s*\)\s*noexcept\s*\{\s*flag_\.store\s*\(\s*false\s*,', 'unlock = store(false)'),
        (r'if\s*\(\s*!\s*flag_\.exchange\s*\(\s*true\s*,[^)]*\)\s*\)\s*\{\s*return\s*;', 'lock: first exchange'),
        (r'for\s*\(\s*std::size_t\s+i\s*=\s*0\s*;\s*i\s*<\s*SPINLOCK_FAST_ITERATIONS\s*;\s*\+\+i\s*\)', 'lock: fast loop'),
        (r'std::this_thread::yield\s*\(\s*\)\s*;\s*if\s*\(\s*try_lock\s*\(\s*\)\s*\)', 'lock: yield then try_lock'),
        (r'std::this_thread::sleep_for', 'lock: sleep'),
    ]
    import re
    for pat, what in need:
        if not re.search(pat, txt, re.S):
            raise X.ShapeChanged(f'{rel}: structure changed ({what})')
    out.append('end Otel.Gen\n')
    return '\n'.join(out)


@X.gen('Ring')
def gen_ring(repo):
    rel = 'sdk/include/opentelemetry/sdk/common/circular_buffer.h'
    txt = X._strip_comments(X._read(repo, rel))
    import re
    out = [X.HDR, 'namespace Otel.Gen\n']
    # capacity_ = max_size + 1 ; full test head - tail >= capacity_ - 1
    m = re.search(r'capacity_\s*\{\s*max_size\s*\+\s*(\d+)\s*\}', txt)
    if not m:
        raise X.ShapeChanged(f'{rel}: capacity_{{max_size + k}} not found')
    out.append(f'def ringCapacitySlack : Nat := {int(m.group(1))}\n')
    m = re.search(r'if\s*\(\s*head\s*-\s*tail\s*>=\s*capacity_\s*-\s*(\d+)\s*\)\s*\{\s*return\s+false\s*;', txt)
    if not m:
        raise X.ShapeChanged(f'{rel}: full test `head - tail >= capacity_ - k` not found')
    out.append(f'def ringFullSlack : Nat := {int(m.group(1))}\n')
    out.append('end Otel.Gen\n')
    return '\n'.join(out)
