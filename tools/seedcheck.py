#!/usr/bin/env python3
"""Self-validation against seeded changes.

  seedcheck.py detect  <seed-dir> [...]   apply <seed-dir>/patch.diff to a scratch worktree of /repo HEAD, run the affected
                                          property's quick check with VERIF_REPO pointing there, record the verdict
  seedcheck.py confirm <seed-dir> <prebuilt-tree>   apply the patch in a pre-built scratch tree, rebuild, run the existing
                                          suite, run the demonstration (commands of RUN.md) with and without the patch

Nothing is ever applied to /repo itself.  Results are appended to seeded/RESULTS.jsonl.
"""
import json, os, re, subprocess, sys, time

VERIF = os.path.dirname(os.path.dirname(os.path.abspath(__file__)))
SCRATCH = os.environ.get('SEED_SCRATCH', '/tmp/mutrepo')      # one detection at a time per scratch tree


def sh(cmd, cwd=None, timeout=3600, env=None):
    p = subprocess.run(cmd, shell=True, cwd=cwd, stdout=subprocess.PIPE, stderr=subprocess.STDOUT, text=True, timeout=timeout, env=env)
    return p.returncode, p.stdout


def ensure_scratch():
    if not os.path.isdir(SCRATCH):
        rc, out = sh(f'git -C /repo worktree add -q --detach {SCRATCH} HEAD')
        if rc:
            raise SystemExit(out)
    sh('git reset -q --hard && git clean -fdq', cwd=SCRATCH)
    sh('git checkout -q --detach $(git -C /repo rev-parse HEAD)', cwd=SCRATCH)


def detect(seed_dir, props=None, tier='quick'):
    meta = json.load(open(os.path.join(seed_dir, 'meta.json'))) if os.path.exists(os.path.join(seed_dir, 'meta.json')) else {}
    name = os.path.basename(seed_dir.rstrip('/'))
    prop = (meta.get('property') or name.split('-')[0])[:3]
    ensure_scratch()
    patch = os.path.join(seed_dir, 'patch.diff')
    rc, out = sh(f'git apply --3way {patch} || git apply {patch}', cwd=SCRATCH)
    rc2, st = sh('git status --short | head', cwd=SCRATCH)
    if rc != 0:
        res = {'seed': name, 'property': prop, 'applied': False, 'note': out[-400:]}
        print(json.dumps(res)); return res
    results = {}
    for pid in (props or [prop]):
        os.makedirs('/tmp/seed/evidence' + os.path.basename(SCRATCH), exist_ok=True)
        env = dict(os.environ, VERIF_REPO=SCRATCH, VERIF_SEED=os.environ.get('VERIF_SEED', '1'), VERIF_EVIDENCE_DIR='/tmp/seed/evidence' + os.path.basename(SCRATCH))
        t0 = time.time()
        rc, out = sh(f'python3 check.py {pid} --tier {tier}', cwd=VERIF, env=env, timeout=3000)
        viol = [l for l in out.split('\n') if l.startswith('VIOLATION')]
        replay = None
        detail = None
        if viol:
            m = re.search(r'replay=(\S+)', viol[0])
            if m and os.path.exists(m.group(1)):
                rp = json.load(open(m.group(1)))
                replay = rp.get('case') or rp.get('theorem_or_correspondence')
                if os.path.abspath(seed_dir).startswith(os.path.join(VERIF, 'seeded') + os.sep):
                    # keep the whole replay next to the change (RESULTS.jsonl only has its first 300 characters)
                    json.dump({k: rp.get(k) for k in ('property', 'kind', 'harness', 'case', 'oracle_clause', 'detail', 'signature')},
                              open(os.path.join(seed_dir, f'replay_{pid}.json'), 'w'), indent=1)
                detail = {k: rp.get(k) for k in ('kind', 'oracle_clause', 'detail', 'observed') if rp.get(k) is not None}
        results[pid] = {'exit': rc, 'violation': viol[0] if viol else None, 'replay_case': str(replay)[:300], 'detail': str(detail)[:400], 'wall_s': round(time.time() - t0, 1)}
    sh('git reset -q --hard && git clean -fdq', cwd=SCRATCH)
    res = {'seed': name, 'property': prop, 'applied': True, 'summary': meta.get('summary', '')[:200], 'checks': results}
    with open(os.path.join(VERIF, 'seeded', 'RESULTS.jsonl'), 'a') as f:
        f.write(json.dumps(res) + '\n')
    print(json.dumps(res, indent=1))
    return res


def demo_commands(seed_dir, tree):
    """how to build and run the demonstration: run_demo.sh when the seeding agent wrote one, else the g++ command(s) found
    in RUN.md / build.sh followed by the produced executable"""
    rd = os.path.join(seed_dir, 'run_demo.sh')
    if os.path.exists(rd):
        return f'bash {rd}'
    txt = ''
    for fn in ('build.sh', 'RUN.md'):
        p = os.path.join(seed_dir, fn)
        if os.path.exists(p):
            txt += open(p).read() + '\n'
    txt = re.sub(r'\\\n\s*', ' ', txt)                       # join continuation lines
    cmds = []
    outs = []
    for m in re.finditer(r'^\s*(?:\$ )?(g\+\+ [^\n]*)$', txt, re.M):
        c = m.group(1).strip().rstrip('`')
        if c not in cmds:
            cmds.append(c)
            mo = re.search(r'-o\s+(\S+)', c)
            if mo:
                outs.append(mo.group(1))
    if not cmds:
        return None
    cmds = cmds[:1]; outs = outs[:1]
    line = ' && '.join(cmds) + ' && ' + ' && '.join((o if o.startswith('/') else './' + o) for o in outs)
    return re.sub(r'/tmp/seed/\d+/repo', tree, line)


def confirm(seed_dir, tree):
    name = os.path.basename(seed_dir.rstrip('/'))
    patch = os.path.join(seed_dir, 'patch.diff')
    cmds = demo_commands(seed_dir, tree)
    out = {'seed': name, 'tree': tree}
    sh('git checkout -q -- .', cwd=tree)
    rc, o = sh(f'git apply {patch}', cwd=tree)
    out['applies'] = rc == 0
    rc, o = sh('cmake --build _build -j12 2>&1 | tail -3', cwd=tree, timeout=3000)
    out['builds'] = 'FAILED' not in o and 'error:' not in o
    rc, o = sh('ctest --test-dir _build -j8 --timeout 300 2>&1 | tail -6', cwd=tree, timeout=3000)
    out['suite'] = re.search(r'(\d+)% tests passed, (\d+) tests failed out of (\d+)', o).group(0) if re.search(r'tests passed', o) else o[-200:]
    if cmds:
        rc, o = sh(cmds, cwd=tree, timeout=1200)
        out['demo_with_patch'] = {'rc': rc, 'tail': o[-300:]}
        out['demo_cmd'] = cmds[:300]
    sh('git checkout -q -- .', cwd=tree)
    rc, o = sh('cmake --build _build -j12 2>&1 | tail -2', cwd=tree, timeout=3000)
    if cmds:
        rc, o = sh(cmds, cwd=tree, timeout=1200)
        out['demo_without_patch'] = {'rc': rc, 'tail': o[-300:]}
    with open(os.path.join(VERIF, 'seeded', 'CONFIRM.jsonl'), 'a') as f:
        f.write(json.dumps(out) + '\n')
    print(json.dumps(out, indent=1))


if __name__ == '__main__':
    os.makedirs(os.path.join(VERIF, 'seeded'), exist_ok=True)
    if sys.argv[1] == 'detect':
        for d in sys.argv[2:]:
            detect(d)
    elif sys.argv[1] == 'confirm':
        confirm(sys.argv[2], sys.argv[3])
