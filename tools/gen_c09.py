"""Generated fragment for C09 (W3C trace context): the two header names -> lean/OtelVerif/Gen/TraceHeaders.lean.

`HttpTraceContext::Fields()` reports them, `Inject` writes them, `Extract` reads them; re-extracted from the working tree on
every run (the sizes, digit tables and version constants of the same header are in Gen/Hex.lean, tools/extract.py)."""
import re
import extract as X

HTC = 'api/include/opentelemetry/trace/propagation/http_trace_context.h'


def _sv_const(txt, name):
    m = X._one(r'\b' + re.escape(name) + r'\s*=\s*"((?:[^"\\]|\\.)*)"\s*;', txt, name)
    return X._c_string_literal(m.group(1))


@X.gen('TraceHeaders')
def gen_trace_headers(repo):
    txt = X._strip_comments(X._read(repo, HTC))
    out = [X.HDR, 'namespace Otel.Gen\n']
    for lean, c in (('tcTraceParentHeader', 'kTraceParent'), ('tcTraceStateHeader', 'kTraceState')):
        out.append(f'/-- `{c}` of `{HTC}` -/\ndef {lean} : List UInt8 := {X.lean_bytes(_sv_const(txt, c))}\n')
    # Fields(): the order in which the names are offered to the callback
    m = X._one(r'bool\s+Fields\s*\([^{;]*?\)\s*const\s+noexcept\s+override\s*\{\s*return\s*\(?\s*callback\((\w+)\)\s*&&\s*callback\((\w+)\)\s*\)?\s*;',
               txt, 'Fields(): return callback(a) && callback(b)')
    names = {'kTraceParent': 'tcTraceParentHeader', 'kTraceState': 'tcTraceStateHeader'}
    if m.group(1) not in names or m.group(2) not in names:
        raise X.ExtractError('Fields(): unexpected header constants ' + m.group(1) + ', ' + m.group(2))
    out.append(f'/-- the names `Fields()` offers, in order -/\ndef tcFieldNames : List (List UInt8) := [{names[m.group(1)]}, {names[m.group(2)]}]\n')
    out.append('end Otel.Gen\n')
    return '\n'.join(out)
