"""Generated tie for the get-or-create lock-protocol model of C19 (Model/GetScopeLock.lean): the facts of the source text
the model's step structure stands on, re-extracted on every run.
   -> lean/OtelVerif/Gen/GetScopeLock.lean
For each of TracerProvider::GetTracer, MeterProvider::GetMeter, LoggerProvider::GetLogger: ONE lock guard on `lock_`,
declared at the function's top brace level before the first use of the provider's list, never released early; one loop over
the list that returns from inside, then one append at the top level.  Only this discipline is extracted - not the
formatting, not the statements in between."""
import re
import extract as X
import gen_c04race as R

# (file, class, function, regex of a use of the list, regex of the loop over the list, regex of the append)
SITES = [
    ('sdk/src/trace/tracer_provider.cc', 'TracerProvider', 'GetTracer', r'\btracers_\b',
     r'for\s*\(\s*(?:const\s+)?auto\s*&\s*\w+\s*:\s*tracers_\s*\)', r'\btracers_\s*\.\s*(?:push_back|emplace_back)\s*\('),
    ('sdk/src/metrics/meter_provider.cc', 'MeterProvider', 'GetMeter', r'\bcontext_\s*->\s*(?:GetMeters|AddMeter)\b',
     r'for\s*\(\s*(?:const\s+)?auto\s*&\s*\w+\s*:\s*context_\s*->\s*GetMeters\s*\(\s*\)\s*\)', r'\bcontext_\s*->\s*AddMeter\s*\('),
    ('sdk/src/logs/logger_provider.cc', 'LoggerProvider', 'GetLogger', r'\bloggers_\b',
     r'for\s*\(\s*(?:const\s+)?auto\s*&\s*\w+\s*:\s*loggers_\s*\)', r'\bloggers_\s*\.\s*(?:push_back|emplace_back)\s*\('),
]


def body_of(repo, rel, cls, fn):
    txt = X._strip_comments(X._read(repo, rel))
    txt = re.sub(r'(?m)^[ \t]*#.*$', '', txt)          # the signature sits in an #if / #else on the ABI version
    bodies = [b for n, b in R.functions(txt, cls) if n == fn]
    if not bodies:
        raise X.ExtractError(f'{rel}: {cls}::{fn} not found')
    if any(b != bodies[0] for b in bodies):
        raise X.ExtractError(f'{rel}: several different definitions of {cls}::{fn}')
    return bodies[0]


def block_end(body, start):
    """index of the `}` matching the first `{` at or after `start`"""
    k = body.index('{', start)
    depth, e = 0, k
    while e < len(body):
        if body[e] == '{':
            depth += 1
        elif body[e] == '}':
            depth -= 1
            if depth == 0:
                return e
        e += 1
    return len(body)


def site_facts(body, use_re, loop_re, app_re):
    guards = list(re.finditer(R.GUARD % 'lock_', body))
    uses = [m.start() for m in re.finditer(use_re, body)]
    g = guards[0] if guards else None
    before = bool(g) and bool(uses) and g.start() < min(uses) and R.depth_at(body, g.start()) == 1
    names = set(re.findall(r'std::(?:lock_guard|unique_lock|scoped_lock)\s*<\s*std::mutex\s*>\s*(\w+)', body))
    released = any(re.search(r'\b' + n + r'\s*\.\s*(?:unlock|release|lock|try_lock|swap)\s*\(', body) for n in names) or \
        re.search(r'\block_\s*\.\s*(?:unlock|lock|try_lock)\b', body)
    held = len(guards) == 1 and not released
    loops = list(re.finditer(loop_re, body))
    apps = list(re.finditer(app_re, body))
    shape = False
    if g and len(loops) == 1 and len(apps) == 1 and g.start() < loops[0].start() and R.depth_at(body, loops[0].start()) == 1:
        e = block_end(body, loops[0].end())
        inner = body[loops[0].end():e]
        shape = bool(re.search(r'\breturn\b', inner)) and e < apps[0].start() and R.depth_at(body, apps[0].start()) == 1
    return before, held, shape


@X.gen('GetScopeLock')
def gen_getscope_lock(repo):
    before, held, shape = True, True, True
    names = []
    for rel, cls, fn, use_re, loop_re, app_re in SITES:
        f = site_facts(body_of(repo, rel, cls, fn), use_re, loop_re, app_re)
        if f[0] and f[1] and not f[2]:
            # the guard is where it was and held to the return, but the look-up is not spelled as a loop with a return inside
            # any more (std::find_if, a helper): a change of shape - that the same key yields the same object under every
            # interleaving is what the get-or-create schedules under the scheduler observe; the committed fact is kept
            raise X.ShapeChanged(f'{rel}: {cls}::{fn}: look-up / append under the guard no longer has the loop-with-return shape')
        before, held, shape = before and f[0], held and f[1], shape and f[2]
        names.append(f'{cls}::{fn}')
    # the meter list lives in MeterContext: GetMeters is a view of meters_, AddMeter appends to it
    rel = 'sdk/src/metrics/meter_context.cc'
    txt = re.sub(r'(?m)^[ \t]*#.*$', '', X._strip_comments(X._read(repo, rel)))
    fns = dict(R.functions(txt, 'MeterContext'))
    for must in ('GetMeters', 'AddMeter'):
        if must not in fns:
            raise X.ExtractError(f'{rel}: MeterContext::{must} not found')
    ctx = bool(re.search(r'\bmeters_\b', fns['GetMeters'])) and not re.search(r'\bmeters_\s*\.\s*(?:push_back|emplace_back|erase|clear|swap)\b', fns['GetMeters']) \
        and len(re.findall(r'\bmeters_\s*\.\s*(?:push_back|emplace_back)\s*\(', fns['AddMeter'])) == 1
    b2l = lambda v: 'true' if v else 'false'
    return X.HDR + 'namespace Otel.Gen\n' + \
        f'/-- {", ".join(names)}: a lock guard on `lock_` is declared at the top brace level before the first use of the provider\'s list -/\n' + \
        f'def getScopeGuardBeforeFirstUse : Bool := {b2l(before)}\n' + \
        '/-- it is the only guard on `lock_` in the function and nothing releases (or re-acquires) it before the return -/\n' + \
        f'def getScopeOneGuardHeldToReturn : Bool := {b2l(held)}\n' + \
        '/-- under the guard: one loop over the list that returns from inside, then one append at the top level -/\n' + \
        f'def getScopeLookupThenOneAppend : Bool := {b2l(shape)}\n' + \
        '/-- `MeterContext::GetMeters` is a view of `meters_`, `MeterContext::AddMeter` appends to it once -/\n' + \
        f'def getScopeMeterListIsContextMeters : Bool := {b2l(ctx)}\n' + 'end Otel.Gen\n'
