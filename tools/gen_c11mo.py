"""Gen/MemOrder.lean: the C++ memory order written at every atomic operation of spin_lock_mutex.h, atomic_unique_ptr.h and
circular_buffer.h (C11 sub-check `props/c11_mem.py`).

For every occurrence of an atomic member (`flag_`, `ptr_`, `head_`, `tail_`) inside a member function the operation is
classified (explicit member call, compound assignment / increment = fetch_add, assignment = store, anything else = an
implicit conversion = load) and the `std::memory_order_*` arguments are read; an operation without an order argument is
`seq_cst` ([atomics.types.operations]).  The set of (function, object, operation) triples must be exactly the one the
models were written for: a missing, an additional or a duplicated operation, an atomic member that is new, an address-of
/ free-function access the scan cannot follow, or a fence, raise ExtractError (= a broken tie).  White space, line
breaks, local variable names, `std::memory_order::x` vs `std::memory_order_x`, `compare_exchange_strong` vs `_weak` and
explicit `.load()` / `.fetch_add()` for the implicit forms do not matter."""
import re
import extract as X

ORDERS = {'relaxed': 0, 'consume': 1, 'acquire': 2, 'release': 3, 'acq_rel': 4, 'seq_cst': 5}
NAMES = {v: k for k, v in ORDERS.items()}
KEYWORDS = {'if', 'for', 'while', 'switch', 'catch', 'return', 'sizeof', 'assert', 'static_assert', 'noexcept', 'decltype'}
RMW_CALLS = {'fetch_add': 'fetch_add', 'fetch_sub': 'fetch_add', 'fetch_or': 'fetch_add', 'fetch_and': 'fetch_add', 'fetch_xor': 'fetch_add'}

# header -> (atomic members, {(function, object, op): Lean name}); op `cas` yields two names (success, failure)
SPIN = 'api/include/opentelemetry/common/spin_lock_mutex.h'
AUP = 'sdk/include/opentelemetry/sdk/common/atomic_unique_ptr.h'
RING = 'sdk/include/opentelemetry/sdk/common/circular_buffer.h'
EXPECT = {
    SPIN: ({'flag_'}, {
        ('try_lock', 'flag_', 'load'): 'moSpinTryLoad',
        ('try_lock', 'flag_', 'exchange'): 'moSpinTryXchg',
        ('lock', 'flag_', 'exchange'): 'moSpinLockXchg',
        ('unlock', 'flag_', 'store'): 'moSpinUnlockStore',
    }),
    AUP: ({'ptr_'}, {
        ('Get', 'ptr_', 'load'): 'moSlotGetLoad',
        ('IsNull', 'ptr_', 'load'): 'moSlotIsNullLoad',
        ('SwapIfNull', 'ptr_', 'cas'): ('moSlotCasOk', 'moSlotCasFail'),
        ('Swap', 'ptr_', 'exchange'): 'moSlotSwapXchg',
        ('Reset', 'ptr_', 'exchange'): 'moSlotResetXchg',
    }),
    RING: ({'head_', 'tail_'}, {
        ('Add', 'tail_', 'load'): 'moRingAddLoadTail',
        ('Add', 'head_', 'load'): 'moRingAddLoadHead',
        ('Add', 'head_', 'cas'): ('moRingHeadCasOk', 'moRingHeadCasFail'),
        ('Consume', 'tail_', 'fetch_add'): 'moRingConsumeFaddTail',
        ('PeekImpl', 'tail_', 'load'): 'moRingPeekLoadTail',
        ('PeekImpl', 'head_', 'load'): 'moRingPeekLoadHead',
        ('size', 'tail_', 'load'): 'moRingSizeLoadTail',
        ('size', 'head_', 'load'): 'moRingSizeLoadHead',
        ('empty', 'tail_', 'load'): 'moRingEmptyLoadTail',
        ('empty', 'head_', 'load'): 'moRingEmptyLoadHead',
        ('consumption_count', 'tail_', 'load'): 'moRingConsumptionLoadTail',
        ('production_count', 'head_', 'load'): 'moRingProductionLoadHead',
    }),
}
# operations that only exist inside `assert(...)` (compiled out under NDEBUG): accepted zero or one time, not modelled
OPTIONAL = {(RING, ('Consume', 'head_', 'load')), (RING, ('Consume', 'tail_', 'load'))}


def _match_paren(txt, i):
    """txt[i] == '(' -> index of the matching ')'"""
    depth = 0
    for j in range(i, len(txt)):
        c = txt[j]
        if c in '([{':
            depth += 1
        elif c in ')]}':
            depth -= 1
            if depth == 0:
                return j
    raise X.ExtractError('unbalanced parentheses')


def _split_args(s):
    out, depth, cur = [], 0, []
    for c in s:
        if c in '([{':
            depth += 1
        if c in ')]}':
            depth -= 1
        if c == ',' and depth == 0:
            out.append(''.join(cur)); cur = []
        else:
            cur.append(c)
    if ''.join(cur).strip():
        out.append(''.join(cur))
    return [a.strip() for a in out]


def _order_of(arg, where):
    m = re.fullmatch(r'(?:std\s*::\s*)?memory_order(?:_|\s*::\s*)(\w+)', arg)
    if not m:
        return None
    if m.group(1) not in ORDERS:
        raise X.ExtractError(f'{where}: unknown memory order {arg}')
    return ORDERS[m.group(1)]


def _blocks(txt):
    """[(open, close)] of every {...}"""
    st, out = [], []
    for i, c in enumerate(txt):
        if c == '{':
            st.append(i)
        elif c == '}':
            if not st:
                raise X.ExtractError('unbalanced braces')
            out.append((st.pop(), i))
    if st:
        raise X.ExtractError('unbalanced braces')
    return sorted(out)


FUNC_HDR = re.compile(r'(~?[A-Za-z_]\w*)\s*\((?:[^()]|\((?:[^()]|\([^()]*\))*\))*\)\s*(?:const\s*)?(?:noexcept\s*)?(?:override\s*)?$')


def _enclosing_function(txt, blocks, pos):
    """name of the outermost function-like block around pos (member function; lambdas and control blocks are skipped)"""
    for o, c in blocks:
        if o < pos < c:
            j = o
            # the header: back to the previous ';', '{' or '}' (constructor initialiser lists are not needed here)
            k = max(txt.rfind(';', 0, j), txt.rfind('{', 0, j), txt.rfind('}', 0, j))
            hdr = txt[k + 1:j].strip()
            m = FUNC_HDR.search(hdr)
            if m and m.group(1) not in KEYWORDS:
                return m.group(1)
    return None


def scan(rel, txt, members):
    """[(function, object, op, [orders])] in source order"""
    where = rel.rsplit('/', 1)[-1]
    decl = set(re.findall(r'std\s*::\s*atomic\s*<[^;{}()]*>\s*(\w+)\s*[{;=(]', txt))
    if decl != members:
        raise X.ExtractError(f'{where}: atomic members are {sorted(decl)}, the model was written for {sorted(members)}')
    if re.search(r'atomic_thread_fence|atomic_signal_fence|atomic_(load|store|exchange|compare_exchange|fetch)\w*\s*\(', txt):
        raise X.ExtractError(f'{where}: a fence or a free-function atomic access is used: not modelled')
    blocks = _blocks(txt)
    found = []
    for m in re.finditer(r'\b(' + '|'.join(sorted(members)) + r')\b', txt):
        obj, pos, end = m.group(1), m.start(), m.end()
        fn = _enclosing_function(txt, blocks, pos)
        before = txt[:pos].rstrip()
        if fn is None:
            # the member declaration or a constructor initialiser: initialisation is not an atomic operation
            continue
        if before.endswith('&') and not before.endswith('&&'):
            raise X.ExtractError(f'{where}: address of / reference to {obj} taken in {fn}: not modelled')
        after = txt[end:]
        in_assert = bool(re.search(r'\bassert\s*\([^;]*$', txt[txt.rfind(';', 0, pos) + 1:pos]))
        mc = re.match(r'\s*\.\s*(\w+)\s*\(', after)
        if mc:
            call = mc.group(1)
            a0 = end + mc.end() - 1
            a1 = _match_paren(txt, a0)
            args = _split_args(txt[a0 + 1:a1])
            orders = [o for o in (_order_of(a, f'{where}:{fn}') for a in args) if o is not None]
            if call == 'load':
                op, n = 'load', 1
            elif call == 'store':
                op, n = 'store', 1
            elif call == 'exchange':
                op, n = 'exchange', 1
            elif call in ('compare_exchange_weak', 'compare_exchange_strong'):
                op, n = 'cas', 2
            elif call in RMW_CALLS:
                op, n = 'fetch_add', 1
            else:
                raise X.ExtractError(f'{where}: {obj}.{call}() in {fn}: operation not modelled')
            if len(orders) > n:
                raise X.ExtractError(f'{where}: {obj}.{call}() in {fn}: {len(orders)} memory orders')
            if op == 'cas':
                if len(orders) == 0:
                    orders = [5, 5]
                elif len(orders) == 1:
                    # [atomics.types.operations]: failure = success with release dropped
                    orders = [orders[0], {4: 2, 3: 0}.get(orders[0], orders[0])]
            elif not orders:
                orders = [5]
        elif re.match(r'\s*(\+=|-=|\|=|&=|\^=|\+\+|--)', after) or re.search(r'(\+\+|--)$', before):
            op, orders = 'fetch_add', [5]
        elif re.match(r'\s*=(?!=)', after):
            op, orders = 'store', [5]
        else:
            op, orders = 'load', [5]
        found.append((fn, obj, op, orders, in_assert))
    return found


def collect(repo):
    """{Lean name: order code}, [(object, function, op, order name)]"""
    vals, table = {}, []
    for rel, (members, expect) in EXPECT.items():
        txt = X._strip_comments(X._read(repo, rel))
        txt = re.sub(r'"(?:[^"\\\n]|\\.)*"', '""', txt)
        found = scan(rel, txt, members)
        where = rel.rsplit('/', 1)[-1]
        seen = {}
        for fn, obj, op, orders, in_assert in found:
            key = (fn, obj, op)
            if key not in expect:
                if (rel, key) in OPTIONAL and in_assert:
                    continue
                raise X.ExtractError(f'{where}: atomic operation {obj} {op} in {fn}() is not one the model was written for')
            if key in seen:
                raise X.ExtractError(f'{where}: {obj} {op} occurs more than once in {fn}(): structure changed')
            seen[key] = orders
        for key, name in expect.items():
            if key not in seen:
                raise X.ExtractError(f'{where}: expected atomic operation not found: {key[1]} {key[2]} in {key[0]}()')
            orders = seen[key]
            if isinstance(name, tuple):
                for nm, o, opn in zip(name, orders, ('cas-success', 'cas-failure')):
                    vals[nm] = o
                    table.append((key[1], key[0], opn, o))
            else:
                vals[name] = orders[0]
                table.append((key[1], key[0], key[2], orders[0]))
    return vals, table


@X.gen('MemOrder')
def gen_memorder(repo):
    vals, table = collect(repo)
    out = [X.HDR, 'namespace Otel.Gen\n',
           '/- memory-order codes: 0 relaxed, 1 consume, 2 acquire, 3 release, 4 acq_rel, 5 seq_cst (an operation without an\n'
           '   order argument is seq_cst).  One constant per atomic operation of spin_lock_mutex.h, atomic_unique_ptr.h and\n'
           '   circular_buffer.h; tools/gen_c11mo.py fails when the set of operations is not the one listed here. -/\n']
    for nm, o in vals.items():
        out.append(f'def {nm} : Nat := {o}   -- {NAMES[o]}\n')
    out.append('/-- (object, enclosing function, operation, order code) -/')
    out.append('def moTable : List (String × String × String × Nat) := [\n' +
               ',\n'.join(f'  ("{a}", "{b}", "{c}", {d})' for a, b, c, d in table) + ']\n')
    out.append('end Otel.Gen\n')
    return '\n'.join(out)
