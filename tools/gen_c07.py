"""Generated fragment for C07: default histogram boundaries (long and double constructors separately), the initial
min/max sentinels of both aggregations, the default of record_min_max_, and a shape check of BucketBinarySearch.
Doubles are rendered as exact rationals (every finite double is a dyadic rational)."""
import re
from fractions import Fraction
import extract as X

CC = 'sdk/src/metrics/aggregation/histogram_aggregation.cc'
HH = 'sdk/include/opentelemetry/sdk/metrics/aggregation/histogram_aggregation.h'
CFG = 'sdk/include/opentelemetry/sdk/metrics/aggregation/aggregation_config.h'

DBL_MAX = Fraction((2 ** 53 - 1) * 2 ** 971)
LIMITS = {
    ('int64_t', 'max'): Fraction(2 ** 63 - 1), ('int64_t', 'min'): Fraction(-2 ** 63), ('int64_t', 'lowest'): Fraction(-2 ** 63),
    ('double', 'max'): DBL_MAX, ('double', 'min'): Fraction(1, 2 ** 1022), ('double', 'lowest'): -DBL_MAX,
}


def lean_rat(q: Fraction) -> str:
    n, d = q.numerator, q.denominator
    s = f'({n} : Rat)' if n >= 0 else f'(-{-n} : Rat)'
    return s if d == 1 else f'{s} / ({d} : Rat)'


def _double_literal(tok):
    tok = tok.strip()
    if not re.fullmatch(r'[-+]?(\d+\.?\d*|\.\d+)([eE][-+]?\d+)?[fFlL]?', tok):
        raise X.ExtractError(f'boundary literal {tok!r} not understood')
    if tok[-1] in 'fFlL':
        raise X.ExtractError(f'boundary literal {tok!r} is not a plain double literal')
    return Fraction(float(tok))       # the double the compiler produces (correctly rounded), exactly


def _ctor_body(txt, cls):
    m = X._one(cls + r'::' + cls + r'\s*\(\s*const\s+AggregationConfig\s*\*\s*\w+\s*\)\s*\{(.*?)\n\}', txt, f'{cls} constructor')
    return m.group(1)


def _sentinel(body, field, cls):
    m = X._one(r'point_data_\.' + field + r'\s*=\s*\(?\s*std::numeric_limits<\s*(\w+)\s*>::(\w+)\s*\)?\s*\(\s*\)\s*;', body,
               f'{cls}: initial point_data_.{field}')
    key = (m.group(1), m.group(2))
    if key not in LIMITS:
        raise X.ExtractError(f'{cls}: sentinel numeric_limits<{key[0]}>::{key[1]} not understood')
    return LIMITS[key]


def _from_bits(tok):
    import struct
    return Fraction(struct.unpack('<d', struct.pack('<Q', int(tok, 16)))[0])


@X.gen('Histogram')
def gen_histogram(repo):
    hh = X._strip_comments(X._read(repo, HH))
    # OBSERVED, not parsed: what a fresh Long/DoubleHistogramAggregation(nullptr) and a default HistogramAggregationConfig
    # hold (harness/p_hist.cc compiled from the working tree) - however the constructors spell it
    obs = {}
    for ln in X.probe(repo, 'harness/p_hist.cc', sdk_srcs=[CC]).splitlines():
        t = ln.split()
        if len(t) >= 2:
            obs[(t[0], t[1])] = t[2:]
    out = [X.HDR, 'namespace Otel.Gen\n']
    try:
        for cls, pre, tag in (('LongHistogramAggregation', 'histLong', 'long'), ('DoubleHistogramAggregation', 'histDouble', 'double')):
            bs = [_from_bits(t) for t in obs[(tag, 'boundaries')]]
            if int(obs[(tag, 'counts')][0]) != len(bs) + 1:
                raise X.ExtractError(f'{cls}: a fresh aggregation has {obs[(tag, "counts")][0]} buckets for {len(bs)} boundaries')
            mn, mx = obs[(tag, 'min')][0], obs[(tag, 'min')][2]
            q = (lambda t: Fraction(int(t))) if tag == 'long' else _from_bits
            out.append(f'/-- default boundaries of `{cls}` (no HistogramAggregationConfig) -/\n'
                       f'def {pre}DefaultBoundaries : List Rat := [{", ".join(lean_rat(b) for b in bs)}]\n')
            out.append(f'/-- initial `point_data_.min_` / `max_` of `{cls}` -/\n'
                       f'def {pre}MinInit : Rat := {lean_rat(q(mn))}\n'
                       f'def {pre}MaxInit : Rat := {lean_rat(q(mx))}\n')
            out.append(f'def {pre}RecordMinMaxDefault : Bool := {"true" if obs[(tag, "record_min_max")][0] == "1" else "false"}\n')
        out.append(f'def histConfigRecordMinMaxDefault : Bool := {"true" if obs[("config", "record_min_max")][0] == "1" else "false"}\n')
    except (KeyError, IndexError, ValueError) as e:
        raise X.ExtractError(f'harness/p_hist.cc printed something unexpected: {e!r}')
    if not re.search(r'std::(lower_bound|partition_point)\s*\(\s*boundaries\.begin\(\)\s*,\s*boundaries\.end\(\)\s*,', hh):
        raise X.ShapeChanged('BucketBinarySearch is no longer a std::lower_bound / std::partition_point over the boundaries')
    # the int64_t overload: std::lower_bound with the exact comparator BucketBoundaryLessThan(double, int64_t)
    ov = X._one(r'size_t\s+BucketBinarySearch\s*\(\s*int64_t\s+value\s*,[^)]*\)\s*\{(.*?)\n\}', hh,
                'BucketBinarySearch(int64_t, ...) overload (exact comparison of int64 values with double boundaries)').group(1)
    cm = X._one(r'std::lower_bound\s*\(\s*boundaries\.begin\(\)\s*,\s*boundaries\.end\(\)\s*,\s*value\s*,\s*(\w+)\s*\)', ov,
                'BucketBinarySearch(int64_t): std::lower_bound with a comparator').group(1)
    cb = X._one(r'bool\s+' + cm + r'\s*\(\s*double\s+(\w+)\s*,\s*int64_t\s+(\w+)\s*\)\s*(?:noexcept\s*)?\{(.*?)\n\}', hh, f'comparator {cm}')
    bn, vn, body = cb.group(1), cb.group(2), cb.group(3)
    hi = X._one(r'if\s*\(\s*!\s*\(\s*' + bn + r'\s*<\s*([-+0-9.eE]+)\s*\)\s*\)\s*\{?\s*return\s+false\s*;', body, f'{cm}: upper guard').group(1)
    lo = X._one(r'if\s*\(\s*' + bn + r'\s*<\s*([-+0-9.eE]+)\s*\)\s*\{?\s*return\s+true\s*;', body, f'{cm}: lower guard').group(1)
    if not re.search(r'return\s+static_cast<\s*int64_t\s*>\s*\(\s*(?:std::)?floor\s*\(\s*' + bn + r'\s*\)\s*\)\s*<\s*' + vn + r'\s*;', body):
        raise X.ShapeChanged(f'{cm}: the in-range branch is no longer static_cast<int64_t>(floor(boundary)) < value')
    out.append('/-- guards of the exact comparator of the int64_t overload of BucketBinarySearch -/\n'
               f'def histLongCmpHi : Rat := {lean_rat(_double_literal(hi))}\n'
               f'def histLongCmpLo : Rat := {lean_rat(_double_literal(lo))}\n')
    out.append('/-- finite range of an IEEE binary64 -/\n' f'def dblMax : Rat := {lean_rat(DBL_MAX)}\n')
    out.append('end Otel.Gen\n')
    return '\n'.join(out)
