#!/usr/bin/env python3
"""Regenerates MANIFEST.json from the props/*.py modules that exist (a property is claimed only when its check is built)."""
import importlib, json, os, sys
VERIF = os.path.dirname(os.path.dirname(os.path.abspath(__file__)))
sys.path.insert(0, VERIF)
ALL = [f'C{i:02d}' for i in range(1, 21)]
checks, na = [], []
hold_path = os.path.join(VERIF, 'props', 'hold.json')
HOLD = json.load(open(hold_path)) if os.path.exists(hold_path) else {}
for pid in ALL:
    if pid in HOLD:
        na.append({'property_id': pid, 'reason': HOLD[pid]})
    elif os.path.exists(os.path.join(VERIF, 'props', pid.lower() + '.py')):
        P = importlib.import_module('props.' + pid.lower())
        checks.append({
            'property_id': pid,
            'quick_cmd': f'python3 check.py {pid} --tier quick',
            'thorough_cmd': f'python3 check.py {pid} --tier thorough',
            'evidence_file': f'/verif/evidence/{pid}.json',
            'replay_cmd_template': f'python3 check.py {pid} --replay {{path}}',
            'engine': getattr(P, 'ENGINE', 'lean-proof+correspondence'),
            'level_claimed': {'category': 'proof', 'text': P.LEVEL_TEXT, 'design_ref': getattr(P, 'DESIGN_REF', 'DESIGN.md section 4')},
            'level_note': P.LEVEL_NOTE,
            'technique': getattr(P, 'TECHNIQUE', 'Lean 4 theorems over an executable model + differential correspondence check against the real code'),
        })
    else:
        na.append({'property_id': pid, 'reason': 'not claimed yet: the model, theorems and correspondence check for this property are not built in this tree (work in progress; the technique applies, see DESIGN.md section 4)'})
m = {
    'version': 1,
    'setup_cmd': './setup.sh',
    'hooks': {
        'guard': 'OTEL_VERIF_HOOKS',
        'enable': 'no source hooks are needed: harnesses compile the unmodified sources of /repo (Engine D token-renames std::atomic/mutex/thread with -include shim headers); the guard name is reserved',
        'baseline_off_cmd': 'cmake --build /repo/_build -j16 && ctest --test-dir /repo/_build -j8 --timeout 900',
        'source_commits': [],
        'add_only': True,
    },
    'engines': [
        {'name': 'lean', 'path': 'lean/', 'serves_properties': [c['property_id'] for c in checks],
         'kind_free_text': 'Lean 4 project OtelVerif: Gen (regenerated from the source on every run: constants, tables, regexes, lock facts, memory orders, and the tabulated complete graphs of the byte-level functions obtained by running the real code), Model (executable), Lemmas, Props (theorems); otel_model line-protocol driver'},
        {'name': 'harness', 'path': 'harness/', 'serves_properties': [c['property_id'] for c in checks],
         'kind_free_text': 'C++ correspondence harnesses compiled from /repo working tree with ASan+UBSan; Engine F (API headers), S (SDK sequential), D (deterministic scheduler shim); tabulators and probes (harness/tab, harness/p_*.cc) run in the extraction step; a ThreadSanitizer real-thread harness (t_c11) for the memory orders of the queue and the spin lock'},
    ],
    'checks': checks,
    'not_applicable': na,
    'notes': 'check.py <ID> --tier quick|thorough; honours VERIF_SEED, VERIF_TIER, VERIF_REPO (self-validation only). See DESIGN.md section 9 (as built): 9.4 repairs made to /repo, 9.5 known findings, 9.7 seeded property-breaking changes (186, all caught with a failing input), 9.8 behaviour-preserving changes (54: 53 quiet, 1 reported without a failing input), 9.9 tabulated graphs, 9.10 coverage of the anchored code by the correspondence runs, 9.11 release/acquire model of the queue and the spin lock.',
}
with open(os.path.join(VERIF, 'MANIFEST.json'), 'w') as f:
    json.dump(m, f, indent=1)
    f.write('\n')
print('claimed:', [c['property_id'] for c in checks])
