"""Generated fragments for C12 (samplers): the constants of `CalculateThreshold` / `CalculateThresholdFromBuffer`
in sdk/src/trace/samplers/trace_id_ratio.cc, re-read from the source text on every run."""
import re
import extract as X

_C_MAX = {'UINT32_MAX': 2**32 - 1, 'UINT64_MAX': 2**64 - 1}


@X.gen('Sampler')
def gen_sampler(repo):
    txt = X._strip_comments(X._read(repo, 'sdk/src/trace/samplers/trace_id_ratio.cc'))
    body = X._one(r'uint64_t\s+CalculateThreshold\s*\(\s*double\s+ratio\s*\)\s*noexcept\s*\{(.*?)\n\}', txt, 'CalculateThreshold').group(1)
    lo = X._one(r'if\s*\(\s*ratio\s*<=\s*([0-9.]+)\s*\)\s*return\s+(\w+)\s*;', body, 'ratio <= 0 guard')
    hi = X._one(r'if\s*\(\s*ratio\s*>=\s*([0-9.]+)\s*\)\s*return\s+(\w+)\s*;', body, 'ratio >= 1 guard')
    if float(lo.group(1)) != 0.0 or lo.group(2) != '0':
        raise X.ExtractError(f'unexpected lower guard: {lo.group(0)}')
    if float(hi.group(1)) != 1.0 or hi.group(2) not in _C_MAX:
        raise X.ExtractError(f'unexpected upper guard: {hi.group(0)}')
    prod = X._one(r'const\s+double\s+product\s*=\s*(\w+)\s*\*\s*ratio\s*;', body, 'product = UINT32_MAX * ratio')
    if prod.group(1) not in _C_MAX:
        raise X.ExtractError(f'unexpected multiplier {prod.group(1)}')
    ld = X._one(r'lo_bits\s*=\s*ldexp\s*\(\s*modf\s*\(\s*product\s*,\s*&hi_bits\s*\)\s*,\s*(\d+)\s*\)\s*\+\s*product\s*;', body,
                'lo_bits = ldexp(modf(product, &hi_bits), k) + product')
    ret = X._one(r'return\s*\(\s*static_cast<uint64_t>\(hi_bits\)\s*<<\s*(\d+)\s*\)\s*\+\s*static_cast<uint64_t>\(lo_bits\)\s*;', body,
                 'return (uint64(hi_bits) << k) + uint64(lo_bits)')
    buf = X._one(r'uint64_t\s+CalculateThresholdFromBuffer\s*\(.*?\)\s*noexcept\s*\{(.*?)\n\}', txt, 'CalculateThresholdFromBuffer').group(1)
    mc = X._one(r'memcpy\s*\(\s*&res\s*,\s*&trace_id\s*,\s*(\d+)\s*\)', buf, 'memcpy(&res, &trace_id, 8)')
    dv = X._one(r'static_cast<double>\(res\)\s*/\s*static_cast<double>\((\w+)\)', buf, 'double(res) / double(UINT64_MAX)')
    if dv.group(1) not in _C_MAX:
        raise X.ExtractError(f'unexpected divisor {dv.group(1)}')
    X._one(r'return\s+CalculateThreshold\s*\(\s*ratio\s*\)\s*;', buf, 'return CalculateThreshold(ratio)')
    out = [X.HDR, 'namespace Otel.Gen\n',
           '/-- value returned by `CalculateThreshold` for `ratio >= 1.0` -/',
           f'def samplerThresholdMax : Nat := {_C_MAX[hi.group(2)]}\n',
           '/-- the integer multiplied with the ratio (`UINT32_MAX * ratio`) -/',
           f'def samplerMultiplier : Nat := {_C_MAX[prod.group(1)]}\n',
           '/-- `ldexp(frac, k)` -/',
           f'def samplerLdexp : Nat := {int(ld.group(1))}\n',
           '/-- `hi_bits << k` -/',
           f'def samplerShift : Nat := {int(ret.group(1))}\n',
           '/-- number of leading trace-id bytes copied into the `uint64_t` -/',
           f'def samplerIdBytes : Nat := {int(mc.group(1))}\n',
           '/-- the integer the id prefix is divided by (before conversion to `double`) -/',
           f'def samplerIdDivisor : Nat := {_C_MAX[dv.group(1)]}\n',
           'end Otel.Gen\n']
    return '\n'.join(out)
