"""Generated fragments for C06 / C17: the literal facts of the metrics sources the models and theorems depend on.
   -> lean/OtelVerif/Gen/MetricsTemporal.lean"""
import re
import extract as X


def _fn_body(txt, header_rx, what):
    """text of the function whose header matches header_rx (balanced braces)"""
    m = re.search(header_rx, txt, re.S)
    if not m:
        raise X.ShapeChanged(f'{what}: not found')
    i = txt.index('{', m.end() - 1) if txt[m.end() - 1] != '{' else m.end() - 1
    depth, j = 0, i
    while j < len(txt):
        if txt[j] == '{':
            depth += 1
        elif txt[j] == '}':
            depth -= 1
            if depth == 0:
                return txt[i:j + 1]
        j += 1
    raise X.ExtractError(f'{what}: unbalanced braces')


@X.gen('MetricsTemporal')
def gen_metrics_temporal(repo):
    out = [X.HDR, 'namespace Otel.Gen\n']
    # --- the fast path condition of TemporalMetricStorage::buildMetrics
    txt = X._strip_comments(X._read(repo, 'sdk/src/metrics/state/temporal_metric_storage.cc'))
    m = re.search(r'if\s*\(\s*collectors\.size\(\)\s*==\s*(\d+)\s*&&\s*aggregation_temporarily\s*==\s*AggregationTemporality::(\w+)\s*\)', txt)
    if not m:
        raise X.ShapeChanged('temporal_metric_storage.cc: fast path condition `collectors.size() == N && aggregation_temporarily == kX` not found')
    out.append('/-- `collectors.size() == N` of the fast path in `TemporalMetricStorage::buildMetrics` -/\n'
               f'def temporalFastPathCollectors : Nat := {int(m.group(1))}\n')
    out.append('/-- the fast path is for delta temporality -/\n'
               f'def temporalFastPathIsDelta : Bool := {"true" if m.group(2) == "kDelta" else "false"}\n')
    # a non-empty delta is pushed for every collector
    if not re.search(r'if\s*\(\s*delta_metrics->Size\(\)\s*\)\s*\{\s*for\s*\(auto &col : collectors\)\s*\{\s*unreported_metrics_\[col\.get\(\)\]\.push_back\(delta_metrics\);', txt):
        raise X.ShapeChanged('temporal_metric_storage.cc: `if (delta_metrics->Size()) for (col : collectors) unreported_metrics_[col].push_back(delta)` not found')
    # --- Sum aggregation: Merge is +, Diff is next - this
    txt = X._strip_comments(X._read(repo, 'sdk/src/metrics/aggregation/sum_aggregation.cc'))
    for ty, vt in (('Long', 'int64_t'), ('Double', 'double')):
        for fn, var, want in (('Merge', 'delta', '+'), ('Diff', 'next', '-')):
            body = _fn_body(txt, ty + r'SumAggregation::' + fn + r'\s*\(const Aggregation &' + var + r'\)\s*const\s*noexcept\s*\{', f'{ty}SumAggregation::{fn}')
            mm = re.search(r'static_cast<const ' + ty + r'SumAggregation &>\(' + var + r'\)\.ToPoint\(\)\)\)\s*\.value_\)\s*([+\-*/])\s*nostd::get<' + vt + r'>\(nostd::get<SumPointData>\(ToPoint\(\)\)\.value_\)', body)
            if not mm:
                raise X.ShapeChanged(f'{ty}SumAggregation::{fn}: expression `get({var}) OP get(this)` not found')
            sign = {'+': 1, '-': -1}.get(mm.group(1))
            if sign is None:
                raise X.ExtractError(f'{ty}SumAggregation::{fn}: operator {mm.group(1)}')
            out.append(f'/-- `{ty}SumAggregation::{fn}`: `{var} {mm.group(1)} this` -/\n'
                       f'def {ty.lower()}Sum{fn}Sign : Int := {sign}\n')
    # --- LastValue: Merge / Diff keep `this` only when strictly later
    txt = X._strip_comments(X._read(repo, 'sdk/src/metrics/aggregation/lastvalue_aggregation.cc'))
    strict = True
    for ty in ('Long', 'Double'):
        for fn, var in (('Merge', 'delta'), ('Diff', 'next')):
            body = _fn_body(txt, ty + r'LastValueAggregation::' + fn + r'\s*\(\s*const Aggregation &' + var + r'\)\s*const\s*noexcept\s*\{', f'{ty}LastValueAggregation::{fn}')
            mm = re.search(r'if\s*\(nostd::get<LastValuePointData>\(ToPoint\(\)\)\.sample_ts_\.time_since_epoch\(\)\s*(>=|>|<=|<)\s*nostd::get<LastValuePointData>\(' + var + r'\.ToPoint\(\)\)\.sample_ts_\.time_since_epoch\(\)\)', body)
            if not mm:
                raise X.ShapeChanged(f'{ty}LastValueAggregation::{fn}: comparison of sample times not found')
            strict = strict and mm.group(1) == '>'
    out.append('/-- the last-value `Merge` / `Diff` keep `this` exactly when `this.sample_ts > other.sample_ts` -/\n'
               f'def lastValueKeepsThisWhenStrictlyLater : Bool := {"true" if strict else "false"}\n')
    # --- AsyncMetricStorage::Record: delta = prev->Diff(new), both maps Set
    txt = X._strip_comments(X._read(repo, 'sdk/include/opentelemetry/sdk/metrics/state/async_metric_storage.h'))
    ok = re.search(r'auto delta = prev->Diff\(\*aggr\);', txt) and re.search(r'delta_hash_map_->Set\(measurement\.first, std::move\(delta\)\);', txt) \
        and re.search(r'cumulative_hash_map_->Set\(measurement\.first, std::move\(aggr\)\);', txt)
    out.append('/-- `AsyncMetricStorage::Record`: `delta = prev->Diff(new)`, cumulative and delta maps are `Set` -/\n'
               f'def asyncRecordIsDiffAndSet : Bool := {"true" if ok else "false"}\n')
    # --- ObservableRegistry::Observe iterates callbacks_ once
    txt = X._strip_comments(X._read(repo, 'sdk/src/metrics/state/observable_registry.cc'))
    body = _fn_body(txt, r'void ObservableRegistry::Observe\s*\([^)]*\)\s*\{', 'ObservableRegistry::Observe')
    n = len(re.findall(r'(?:->|\.)\s*callback\s*\(', body))
    loops = len(re.findall(r'for\s*\(\s*(?:const\s+)?auto\s*&\s*\w+\s*:\s*callbacks_\s*\)', body))
    if loops != 1 or n != 2:
        # moved into a helper, merged into one templated call, ...: how often a callback runs per collection is what the
        # correspondence run observes directly (`each-callback-once-per-collect`), so this is a change of shape, not of value
        raise X.ShapeChanged(f'ObservableRegistry::Observe: {loops} loop(s) over callbacks_ with {n} textual callback invocation(s) (the model mirrors 1 loop, 2 sites)')
    out.append('/-- `Observe`: one loop over `callbacks_`, one invocation per value type branch -/\n'
               f'def observeLoops : Nat := {loops}\n\ndef observeInvocationSites : Nat := {n}\n')
    out.append('end Otel.Gen\n')
    return '\n'.join(out)
