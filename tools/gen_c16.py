"""Generated fragments for C16 (B3 and Jaeger propagators) -> lean/OtelVerif/Gen/B3.lean.

Re-extracted from the working tree on every run: header names, hex lengths, separators, the characters that
`TraceFlagsFromHex` treats as "sampled", Jaeger's field count / flag mask, and **which expression the multi-header
injector writes into X-B3-Sampled** (D05: the as-is code wrote the low hex digit of the flags byte)."""
import re
import extract as X

B3 = 'api/include/opentelemetry/trace/propagation/b3_propagator.h'
JG = 'api/include/opentelemetry/trace/propagation/jaeger.h'


def _sv_const(txt, name):
    m = X._one(r'\b' + re.escape(name) + r'\s*=\s*"((?:[^"\\]|\\.)*)"\s*;', txt, name)
    return X._c_string_literal(m.group(1))


def _char(txt, pattern, what):
    m = X._one(pattern, txt, what)
    return X._c_string_literal(m.group(1))[0]


@X.gen('B3')
def gen_b3(repo):
    txt = X._strip_comments(X._read(repo, B3))
    out = [X.HDR, 'namespace Otel.Gen\n']
    for lean, c in (('b3CombinedHeader', 'kB3CombinedHeader'), ('b3TraceIdHeader', 'kB3TraceIdHeader'),
                    ('b3SpanIdHeader', 'kB3SpanIdHeader'), ('b3SampledHeader', 'kB3SampledHeader')):
        out.append(f'/-- `{c}` -/\ndef {lean} : List UInt8 := {X.lean_bytes(_sv_const(txt, c))}\n')
    out.append(f'def b3TraceIdHexLen : Nat := {X._int_const(txt, "kTraceIdHexStrLength")}\n')
    out.append(f'def b3SpanIdHexLen : Nat := {X._int_const(txt, "kSpanIdHexStrLength")}\n')
    # ExtractImpl: SplitString(singleB3Header, '-', fields.data(), 3) < 2
    m = X._one(r"SplitString\s*\(\s*\w+\s*,\s*'((?:[^'\\]|\\.)+)'\s*,\s*[\w.()]+\s*,\s*(\d+)\s*\)\s*<\s*(\d+)", txt,
               'SplitString(singleB3Header, sep, fields.data(), n) < m')
    out.append(f'def b3Sep : UInt8 := {X._c_string_literal(m.group(1))[0]}\n')
    out.append(f'def b3FieldCount : Nat := {int(m.group(2))}\n')
    out.append(f'def b3MinFields : Nat := {int(m.group(3))}\n')
    # TraceFlagsFromHex: length() != 1 || (trace_flags[0] != '1' && trace_flags[0] != 'd')
    m = X._one(r"(\w+)\.(?:length|size)\(\)\s*!=\s*1\s*\|\|\s*\(\s*\1\[0\]\s*!=\s*'(.)'\s*&&\s*\1\[0\]\s*!=\s*'(.)'\s*\)",
               txt, "TraceFlagsFromHex guard")
    out.append(f'def b3SampledChar : UInt8 := {ord(m.group(2))}\n')
    out.append(f'def b3DebugChar : UInt8 := {ord(m.group(3))}\n')
    # single-header injector: separators and the sampled characters
    single = X._one(r'class\s+B3Propagator\s*:.*?\n\};', txt, 'class B3Propagator').group(0)
    seps = re.findall(r"\w+\[[^\]]*\]\s*=\s*'(.)'\s*;", single)
    m = X._one(r"IsSampled\(\)\s*\?\s*'(.)'\s*:\s*'(.)'", single, "B3Propagator::Inject sampled ? '1' : '0'")
    if len(seps) != 2:
        raise X.ShapeChanged('B3Propagator::Inject: expected two separator writes')
    out.append(f'def b3InjectSeps : List UInt8 := {X.lean_bytes(bytes(ord(c) for c in seps))}\n')
    out.append(f'def b3InjectSampled : UInt8 := {ord(m.group(1))}\n')
    out.append(f'def b3InjectNotSampled : UInt8 := {ord(m.group(2))}\n')
    # multi-header injector: what goes into X-B3-Sampled
    multi = X._one(r'class\s+B3PropagatorMultiHeader\s*:.*?\n\};', txt, 'class B3PropagatorMultiHeader').group(0)
    m = X._one(r'carrier\.Set\(\s*kB3SampledHeader\s*,\s*(.*?)\)\s*;', multi, 'carrier.Set(kB3SampledHeader, ...)')
    expr = re.sub(r'\s+', ' ', m.group(1)).strip()
    if re.fullmatch(r'(span_context(\.trace_flags\(\))?\.IsSampled\(\)) \? "1" : "0"', expr):
        variant = 'true'
    elif re.fullmatch(r'nostd::string_view\(trace_flags \+ 1, 1\)', expr):
        variant = 'false'
    else:
        raise X.ExtractError(f'B3PropagatorMultiHeader::Inject: unrecognised X-B3-Sampled expression: {expr}')
    out.append(f'-- source expression: {expr}\n'
               '/-- `true`: X-B3-Sampled is "1"/"0" from the sampling decision; `false`: it is the low hex digit of the flags byte (D05) -/\n'
               f'def b3MultiSampledFromDecision : Bool := {variant}\n')

    txt = X._strip_comments(X._read(repo, JG))
    out.append(f'/-- `kJaegerTraceHeader` -/\ndef jaegerHeader : List UInt8 := {X.lean_bytes(_sv_const(txt, "kJaegerTraceHeader"))}\n')
    out.append(f'def jaegerTraceIdLen : Nat := {X._int_const(txt, "trace_id_length")}\n')
    out.append(f'def jaegerSpanIdLen : Nat := {X._int_const(txt, "span_id_length")}\n')
    out.append(f'def jaegerFieldCount : Nat := {X._int_const(txt, "trace_field_count")}\n')
    out.append(f'def jaegerIsSampled : Nat := {X._int_const(txt, "kIsSampled")}\n')
    m = X._one(r"SplitString\s*\(\s*\w+\s*,\s*'(.)'", txt, "Jaeger SplitString separator")
    out.append(f'def jaegerSep : UInt8 := {ord(m.group(1))}\n')
    # the six literal writes of Inject after the two ids: ':' ':' '0' ':' '0' and sampled ? '1' : '0'
    lits = re.findall(r"\w+\[([^\]]*)\]\s*=\s*'(.)'\s*;", txt)
    m = X._one(r"\w+\[[^\]]*\+\s*5\s*\]\s*=\s*[\w.()]*IsSampled\(\)\s*\?\s*'(.)'\s*:\s*'(.)'", txt, 'Jaeger sampled digit')
    if len(lits) != 5:
        raise X.ShapeChanged('JaegerPropagator::Inject: expected five literal writes')
    out.append(f'/-- the literal bytes `Inject` writes at offsets +0 (after the trace id) and +1..+4 (after the span id) -/\n'
               f'def jaegerInjectLits : List UInt8 := {X.lean_bytes(bytes(ord(c) for _, c in lits))}\n')
    out.append(f'def jaegerInjectSampled : UInt8 := {ord(m.group(1))}\n')
    out.append(f'def jaegerInjectNotSampled : UInt8 := {ord(m.group(2))}\n')
    m = X._one(r'char\s+\w+\s*\[\s*trace_id_length\s*\+\s*span_id_length\s*\+\s*(\d+)\s*\]', txt, 'Jaeger trace_identity size')
    out.append(f'def jaegerInjectExtra : Nat := {int(m.group(1))}\n')
    out.append('end Otel.Gen\n')
    return '\n'.join(out)
