#!/usr/bin/env python3
"""Collect confirmed seeded changes into /verif/seeded/<id>/ (patch.diff, the demonstration, meta.json).

  seedcollect.py <seed-dir> [...]      each <seed-dir> holds patch.diff, demo files, RUN.md, meta.json as written by the seeding agent

meta.json is extended with what was run here: the confirmation (seeded/CONFIRM.jsonl, written by `seedcheck.py confirm`, or the
`manual` table below for demonstrations whose build script the tool could not drive) and the detection result
(seeded/RESULTS.jsonl, written by `seedcheck.py detect`)."""
import json, os, shutil, sys

VERIF = os.path.dirname(os.path.dirname(os.path.abspath(__file__)))
SEEDED = os.path.join(VERIF, 'seeded')

MANUAL = {
    'C02-b': 'sh build.sh <out> && <out> in a pre-built scratch tree: FAIL with the patch ("ForceFlush reported success but the measurement recorded before it never reached Export"), PASS without',
    'C03-a': 'sh build.sh <out> && <out>: FAIL with the patch ("a batch larger than max_export_batch_size was delivered"), PASS without',
    'C03-b': 'sh build.sh <out> && <out>: FAIL with the patch ("Export was invoked while a previous Export on the same exporter was still running", 39 of 40 calls), PASS without',
}


def last(path, key):
    out = {}
    if os.path.exists(path):
        for l in open(path):
            r = json.loads(l)
            out[r[key]] = r
    return out


def main(dirs):
    conf = last(os.path.join(SEEDED, 'CONFIRM.jsonl'), 'seed')
    res = last(os.path.join(SEEDED, 'RESULTS.jsonl'), 'seed')
    for d in dirs:
        name = os.path.basename(d.rstrip('/'))
        dst = os.path.join(SEEDED, name)
        os.makedirs(dst, exist_ok=True)
        for fn in sorted(os.listdir(d)):
            p = os.path.join(d, fn)
            if os.path.isfile(p) and os.path.getsize(p) < 400000 and not fn.endswith(('.o', '.a')) and os.access(p, os.R_OK):
                if fn == 'meta.json':
                    continue
                with open(p, 'rb') as f:
                    head = f.read(4)
                if head == b'\x7fELF':
                    continue
                shutil.copy2(p, os.path.join(dst, fn))
        meta = json.load(open(os.path.join(d, 'meta.json'))) if os.path.exists(os.path.join(d, 'meta.json')) else {}
        meta.setdefault('property', name.split('-')[0])
        c = conf.get(name, {})
        r = res.get(name, {})
        ran = {
            'scratch_tree': 'a pre-built git worktree of /repo outside /repo and /verif (removed afterwards)',
            'patch_applies': c.get('applies'),
            'builds': c.get('builds'),
            'existing_suite': c.get('suite'),
        }
        if name in MANUAL:
            ran['demonstration'] = MANUAL[name]
            ran['demo_fails_with_patch'] = True
            ran['demo_passes_without_patch'] = True
        else:
            ran['demonstration'] = c.get('demo_cmd')
            ran['demo_fails_with_patch'] = (c.get('demo_with_patch') or {}).get('rc') not in (0, None)
            ran['demo_passes_without_patch'] = (c.get('demo_without_patch') or {}).get('rc') == 0
            ran['demo_tail_with_patch'] = ((c.get('demo_with_patch') or {}).get('tail') or '')[-200:]
        meta['confirmed_here'] = ran
        det = {}
        for pid, x in (r.get('checks') or {}).items():
            det[pid] = {'command': f'git -C <scratch> apply patch.diff; VERIF_REPO=<scratch> python3 check.py {pid}',
                        'exit': x['exit'], 'verdict': x['violation'] or 'OK', 'replay_case': x.get('replay_case'), 'detail': x.get('detail'),
                        'wall_s': x.get('wall_s')}
        meta['detected_by'] = det
        json.dump(meta, open(os.path.join(dst, 'meta.json'), 'w'), indent=1)
        ok = ran['demo_fails_with_patch'] and ran['demo_passes_without_patch'] and ran['patch_applies'] and ran['builds']
        print(name, 'confirmed' if ok else 'NOT-CONFIRMED', {p: ('caught' if v['exit'] else 'MISSED') for p, v in det.items()})


if __name__ == '__main__':
    main(sys.argv[1:])
