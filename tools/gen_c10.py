"""Generated fragment for C10: the context key under which Scope / Tracer::GetCurrentSpan keep the active span."""
import re
import extract as X


@X.gen('ContextKeys')
def gen_context_keys(repo):
    meta = X._strip_comments(X._read(repo, 'api/include/opentelemetry/trace/span_metadata.h'))
    m = X._one(r'\bkSpanKey\s*\[\s*\]\s*=\s*"((?:[^"\\]|\\.)*)"', meta, 'kSpanKey in span_metadata.h')
    key = X._c_string_literal(m.group(1))
    scope = X._strip_comments(X._read(repo, 'api/include/opentelemetry/trace/scope.h'))
    if not re.search(r'Attach\s*\(\s*context::RuntimeContext::GetCurrent\s*\(\s*\)\s*\.\s*SetValue\s*\(\s*kSpanKey\s*,\s*span\s*\)', scope):
        raise X.ShapeChanged('scope.h: Scope no longer attaches GetCurrent().SetValue(kSpanKey, span)')
    tracer = X._strip_comments(X._read(repo, 'api/include/opentelemetry/trace/tracer.h'))
    if not re.search(r'GetCurrentSpan\s*\(\s*\)[^{]*\{[^}]*RuntimeContext::GetValue\s*\(\s*kSpanKey\s*\)', tracer, re.S):
        raise X.ShapeChanged('tracer.h: GetCurrentSpan no longer reads RuntimeContext::GetValue(kSpanKey)')
    return (X.HDR + '\nnamespace Otel.Gen\n\n'
            '/-- `kSpanKey` of `api/include/opentelemetry/trace/span_metadata.h` (used by `Scope` and `Tracer::GetCurrentSpan`) -/\n'
            f'def ctxSpanKey : List UInt8 := {X.lean_bytes(key)}\n\nend Otel.Gen\n')
