#!/usr/bin/env python3
"""Markdown table of the seeded changes under /verif/seeded: what was changed, what it needs, which check caught it and how
(for DESIGN.md section 9.7)."""
import glob, json, os, re

VERIF = os.path.dirname(os.path.dirname(os.path.abspath(__file__)))


def short(s, n):
    s = re.sub(r'\s+', ' ', str(s or '')).replace('|', '/')
    return s if len(s) <= n else s[:n - 1] + '…'


def main():
    rows = []
    for d in sorted(glob.glob(os.path.join(VERIF, 'seeded', 'C*-*'))):
        m = json.load(open(os.path.join(d, 'meta.json')))
        name = os.path.basename(d)
        how = []
        for pid, x in (m.get('detected_by') or {}).items():
            if not x.get('exit'):
                how.append(f'{pid}: **missed**')
                continue
            det = x.get('detail') or ''
            k = re.search(r"'kind': '([^']+)'", det)
            c = re.search(r"'oracle_clause': '([^']+)'", det)
            w = re.search(r"'what': '([^']{0,90})", det)
            kind = k.group(1) if k else '?'
            if 'no-failing-input-found' in (x.get('verdict') or ''):
                how.append(f'{pid}: broken obligation, no failing input ({short(w.group(1) if w else kind, 70)})')
            elif kind == 'failing-input':
                how.append(f'{pid}: failing input, clause `{c.group(1) if c else "?"}`')
            elif kind in ('disagreement', 'model-disagreement'):
                how.append(f'{pid}: model and code disagree')
            else:
                how.append(f'{pid}: {kind}' + (f' `{c.group(1)}`' if c else ''))
        note = m.get('note_here', '')
        rows.append(f"| {name} | {short(m.get('summary'), 150)} | {short(m.get('needs'), 110)} | {'; '.join(how) or '-'}{(' — ' + note) if note else ''} |")
    print('| change | what was changed | needs | caught by |')
    print('|---|---|---|---|')
    print('\n'.join(rows))


if __name__ == '__main__':
    main()
