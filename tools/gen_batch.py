import re
import extract as X


@X.gen('Batch')
def gen_batch(repo):
    out = [X.HDR, 'namespace Otel.Gen\n']
    for tag, rel in (('Span', 'sdk/src/trace/batch_span_processor.cc'), ('Log', 'sdk/src/logs/batch_log_record_processor.cc')):
        txt = X._strip_comments(X._read(repo, rel))
        m = re.search(r'::Export\(\)\s*\{(.*?)\n\}\n', txt, re.S)
        if not m:
            raise X.ShapeChanged(f'{rel}: Export() not found')
        body = m.group(1)
        # the shape of Export() the protocol model mirrors
        checks = [
            (r'force_flush_pending_sequence\.load\([^)]*\)\s*;\s*const\s+size_t\s+buffer_size\s*=\s*buffer_\.size\(\)\s*;', 'ticket read before ONE size snapshot'),
            (r'if\s*\(\s*notify_force_flush\s*>\s*flush_ticket\s*\)\s*\{\s*flush_ticket\s*=\s*notify_force_flush\s*;\s*flush_remaining\s*=\s*buffer_size\s*;', 'new ticket: flush_remaining = snapshot'),
            (r'=\s*buffer_size\s*>=\s*max_export_batch_size_\s*\?\s*max_export_batch_size_\s*:\s*buffer_size\s*;', 'batch = min(snapshot, max_export_batch_size_)'),
            (r'if\s*\(\s*\w+\s*==\s*0\s*\)\s*\{\s*NotifyCompletion\(notify_force_flush', 'empty snapshot: publish and leave'),
            (r'exporter_->Export\([^;]*;\s*flush_remaining\s*=\s*flush_remaining\s*>\s*(\w+)\s*\?\s*flush_remaining\s*-\s*\1\s*:\s*0\s*;\s*if\s*\(\s*flush_remaining\s*==\s*0\s*\)\s*\{\s*NotifyCompletion\(notify_force_flush', 'publish only when everything queued at ticket time went out'),
        ]
        for pat, what in checks:
            if not re.search(pat, body, re.S):
                raise X.ShapeChanged(f'{rel}: Export() no longer has the shape the model mirrors ({what})')
        if len(re.findall(r'buffer_\.size\(\)', body)) != 1:
            raise X.ShapeChanged(f'{rel}: Export() reads buffer_.size() more than once')
        # NotifyCompletion: exporter ForceFlush before the ticket is published
        m = re.search(r'::NotifyCompletion\((.*?)\n\}\n', txt, re.S)
        if not m or not re.search(r'exporter->ForceFlush\(.*?compare_exchange_strong', m.group(1), re.S):
            raise X.ShapeChanged(f'{rel}: NotifyCompletion: exporter->ForceFlush no longer precedes the publication of the ticket')
        # Shutdown: exporter shut down only by the caller that found is_shutdown false, after the join
        m = re.search(r'::Shutdown\(std::chrono::microseconds timeout\) noexcept\s*\{(.*?)\n\}\n', txt, re.S)
        if not m or not re.search(r'shutdown_m.*is_shutdown\.exchange\(true\).*worker_thread_\.join\(\).*if\s*\(\s*!already_shutdown\s*&&\s*exporter_\s*!=\s*nullptr\s*\)\s*\{\s*return\s+exporter_->Shutdown', m.group(1), re.S):
            raise X.ShapeChanged(f'{rel}: Shutdown() no longer has the lock / exchange / join / exporter-once shape')
        out.append(f'def batch{tag}OneSnapshot : Bool := true\n')
    out.append('end Otel.Gen\n')
    return '\n'.join(out)
