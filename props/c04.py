"""C04 - an exported span carries exactly what the application recorded before End."""
import re
from vcore import Case, Harness, sdk_sources, SDK_INCLUDES

ID = 'C04'
GEN = ['SpanAttr']
LEAN_TARGETS = ['OtelVerif.Props.C04']
THEOREMS = ['Otel.C04.' + t for t in (
    'run_closed_form', 'fanout_identical', 'each_processor_notified_once', 'exported_span_count',
    'end_once', 'end_once_step', 'ended_iff_no_recordable', 'step_ended',
    'name_is_last_update', 'attr_last_write_wins', 'attr_keys_distinct', 'events_links_in_order', 'own_attrs_last_write_wins',
    'status_is_last_set', 'kind_start_resource_scope', 'scope_attrs_last_write_wins', 'duration_eq_end_minus_start', 'duration_clock',
    'convert_matches_source', 'every_alternative_modelled', 'owned_index_valid', 'convert_keeps_content',
    'spanKind_statusCode_counts')] + [
    'Otel.SAttr.Map.lookup_foldl_setAttribute', 'Otel.SAttr.Map.nodup_foldl_setAttribute', 'Otel.SAttr.Map.lookup_ofIterable']
H = 's_c04'
H2 = 's_c04_v2'   # the same harness source built with OPENTELEMETRY_ABI_VERSION_NO=2 (Span::AddLink / AddLinks exist): engine word `span2`
_SRCS = sdk_sources('common', 'resource', 'version', 'trace')
HARNESSES = [Harness(H, ['harness/s_c04.cc'], sdk_srcs=_SRCS, includes=SDK_INCLUDES),
             Harness(H2, ['harness/s_c04.cc'], sdk_srcs=_SRCS, includes=SDK_INCLUDES,
                     flags=['-UOPENTELEMETRY_ABI_VERSION_NO', '-DOPENTELEMETRY_ABI_VERSION_NO=2'])]
import importlib, os
SUBS = [importlib.import_module('props.' + n) for n in ('c04_race',) if os.path.exists(os.path.join(os.path.dirname(__file__), n + '.py'))]
for _m in SUBS:
    LEAN_TARGETS = LEAN_TARGETS + list(_m.LEAN_TARGETS)
    THEOREMS = THEOREMS + list(_m.THEOREMS)
    HARNESSES = HARNESSES + [h for h in _m.HARNESSES if h.name not in {x.name for x in HARNESSES}]
    GEN = GEN + [g for g in (_m.GEN or []) if g not in GEN]


def _sub(case):
    w = case.line.split()[0] if case.line.split() else ''
    for m in SUBS:
        if w in m.WORDS:
            return m
    return None


RULE = ('one case = one span program: StartSpan(name, kind, system/steady start options incl. 0 = not given, 0-6 attributes with '
        'duplicate keys, 0-3 links with own attributes) on a provider with 1-8 processors of mixed kinds (simple / batch flushed '
        'later), then 0-40 operations (SetAttribute with every AttributeValue alternative, the four AddEvent overloads, SetStatus, '
        'UpdateName, End with/without steady time, ForceFlush, IsRecording; operations after End and repeated End in most programs; '
        'a tenth of the programs run every op on another thread, one at a time; a seventh contain a CONCURRENT section in which 2-4 '
        'real threads apply their mutators to the one span at the same time - keys / event names are per thread, so every '
        'interleaving must give the same record up to the relative order of events of different threads, which is printed '
        'grouped), then ~Span and a final ForceFlush; a further stream runs the same kind of programs plus AddLink / AddLinks against an '
        'ABI-v2 build of the same sources; there 45% of the tracers are requested with scope attributes (GetTracer pointer / '
        'container / initializer-list overloads), mostly after a decoy request for the same name / version / schema whose attributes '
        'differ in one place or only in order. Which API overload carries a call (Tracer::StartSpan: virtual, KeyValueIterable '
        'without links, container templates, initializer lists for attributes and / or links; Span::AddEvent / AddLink / AddLinks: '
        'virtual, container template, initializer list; End() / SetStatus(code) default arguments; provider / tracer ForceFlush / '
        'Close; processors built by constructor or by their factories; first or second GetTracer of the scope; explicit-context / context / root-context parent option) rotates '
        'deterministically with the shape of the case. Every caller buffer is an '
        'exact-size heap block freed right after the call. non-trivial = the program has at least one operation and is accepted; '
        'distinct = distinct case line')
TRUSTED = ['harness exporter/canonicaliser (renders SpanData at Export time; clock-dependent times printed as now/auto)',
           'the batch processor\'s own protocol (queue, worker thread) is C01-C03\'s; here only its hand-over and flush are observed',
           'memory safety / ownership is shown by ASan+UBSan on freed-after-call caller buffers, not by a theorem']
ASSUMPTIONS = ['span identity (ids, flags, parent) is C05\'s and not compared here',
               'the repo is built with ABI v1 (links only at StartSpan); Span::AddLink / AddLinks are exercised in a second harness built from the same sources with OPENTELEMETRY_ABI_VERSION_NO=2',
               'generated numeric values stay inside the C++ types (out-of-range tokens are rejected by both sides as bad-op)']
SHRINK = True

# ---------------------------------------------------------------------------------------------- value tokens

I32 = (-2**31, 2**31 - 1)
I64 = (-2**63, 2**63 - 1)
U32 = (0, 2**32 - 1)
U64 = (0, 2**64 - 1)
DBL_EDGE = ['0000000000000000', '8000000000000000', '7ff0000000000000', 'fff0000000000000', '7ff8000000000000',
            '7ff0000000000001', '0000000000000001', '7fefffffffffffff', '3ff0000000000000', 'c00921fb54442d18']


def hx(b):
    return b.hex() if b else '-'


def r_int(rng, lo, hi):
    r = rng.random()
    if r < 0.15:
        return rng.choice([lo, hi, 0, 1, lo + 1, hi - 1])
    if r < 0.5:
        return rng.randrange(max(lo, -100), min(hi, 100) + 1)
    return rng.randrange(lo, hi + 1)


def r_bits(rng):
    return rng.choice(DBL_EDGE) if rng.random() < 0.4 else f'{rng.getrandbits(64):016x}'


def r_bytes(rng, maxlen=12):
    r = rng.random()
    if r < 0.12:
        return b''
    n = rng.randrange(1, maxlen + 1)
    if r < 0.5:
        return bytes(rng.choice(b'abcdefghijklmnopqrstuvwxyz._-0123456789') for _ in range(n))
    if r < 0.7:  # embedded / leading / trailing NULs
        b = bytearray(rng.choice(b'abcXYZ\x00') for _ in range(n))
        b[rng.randrange(n)] = 0
        return bytes(b)
    return bytes(rng.randrange(256) for _ in range(n))


def r_len(rng, big):
    r = rng.random()
    if r < 0.2:
        return 0
    if r < 0.75:
        return rng.randrange(1, 6)
    if r < 0.97:
        return rng.randrange(6, 40)
    return rng.randrange(200, 3000 if big else 600)


ALTS = 'bilUudcsBILVWDSY'


def r_value(rng, big=False, alt=None):
    a = alt or rng.choice(ALTS)
    if a == 'b': return f'b:{rng.randrange(2)}'
    if a == 'i': return f'i:{r_int(rng, *I32)}'
    if a == 'l': return f'l:{r_int(rng, *I64)}'
    if a == 'u': return f'u:{r_int(rng, *U32)}'
    if a == 'U': return f'U:{r_int(rng, *U64)}'
    if a == 'd': return f'd:{r_bits(rng)}'
    if a == 'c': return f'c:{hx(r_bytes(rng, 300 if rng.random() < 0.03 else 12))}'
    if a == 's': return f's:{hx(r_bytes(rng, 300 if rng.random() < 0.03 else 12))}'
    n = r_len(rng, big)
    if a == 'B': return 'B:' + '.'.join(str(rng.randrange(2)) for _ in range(n))
    if a == 'I': return 'I:' + '.'.join(str(r_int(rng, *I32)) for _ in range(n))
    if a == 'L': return 'L:' + '.'.join(str(r_int(rng, *I64)) for _ in range(n))
    if a == 'V': return 'V:' + '.'.join(str(r_int(rng, *U32)) for _ in range(n))
    if a == 'W': return 'W:' + '.'.join(str(r_int(rng, *U64)) for _ in range(n))
    if a == 'D': return 'D:' + '.'.join(r_bits(rng) for _ in range(n))
    if a == 'S': return 'S:' + '.'.join(hx(r_bytes(rng, 8)) for _ in range(min(n, 400)))
    if a == 'Y': return 'Y:' + hx(bytes(rng.randrange(256) for _ in range(n)))
    raise ValueError(a)


def r_key(rng, pool):
    if rng.random() < 0.7:
        return rng.choice(pool)
    return r_bytes(rng, 10)


def r_attrs(rng, pool, maxn=6, big=False):
    n = rng.choice([0, 0, 1, 1, 2, 3, maxn])
    if n == 0:
        return '-'
    return ','.join(f'{hx(r_key(rng, pool))}={r_value(rng, big)}' for _ in range(n))


def r_time(rng, hi):
    r = rng.random()
    if r < 0.25:
        return 0
    if r < 0.35:
        return rng.choice([1, hi - 1, 2, 1000])
    return rng.randrange(1, hi)


def r_link(rng, pool, big=False):
    return f'{rng.getrandbits(128):032x}/{rng.getrandbits(64):016x}/{rng.randrange(256):02x}/{r_attrs(rng, pool, 3, big)}'


def gen_program(rng, big=False, threaded=False, nprocs=None, par=False, v2=False):
    pool = [b'k', b'a', b'key.two', b'', b'k\x00x', b'\xff\xfe', b'a.b.c'][:rng.randrange(2, 8)]
    np = nprocs or rng.choice([1, 1, 2, 2, 3, 4, 4, rng.randrange(1, 9)])
    procs = ''.join(rng.choice('sb') for _ in range(np))
    scope = '/'.join(hx(r_bytes(rng, 8)) for _ in range(3))
    sys_t = r_time(rng, 10**18) if rng.random() < 0.9 else -rng.randrange(1, 10**12)
    steady = r_time(rng, 2**62)
    links = '-'
    nl = rng.choice([0, 0, 0, 1, 2, 3])
    if nl:
        links = '|'.join(f'{rng.getrandbits(128):032x}/{rng.getrandbits(64):016x}/{rng.randrange(256):02x}/{r_attrs(rng, pool, 3, big)}'
                         for _ in range(nl))
    cfg = f'span {procs} {hx(r_bytes(rng, 6))} {scope} {hx(r_bytes(rng))} {rng.randrange(5)} {sys_t} {steady} {r_attrs(rng, pool, 6, big)} {links}'
    nops = rng.choice([0, 1, 2, 5, 8, 12, 20, 30, 40])
    # where the first End goes (None = only the destructor ends the span)
    end_at = None if rng.random() < 0.25 else rng.randrange(nops + 1)
    ops = []
    for i in range(nops + 1):
        if end_at is not None and i == end_at:
            ops.append(f'end {r_time(rng, 2**62) if steady == 0 or rng.random() < 0.5 else steady + rng.randrange(-10**9, 10**12)}')
            continue
        if i == nops:
            break
        r = rng.random()
        if v2 and r < 0.22:
            # ABI v2: AddLink / AddLinks
            if rng.random() < 0.6:
                ops.append('link ' + r_link(rng, pool, big))
            else:
                n = rng.choice([0, 1, 2, 3])
                ops.append('links ' + ('|'.join(r_link(rng, pool, big) for _ in range(n)) if n else '-'))
        elif r < 0.38:
            ops.append(f'attr {hx(r_key(rng, pool))} {r_value(rng, big)}')
        elif r < 0.58:
            k = rng.choice(['ev', 'evt', 'eva', 'evta'])
            ts = rng.choice([0, 1, -5, 10**18 - 1]) if rng.random() < 0.2 else rng.randrange(-10**15, 10**18)
            o = f'{k} {hx(r_bytes(rng))}'
            if 't' in k[2:]:
                o += f' {ts}'
            if k.endswith('a'):
                o += f' {r_attrs(rng, pool, 4, big)}'
            ops.append(o)
        elif r < 0.68:
            ops.append(f'status {rng.randrange(3)} {hx(r_bytes(rng))}')
        elif r < 0.78:
            ops.append(f'name {hx(r_bytes(rng))}')
        elif r < 0.86:
            ops.append(f'end {r_time(rng, 2**62)}')
        elif r < 0.93:
            ops.append('flush')
        else:
            ops.append('isrec')
    if threaded:
        ops = [f'@{rng.randrange(4)} {o}' for o in ops]
    if rng.random() < 0.12:
        # a processor attached to the provider while the span is in flight (TracerProvider::AddProcessor): it saw no OnStart,
        # has no recordable of this span and must see nothing of it
        for _ in range(rng.choice([1, 1, 2])):
            ops.insert(rng.randrange(len(ops) + 1), f'addproc {rng.choice("ssbn")}')     # n = AddProcessor(nullptr): ignored
    if par:
        # a concurrent section: 2-4 threads, each with its own keys / event names (first byte = its digit)
        sec = []
        for k in rng.sample(range(4), rng.randrange(2, 5)):
            for _ in range(rng.randrange(1, 7)):
                nm = bytes([48 + k]) + r_bytes(rng, 4)
                if rng.random() < 0.55:
                    sec.append(f'@{k} attr {hx(bytes([48 + k]) + rng.choice([b"", b"a", b"b"]))} {r_value(rng, big)}')
                else:
                    kind = rng.choice(['ev', 'evt', 'eva', 'evta'])
                    o = f'@{k} {kind} {hx(nm)}'
                    if 't' in kind[2:]:
                        o += f' {rng.randrange(10**17)}'
                    if kind.endswith('a'):
                        o += f' {r_attrs(rng, pool, 3, big)}'
                    sec.append(o)
        rng.shuffle(sec)
        at = rng.randrange(len(ops) + 1)
        ops = ops[:at] + ['par'] + sec + (['seq'] if at < len(ops) or rng.random() < 0.7 else []) + ops[at:]
    if v2:
        cfg = 'span2' + cfg[4:]
        if rng.random() < 0.45:
            # the tracer is requested with scope attributes; mostly after a decoy request that differs in one place (a value,
            # a missing / extra pair) or only in the order of the pairs
            n = rng.choice([0, 1, 1, 2, 3, 3, 5])
            kvs = [(hx(r_key(rng, pool)), r_value(rng, big)) for _ in range(n)]
            tok = lambda l: ','.join(f'{k}={v}' for k, v in l) if l else '-'
            sc2 = scope + '/' + tok(kvs)
            r = rng.random()
            if r < 0.8:
                d = list(kvs)
                m = rng.random()
                if d and m < 0.45:
                    j = rng.randrange(len(d)); v = d[j][1]
                    d[j] = (d[j][0], r_value(rng, big, v[0]) if rng.random() < 0.7 else r_value(rng, big))    # same type, other value / other type
                elif d and m < 0.6:
                    del d[rng.randrange(len(d))]
                elif m < 0.75:
                    d.insert(rng.randrange(len(d) + 1), (hx(r_key(rng, pool)), r_value(rng, big)))
                elif d and m < 0.85:
                    j = rng.randrange(len(d)); d[j] = (hx(r_bytes(rng, 6) + b'~'), d[j][1])                          # same size, one key replaced
                elif m < 0.95:
                    rng.shuffle(d)
                sc2 += '/' + tok(d)
            toks = cfg.split(' ')
            assert toks[3] == scope
            toks[3] = sc2
            cfg = ' '.join(toks)
    return ' ; '.join([cfg] + ops)


# Cases that FAIL on the unchanged tree and are therefore NOT part of corpus() / generate(): candidate findings for triage
# (coverage/AUDIT_C04.md).  Processor kind `z` = a SpanProcessor whose MakeRecordable() returns nullptr (the harness has it; the
# Lean model does not: it answers bad-op).  Expected by the property: no crash, every processor that handed out a recordable
# receives its copy exactly once, the `z` processor is not notified (MultiSpanProcessor::OnStart / OnEnd and Span::Span test
# for a null recordable, MultiRecordable's setters do not).  Observed: UBSan / SEGV `member access within null pointer of
# type 'struct Recordable'` at multi_recordable.h:111 (MultiRecordable::SetName, first setter of Span::Span).
CANDIDATE_FINDINGS = [
    'span z 72 6c/-/- 6e 0 0 0 - - ; end 0',
    'span sz 72 6c/-/- 6e 0 0 0 - - ; attr 6b i:1 ; end 0',
]


def corpus():
    C = lambda line, *tags: Case(line, H, ('corpus',) + tags, 'corpus')
    _late = [C('span s 72 6c/-/- 6e 0 0 0 - - ; attr 6b i:1 ; addproc s ; attr 6b i:2 ; end 0', 'addproc-mid-flight'),
             C('span sb 72 6c/-/- 6e 0 0 0 - - ; addproc n ; attr 6b i:1 ; addproc n ; end 0 ; addproc n', 'addproc-null'),
             C('span sb 72 6c/-/- 6e 0 0 0 6b=i:1 - ; addproc b ; addproc s ; ev 65 ; end 0 ; flush', 'addproc-mid-flight')]
    base = 'span sb 7265 6c6962/31/- 6e616d65 1 1000 5000'
    out = [
        C(base + ' 61=i:5,62=s:6869,61=c:410042 00112233445566778899aabbccddeeff/0102030405060708/01/6b=B:1.0 ; attr 61 l:-7 ; '
          'evta 6576 77 6b=S:-.6162 ; isrec ; status 2 6f6f ; name 6e32 ; flush ; end 7000 ; isrec ; attr 7a b:1 ; end 9000', 'smoke'),
        # every alternative written to ONE key in turn: the last one wins whatever the earlier types were
        C(base + ' - - ; ' + ' ; '.join(f'attr 6b {v}' for v in (
            'b:1', 'i:-2147483648', 'l:9223372036854775807', 'u:4294967295', 'U:18446744073709551615', 'd:7ff8000000000000',
            'c:610062', 's:610062', 'B:1.0.1', 'I:-1.0.1', 'L:-9223372036854775808', 'V:0.4294967295', 'W:18446744073709551615',
            'D:8000000000000000.7ff0000000000000', 'S:-.00.6162', 'Y:00ff80', 's:-', 'S:', 'Y:-', 'B:')) + ' ; end 6000', 'all-alternatives-one-key'),
        # nothing after End takes effect; a second End neither re-exports nor changes the duration
        C(base + ' 6b=i:1 - ; end 6000 ; attr 6b i:2 ; attr 6e s:6e6577 ; ev 6c617465 ; status 2 6c617465 ; name 6c617465 ; end 9999 ; flush ; end 0', 'ops-after-end'),
        C('span bbbb - 61/-/- 6e 0 0 0 - - ; end 0 ; end 0 ; flush ; flush ; end 5', 'double-end-batch'),
        # only the destructor ends the span
        C('span sbsb 00 6100/0062/63 6e00616d65 4 -5 77 6b=s:610062,6b32=c:610062 - ; ev 61 ; eva 62 -=d:7ff8000000000000', 'destructor-end'),
        C('span s - -/-/- - 0 0 0 - -', 'empty-program'),
        C('span ssssbbbb 72 6c/76/73 6e 3 999999999999999999 4611686018427387903 - - ; end 1', 'eight-processors-negative-duration'),
        # duplicate keys inside start attributes, event attributes and link attributes
        C('span sb - 6c/-/- 6e 0 5 5 6b=i:1,6b=s:32,-=b:1,-=b:0 ' + '0' * 31 + '1/' + '0' * 15 + '2/ff/6b=i:1,6b=i:2|' + 'f' * 32 + '/' + 'f' * 16 + '/00/- ; '
          'evta 65 0 6b=i:1,6b=l:2,6b=U:3 ; eva 65 - ; end 5', 'duplicate-keys'),
        C('span b - 6c/-/- 6e 0 5 7 - - ; attr 6b I:' + '.'.join(str(i - 500) for i in range(1000)) + ' ; attr 6c S:' + '.'.join(['6162', '-'] * 200)
          + ' ; attr 6d Y:' + '00ff' * 700 + ' ; end 9', 'large-arrays'),
        C('span sb - 6c/-/- 6e 0 5 7 - - ; @0 attr 6b i:1 ; @1 attr 6b i:2 ; @2 ev 65 ; @3 end 9 ; @0 attr 6b i:3 ; @1 end 10', 'threads'),
        C('span sbs - 6c/-/- 6e 0 5 7 - - ; ev 3100 ; par ; @0 attr 30 i:1 ; @1 attr 31 s:6162 ; @0 ev 3061 ; @1 evta 3161 5 6b=i:1 ; @0 attr 30 i:3 ; @1 ev 3162 ; '
          '@3 attr 33 S:61.62 ; seq ; ev 3000 ; end 9 ; par ; @0 attr 30 i:4 ; @2 ev 32', 'concurrent-section'),
    ]
    L = lambda k: f'{k * 32}/{k * 16}/0{k}/'
    out.append(Case('span2 sb - 6c/-/- 6e 0 5 7 - ' + L('1') + '- ; link ' + L('2') + '6b=i:1,6b=i:2 ; links ' + L('3') + '-|' + L('4') + '61=S:61.- ; links - ; '
                    'end 9 ; link ' + L('5') + '- ; links ' + L('6') + '-', H2, ('corpus', 'abi2-addlink'), 'corpus'))
    V2 = lambda line, *tags: out.append(Case(line, H2, ('corpus',) + tags, 'corpus'))
    V2('span2 sb - 6c/31/- 6e 0 5 7 - - ; end 9', 'abi2-scope-attrs-none')
    V2('span2 sb - 6c/31/-/- 6e 0 5 7 - - ; end 9', 'abi2-scope-attrs-empty')
    V2('span2 sb - 6c/31/-/6b=i:1,6b=i:2,61=s:6100/6b=i:2,61=s:6100 6e 0 5 7 - - ; end 9', 'abi2-scope-attrs-duplicate-key')
    V2('span2 s - 6c/-/75/6b=i:1,61=S:61.-/6b=i:1,61=S:61.62 6e 0 5 7 - - ; end 9', 'abi2-scope-attrs-decoy-differs-in-array')
    V2('span2 s - 6c/-/75/6b=i:1,61=c:6162/61=s:6162,6b=i:1 6e 0 5 7 - - ; end 9', 'abi2-scope-attrs-decoy-equal-as-map')
    V2('span2 s - 6c/-/75/6b=i:1,61=c:6162/6b=i:1,62=c:6162 6e 0 5 7 - - ; end 9', 'abi2-scope-attrs-decoy-other-key')
    V2('span2 b 72 6c6c/-/-/' + ','.join(f'{i:02x}={v}' for i, v in enumerate(('b:1', 'i:-2', 'l:3', 'u:4', 'U:5', 'd:3ff0000000000000', 'c:63', 's:7300', 'B:1.0', 'I:1', 'L:2', 'V:3',
       'W:4', 'D:7ff8000000000000', 'S:61.-', 'Y:00ff'))) + '/' + ','.join(f'{i:02x}={v}' for i, v in enumerate(('b:1', 'i:-2', 'l:3', 'u:4', 'U:5', 'd:3ff0000000000000', 'c:63', 's:7300',
       'B:1.0', 'I:1', 'L:2', 'V:3', 'W:4', 'D:7ff8000000000000', 'S:61.-', 'Y:00fe'))) + ' 6e 0 5 7 - - ; end 9', 'abi2-scope-attrs-all-alternatives')
    out.append(C('span s - 6c/-/-/- 6e 0 0 0 - - ; end 0', 'malformed'))       # no scope attributes under ABI v1
    for bad in ('span2 s - 6c/-/-/-/-/- 6e 0 0 0 - -', 'span2 s - 6c/-/-/6b 6e 0 0 0 - -', 'span2 s - 6c/-/-/-/6b=x:1 6e 0 0 0 - -'):
        out.append(Case(bad, H2, ('corpus', 'malformed'), 'corpus'))
    for bad in ('span2 s - 6c/-/- 6e 0 0 0 - - ; link -', 'span2 s - 6c/-/- 6e 0 0 0 - - ; link ' + L('1') + '-|' + L('2') + '-', 'span2 s - 6c/-/- 6e 0 0 0 - - ; links',
                'span2 s - 6c/-/- 6e 0 0 0 - - ; par ; @1 link ' + L('1') + '-', 'span2 s - 6c/-/- 6e 0 0 0 - - ; link 00/00/00/-'):
        out.append(Case(bad, H2, ('corpus', 'malformed'), 'corpus'))
    out.append(C('span s - 6c/-/- 6e 0 0 0 - - ; link ' + L('1') + '-', 'malformed'))      # no AddLink under ABI v1
    for bad in ('span', 'span x', 'span sx 00 -/-/- 6e 0 0 0 - -', 'span s 00 -/-/- 6e 5 0 0 - -', 'span s 00 -/- 6e 0 0 0 - -',
                'span s 0 -/-/- 6e 0 0 0 - -', 'span s 00 -/-/- 6e 0 0 0 6b=i:2147483648 -', 'span s 00 -/-/- 6e 0 0 0 - - ; attr 6b u:-1',
                'span s 00 -/-/- 6e 0 0 0 - - ; status 3 -', 'span s 00 -/-/- 6e 0 0 0 - - ; bogus', 'span s 00 -/-/- 6e 0 0 0 - - ; ',
                'span s 00 -/-/- 6e 0 0 0 - - ; @4 ev 61', 'span s 00 -/-/- 6e 0 0 0 - 00/00/00/-', 'span s 00 -/-/- 6e 0 0 0 - - ; attr 6b d:00',
                'span s 00 -/-/- 6e 0 9223372036854775808 0 - -', 'span sssssssss 00 -/-/- 6e 0 0 0 - -', 'span s 00 -/-/- 6e 0 0 0 - - ; attr 6b B:2',
                'span s 00 -/-/- 6e 0 0 0 - - ; attr 6b x:1', 'span s 00 -/-/- 6e 0 0 0 6b - ; end 0', 'span s 00 -/-/- 6e 0 0 0 - - ; end',
                'span s 00 -/-/- 6e 0 0 0 - - ; par ; par', 'span s 00 -/-/- 6e 0 0 0 - - ; seq', 'span s 00 -/-/- 6e 0 0 0 - - ; par ; attr 30 i:1',
                'span s 00 -/-/- 6e 0 0 0 - - ; par ; @1 attr 30 i:1', 'span s 00 -/-/- 6e 0 0 0 - - ; par ; @1 end 5', 'span s 00 -/-/- 6e 0 0 0 - - ; @1 par',
                'span s 00 -/-/- 6e 0 0 0 - - ; par ; @1 ev -'):
        out.append(C(bad, 'malformed'))
    return out + _late + [c for m in SUBS for c in m.corpus()]


def generate(rng, tier):
    big = tier == 'thorough'
    out = []
    n = 150000 if big else 10000
    for i in range(n):
        threaded = rng.random() < 0.1
        par = rng.random() < 0.15
        line = gen_program(rng, big, threaded, par=par)
        tags = ['program', 'threaded' if threaded else 'single-thread'] + (['concurrent-section'] if par else [])
        toks = line.split(' ')
        tags.append('procs=' + str(len(toks[1])))
        ops = line.split(' ; ')[1:]
        ends = [j for j, o in enumerate(ops) if o.split(' ')[-2:-1] == ['end'] or o.startswith('end ')]
        tags.append('no-explicit-end' if not ends else ('ops-after-end' if ends[0] < len(ops) - 1 else 'end-last'))
        out.append(Case(line, H, tags))
    # ABI v2 build: the same programs plus AddLink / AddLinks
    for i in range(20000 if big else 1500):
        par = rng.random() < 0.1
        out.append(Case(gen_program(rng, big, rng.random() < 0.1, par=par, v2=True), H2, ('program', 'abi2-addlink') + (('concurrent-section',) if par else ())))
    # many of each kind on one span: more events / distinct attribute keys / (ABI v2) links than any plausible built-in limit
    # (the statement has none: "the events and links in call order", "the attributes with last-write-wins per key")
    for n_many in ([129, 300] if not big else [33, 65, 128, 129, 130, 257, 300, 1025]):
        evs = ' ; '.join((f'ev {hx(b"e%d" % i)}' if i % 3 else f'eva {hx(b"e%d" % i)} 6b=i:{i}') for i in range(n_many))
        out.append(Case(f'span sb - 6c/-/- 6e 0 0 0 - - ; {evs} ; end 0 ; flush', H, ('program', 'many-events', f'n={n_many}')))
        ats = ' ; '.join(f'attr {hx(b"k%d" % i)} i:{i}' for i in range(n_many))
        out.append(Case(f'span sb - 6c/-/- 6e 0 0 0 - - ; {ats} ; attr {hx(b"k0")} i:7 ; end 0 ; flush', H, ('program', 'many-attributes', f'n={n_many}')))
    # every alternative as the later write over every alternative as the earlier write (16 x 16), on simple+batch
    for a in ALTS:
        for b in ALTS:
            out.append(Case(f'span sb - 6c/-/- 6e 0 0 0 6b={r_value(rng, False, a)} - ; attr 6b {r_value(rng, False, b)} ; end 0', H,
                            ('alt-over-alt',)))
    # malformed stream: a valid program with one token damaged
    for i in range(600 if big else 120):
        line = gen_program(rng, False)
        toks = line.split(' ')
        j = rng.randrange(1, len(toks))
        r = rng.random()
        if r < 0.3:
            toks[j] = toks[j] + rng.choice(['g', ':', '=', '..', ',', '/', 'x:1'])
        elif r < 0.5:
            del toks[j]
        elif r < 0.7:
            toks.insert(j, rng.choice(['zz', '-', '1', ';']))
        elif r < 0.85:
            toks[j] = rng.choice(['i:2147483648', 'u:4294967296', 'l:-9223372036854775809', 'U:18446744073709551616', 'b:2', 'd:0', '5', '@9'])
        else:
            toks[j] = toks[j][:-1]
        out.append(Case(' '.join(toks), H, ('damaged-token',)))
    return out + [c for m in SUBS for c in m.generate(rng, tier)]


# ---------------------------------------------------------------------------------------------- reference of the SPEC

class Bad(Exception):
    pass


def _hex(s):
    if s == '-':
        return b''
    if not re.fullmatch(r'([0-9a-fA-F]{2})*', s):
        raise Bad(s)
    return bytes.fromhex(s)


def _int(s, lo, hi, signed=True):
    if not re.fullmatch(r'-?[0-9]{1,20}' if signed else r'[0-9]{1,20}', s):
        raise Bad(s)
    v = int(s)
    if not lo <= v <= hi:
        raise Bad(s)
    return v


def _bits(s):
    if not re.fullmatch(r'[0-9a-fA-F]{16}', s):
        raise Bad(s)
    return s.lower()


def spec_value(tok):
    """the owned value the exporter must see for a value token, as `<tag>:<payload>` (variant index left out)"""
    p = tok.split(':')
    if len(p) != 2:
        raise Bad(tok)
    tag, pl = p
    el = pl.split('.') if pl != '' else []
    if tag == 'b':
        if pl not in ('0', '1'): raise Bad(tok)
        return 'b:' + pl
    if tag == 'i': return f'i:{_int(pl, *I32)}'
    if tag == 'l': return f'l:{_int(pl, *I64)}'
    if tag == 'u': return f'u:{_int(pl, *U32, signed=False)}'
    if tag == 'U': return f'U:{_int(pl, *U64, signed=False)}'
    if tag == 'd': return 'd:' + _bits(pl)
    if tag == 's': return 's:' + hx(_hex(pl))
    if tag == 'c': return 's:' + hx(_hex(pl).split(b'\0')[0])        # a C string ends at its first NUL
    if tag == 'Y': return 'Y:' + hx(_hex(pl))
    if tag == 'B':
        if any(e not in ('0', '1') for e in el): raise Bad(tok)
        return 'B:' + '.'.join(el)
    if tag == 'I': return 'I:' + '.'.join(str(_int(e, *I32)) for e in el)
    if tag == 'L': return 'L:' + '.'.join(str(_int(e, *I64)) for e in el)
    if tag == 'V': return 'V:' + '.'.join(str(_int(e, *U32, signed=False)) for e in el)
    if tag == 'W': return 'W:' + '.'.join(str(_int(e, *U64, signed=False)) for e in el)
    if tag == 'D': return 'D:' + '.'.join(_bits(e) for e in el)
    if tag == 'S': return 'S:' + '.'.join(hx(_hex(e)) for e in el)
    raise Bad(tok)


def spec_attrs(tok):
    """list of (key, owned) in call order"""
    if tok == '-':
        return []
    out = []
    for item in tok.split(','):
        kv = item.split('=')
        if len(kv) != 2:
            raise Bad(item)
        out.append((_hex(kv[0]), spec_value(kv[1])))
    return out


def show_map(writes):
    m = {}
    for k, v in writes:
        m[k] = v                       # last write wins per key
    return '[' + ','.join(f'{hx(k)}={m[k]}' for k in sorted(m)) + ']'


def spec_time(v):
    return 'now' if v is None else str(v)


def spec_expected(line):
    """(is-recording observations, processor kinds, the record every exporter must receive) - or raises Bad"""
    toks = line.split()
    if not toks or toks[0] not in ('span', 'span2'):
        raise Bad('engine')
    v2 = toks[0] == 'span2'
    segs, cur = [], []
    for t in toks[1:]:
        if t == ';':
            segs.append(cur); cur = []
        else:
            cur.append(t)
    segs.append(cur)
    c = segs[0]
    if len(c) != 9:
        raise Bad('cfg')
    procs = c[0]
    if not re.fullmatch(r'[sb]{1,8}', procs) and not (line in CANDIDATE_FINDINGS and re.fullmatch(r'[sbz]{1,8}', procs)):
        raise Bad('procs')
    res = _hex(c[1])
    sc = c[2].split('/')
    if len(sc) not in ((3, 4, 5) if v2 else (3,)):
        raise Bad('scope')
    scope = '/'.join(hx(_hex(x)) for x in sc[:3])
    if len(sc) > 3:
        # ABI v2: the tracer was requested with scope attributes (sc[3]); sc[4] are the attributes of a decoy request for
        # the same name / version / schema whose tracer is not used - the exported scope carries sc[3], last write per key
        scope += show_map(spec_attrs(sc[3]))
        if len(sc) > 4:
            spec_attrs(sc[4])
    name = _hex(c[3])
    kind = _int(c[4], 0, 4, signed=False)
    sys_t = _int(c[5], *I64)
    steady = _int(c[6], *I64)
    writes = spec_attrs(c[7])
    def p_links(tok):
        res_ = []
        if tok != '-':
            for l in tok.split('|'):
                p = l.split('/')
                if len(p) != 4:
                    raise Bad('link')
                tid, sid, fl = _hex(p[0]), _hex(p[1]), _hex(p[2])
                la = spec_attrs(p[3])
                if len(tid) != 16 or len(sid) != 8 or len(fl) != 1:
                    raise Bad('link ids')
                res_.append(f'{tid.hex()}/{sid.hex()}/{fl.hex()}{show_map(la)}')
        return res_
    links = p_links(c[8])
    events, status, ended, end_opt, rec = [], (0, b''), False, None, []
    parsed = []
    in_par, grouped = False, False
    for o in segs[1:]:
        tag = None
        if o and o[0].startswith('@'):
            tag = _int(o[0][1:], 0, 3, signed=False)
            o = o[1:]
        if not o:
            raise Bad('empty op')
        k = o[0]
        if k in ('par', 'seq') and len(o) == 1:
            if tag is not None or (k == 'par') == in_par:
                raise Bad('section')
            in_par, grouped = k == 'par', True
            continue
        if in_par:
            # only thread-tagged attr / event ops whose key / name starts with the thread's digit
            if tag is None or k not in ('attr', 'ev', 'evt', 'eva', 'evta') or len(o) < 2 or _hex(o[1])[:1] != bytes([48 + tag]):
                raise Bad('op in concurrent section')
        if k == 'attr' and len(o) == 3: parsed.append(('attr', _hex(o[1]), spec_value(o[2])))
        elif k == 'ev' and len(o) == 2: parsed.append(('ev', _hex(o[1]), None, []))
        elif k == 'evt' and len(o) == 3: parsed.append(('ev', _hex(o[1]), _int(o[2], *I64), []))
        elif k == 'eva' and len(o) == 3: parsed.append(('ev', _hex(o[1]), None, spec_attrs(o[2])))
        elif k == 'evta' and len(o) == 4: parsed.append(('ev', _hex(o[1]), _int(o[2], *I64), spec_attrs(o[3])))
        elif k == 'status' and len(o) == 3: parsed.append(('status', _int(o[1], 0, 2, signed=False), _hex(o[2])))
        elif k == 'name' and len(o) == 2: parsed.append(('name', _hex(o[1])))
        elif k == 'end' and len(o) == 2: parsed.append(('end', _int(o[1], *I64)))
        elif k in ('flush', 'isrec') and len(o) == 1: parsed.append((k,))
        elif k == 'addproc' and len(o) == 2 and o[1] in ('s', 'b', 'n') and tag is None: parsed.append(('addproc',))
        elif v2 and k == 'link' and len(o) == 2:
            ls = p_links(o[1])
            if len(ls) != 1:
                raise Bad('link')
            parsed.append(('links', ls))
        elif v2 and k == 'links' and len(o) == 2: parsed.append(('links', p_links(o[1])))
        else:
            raise Bad('op')
    for o in parsed:
        if o[0] == 'isrec':
            rec.append('0' if ended else '1')
        elif o[0] == 'end':
            if not ended:
                ended, end_opt = True, o[1]
        elif ended or o[0] in ('flush', 'addproc'):
            continue                     # after End nothing changes
        elif o[0] == 'attr': writes.append((o[1], o[2]))
        elif o[0] == 'links': links.extend(o[1])
        elif o[0] == 'ev': events.append((o[1][0] + 1 if o[1] else 0, f'{hx(o[1])}@{spec_time(o[2])}{show_map(o[3])}'))
        elif o[0] == 'status': status = (o[1], o[2])
        elif o[0] == 'name': name = o[1]
    dur = str(end_opt - steady) if (steady != 0 and end_opt not in (None, 0)) else 'auto'
    record = {'name': hx(name), 'kind': str(kind), 'start': spec_time(sys_t if sys_t != 0 else None), 'dur': dur,
              'attrs': show_map(writes), 'events': '[' + ';'.join(e for _, e in (sorted(events, key=lambda x: x[0]) if grouped else events)) + ']', 'links': '[' + ';'.join(links) + ']',
              'status': f'{status[0]}/{hx(status[1])}', 'res': hx(res), 'scope': scope}
    return rec, procs, record


REC_RE = re.compile(r'\{name=(\S+) kind=(\S+) start=(\S+) dur=(\S+) attrs=(\S+) events=(\S+) links=(\S+) status=(\S+) res=(\S+) scope=(\S+)\}')
FIELDS = ('name', 'kind', 'start', 'dur', 'attrs', 'events', 'links', 'status', 'res', 'scope')
CLAUSE = {'name': 'name-is-last-UpdateName-before-End', 'kind': 'kind-as-started', 'start': 'start-time-as-started',
          'dur': 'duration-is-first-End-minus-start', 'attrs': 'attributes-last-write-wins-before-End',
          'events': 'events-in-call-order-with-own-attributes', 'links': 'links-in-call-order-with-own-attributes',
          'status': 'status-is-last-SetStatus-before-End', 'res': 'resource-of-the-provider', 'scope': 'scope-of-the-tracer-with-its-attributes'}


def strip_index(s):
    """drop the variant index in front of every owned value: `=3:l:-7` -> `=l:-7`"""
    return re.sub(r'=(\d+):', '=', s)


def oracle(case, out):
    m = _sub(case)
    if m:
        return m.oracle(case, out)                     # the sub-check has its own malformed stream
    return _oracle(case, out)


def late_procs(line):
    """kinds of the processors attached with `addproc` while the span is in flight"""
    return re.findall(r' ; addproc ([sb])(?= ;|$)', line)


def model_line(case, out):
    m = _sub(case)
    if m and hasattr(m, 'model_line'):
        return m.model_line(case, out)
    # the model has the configured processors only: a processor attached mid-flight sees nothing of the span
    return re.sub(r' ; addproc [sbn](?= ;|$)', '', case.line)


def agree(case, out, mout):
    m = _sub(case)
    if m and hasattr(m, 'agree'):
        return m.agree(case, out, mout)
    late = late_procs(case.line)
    if late and not out.startswith(('CRASH', 'bad-op')):
        out = ' | '.join(out.split(' | ')[:len(out.split(' | ')) - len(late)])
    return out == mout


def _oracle(case, out):
    if out.startswith('CRASH'):
        return ('owned-copies-no-crash', out)
    try:
        rec, procs, want = spec_expected(case.line)
    except Bad:
        return None if out == 'bad-op' else ('malformed-case-rejected', out[:200])
    if out == 'bad-op':
        return ('wellformed-case-accepted', out)
    parts = out.split(' | ')
    if parts[0] != 'rec=[' + ','.join(rec) + ']':
        return ('is-recording-until-first-End', f'got {parts[0]} want rec=[{",".join(rec)}]')
    late = late_procs(case.line)
    if len(parts) - 1 != len(procs) + len(late):
        return ('each-processor-notified-exactly-once', f'{len(parts) - 1} processors reported, {len(procs)} configured + {len(late)} attached later')
    for j, k in enumerate(late):
        i = len(procs) + j
        if parts[1 + i] != f'p{i}:{k}:start=0:end=0:x=[]':
            return ('processor-attached-mid-flight-sees-nothing-of-the-span', f'processor {i}: {parts[1 + i][:160]}')
    parts = parts[:1 + len(procs)]
    copies = []
    for i, seg in enumerate(parts[1:]):
        if procs[i] == 'z':                # candidate-finding cases only: a processor without recordable is never notified
            if seg != f'p{i}:z:start=0:end=0:x=[]':
                return ('processor-without-recordable-is-not-notified', f'processor {i}: {seg[:160]}')
            continue
        m = re.fullmatch(r'p(\d+):([sb]):start=(\d+):end=(\d+):x=\[(.*)\]', seg)
        if not m or int(m.group(1)) != i or m.group(2) != procs[i]:
            return ('each-processor-notified-exactly-once', f'processor {i}: {seg[:120]}')
        if m.group(3) != '1' or m.group(4) != '1':
            return ('each-processor-notified-exactly-once', f'processor {i} ({procs[i]}): OnStart={m.group(3)} OnEnd={m.group(4)}')
        spans = REC_RE.findall(m.group(5))
        nbatches = m.group(5).count('[{')
        if len(spans) != 1 or nbatches != 1 or not re.fullmatch(r'\[\{[^{}]*\}\]', m.group(5)):
            return ('exactly-one-export-of-one-span-per-processor', f'processor {i} ({procs[i]}): {nbatches} export call(s), {len(spans)} span(s)')
        copies.append(spans[0])
    for i, cp in enumerate(copies):
        if cp != copies[0]:
            return ('every-processor-gets-an-identical-copy', f'processor {i} differs from processor 0')
    if not copies:
        return None
    got = dict(zip(FIELDS, copies[0]))
    for f in FIELDS:
        g = strip_index(got[f]) if f in ('attrs', 'events', 'links', 'scope') else got[f]
        if g != want[f]:
            return (CLAUSE[f], f'{f}: got {g[:300]} want {want[f][:300]}')
    return None


def signature(case, out, clause):
    m = _sub(case)
    if m and hasattr(m, 'signature'):
        return m.signature(case, out, clause)
    if out.startswith('CRASH'):
        return clause + '/' + out.split(' ', 1)[1] if ' ' in out else clause
    return clause


def nontrivial(case, out):
    m = _sub(case)
    if m and hasattr(m, 'nontrivial'):
        return m.nontrivial(case, out)
    return ' ; ' in case.line and not out.startswith('bad-op') and not out.startswith('CRASH')


LEVEL_TEXT = ('Lean 4 theorems over an executable model of span.cc / span_data.h / multi_recordable.h / multi_span_processor.h / '
              'simple_processor.h / attribute_utils.h, for every start configuration (1..n processors of mixed kinds) and every '
              'operation list incl. operations after End, repeated End and flushes anywhere: run_closed_form (every processor is '
              'notified exactly once and its exporter receives exactly one batch with exactly one span, the same record for all), '
              'field-by-field characterisation of that record against a hand-written spec (name = last UpdateName, attributes = '
              'last write per key over all 16 AttributeValue alternatives, events/links in call order with own attributes, status, '
              'kind, start, resource, scope, duration = first End - start), end_once (state- and program-level). The variant '
              'alternative lists and the AttributeConverter overload table are re-extracted from the source each run; model and '
              'code are run side by side on generated programs under ASan/UBSan with caller buffers freed after every call.')
LEVEL_NOTE = ('Trusted: Lean kernel; axioms propext/Quot.sound/Classical.choice at most; tools/gen_c04.py; harness, generators, '
              'canonicalisation of clock readings (now/auto). Partial: (1) "owned copies" is a lifetime fact - the theorems give '
              'value equality at export time, ownership is evidenced by the ASan-clean free-after-call runs; (2) several threads on '
              'one span: theorems are over sequential histories - mu_ makes each mutator and End atomic, so each concurrent '
              'execution is one of them; the harness runs ops on different threads one at a time and, in concurrent sections, really '
              'concurrently with an interleaving-independent expected outcome (ASan only, no TSan); (3) the batch processor is '
              'modelled only as "queued at OnEnd, exported at ForceFlush" (its protocol is C01-C03); (4) span identity is C05.')
DESIGN_REF = 'DESIGN.md section 4, C04'
for _m in SUBS:
    RULE = RULE + ' | ' + getattr(_m, 'RULE', '')
    LEVEL_TEXT = LEVEL_TEXT + getattr(_m, 'LEVEL_TEXT_ADD', '')
    LEVEL_NOTE = LEVEL_NOTE + getattr(_m, 'LEVEL_NOTE_ADD', '')
TECHNIQUE = 'proof (Lean 4) + differential correspondence run + implementation-side oracle'
