"""C02 sub-check: MeterProvider::ForceFlush from several threads at once (MeterContext::forceflush_lock_) under the deterministic
scheduler.  Implementation-side oracle from the property text; the model side is the schedule-independent prediction of the
fan-out model (every provider ForceFlush goes over every reader once and returns their conjunction: Props/C02Fanout.lean)."""
import itertools, re
from vcore import Case, Harness, SDK_INCLUDES, sdk_sources

WORDS = {'mpf'}
GEN = []
LEAN_TARGETS = []
THEOREMS = []
SHIM = ['-include', 'harness/shim/detsched.h', '-Iharness/shim']
try:
    from props.c06 import SHIM as _S
    SHIM = _S
except Exception:
    pass
H = Harness('d_mpf', ['harness/d_mpflush.cc'], flags=SHIM, includes=SDK_INCLUDES, plain_srcs=['harness/shim/detsched.cc'],
            sdk_srcs=sdk_sources('common', 'resource', 'version', 'metrics'))
HARNESSES = [H]


def corpus():
    return [Case('mpf 2 1 ; t0 ; t0 ; t0 ; t0 ; t0 ; t1 ; t1 ; t1 ; t1 ; t1 ; t1', 'd_mpf', ('corpus', 'mpf'), 'corpus'),
            Case('mpf 4 1', 'd_mpf', ('corpus', 'mpf-malformed'), 'corpus')]


def generate(rng, tier):
    out = []
    # systematic: two flushers, one reader, every interleaving of their first k steps each
    for k in (4, 5, 6, 7):
        for pos in itertools.combinations(range(2 * k), k):
            sched = ['t1'] * (2 * k)
            for p in pos:
                sched[p] = 't0'
            out.append(Case('mpf 2 1 ; ' + ' ; '.join(sched), 'd_mpf', ('mpf', 'systematic')))
        if tier != 'thorough' and k >= 6:
            break
    for _ in range(3000 if tier == 'thorough' else 300):
        nfl = rng.choice([2, 2, 3]); nrd = rng.choice([1, 1, 2])
        n = rng.randrange(4, 50)
        if rng.random() < 0.5:
            sched = [rng.randrange(nfl) for _ in range(n)]
        else:
            cur = rng.randrange(nfl); sched = []
            for _k in range(n):
                if rng.random() < 0.3:
                    cur = rng.randrange(nfl)
                sched.append(cur)
        out.append(Case(f'mpf {nfl} {nrd} ; ' + ' ; '.join(f't{t}' for t in sched), 'd_mpf', ('mpf', 'random')))
    return out


def _events(case, out):
    """[(thread, note)] in global order"""
    toks = case.line.split(' ; ')
    acts = toks[1:]
    parts = out.split(' ; ')
    body = parts[:-1]
    ev = []
    for a, tr in zip(acts, body[:len(acts)]):
        if tr in ('x', '-'):
            continue
        for n in tr.split(','):
            ev.append((int(a[1:]), n))
    for tr in body[len(acts):]:
        m = re.match(r'd(\d+):(.*)', tr)
        if not m:
            continue
        for n in m.group(2).split(','):
            ev.append((int(m.group(1)), n))
    return ev, parts[-1]


def oracle(case, out):
    wf = re.fullmatch(r'mpf [1-3] [12]( ; t\d+)*', case.line) is not None
    if out == 'bad-op':
        return ('wellformed-case-accepted', out) if wf else None
    if not wf:
        return ('malformed-case-rejected', out[:100])
    if out.startswith('CRASH'):
        return ('provider-forceflush-concurrent/no-crash', out)
    ev, summary = _events(case, out)
    if not summary.startswith('done=1'):
        return ('forceflush-and-shutdown-terminate', summary)
    nrd = int(case.line.split()[2])
    begun = {}      # thread -> (index of flush-begin, measurements recorded then)
    for i, (t, n) in enumerate(ev):
        if n.startswith('flush-begin '):
            begun[t] = (i, int(n.split()[1]))
        elif n.startswith('flush-ret '):
            if t not in begun:
                return ('provider-forceflush-trace', f'T{t} returned without a begin')
            b, k = begun[t]
            if n.endswith(' 1'):
                # true: every reader was asked to flush, after the call began (so that it sees what was recorded before it),
                # and that flush finished before the call returned
                for r in range(nrd):
                    ok = False
                    for j in range(b + 1, i):
                        if ev[j][1].startswith(f'rflush-begin r{r} '):
                            seen = int(ev[j][1].split('seen=')[1])
                            if seen >= k and any(ev[x][1] == f'rflush-end r{r}' for x in range(j + 1, i)):
                                ok = True
                    if not ok:
                        return ('provider-flush-true-means-every-reader-was-flushed-after-the-call-began',
                                f'T{t}: ForceFlush began with {k} measurement(s) recorded and returned true; reader {r} was not flushed in between')
    return None


def signature(case, out, clause):
    return clause


def nontrivial(case, out):
    return len(set(case.line.split(' ; ')[1:])) >= 2


def agree(case, out, mout):
    return out.split(' ; ')[-1] == mout if not out.startswith(('CRASH', 'bad-op')) else out == mout
