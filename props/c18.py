"""C18 - Resources merge with documented precedence; environment settings parse totally."""
import os, re, struct
from fractions import Fraction
from vcore import Case, Harness, sdk_sources, SDK_INCLUDES, REPO

ID = 'C18'
GEN = ['C18', 'TabEnv']
LEAN_TARGETS = ['OtelVerif.Props.C18', 'OtelVerif.Props.TabEnv']
THEOREMS = ['Otel.C18.' + t for t in (
    # resources
    'merge_union_right_biased', 'merge_keys_union', 'merge_schema', 'merge_pure', 'merge_pure_history',
    'create_precedence', 'create_has_service_name', 'create_service_name_fallback', 'defaults_are_sdk_identity',
    'detect_lookup_iff', 'detect_service_name_override', 'tokens_spec',
    # environment readers
    'parseBool_iff', 'parseBool_value_iff_true', 'sdkDisabled_iff', 'setProvider_spec',
    'parseUint32_iff_documented', 'parseUint32_default_otherwise', 'parseUint32_errno_irrelevant',
    'parseUint32_aswas_witness_space', 'parseUint32_aswas_witness_plus', 'parseUint32_aswas_witness_wrap',
    'parseUint32_aswas_witness_stale_errno',
    'parseDuration_iff_documented', 'parseDuration_default_otherwise', 'parseDuration_never_ub',
    'parseDuration_aswas_witness_ub', 'parseDuration_aswas_witness_convert_ub',
    'parseFloat_accepts_decimal', 'parseFloat_rejects_on_range_error', 'parseFloat_errno_irrelevant',
    'unit_table', 'bool_table', 'uint_bits')] + ['Otel.Tab.' + t for t in (
    'tab_envBool_head', 'tab_envDurUnit_head', 'tab_envDurByte_head', 'tab_envUintByte_head')]
HARNESSES = [Harness('s_c18', ['harness/s_c18.cc'],
                     sdk_srcs=sdk_sources('common', 'resource', 'version') +
                     ['sdk/src/trace/provider.cc', 'sdk/src/metrics/provider.cc', 'sdk/src/logs/provider.cc'],
                     includes=SDK_INCLUDES),
             # the C19 harness (same definition, same cached binary): its `sc` cases send one span / log record / metric
             # batch through real providers and report whether the exported item references the provider's resource
             Harness('s_c19', ['harness/s_c19.cc'],
                     sdk_srcs=sdk_sources('common', 'resource', 'version', 'metrics', 'trace', 'logs'),
                     includes=SDK_INCLUDES)]
# sanitizer reports are classified by their first line; symbolizing every report would dominate a run in which many cases abort
HARNESS_ENV = {'ASAN_OPTIONS': 'detect_leaks=0:abort_on_error=0:exitcode=99:allocator_may_return_null=1:symbolize=0',
               'UBSAN_OPTIONS': 'print_stacktrace=0:halt_on_error=1:exitcode=98:symbolize=0'}
H = 's_c18'
RULE = ('parser strings for bool/uint/duration/float: documented-syntax values, boundaries (2^32-1, 2^32, 2^63-1 ns per unit, 2^64), '
        'leading/trailing white space, signs, units, trailing junk, 1..40 digit strings, random non-NUL bytes, unset/empty, each uint/float '
        'string under a clean and a stale ERANGE errno; OTEL_SDK_DISABLED through the three sdk Provider setters; Resource::Merge on random '
        'overlapping typed maps and schema URLs; OTELResourceDetector on generated key=value lists (missing "=", repeated keys, empty items, '
        'white space); Resource::Create in one forked process per case (the environment part is cached per process); resource pointer of exported '
        'spans / log records / metric batches against the provider\'s resource through real providers. '
        'non-trivial = a set, non-empty value / at least one attribute; distinct = distinct case line')
TRUSTED = ['strtoull/strtof/isspace/isdigit/strcasecmp of the C library are modelled from their specification and compared on every generated string',
           'std::chrono::system_clock::duration is nanoseconds (static_assert in the harness)',
           'getenv yields NUL-free strings']
ASSUMPTIONS = ['"C" locale', 'float values are compared only where the decimal is exactly representable in binary32; ERANGE of strtof is an input of the model',
               '"every span/log/metric references its provider\'s resource" is runtime pointer identity: no theorem, checked on real providers by the `sc` cases (C19 harness)']
WS = b' \t\n\v\f\r'
I64 = 2**63 - 1
UNITS = {b'ns': 1, b'us': 10**3, b'ms': 10**6, b's': 10**9, b'm': 60 * 10**9, b'h': 3600 * 10**9, b'': 10**9}


def hx(b):
    return b.hex() if b else '-'


def envtok(v):
    """None = unset; b'' cannot be told from a set-but-empty variable by hex '-' : both are sent, as 'unset' and '-'"""
    return 'unset' if v is None else hx(v)


def _sdk_version():
    try:
        txt = open(os.path.join(REPO, 'sdk/include/opentelemetry/sdk/version/version.h')).read()
        return re.search(r'OPENTELEMETRY_SDK_VERSION\s+"([^"]*)"', txt).group(1).encode()
    except Exception:
        return None


SDK_VERSION = _sdk_version()

# ------------------------------------------------------------------------------------------------
# the spec, in Python (independent of the Lean model)

def spec_bool(v):
    return v is not None and v.lower() == b'true' and all(c < 128 for c in v)


def spec_uint(v):
    if v is None or not re.fullmatch(rb'[0-9]+', v):
        return None
    n = int(v)
    return n if n <= 0xFFFFFFFF else None


DUR_RE = re.compile(rb'[ \t\n\v\f\r]*([0-9]+)(ns|us|ms|s|m|h|)', re.S)


def spec_dur(v):
    """'unset' | None (not in the documented syntax / not representable) | nanoseconds"""
    if v is None or v == b'':
        return 'unset'
    m = DUR_RE.fullmatch(v)
    if not m:
        return None
    n = int(m.group(1)) * UNITS[m.group(2)]
    if n == 0 or n > I64:
        return None
    return n


FLOAT_RE = re.compile(rb'[ \t\n\v\f\r]*[+-]?(?:(?P<dec>(?:[0-9]+\.?[0-9]*|\.[0-9]+)(?:[eE][+-]?[0-9]+)?)|'
                      rb'(?P<hex>0[xX](?:[0-9a-fA-F]+\.?[0-9a-fA-F]*|\.[0-9a-fA-F]+)(?:[pP][+-]?[0-9]+)?)|'
                      rb'(?P<inf>[iI][nN][fF](?:[iI][nN][iI][tT][yY])?)|(?P<nan>[nN][aA][nN](?:\([0-9a-zA-Z_]*\))?))', re.S)


def float_class(v):
    """(syntax_ok, magnitude class): 'safe' = certainly in binary32 range, 'out' = certainly ERANGE, 'edge' = no claim"""
    m = FLOAT_RE.fullmatch(v)
    if not m:
        return False, None
    if m.group('inf') or m.group('nan'):
        return True, 'safe'
    body = (m.group('dec') or m.group('hex')).decode()
    try:
        x = float.fromhex(body) if m.group('hex') else float(body)
    except (OverflowError, ValueError):
        x = float('inf')
    if m.group('dec'):
        digs = re.sub(r'[eE].*', '', body).replace('.', '')
        zero = set(digs) <= {'0'}
    else:
        digs = re.sub(r'[pP].*', '', body[2:]).replace('.', '')
        zero = set(digs) <= {'0'}
    if zero:
        return True, 'safe'
    a = abs(x)
    if 1e-30 <= a <= 1e30:
        return True, 'safe'
    if a > 1e39 or a < 1e-50:
        return True, 'out'
    return True, 'edge'


def float_bits(v):
    """binary32 bit pattern if `v` is a plain decimal exactly representable in binary32, else None"""
    m = re.fullmatch(rb'([+-]?)([0-9]+)(?:\.([0-9]+))?', v)
    if not m or len(v) > 30:
        return None
    fr = Fraction(int(m.group(2) + (m.group(3) or b'')), 10 ** len(m.group(3) or b''))
    if m.group(1) == b'-':
        fr = -fr
    try:
        f = struct.unpack('>f', struct.pack('>f', float(fr)))[0]
    except OverflowError:
        return None
    if Fraction(f) != fr:
        return None
    if fr == 0 and m.group(1) == b'-':
        return '80000000'
    return struct.pack('>f', f).hex()


def parse_attr_tok(tok):
    d = {}
    if tok == '-':
        return d
    for item in tok.split(','):
        k, v = item.split('=')
        d[k] = v               # keys stay hex ('-' = empty key), values stay canonical tokens
    return d


def show_map(d):
    items = sorted(d.items(), key=lambda kv: b'' if kv[0] == '-' else bytes.fromhex(kv[0]))
    return '{' + ','.join(f'{k}={v}' for k, v in items) + '}'


def spec_detect(ea, es):
    d = {}
    if ea:
        for item in ea.split(b','):
            if b'=' in item:
                k, v = item.split(b'=', 1)
                d[hx(k)] = 's' + hx(v)
    if es:
        d[hx(b'service.name')] = 's' + hx(es)
    return d


def spec_create(ea, es, user):
    d = {hx(b'telemetry.sdk.language'): 's' + hx(b'cpp'), hx(b'telemetry.sdk.name'): 's' + hx(b'opentelemetry'),
         hx(b'telemetry.sdk.version'): 's' + hx(SDK_VERSION or b'?')}
    d.update(spec_detect(ea, es))
    d.update(user)
    sn = hx(b'service.name')
    if sn not in d:
        exe = d.get(hx(b'process.executable.name'))
        name = b'unknown_service'
        if exe is not None and exe.startswith('s'):
            name += b':' + (b'' if exe[1:] == '-' else bytes.fromhex(exe[1:]))
        d[sn] = 's' + hx(name)
    return d


def unenv(tok):
    return None if tok == 'unset' else (b'' if tok == '-' else bytes.fromhex(tok))


def oracle(case, out):
    t = case.line.split()
    if out.startswith('CRASH'):
        return ('no-undefined-behaviour-or-crash', out)
    if out == 'THROW':
        return ('no-undefined-behaviour-or-crash', 'exception thrown to the caller')
    if out.startswith('bad-op') or out.startswith('ERR'):
        return ('bad-case', out)
    if t[0] == 'sc':
        # every span, log record and metric batch references its provider's resource (runtime pointer identity)
        parts = out.split(' ; ')
        n_req = case.line.count(' g ')
        if len(parts) != n_req or not all(re.fullmatch(r'i=\d+ out=1 res=1', p) for p in parts):
            return ('every-span-log-metric-references-its-providers-resource', out)
        return None
    if t[0] == 'env':
        if t[1] == 'bool':
            v = unenv(t[2])
            want = '1' if spec_bool(v) else '0'
            m = re.fullmatch(r'r=([01]) v=([01])', out)
            if not m:
                return ('bad-output', out)
            if m.group(2) != want:
                return ('bool-accepts-exactly-true-false-case-insensitively', f'value {m.group(2)} want {want}')
            if not v and m.group(1) != '0':
                return ('unset-reported-as-unset', out)
            return None
        if t[1] == 'uint':
            v = unenv(t[3])
            n = spec_uint(v)
            want = f'r=1 v={n}' if n is not None else 'r=0 v=0'
            return None if out == want else ('uint-accepts-exactly-digits-within-32-bits-else-default-0', f'got {out} want {want}')
        if t[1] == 'dur':
            v = unenv(t[2])
            n = spec_dur(v)
            want = 'r=0 ns=0' if n == 'unset' else ('r=0 ns=keep' if n is None else f'r=1 ns={n}')
            return None if out == want else ('duration-accepts-exactly-digits-with-optional-unit-else-unset', f'got {out} want {want}')
        if t[1] == 'float':
            v = unenv(t[4])
            if not v:
                return None if out == 'r=0 v=0' else ('float-unset-gives-default', out)
            ok, cls = float_class(v)
            if 'BAD' in out:
                return ('float-exact-value-or-default-0', out)
            bits = float_bits(v.lstrip(WS))
            if not ok or cls == 'out':
                return None if out == 'r=0 v=0' else ('float-trailing-junk-or-out-of-range-gives-default', out)
            if cls == 'safe':
                if not out.startswith('r=1'):
                    return ('float-valid-number-accepted-whatever-errno-was', out)
                if bits is not None and t[5] != bits:
                    return ('bad-case', f'generator gave bits {t[5]}, spec says {bits}')
                if bits is not None and out != 'r=1 v=ok':
                    return ('float-exact-value-or-default-0', out)
            return None
        if t[1] == 'disabled':
            v = unenv(t[2])
            want = 'installed=000' if spec_bool(v) else 'installed=111'
            return None if out == want else ('sdk-disabled-iff-true', f'got {out} want {want}')
    if t[0] == 'res':
        if t[1] == 'merge':
            a, b = parse_attr_tok(t[2]), parse_attr_tok(t[4])
            m = dict(a); m.update(b)
            s = t[5] if t[5] != '-' else t[3]
            want = f'm={show_map(m)} s={s} a={show_map(a)} sa={t[3]} b={show_map(b)} sb={t[5]}'
            if out == want:
                return None
            if out.split(' a=')[0] != want.split(' a=')[0]:
                return ('merge-is-union-with-other-winning-and-others-schema-unless-empty', f'got {out} want {want}')
            return ('merge-leaves-operands-unchanged', f'got {out} want {want}')
        if t[1] == 'detect':
            want = f'm={show_map(spec_detect(unenv(t[2]), unenv(t[3])))} s=-'
            return None if out == want else ('key-value-list-read-exactly', f'got {out} want {want}')
        if t[1] == 'create':
            d = spec_create(unenv(t[2]), unenv(t[3]), parse_attr_tok(t[4]))
            want = f'm={show_map(d)} s={t[5]}'
            if out == want:
                return None
            if hx(b'service.name') + '=' not in out:
                return ('create-always-has-service-name', out)
            return ('create-precedence-defaults-env-caller', f'got {out} want {want}')
    return ('bad-case', out)


def signature(case, out, clause):
    t = case.line.split()
    cls = ''
    if clause == 'no-undefined-behaviour-or-crash':
        kind = ':'.join(out.split()[1].split(':')[:2]) if out.startswith('CRASH') and len(out.split()) > 1 else 'throw'
        cls = '/' + t[1] + '/' + kind
    elif t[0] == 'env' and t[1] in ('uint', 'float'):
        v = unenv(t[3] if t[1] == 'uint' else t[4]) or b''
        if t[2] == '1':
            cls = '/stale-errno'
        elif v[:1] in (b' ', b'\t', b'\n', b'\v', b'\f', b'\r'):
            cls = '/leading-white-space'
        elif v[:1] in (b'+', b'-'):
            cls = '/sign'
    return clause + cls


def nontrivial(case, out):
    t = case.line.split()
    if t[0] == 'sc':
        return ' g ' in case.line
    if t[0] == 'env':
        return t[-1] not in ('unset', '-') if t[1] != 'float' else t[4] not in ('unset', '-')
    return any(x not in ('-', 'unset') for x in t[2:])


# ------------------------------------------------------------------------------------------------
# corpus: the witnesses of the repaired deviations first

def C(line, *tags, origin='corpus'):
    return Case(line, H, tags, origin)


def corpus():
    out = []
    # D15 duration: accumulator overflow, unit conversion overflow
    for s in (b'99999999999999999999s', b'9223372036854775808', b'9223372036854775807h', b'9223372037s', b'2562048h',
              b'9223372036854775807ns', b'9223372036s', b'2562047h', b'15ms', b' 5s', b'0s', b'5 s', b'ms'):
        out.append(C(f'env dur {hx(s)}', 'corpus', 'dur-D15'))
    # D15 uint: white space, sign, wrap-around, stale errno
    for e, s in ((0, b' 5'), (0, b'+5'), (0, b'-0'), (0, b'-18446744073709551615'), (0, b' +5'), (1, b'42'), (0, b'4294967295'),
                 (0, b'4294967296'), (1, b'4294967295'), (0, b'18446744073709551616'), (0, b'-1')):
        out.append(C(f'env uint {e} {hx(s)}', 'corpus', 'uint-D15'))
    out.append(C(f'env float 1 0 {hx(b"1.5")} 3fc00000', 'corpus', 'float-D15'))
    # D61: process.executable.name that is not a string
    out.append(C(f'res create unset unset {hx(b"process.executable.name")}=i5 -', 'corpus', 'create-D61'))
    out.append(C(f'res create unset unset {hx(b"process.executable.name")}=s{hx(b"exe")} -', 'corpus', 'create'))
    out.append(C(f'res create {hx(b"a=b,service.name=foo")} {hx(b"svc")} {hx(b"a")}=i7 {hx(b"sch")}', 'corpus', 'create'))
    # Resource::GetEmpty() as an operand of Merge (an operand without attributes and schema URL is that shared object)
    out.append(C(f'res merge {hx(b"a")}=i7,{hx(b"b")}=s{hx(b"x")} {hx(b"sch")} - -', 'corpus', 'merge-with-empty'))
    out.append(C(f'res merge - - {hx(b"a")}=i7 {hx(b"sch")}', 'corpus', 'merge-with-empty'))
    out.append(C('res merge - - - -', 'corpus', 'merge-with-empty'))
    out.append(C(f'res merge - - {hx(b"k")}=b1 -', 'corpus', 'merge-with-empty'))
    return out


# ------------------------------------------------------------------------------------------------
# generators

NUM_EDGES = [0, 1, 5, 9, 10, 42, 255, 65535, 2**31 - 1, 2**31, 2**32 - 2, 2**32 - 1, 2**32, 2**32 + 1, 2**63 - 1, 2**63, 2**64 - 1, 2**64,
             2**64 + 1, 10**19, 10**20, 10**30]
for _m in UNITS.values():
    NUM_EDGES += [I64 // _m - 1, I64 // _m, I64 // _m + 1]


def rand_digits(rng):
    r = rng.random()
    if r < 0.35:
        return str(rng.choice(NUM_EDGES)).encode()
    if r < 0.5:
        return str(rng.choice(NUM_EDGES) + rng.randrange(-3, 4)).lstrip('-').encode()
    if r < 0.6:
        return b'0' * rng.randrange(1, 25) + str(rng.choice(NUM_EDGES)).encode()
    n = rng.choice([1, 1, 2, 3, 5, 9, 10, 11, 18, 19, 20, 21, 25, 40])
    return bytes(rng.choice(b'0123456789') for _ in range(n))


def rand_junk(rng, maxlen=4):
    alpha = b' \t\n\v\f\r+-.xeE0123456789nsumh,=_\x01\x7f\x80\xff\xa0'
    return bytes(rng.choice(alpha) if rng.random() < 0.85 else rng.randrange(1, 256) for _ in range(rng.randrange(1, maxlen + 1)))


def rand_number_string(rng, units):
    """mostly-valid numeric strings with decorations"""
    d = rand_digits(rng)
    r = rng.random()
    pre = b''
    suf = rng.choice(units) if units and rng.random() < 0.75 else b''
    if r < 0.5:
        pass
    elif r < 0.62:
        pre = bytes(rng.choice(WS) for _ in range(rng.randrange(1, 4)))
    elif r < 0.7:
        pre = rng.choice([b'+', b'-', b' +', b' -', b'+ ', b'--', b'+-'])
    elif r < 0.8:
        suf = suf + rand_junk(rng)
    elif r < 0.87:
        suf = rand_junk(rng) + suf
    elif r < 0.92:
        cut = rng.randrange(len(d) + 1)
        d = d[:cut] + rand_junk(rng, 2) + d[cut:]
    elif r < 0.96:
        suf = bytes(c ^ 0x20 for c in suf) if suf else b' '
    else:
        d = b''
    return pre + d + suf


def rand_bytes_nonul(rng, n):
    return bytes(rng.randrange(1, 256) for _ in range(n))


UNIT_LIST = [b'ns', b'us', b'ms', b's', b'm', b'h', b'', b'', b'S', b'sec', b'min', b'd', b'n', b'u', b'hs', b'sm']


def gen_env(rng, big):
    out = []
    k = 40 if big else 4
    # ---- bool
    for lit in (b'true', b'false'):
        for mask in range(1 << len(lit)):
            s = bytes(c - 32 if mask >> i & 1 else c for i, c in enumerate(lit))
            out.append(C(f'env bool {hx(s)}', 'bool', 'bool-all-cases', origin='gen'))
            out.append(C(f'env disabled {hx(s)}', 'disabled', 'bool-all-cases', origin='gen'))
    for s in (None, b'', b'1', b'0', b'yes', b'no', b'on', b'true ', b' true', b'truee', b'tru', b't', b'TRUE\n', b'fals', b'falsE', b'true\x00'[:4] + b'\x01',
              b'\xd4RUE', b'tr\xf5e', b'T\x72UE', b'\x54\x52\x55\x45', b'\x14rue', b'[RUE', b'{rue'):
        out.append(C(f'env bool {envtok(s)}', 'bool', 'bool-edge', origin='gen'))
        out.append(C(f'env disabled {envtok(s)}', 'disabled', 'bool-edge', origin='gen'))
    for _ in range(300 * k):
        base = bytearray(rng.choice([b'true', b'false', b'TRUE', b'False']))
        r = rng.random()
        if r < 0.4:
            base[rng.randrange(len(base))] = rng.randrange(1, 256)
        elif r < 0.6:
            base.insert(rng.randrange(len(base) + 1), rng.randrange(1, 256))
        elif r < 0.8:
            del base[rng.randrange(len(base))]
        else:
            base = bytearray(rand_bytes_nonul(rng, rng.randrange(1, 8)))
        op = 'bool' if rng.random() < 0.8 else 'disabled'
        out.append(C(f'env {op} {envtok(bytes(base))}', op, 'bool-mutation', origin='gen'))
    # ---- uint
    for v in (None, b''):
        for e in (0, 1):
            out.append(C(f'env uint {e} {envtok(v)}', 'uint', 'unset-or-empty', origin='gen'))
            out.append(C(f'env float {e} 0 {envtok(v)} -', 'float', 'unset-or-empty', origin='gen'))
        out.append(C(f'env dur {envtok(v)}', 'dur', 'unset-or-empty', origin='gen'))
    for n in NUM_EDGES:
        for e in (0, 1):
            out.append(C(f'env uint {e} {hx(str(n).encode())}', 'uint', 'uint-boundary', origin='gen'))
        out.append(C(f'env uint 0 {hx(b"-" + str(n).encode())}', 'uint', 'uint-negated', origin='gen'))
    for _ in range(2000 * k):
        s = rand_number_string(rng, None) if rng.random() < 0.9 else rand_bytes_nonul(rng, rng.randrange(1, 12))
        if not s:
            continue
        tag = 'uint-documented' if spec_uint(s) is not None else 'uint-other'
        out.append(C(f'env uint {rng.randrange(2)} {hx(s)}', 'uint', tag, origin='gen'))
    # every byte as the first and as a later character of an otherwise valid number
    for b in range(1, 256):
        for s in (bytes([b]) + b'17', b'17' + bytes([b]), b'1' + bytes([b]) + b'7', bytes([b])):
            out.append(C(f'env uint 0 {hx(s)}', 'uint', 'uint-every-byte', origin='gen'))
            out.append(C(f'env dur {hx(s)}', 'dur', 'dur-every-byte', origin='gen'))
    # ---- duration
    for u, m in UNITS.items():
        for n in (0, 1, 15, I64 // m - 1, I64 // m, I64 // m + 1, 2**63 - 1, 2**63, 2**64, 10**25):
            out.append(C(f'env dur {hx(str(n).encode() + u)}', 'dur', 'dur-boundary', origin='gen'))
    for _ in range(2500 * k):
        s = rand_number_string(rng, UNIT_LIST) if rng.random() < 0.92 else rand_bytes_nonul(rng, rng.randrange(1, 12))
        if not s:
            continue
        sp = spec_dur(s)
        tag = 'dur-documented' if isinstance(sp, int) else 'dur-other'
        out.append(C(f'env dur {hx(s)}', 'dur', tag, origin='gen'))
    # ---- float
    def float_case(s, e):
        ok, cls = float_class(s)
        if ok and cls == 'edge':
            return None
        bits = float_bits(s.lstrip(WS)) if ok else None
        re_ = 1 if (ok and cls == 'out') else 0
        return C(f'env float {e} {re_} {hx(s)} {bits or "-"}', 'float', 'float-syntax-ok' if ok else 'float-other', origin='gen')
    fl = [b'1.5', b'0', b'-0', b'0.0', b'.5', b'5.', b'.', b'e5', b'1e5', b'1e', b'1e+', b'1e+5', b'1E-5', b'1e50', b'1e-60', b'-1e50', b'1e999999999999',
          b'0x1p3', b'0x', b'0x.8', b'0x1.8p1', b'0x1p', b'0xg', b'0x1P-2', b'inf', b'INF', b'infinity', b'Infinity', b'infinit', b'infx', b'-inf', b'+inf',
          b'nan', b'NaN', b'nan(abc_1)', b'nan(', b'nan()', b'nan(a b)', b'nanx', b'-nan', b' 1.5', b'\t1.5', b'1.5 ', b'1.5x', b'+1.5', b'--1.5', b'+-1', b'1..5',
          b'1.5.2', b'1,5', b'0.1', b'0.25', b'16777216', b'16777217', b'3.4e38', b'1e38', b'0.000000000000000000000000000001', b'123456789', b'0.5e1',
          b'0e99999', b'0x0p99999', b'000.500', b'1_000']
    for s in fl:
        for e in (0, 1):
            c = float_case(s, e)
            if c:
                out.append(c)
    for _ in range(1200 * k):
        r = rng.random()
        if r < 0.45:
            ip = rand_digits(rng)[:rng.randrange(1, 9)]
            fp = bytes(rng.choice(b'0123456789') for _ in range(rng.randrange(0, 6)))
            s = ip + (b'.' + fp if rng.random() < 0.7 else b'')
            if rng.random() < 0.4:
                s += rng.choice([b'e', b'E']) + rng.choice([b'', b'+', b'-']) + str(rng.choice([0, 1, 2, 5, 10, 20, 60, 400])).encode()
            if rng.random() < 0.25:
                s = rng.choice([b' ', b'+', b'-', b'\t ', b' -']) + s
            if rng.random() < 0.2:
                s += rand_junk(rng, 2)
        elif r < 0.6:
            s = bytes(rng.choice(b'0123456789.eE+-') for _ in range(rng.randrange(1, 9)))
        elif r < 0.7:
            s = rng.choice([b'0x', b'0X']) + bytes(rng.choice(b'0123456789abcdefABCDEF.pP+-') for _ in range(rng.randrange(0, 8)))
        elif r < 0.85:
            base = bytearray(rng.choice([b'inf', b'infinity', b'nan', b'nan(ab1_)', b'NAN(0)', b'INFINITY']))
            if rng.random() < 0.6:
                base[rng.randrange(len(base))] ^= rng.choice([0x20, 0x01, 0x40])
            if rng.random() < 0.3:
                base = base[:rng.randrange(len(base) + 1)]
            s = bytes(base) + (rand_junk(rng, 2) if rng.random() < 0.2 else b'')
            if rng.random() < 0.3:
                s = rng.choice([b'+', b'-', b' ']) + s
        else:
            s = rand_bytes_nonul(rng, rng.randrange(1, 10))
        if not s or 0 in s:
            continue
        c = float_case(s, rng.randrange(2))
        if c:
            out.append(c)
    return out


KEYS = [b'a', b'b', b'c', b'k1', b'service.name', b'process.executable.name', b'telemetry.sdk.name', b'telemetry.sdk.language', b'', b'x y', b'\x00z',
        b'\xff\xfe', b'A', b'aa', b'telemetry.sdk.version', b'service.namespace']


def rand_val(rng):
    r = rng.random()
    if r < 0.55:
        return 's' + hx(bytes(rng.randrange(256) for _ in range(rng.choice([0, 1, 1, 2, 3, 8]))))
    if r < 0.7:
        return 'i' + str(rng.choice([0, 1, -1, 5, 2**62, -2**63, 2**63 - 1, rng.randrange(-1000, 1000)]))
    if r < 0.8:
        return 'j' + str(rng.choice([0, -1, 2**31 - 1, -2**31, rng.randrange(-1000, 1000)]))
    if r < 0.87:
        return 'u' + str(rng.choice([0, 2**32 - 1, rng.randrange(1000)]))
    if r < 0.94:
        return 'b' + str(rng.randrange(2))
    return 'd' + str(rng.randrange(-1000, 1000))


def rand_attrs(rng, maxn=6):
    n = rng.choice([0, 1, 1, 2, 3, 4, maxn])
    items = []
    for _ in range(n):
        k = rng.choice(KEYS) if rng.random() < 0.8 else bytes(rng.randrange(256) for _ in range(rng.randrange(0, 5)))
        items.append(f'{hx(k)}={rand_val(rng)}')
    return ','.join(items) if items else '-'


def rand_schema(rng):
    return rng.choice([b'', b'', b'https://opentelemetry.io/schemas/1.2.0', b'urlA', b'urlB', b'\x00', b' '])


def rand_env_attrs(rng):
    r = rng.random()
    if r < 0.08:
        return None
    if r < 0.12:
        return b''
    items = []
    for _ in range(rng.choice([1, 1, 2, 3, 5, 8])):
        q = rng.random()
        k = rng.choice([b'a', b'b', b'service.name', b'process.executable.name', b'k', b' k ', b'', b'telemetry.sdk.name', b'x.y'])
        v = bytes(rng.choice(b'abcxyz0189 ._-:/%=') for _ in range(rng.randrange(0, 6)))
        if q < 0.7:
            items.append(k + b'=' + v)
        elif q < 0.8:
            items.append(k)                       # missing '='
        elif q < 0.88:
            items.append(b'')                     # empty item
        elif q < 0.94:
            items.append(b' ' + k + b' = ' + v + b' ')
        else:
            items.append(bytes(rng.choice([1, 9, 32, 44, 61, 97, 255, 128]) for _ in range(rng.randrange(1, 5))))
    s = b','.join(items)
    if rng.random() < 0.15:
        s += b','
    return s


def rand_env_service(rng):
    r = rng.random()
    if r < 0.5:
        return None
    if r < 0.58:
        return b''
    return rng.choice([b'svc', b'my service', b'a=b,c', b'\xffname', b' '])


def gen_res(rng, big):
    out = []
    k = 40 if big else 4
    for _ in range(2000 * k):
        out.append(C(f'res merge {rand_attrs(rng)} {hx(rand_schema(rng))} {rand_attrs(rng)} {hx(rand_schema(rng))}', 'merge', origin='gen'))
        if rng.random() < 0.1:
            # one operand is the shared empty resource (Resource::GetEmpty()): merging with it changes nothing, and leaves it empty
            e = f'{rand_attrs(rng)} {hx(rand_schema(rng))}'
            out.append(C(f'res merge {e} - -' if rng.random() < 0.5 else f'res merge - - {e}', 'merge', 'empty-operand', origin='gen'))
    for _ in range(1500 * k):
        out.append(C(f'res detect {envtok(rand_env_attrs(rng))} {envtok(rand_env_service(rng))}', 'detect', origin='gen'))
    for s in (b',', b',,', b'=', b'==', b'a', b'a=', b'=a', b'a=b,', b',a=b', b'a=b,a=c', b'a=b,,a=c,', b'a==b', b'a=b=c,b'):
        out.append(C(f'res detect {hx(s)} unset', 'detect', 'detect-edge', origin='gen'))
        out.append(C(f'res create {hx(s)} unset - -', 'create', 'detect-edge', origin='gen'))
    for _ in range(300 * (17 if big else 3)):
        out.append(C(f'res create {envtok(rand_env_attrs(rng))} {envtok(rand_env_service(rng))} {rand_attrs(rng, 4)} {hx(rand_schema(rng))}', 'create', origin='gen'))
    return out


def gen_resource_reference(rng, big):
    """`sc` cases of the C19 harness, all scopes enabled: spans / log records / metric batches of 1-5 tracers, meters, loggers"""
    out = []
    names = [b'lib', b'lib.a', b'x', b'', b'svc']
    for _ in range(3000 if big else 300):
        kind = rng.choice('tml')
        ops = ['d 1']
        for _g in range(rng.randrange(1, 6)):
            n, v, s = rng.choice(names), rng.choice([b'', b'1.0']), rng.choice([b'', b'http://x'])
            if kind == 'l':
                attrs = rng.choice(['-', f'{hx(b"k")}={hx(b"v")}'])
                ops.append(f'g {hx(n)} {hx(v)} {hx(s)} {hx(rng.choice([b"logger", b"l2"]))} {attrs}')
            else:
                ops.append(f'g {hx(n)} {hx(v)} {hx(s)}')
        out.append(Case(f'sc {kind} ' + ' ; '.join(ops), 's_c19', ('resource-reference', 'sc-' + kind)))
    return out


def generate(rng, tier):
    big = tier == 'thorough'
    return gen_env(rng, big) + gen_res(rng, big) + gen_resource_reference(rng, big)


LEVEL_TEXT = ('Lean 4 theorems over executable models of resource.cc / resource_detector.cc / env_variables.cc / disabled.cc: Merge is the '
              'right-biased union with the schema rule and leaves its operands unchanged over every history; Create = defaults < environment < caller '
              'and always has service.name; the detector reads exactly the key=value items; the bool/uint/duration readers accept exactly the '
              'documented syntax, return its exact value, fall back to the default otherwise, for every byte string and every incoming errno, and never '
              'reach the explicit signed-overflow token. Default attributes, unit table, literals and bounds are re-extracted from the source each run; '
              'models are tied to the code by a differential run under ASan/UBSan (Create in one forked process per case).')
LEVEL_NOTE = ('Trusted: Lean kernel; axioms propext/Quot.sound/Classical.choice at most; tools/gen_c18.py; harness and generators; the C library '
              'functions strtoull/strtof/isspace/isdigit/strcasecmp (modelled from their specification, compared on every generated string). '
              'Partial: float values (decimal -> binary32 rounding) and strtof\'s ERANGE are not modelled - acceptance grammar only, values compared '
              'where exactly representable; the duration syntax includes the leading white space the code documents ("Skip spaces") and rejects 0; '
              '"every span/log/metric references its provider\'s resource" is runtime pointer identity a model cannot exhibit: checked on real Tracer/Meter/LoggerProviders by the `sc` cases (harness s_c19), no theorem.')
DESIGN_REF = 'DESIGN.md section 4, C18'
TECHNIQUE = 'Lean 4 proof + differential correspondence'
