"""C18 - stub"""
from vcore import Case, Harness, sdk_sources, SDK_INCLUDES
ID = 'C18'
HARNESSES = [Harness('s_c18', ['harness/s_c18.cc'],
                     sdk_srcs=sdk_sources('common', 'resource', 'version') + ['sdk/src/trace/provider.cc', 'sdk/src/metrics/provider.cc', 'sdk/src/logs/provider.cc'],
                     includes=SDK_INCLUDES)]
