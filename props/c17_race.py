"""C17, concurrency reading of "every registered callback is invoked exactly once per collection; a removed callback (or
one whose instrument was destroyed) is never invoked again": AddCallback / RemoveCallback / instrument destruction racing
Observe on ONE registry of the unmodified sdk/src/metrics/state/observable_registry.cc under the deterministic scheduler
(Engine D).  Merged into props/c17.py (engine word `obr`); not a property id of its own."""
import itertools, re
from vcore import Case, Harness, sdk_sources, SDK_INCLUDES

WORDS = {'obr'}
GEN = ['ObsRegLock']
LEAN_TARGETS = ['OtelVerif.Props.C17Race']
THEOREMS = ['Otel.C17Race.' + t for t in (
    'mutual_exclusion', 'observe_sees_stable_list', 'observe_invokes_exactly_the_registered', 'observe_invokes_each_once',
    'callback_runs_registered', 'add_returns_registered', 'quiet_while_locked', 'remove_returns_unregistered_and_quiet',
    'cleanup_returns_unregistered_and_quiet', 'unregistered_step', 'unregistered_until_readded',
    'never_invoked_after_remove_returned', 'never_invoked_after_instrument_destroyed', 'begun_only_registered',
    'replay_sound', 'gen_obsreg_lock_facts')] + [
    'Otel.ObsRegLock.reachable_inv', 'Otel.ObsRegLock.inv_step', 'Otel.ObsRegLock.inv_arun']
SHIM = ['-include', 'harness/shim/detsched.h', '-DNDEBUG']
H = Harness('d_obr', ['harness/d_obsreg.cc'], flags=SHIM, includes=SDK_INCLUDES, plain_srcs=['harness/shim/detsched.cc'],
            sdk_srcs=sdk_sources('common', 'resource', 'version', 'metrics'))
HARNESSES = [H]
HN = 'd_obr'
RULE = ('race: 1-4 managed threads run scripted Observe / AddCallback / RemoveCallback / instrument destruction on ONE '
        'ObservableRegistry of the UNMODIFIED observable_registry.cc + async_instruments.cc (real sdk ObservableInstrument '
        'objects over a logging stub storage, callbacks with a scheduling point at their begin and end so that a collector can '
        'be parked inside a callback) under the deterministic scheduler: all interleavings of the smallest scripts, '
        'preemption-bounded block schedules, then random scripts and schedules; a final Observe after the drain. The trace '
        'is replayed on the Lean lock-protocol model. non-trivial (race cases) = an Observe and an add / remove / destroy in '
        'different threads, both stepped before the drain')
LEVEL_TEXT_ADD = (' Concurrency (Props/C17Race.lean): a lock-protocol model of observable_registry.cc with any number of threads calling '
                  'AddCallback / RemoveCallback / CleanupCallback / Observe, one step per lock / append / erase / loop test + callback '
                  'begin / callback end / unlock; one inductive invariant over ALL interleavings gives: the vector does not change '
                  'while an Observe runs, an Observe invokes exactly the registered callbacks (each as often as registered, once when '
                  'registered once), when RemoveCallback / CleanupCallback returns the registration is gone and no callback is '
                  'running, and it is never begun again in any continuation that does not push it back. Tied to the code by '
                  'gen_obsreg_lock_facts and by replaying real schedules of the unmodified file under the deterministic scheduler.')
LEVEL_NOTE_ADD = (' Race sub-check: trusted = the scheduler shim (sequentially consistent, one runnable thread), '
                  'props/c17_race.py::abstract, tools/gen_c04race.py. The application is assumed well-formed: one thread adds / '
                  'removes a given callback, an instrument is destroyed by the only thread using it (a callback that calls '
                  'Add/RemoveCallback itself would self-deadlock on the non-recursive mutex; not generated). The early `return` of '
                  'Observe on a null storage is not modelled.')


def _case(line, *tags, origin='gen'):
    return Case(line, HN, tags, origin)


def line(ninst, init, scripts, sched):
    return f'obr {ninst} {init or "-"} ' + ' '.join(','.join(s) if s else '-' for s in scripts) + \
        (' ; ' + ' ; '.join(f't{t}' for t in sched) if sched else '')


def corpus():
    c = []
    # the collector is parked before / inside a callback while the other thread removes a callback and returns
    c.append(_case(line(1, '01', [['o'], ['r1']], [0, 0, 0, 1, 1, 1, 1, 0, 0, 0, 0, 0]), 'corpus', 'race-remove-during-observe', origin='corpus'))
    c.append(_case(line(1, '01', [['o'], ['r1']], [0, 0, 1, 1, 1, 1, 0, 0, 0, 0, 0, 0]), 'corpus', 'race-remove-during-observe', origin='corpus'))
    c.append(_case(line(2, '01', [['o', 'o'], ['r0', 'a2']], [0, 0, 0, 0, 1, 1, 1, 0, 0, 1, 1, 0, 0, 0]), 'corpus', 'race-remove-during-observe', origin='corpus'))
    # the instrument is destroyed while a collection is under way
    c.append(_case(line(2, '012', [['o'], ['d0']], [0, 0, 0, 1, 1, 1, 1, 0, 0, 0, 0, 0, 0, 0]), 'corpus', 'race-destroy-during-observe', origin='corpus'))
    c.append(_case(line(1, '0', [['o', 'o'], ['d0']], [0, 0, 1, 1, 1, 1, 0, 0, 0]), 'corpus', 'race-destroy-during-observe', origin='corpus'))
    # two collectors
    c.append(_case(line(2, '01', [['o'], ['o'], ['a2', 'r2']], [0, 1, 0, 1, 2, 2, 0, 0, 1, 2, 2, 0, 1, 1]), 'corpus', 'two-collectors', origin='corpus'))
    c.append(_case(line(1, '-', [['o', 'a0', 'o', 'r0', 'o', 'a0', 'a1', 'o', 'd0', 'o']], []), 'corpus', 'single-thread', origin='corpus'))
    return c


def block_schedules(nthreads, nblocks, lens):
    for order in itertools.product(range(nthreads), repeat=nblocks):
        if any(order[i] == order[i + 1] for i in range(nblocks - 1)):
            continue
        for ls in itertools.product(lens, repeat=nblocks):
            yield [t for t, n in zip(order, ls) for _ in range(n)]


def wellformed(ln):
    """the case grammar and the well-formed-application rule of harness/d_obsreg.cc"""
    toks = ln.split()
    if not toks or toks[0] != 'obr':
        return False
    ops = ' '.join(toks[1:]).split(' ; ') if len(toks) > 1 else ['']
    head = ops[0].split()
    if not 3 <= len(head) <= 6 or head[0] not in ('1', '2'):
        return False
    ninst = int(head[0])
    init = set()
    if head[1] != '-':
        if not re.fullmatch(r'[0-3]+', head[1]) or len(set(head[1])) != len(head[1]):
            return False
        init = {int(c) for c in head[1]}
    owner, toucher, destroyer = {}, {}, {}
    for th, s in enumerate(head[2:]):
        if s == '-':
            continue
        o = s.split(',')
        if len(o) > 8 or not all(re.fullmatch(r'o|[ard][0-3]', x) for x in o):
            return False
        reg = set(init)
        dead = set()
        for x in o:
            if x[0] in 'ar':
                c = int(x[1]); i = c % ninst
                if owner.setdefault(c, th) != th or i in dead:
                    return False
                if x[0] == 'a':
                    if c in reg:
                        return False
                    reg.add(c)
                else:
                    reg.discard(c)
                toucher.setdefault(i, set()).add(th)
            elif x[0] == 'd':
                i = int(x[1])
                if i >= ninst or i in destroyer:
                    return False
                destroyer[i] = th
                dead.add(i)
    for i, th in destroyer.items():
        if toucher.get(i, {th}) != {th}:
            return False
    return all(re.fullmatch(r't\d{1,3}', a) for a in ops[1:])


def gen_scripts(rng, nt, ninst):
    """a well-formed application: thread roles, callback / instrument ownership"""
    init = [c for c in range(4) if rng.random() < 0.5]
    ncol = rng.choice([1, 1, 2]) if nt > 1 else 1
    muts = list(range(ncol, nt))
    scripts = [['o'] * rng.choice([1, 1, 2, 3]) for _ in range(ncol)] + [[] for _ in muts]
    if not muts:
        return init, scripts
    inst_owner = {i: rng.choice(muts) for i in range(ninst)}
    for th in muts:
        mine = [c for c in range(4) if inst_owner[c % ninst] == th]
        reg = {c for c in init if c in mine}
        dead = set()
        for _k in range(rng.choice([1, 2, 2, 3, 4])):
            live = [c for c in mine if c % ninst not in dead]
            r = rng.random()
            if r < 0.12 and [i for i in range(ninst) if inst_owner[i] == th and i not in dead]:
                i = rng.choice([i for i in range(ninst) if inst_owner[i] == th and i not in dead])
                scripts[th].append(f'd{i}'); dead.add(i)
                reg -= {c for c in mine if c % ninst == i}
            elif r < 0.2:
                scripts[th].append('o')
            elif live:
                c = rng.choice(live)
                if c in reg and rng.random() < 0.85:
                    scripts[th].append(f'r{c}'); reg.discard(c)
                elif c not in reg:
                    scripts[th].append(f'a{c}'); reg.add(c)
                else:
                    scripts[th].append(f'r{c}'); reg.discard(c)
            else:
                scripts[th].append('o')
    return init, scripts


def generate(rng, tier):
    big = tier == 'thorough'
    out = []
    # all interleavings of the smallest scripts: one Observe over two callbacks (8 steps) against one remove / destroy (4 steps)
    for ninst, init, sc in ((1, '01', [['o'], ['r1']]), (1, '01', [['o'], ['r0']]), (2, '01', [['o'], ['d1']])):
        n0, n1 = 8, 4
        for pos in itertools.combinations(range(n0 + n1), n1):
            out.append(_case(line(ninst, init, sc, [1 if i in pos else 0 for i in range(n0 + n1)]), 'race', 'all-interleavings'))
    lens = [1, 2, 3, 4, 5, 6, 8, 11] if big else [1, 2, 3, 5, 8]
    cfgs = [(2, '01', [['o', 'o'], ['r0', 'a2']]), (1, '0', [['o', 'o'], ['r0', 'a0']]), (2, '012', [['o'], ['r2', 'd0']])]
    if big:
        cfgs += [(2, '0', [['o', 'o'], ['a1', 'r0', 'a0']]), (2, '0123', [['o'], ['d1', 'r0']]), (1, '-', [['o', 'o', 'o'], ['a0', 'a1', 'r0']])]
    for ninst, init, sc in cfgs:
        for sched in block_schedules(2, 4 if big else 3, lens):
            out.append(_case(line(ninst, init, sc, sched), 'race', 'preempt-bounded'))
    for sched in block_schedules(3, 3, [2, 4, 7] if not big else [1, 2, 4, 5, 7]):
        out.append(_case(line(2, '01', [['o'], ['o'], ['r1', 'a3']], sched), 'race', 'preempt-bounded'))
    for _ in range(20000 if big else 1200):
        nt = rng.choice([2, 2, 3, 3, 4])
        ninst = rng.choice([1, 2, 2])
        init, scripts = gen_scripts(rng, nt, ninst)
        n = rng.randrange(6, 80)
        if rng.random() < 0.5:
            sched = [rng.randrange(nt) for _k in range(n)]
        else:
            cur = rng.randrange(nt); sched = []
            for _k in range(n):
                if rng.random() < 0.25:
                    cur = rng.randrange(nt)
                sched.append(cur)
        if rng.random() < 0.03:
            sched[rng.randrange(n)] = 7
        ln = line(ninst, ''.join(map(str, init)), scripts, sched)
        assert wellformed(ln), ln
        out.append(_case(ln, 'race', 'random', f'threads={nt}'))
    for _ in range(40 if big else 10):
        out.append(_case(rng.choice(['obr', 'obr 3 - o ; t0', 'obr 1 00 o ; t0', 'obr 2 - o a0,a0 ; t0', 'obr 2 01 o,o a2,r2,d0 r1,r0 ; t0',
                                     'obr 1 - a0 r0 ; t0', 'obr 2 - d0,a0 ; t0', 'obr 2 - d2 ; t0', 'obr 1 0 o,x ; t0', 'obr 1 0 o ; u0',
                                     'obr 1 4 o ; t0', 'obr 2 0 o d0 a2 ; t0']), 'race', 'malformed'))
    return out


# ------------------------------------------------------------------------------------------------------------------
# parsing the implementation's trace

class Bad(Exception):
    pass


def parse_line(ln):
    toks = ' '.join(ln.split()[1:]).split(' ; ')
    head = toks[0].split()
    ninst = int(head[0])
    init = [] if head[1] == '-' else [int(c) for c in head[1]]
    scripts = [[] if s == '-' else s.split(',') for s in head[2:]]
    return ninst, init, scripts, toks[1:]


def steps(case_line, out):
    ninst, init, scripts, acts = parse_line(case_line)
    parts = out.split(' ; ')
    summary = parts[-1]
    body = parts[:-1]
    if len(body) < len(acts):
        raise Bad('fewer step traces than actions')
    res = []
    for a, tr in zip(acts, body[:len(acts)]):
        if tr in ('x', '-'):
            continue
        res.append((int(a[1:]), tr.split(',')))
    for tr in body[len(acts):]:
        m = re.match(r'd(\d+):(.*)', tr)
        if not m:
            raise Bad('bad drain segment ' + tr[:60])
        if m.group(2) != '-':
            res.append((int(m.group(1)), m.group(2).split(',')))
    return res, summary


def abstract(case_line, out):
    ninst, init, scripts, acts = parse_line(case_line)
    st, _ = steps(case_line, out)
    ev = []
    for tid, notes in st:
        for n in notes:
            t = n.split()
            k = t[0]
            if k == 'observe':
                ev.append(f'{tid}:call:obs' if t[1] == 'begin' else f'{tid}:ret')
            elif k in ('add', 'remove', 'cleanup'):
                if t[2] == 'call':
                    ev.append(f'{tid}:call:{ {"add": "add", "remove": "rem", "cleanup": "cln"}[k]}:{t[1]}')
                else:
                    ev.append(f'{tid}:ret')
            elif k in ('lock', 'unlock'):
                ev.append(f'{tid}:{k}')
            elif k == 'cb':
                ev.append(f'{tid}:{"cbb" if t[2] == "begin" else "cbe"}:{t[1]}')
            elif k in ('st', 'end'):
                pass
            elif re.match(r'(ld|st|xchg|casw|cass|fadd|fsub) o\d+( |$)', n):
                pass        # an atomic the harness did not name (a statistics counter, say): not a protocol variable
            else:
                raise Bad('note ' + n)
    return f'obrrace {ninst} {"".join(map(str, init)) or "-"} ; ' + ' ; '.join(ev)


def model_line(case, out):
    if out == 'bad-op' or out.startswith('CRASH'):
        return case.line
    return abstract(case.line, out)


SUM_RE = re.compile(r'done=(\d) calls=\[([\d,]*)\] cbs=\[([\d,]*)\]$')


def agree(case, out, mout):
    if out == 'bad-op':
        return mout == 'bad-op'
    if out.startswith('CRASH'):
        return True
    m = SUM_RE.search(out.split(' ; ')[-1])
    mm = re.match(r'ok calls=\[([\d,]*)\] cbs=\[([\d,]*)\] lock=0$', mout)
    return bool(m and mm and m.group(2) == mm.group(1) and m.group(3) == mm.group(2))


# ------------------------------------------------------------------------------------------------------------------
# implementation-side oracle: the property evaluated on the implementation's own trace

def oracle(case, out):
    if not wellformed(case.line):
        return None if out == 'bad-op' else ('malformed-case-rejected', out[:80])
    if out.startswith('CRASH'):
        return ('no-crash-when-callbacks-change-during-a-collection', out)
    if out == 'bad-op':
        return ('harness-rejected-case', out)
    try:
        ninst, init, scripts, acts = parse_line(case.line)
        st, summary = steps(case.line, out)
    except Bad as e:
        return ('trace-readable', str(e))
    m = SUM_RE.fullmatch(summary)
    if not m:
        return ('trace-readable', summary[:120])
    if m.group(1) != '1':
        return ('every-call-returns', summary)
    # registration status of every callback, from the call boundaries alone:
    #   'reg' registered, 'unreg' not registered, 'chg' an add / remove / destruction touching it is in progress
    status = {c: ('reg' if c in init else 'unreg') for c in range(4)}
    why = {c: 'never added' for c in range(4)}
    observes = {}            # thread -> {'count': {c: n}, 'stable': {c: status at begin, or None once it changed}}
    incb = {}                # thread -> callback it is inside
    total = [0, 0, 0, 0]
    tm = 0

    def touch(cs, new, reason):
        for c in cs:
            status[c] = new
            if new == 'unreg':
                why[c] = reason
            for o in observes.values():
                o['stable'][c] = None

    for tid, notes in st:
        for n in notes:
            tm += 1
            t = n.split()
            k = t[0]
            if k == 'observe' and t[1] == 'begin':
                observes[tid] = {'count': {c: 0 for c in range(4)}, 'stable': dict(status), 'begin': tm}
            elif k == 'observe':
                o = observes.pop(tid, None)
                if o is None:
                    return ('trace-readable', f'T{tid}: observe end without begin')
                if tid in incb:
                    return ('trace-readable', f'T{tid}: Observe returned inside callback {incb[tid]}')
                for c in range(4):
                    if o['stable'][c] == 'reg' and o['count'][c] != 1:
                        return ('registered-callback-invoked-exactly-once-per-collection',
                                f'T{tid}: Observe from {o["begin"]} to {tm}: callback {c} was registered throughout and invoked {o["count"][c]} times')
            elif k == 'cb':
                c = int(t[1])
                if t[2] == 'begin':
                    if tid not in observes:
                        return ('callbacks-run-inside-a-collection', f'T{tid}: cb {c}')
                    if status[c] == 'unreg':
                        return ('removed-callback-never-invoked-again', f'T{tid}: callback {c} begun at {tm}: {why[c]}')
                    observes[tid]['count'][c] += 1
                    total[c] += 1
                    if observes[tid]['count'][c] > 1:
                        return ('no-callback-twice-in-one-collection', f'T{tid}: callback {c}')
                    incb[tid] = c
                else:
                    if incb.pop(tid, None) != c:
                        return ('trace-readable', f'T{tid}: cb {c} end')
            elif k == 'st':
                # the storage of the callback's instrument is given the observation of the callback that just returned
                pass
            elif k == 'add':
                c = int(t[1])
                touch([c], 'chg' if t[2] == 'call' else 'reg', '')
            elif k == 'remove':
                c = int(t[1])
                if t[2] == 'call':
                    touch([c], 'chg', '')
                else:
                    touch([c], 'unreg', f'RemoveCallback({c}) returned at {tm}')
            elif k == 'cleanup':
                i = int(t[1])
                cs = [c for c in range(4) if c % ninst == i]
                if t[2] == 'call':
                    touch(cs, 'chg', '')
                else:
                    touch(cs, 'unreg', f'instrument {i} was destroyed (returned at {tm})')
    if [int(x) for x in m.group(2).split(',')] != total:
        return ('trace-readable', f'invocation counters {m.group(2)} vs trace {total}')
    want = sorted(c for c in range(4) if status[c] == 'reg')
    got = sorted(int(x) for x in m.group(3).split(',')) if m.group(3) else []
    if got != want:
        return ('registry-holds-what-was-added-and-not-removed', f'registered at the end {got}, by the calls {want}')
    return None


def signature(case, out, clause):
    return clause


def nontrivial(case, out):
    if out == 'bad-op' or out.startswith('CRASH'):
        return False
    ninst, init, scripts, acts = parse_line(case.line)
    parts = out.split(' ; ')
    stepped = {int(a[1:]) for a, tr in zip(acts, parts) if tr not in ('x', '-')}
    cols = {i for i, s in enumerate(scripts) if 'o' in s}
    muts = {i for i, s in enumerate(scripts) if any(x[0] in 'ard' for x in s)}
    return any(a in stepped and b in stepped and a != b for a in cols for b in muts)
