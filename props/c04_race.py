"""C04, concurrency clause ("operations ... from several threads on one span"): mutators / IsRecording racing End on ONE
span of the unmodified sdk/src/trace/span.cc under the deterministic scheduler (Engine D).  Merged into props/c04.py
(engine word `spn`); not a property id of its own."""
import itertools, re
from vcore import Case, Harness, sdk_sources, SDK_INCLUDES

WORDS = {'spn', 'spn2'}      # spn2 = the same harness source built with OPENTELEMETRY_ABI_VERSION_NO=2 (Span::AddLink exists: op `l`)
GEN = ['SpanLock']
LEAN_TARGETS = ['OtelVerif.Props.C04Race']
THEOREMS = ['Otel.C04Race.' + t for t in (
    'mutual_exclusion', 'no_null_deref', 'write_holds_lock_and_recordable', 'handed_off_is_the_log', 'onend_at_most_once',
    'onend_exactly_once_when_end_returned', 'log_follows_acquisition_order', 'handed_off_in_acquisition_order',
    'late_mutator_ignored', 'early_mutator_recorded', 'applied_in_log', 'is_recording_false_after_end',
    'is_recording_true_before_end', 'frozen_after_handoff', 'log_only_grows', 'replay_sound', 'gen_span_lock_facts')] + [
    'Otel.SpanLock.reachable_inv', 'Otel.SpanLock.inv_step', 'Otel.SpanLock.inv_arun']
SHIM = ['-include', 'harness/shim/detsched.h', '-DNDEBUG']
H = Harness('d_spn', ['harness/d_span.cc'], flags=SHIM, includes=SDK_INCLUDES, plain_srcs=['harness/shim/detsched.cc'],
            sdk_srcs=sdk_sources('common', 'resource', 'version', 'trace'))
H2 = Harness('d_spn2', ['harness/d_span.cc'], flags=SHIM + ['-UOPENTELEMETRY_ABI_VERSION_NO', '-DOPENTELEMETRY_ABI_VERSION_NO=2'],
             includes=SDK_INCLUDES, plain_srcs=['harness/shim/detsched.cc'], sdk_srcs=sdk_sources('common', 'resource', 'version', 'trace'))
HARNESSES = [H, H2]
HN = 'd_spn'
HN2 = 'd_spn2'
RULE = ('race: 1-4 managed threads run scripted SetAttribute / AddEvent / SetStatus / UpdateName / End / IsRecording calls on ONE '
        'span of the UNMODIFIED span.cc (real TracerProvider / Tracer, harness Recordable and SpanProcessor that log every call) '
        'under the deterministic scheduler: preemption-bounded block schedules over small scripts, all interleavings of the '
        'smallest, then random schedules; scheduling points at every call begin, lock / unlock of mu_, every setter of the '
        'recordable and OnEnd; the last reference is dropped at the end (~Span). The trace is replayed on the Lean lock-protocol '
        'model. non-trivial (race cases) = an End in some script and two threads stepped before the drain')
LEVEL_TEXT_ADD = (' Concurrency (Props/C04Race.lean): a lock-protocol model of span.cc with any number of threads, one step per lock / test / '
                  'setter / hand-off / unlock; one inductive invariant over ALL interleavings gives: no setter through a null '
                  'recordable_, OnEnd at most once and exactly once when some End has returned, the handed-off recordable = the log '
                  'of the writes in lock-acquisition order, nothing reaches it afterwards, a mutator racing End is wholly in or '
                  'wholly ignored, IsRecording false after End. Tied to the code by gen_span_lock_facts (lock guard before the first '
                  'use of recordable_ / has_ended_ in every member function, never released early; End hands off inside the critical '
                  'section) and by replaying real schedules of the unmodified span.cc under the deterministic scheduler on the model.')
LEVEL_NOTE_ADD = (' Race sub-check: trusted = the scheduler shim (sequentially consistent, one runnable thread, lock / unlock and the '
                  'harness Recordable / SpanProcessor calls are the scheduling points; plain reads of recordable_ / has_ended_ outside '
                  'the lock are NOT scheduling points - a data race on them shows only through its effect at the next point), '
                  'props/c04_race.py::abstract, tools/gen_c04race.py. AddLink / AddLinks (ABI v2) are covered by the generated '
                  'lock-discipline facts and scheduled in the ABI-v2 build d_spn2 (AddLink only).')


def _case(line, *tags, origin='gen'):
    return Case(line, HN2 if line.startswith('spn2') else HN, tags, origin)


def line(scripts, sched, word='spn'):
    return word + ' ' + ' '.join(','.join(s) if s else '-' for s in scripts) + (' ; ' + ' ; '.join(f't{t}' for t in sched) if sched else '')


def corpus():
    c = []
    # the mutator passes its begin step (where a null test outside the lock would sit), End runs to completion, the mutator goes on
    c.append(_case(line([['E'], ['ak']], [1, 1, 0, 0, 0, 0, 0, 0, 1, 1, 1]), 'corpus', 'race-check-then-end', origin='corpus'))
    c.append(_case(line([['ak', 'E'], ['e', 'r']], [1, 1, 0, 0, 0, 0, 0, 0, 0, 0, 0, 0, 1, 1, 1]), 'corpus', 'race-check-then-end', origin='corpus'))
    # End is parked between its duration stamp and the hand-off while a mutator tries to get in
    c.append(_case(line([['E'], ['ak', 'n']], [0, 0, 0, 0, 1, 1, 1, 1, 0, 1, 1, 0, 1]), 'corpus', 'race-handoff', origin='corpus'))
    c.append(_case(line([['E'], ['s2']], [1, 1, 0, 0, 0, 0, 1, 1, 0, 1, 0, 1]), 'corpus', 'race-handoff', origin='corpus'))
    # two Ends racing, a third thread asks IsRecording
    c.append(_case(line([['E'], ['E'], ['r', 'r']], [0, 0, 1, 1, 0, 2, 2, 1, 0, 0, 2, 2, 1, 1, 2, 2, 2]), 'corpus', 'race-two-ends', origin='corpus'))
    c.append(_case(line([['ak', 'e', 's1', 'n', 'E', 'ak', 'r']], []), 'corpus', 'single-thread', origin='corpus'))
    c.append(_case(line([['ak'], ['ak'], ['ak'], ['r']], [3, 2, 1, 0] * 6), 'corpus', 'no-end-in-scripts', origin='corpus'))
    c.append(_case(line([['E'], ['l']], [1, 1, 0, 0, 0, 0, 0, 0, 1, 1, 1], 'spn2'), 'corpus', 'race-check-then-end', 'abi2-addlink', origin='corpus'))
    c.append(_case(line([['l', 'E', 'l'], ['ak', 'l', 'r']], [0, 1, 0, 1] * 8, 'spn2'), 'corpus', 'abi2-addlink', origin='corpus'))
    return c


def block_schedules(nthreads, nblocks, lens):
    for order in itertools.product(range(nthreads), repeat=nblocks):
        if any(order[i] == order[i + 1] for i in range(nblocks - 1)):
            continue
        for ls in itertools.product(lens, repeat=nblocks):
            yield [t for t, n in zip(order, ls) for _ in range(n)]


OPS = ['ak', 'ak', 'aj', 'e', 's1', 's2', 'n', 'E', 'r']


def generate(rng, tier):
    big = tier == 'thorough'
    out = []
    # all interleavings of the two smallest scripts (thread 0: 6 steps, thread 1: 5 resp. 4 steps)
    for sc in ([['E'], ['ak']], [['E'], ['r']], [['E'], ['E']]):
        n0, n1 = 6, {'ak': 5, 'r': 4, 'E': 6}[sc[1][0]]
        for pos in itertools.combinations(range(n0 + n1), n1):
            sched = [1 if i in pos else 0 for i in range(n0 + n1)]
            out.append(_case(line(sc, sched), 'race', 'all-interleavings'))
    # preemption-bounded block schedules over small scripts
    lens = [1, 2, 3, 4, 5, 6, 8, 11] if big else [1, 2, 4, 6, 9]
    pairs = [[['ak', 'E'], ['ak', 'r']], [['E', 'ak'], ['n', 'E']], [['e', 'E'], ['s2', 'e']]]
    if big:
        pairs += [[['ak', 'E', 'r'], ['E', 'ak']], [['r', 'E'], ['aj', 'ak', 'r']], [['n', 'E'], ['r', 'n', 'r']]]
    for sc in pairs:
        for sched in block_schedules(2, 4 if big else 3, lens):
            out.append(_case(line(sc, sched), 'race', 'preempt-bounded'))
    for sched in block_schedules(3, 3, [2, 5, 6] if not big else [1, 2, 4, 5, 6]):
        out.append(_case(line([['E'], ['ak'], ['E', 'r']], sched), 'race', 'preempt-bounded'))
    # random scripts, random schedules
    for _ in range(20000 if big else 1500):
        nt = rng.choice([2, 2, 3, 3, 4])
        scripts = []
        for _t in range(nt):
            scripts.append([rng.choice(OPS) for _k in range(rng.choice([1, 1, 2, 2, 3, 4]))])
        if rng.random() < 0.8 and not any('E' in s for s in scripts):
            s = rng.choice(scripts)
            s[rng.randrange(len(s))] = 'E'
        n = rng.randrange(6, 70)
        if rng.random() < 0.5:
            sched = [rng.randrange(nt) for _k in range(n)]
        else:
            cur = rng.randrange(nt); sched = []
            for _k in range(n):
                if rng.random() < 0.25:
                    cur = rng.randrange(nt)
                sched.append(cur)
        if rng.random() < 0.03:
            sched[rng.randrange(n)] = 7      # an invalid thread id is answered `x`
        out.append(_case(line(scripts, sched), 'race', 'random', f'threads={nt}'))
    # ABI v2 build: AddLink among the mutators
    for sched in block_schedules(2, 3, lens):
        out.append(_case(line([['l', 'E'], ['l', 'ak']], sched, 'spn2'), 'race', 'preempt-bounded', 'abi2-addlink'))
    for _ in range(4000 if big else 300):
        nt = rng.choice([2, 2, 3])
        scripts = [[rng.choice(OPS + ['l', 'l', 'l']) for _k in range(rng.choice([1, 2, 2, 3]))] for _t in range(nt)]
        if not any('E' in s for s in scripts):
            scripts[rng.randrange(nt)].append('E')
        n = rng.randrange(6, 60)
        cur = rng.randrange(nt); sched = []
        for _k in range(n):
            if rng.random() < 0.4:
                cur = rng.randrange(nt)
            sched.append(cur)
        out.append(_case(line(scripts, sched, 'spn2'), 'race', 'random', 'abi2-addlink'))
    for _ in range(40 if big else 10):
        out.append(_case(rng.choice(['spn', 'spn l,E ; t0', 'spn2 ll ; t0', 'spn ak,,E ; t0', 'spn aK ; t0', 'spn s3 ; t0', 'spn ak E r n e ; t0', 'spn ak ; u0',
                                     'spn ak ; t0 t1', 'spn x ; t0', 'spn ak,E ; t99999', 'spn a ; t0']), 'race', 'malformed'))
    return out


# ------------------------------------------------------------------------------------------------------------------
# parsing the implementation's trace

class Bad(Exception):
    pass


def parse_line(ln):
    toks = ' '.join(ln.split()[1:]).split(' ; ')
    scripts = [[] if s == '-' else s.split(',') for s in toks[0].split()]
    return scripts, toks[1:]


def steps(case_line, out):
    """-> ([(thread, [notes])] in global order, summary)"""
    scripts, acts = parse_line(case_line)
    parts = out.split(' ; ')
    summary = parts[-1]
    body = parts[:-1]
    if len(body) < len(acts):
        raise Bad('fewer step traces than actions')
    res = []
    for a, tr in zip(acts, body[:len(acts)]):
        if tr in ('x', '-'):
            continue
        res.append((int(a[1:]), tr.split(',')))
    for tr in body[len(acts):]:
        m = re.match(r'd(\d+):(.*)', tr)
        if not m:
            raise Bad('bad drain segment ' + tr[:60])
        if m.group(2) != '-':
            res.append((int(m.group(1)), m.group(2).split(',')))
    return res, summary


def _key(k):
    return str(ord(k)) if len(k) == 1 else k


def abstract(case_line, out):
    st, _ = steps(case_line, out)
    ev = []
    for tid, notes in st:
        for n in notes:
            t = n.split()
            k = t[0]
            if k == 'call':
                if t[1] in ('end', 'drop'):
                    ev.append(f'{tid}:call:end')
                elif t[1] == 'isrec':
                    ev.append(f'{tid}:call:isrec')
                elif t[1] == 'set':
                    ev.append(f'{tid}:call:set:{_key(t[2])}:{t[3]}')
                else:
                    ev.append(f'{tid}:call:' + ':'.join(t[1:]))
            elif k in ('lock', 'unlock'):
                ev.append(f'{tid}:{k}')
            elif k in ('rec', 'late'):
                body = t[1:]
                if body[0] == 'set':
                    body = ['set', _key(body[1]), body[2]]
                ev.append(f'{tid}:{k}:' + ':'.join(body))
            elif k == 'onend':
                ev.append(f'{tid}:onend:{t[1]}')
            elif k == 'ret':
                ev.append(f'{tid}:ret' + (f':{t[1]}' if len(t) > 1 else ''))
            elif k == 'end':
                pass
            elif re.match(r'(ld|st|xchg|casw|cass|fadd|fsub) o\d+( |$)', n):
                pass        # an atomic the harness did not name (a statistics counter, say): not a protocol variable
            else:
                raise Bad('note ' + n)
    return 'spnrace ; ' + ' ; '.join(ev)


def model_line(case, out):
    if out == 'bad-op' or out.startswith('CRASH'):
        return case.line            # the driver has no `spn` word: it answers bad-op, like the harness on a malformed case
    return abstract(case.line, out)


SUM_RE = re.compile(r'done=(\d) onend=(\d+) held=(\S+) late=\[(.*)\]$')


def _held_numeric(h):
    return re.sub(r'set:([a-z]):', lambda m: f'set:{ord(m.group(1))}:', h)


def agree(case, out, mout):
    if out == 'bad-op':
        return mout == 'bad-op'
    if out.startswith('CRASH'):
        return True                 # nothing to replay; the oracle has the case
    m = SUM_RE.search(out.split(' ; ')[-1])
    mm = re.match(r'ok onend=(\d+) held=(\S+) ', mout)
    return bool(m and mm and m.group(2) == mm.group(1) and _held_numeric(m.group(3)) == mm.group(2))


# ------------------------------------------------------------------------------------------------------------------
# implementation-side oracle: the property evaluated on the implementation's own trace

class Call:
    def __init__(self, tid, kind, ident, t_call):
        self.tid, self.kind, self.ident, self.t_call = tid, kind, ident, t_call
        self.t_ret = None
        self.result = None
        self.writes = []        # times at which this call's setter reached the recordable

    def name(self):
        return f'T{self.tid} {self.kind}' + (f' #{self.ident}' if self.ident is not None else '')


def wellformed(ln):
    """the case grammar of harness/d_span.cc"""
    toks = ln.split()
    if not toks or toks[0] not in ('spn', 'spn2'):
        return False
    rx = r'a[a-z]|s[0-2]|[enErl]' if toks[0] == 'spn2' else r'a[a-z]|s[0-2]|[enEr]'
    ops = ' '.join(toks[1:]).split(' ; ') if len(toks) > 1 else ['']
    scripts = ops[0].split()
    if not 1 <= len(scripts) <= 4:
        return False
    for s in scripts:
        if s == '-':
            continue
        o = s.split(',')
        if len(o) > 8 or not all(re.fullmatch(rx, x) for x in o):
            return False
    return all(re.fullmatch(r't\d{1,3}', a) for a in ops[1:])


def oracle(case, out):
    if not wellformed(case.line):
        return None if out == 'bad-op' else ('malformed-case-rejected', out[:80])
    if out.startswith('CRASH'):
        return ('no-crash-when-mutators-race-End', out)
    if out == 'bad-op':
        return ('harness-rejected-case', out)
    try:
        st, summary = steps(case.line, out)
    except Bad as e:
        return ('trace-readable', str(e))
    m = SUM_RE.fullmatch(summary)
    if not m:
        return ('trace-readable', summary[:120])
    if m.group(1) != '1':
        return ('every-call-returns', summary)
    tm = 0
    calls = []
    cur = {}
    onend_t = []
    rec_order = []          # (time, entry) of every setter call that reached the recordable
    for tid, notes in st:
        for n in notes:
            tm += 1
            t = n.split()
            k = t[0]
            if k == 'call':
                if tid in cur:
                    return ('trace-readable', f'T{tid}: call inside a call')
                kind = 'end' if t[1] in ('end', 'drop') else t[1]
                ident = int(t[-1]) if kind not in ('end', 'isrec') else None
                c = Call(tid, kind, ident, tm)
                calls.append(c); cur[tid] = c
            elif k == 'ret':
                c = cur.pop(tid, None)
                if c is None:
                    return ('trace-readable', f'T{tid}: ret without call')
                c.t_ret = tm
                if len(t) > 1:
                    c.result = t[1]
            elif k in ('rec', 'late'):
                c = cur.get(tid)
                entry = ':'.join(t[1:])
                if k == 'late':
                    return ('no-write-after-the-recordable-was-handed-to-OnEnd', f'{c.name() if c else tid}: {entry} reached the recordable after OnEnd received it')
                if c is None:
                    return ('trace-readable', f'T{tid}: setter outside a call')
                want = 'dur' if c.kind == 'end' else {'set': 'set', 'ev': 'ev', 'st': 'st', 'nm': 'nm', 'lk': 'lk'}.get(c.kind)
                if t[1] != want or (c.ident is not None and int(t[-1]) != c.ident):
                    return ('recordable-receives-what-was-passed', f'{c.name()}: recordable received {entry}')
                c.writes.append(tm)
                rec_order.append((tm, entry))
            elif k == 'onend':
                onend_t.append(tm)
                if t[1] == 'null':
                    return ('OnEnd-receives-the-recordable', 'OnEnd(nullptr)')
    if cur:
        return ('every-call-returns', ', '.join(c.name() for c in cur.values()))
    # --- End takes effect once
    if len(onend_t) != 1 or m.group(2) != '1':
        return ('processor-notified-exactly-once', f'{len(onend_t)} OnEnd calls in the trace, summary says {m.group(2)} (every case ends with ~Span)')
    hand = onend_t[0]
    ends = [c for c in calls if c.kind == 'end']
    first_end_call = min(c.t_call for c in ends)
    first_end_ret = min(c.t_ret for c in ends)
    if first_end_ret < hand:
        return ('End-returns-only-after-the-span-was-handed-over', f'an End call returned at {first_end_ret}, OnEnd was called at {hand}')
    durs = [c for c in ends if c.writes]
    if sum(len(c.writes) for c in ends) != 1:
        return ('End-takes-effect-once', f'duration stamped {sum(len(c.writes) for c in ends)} times')
    # --- what OnEnd received = what reached the recordable before, in that order
    held = m.group(3)
    want_held = '[' + ','.join(e for (t_, e) in rec_order if t_ < hand) + ']'
    if held != want_held:
        return ('exported-span-is-what-was-recorded-before-End', f'OnEnd received {held}, recorded before the hand-off {want_held}')
    if any(t_ > hand for (t_, e) in rec_order):
        return ('no-write-after-the-recordable-was-handed-to-OnEnd', str([e for (t_, e) in rec_order if t_ > hand]))
    if not held.endswith('dur]'):
        return ('no-mutation-after-End-took-effect', f'{held}: a mutation landed between End\'s duration stamp and the hand-off')
    for c in calls:
        if c.kind in ('end', 'isrec'):
            continue
        if len(c.writes) > 1:
            return ('mutation-applied-at-most-once', c.name())
        if c.t_ret < first_end_call and not c.writes:
            return ('recorded-before-End-is-exported', f'{c.name()} returned at {c.t_ret}, before the first End call began at {first_end_call}, and is missing')
        if c.t_call > first_end_ret and c.writes:
            return ('mutator-after-End-changes-nothing', f'{c.name()} began at {c.t_call}, after an End returned at {first_end_ret}, and reached the recordable')
    # per-thread program order inside the exported span
    last = {}
    for t_, e in rec_order:
        if e == 'dur':
            continue
        ident = int(e.split(':')[-1])
        th = ident // 100
        if last.get(th, -1) >= ident:
            return ('per-thread-program-order', f'thread {th}: #{ident} after #{last[th]}')
        last[th] = ident
    for c in calls:
        if c.kind != 'isrec':
            continue
        if c.t_call > first_end_ret and c.result != '0':
            return ('IsRecording-false-after-End-returned', c.name())
        if c.t_ret < first_end_call and c.result != '1':
            return ('IsRecording-true-before-End', c.name())
    return None


def signature(case, out, clause):
    return clause


def nontrivial(case, out):
    if out == 'bad-op' or out.startswith('CRASH'):
        return False
    scripts, acts = parse_line(case.line)
    if not any('E' in s for s in scripts):
        return False
    parts = out.split(' ; ')
    stepped = {a for a, tr in zip(acts, parts) if tr not in ('x', '-')}
    return len(stepped) >= 2
