"""C13 - an exported log record carries what was emitted, correlated with the active span."""
import re
from vcore import Case, Harness, sdk_sources, SDK_INCLUDES
from props.c04 import Bad, _hex, _int, I64, hx, r_bytes, r_value, r_attrs, spec_value, spec_attrs, strip_index

ID = 'C13'
GEN = ['SpanAttr']
LEAN_TARGETS = ['OtelVerif.Props.C13']
THEOREMS = ['Otel.C13.' + t for t in (
    'emit_fields', 'emit_attrs_last_write_wins', 'emit_identity_componentwise',
    'correlation_active_span', 'explicit_identity_wins', 'no_active_span_zero_ids', 'active_span_is_top_of_own_stack',
    'null_record_ignored', 'emitted_record_is_gone', 'disabled_logger_emits_nothing', 'disabled_logger_program',
    'each_processor_once', 'emit_reaches_every_processor_once', 'fanout_identical_children', 'emit_hands_over', 'exporter_logs_only_grow',
    'exported_eq_emitted_partial', 'simple_processor_exports_emitted_values', 'untouched_cells_stay_readable',
    'exported_eq_emitted_witness', 'exported_eq_emitted_uaf_witness', 'eventid_name_partial', 'eventid_name_witness',
    'eventid_without_name')]
H = 's_c13'
HARNESSES = [Harness(H, ['harness/s_c13.cc'], sdk_srcs=sdk_sources('common', 'resource', 'version', 'trace', 'logs'), includes=SDK_INCLUDES)]
RULE = ('one case = one logging program on a provider with 1-8 processors of mixed kinds (simple / batch flushed on request) and two '
        'loggers (enabled / disabled by configurator; processors, provider and logger obtained through rotating constructor / factory / '
        'GetLogger overloads): push/pop of contexts carrying a span (as Span or as SpanContext, or a span entry without a span: null '
        'Span, null SpanContext, a value of another type) on three '
        'sequentialised threads, CreateLogRecord, single typed setters on a record in hand, EmitLogRecord([record,] args...) through '
        'the real variadic template with every ordered pair of argument kinds (severity, EventId with/without name, SpanContext, '
        'SpanId, TraceId, TraceFlags, SystemTimestamp, time_point, KeyValueIterable, pair container, MakeAttributes(span / braced list / '
        'container view), body as AttributeValue of every '
        'alternative / string_view / const char* / std::string), null and already-emitted records, ForceFlush, processors attached later '
        '(simple, batch, null, one that hands out no recordable), and the caller '
        'overwriting (scribble) or freeing the memory of earlier arguments. Streams: safe (caller memory only touched after export), '
        'deferred-scribble and deferred-free (touched between Emit and a batch export: the D14 witness family). non-trivial = at '
        'least one record reaches an exporter; distinct = distinct case line')
TRUSTED = ['harness exporter/canonicaliser (reads every record through the ReadableLogRecord getters at Export time)',
           'the batch processor\'s own protocol is C01-C03\'s; here only hand-over and flush are observed',
           'ASan/UBSan for lifetime and bounds: a freed caller cell read at export is a heap-use-after-free report']
ASSUMPTIONS = ['observed timestamp is a clock reading and is not compared',
               'the context stack discipline itself (Attach/Detach of non-top tokens) is C10\'s; here contexts are detached in LIFO order',
               'argument packs longer than two are composed as CreateLogRecord + typed setters + EmitLogRecord(record, a, b)',
               'a record is emitted through the logger that created it']
SHRINK = True
D14 = 'body-or-attrs-not-owned/deferred-export'
D_EVNAME = 'event-name-truncated-at-NUL/EventId-holds-a-C-string'

ARG_SCALAR = ['sev', 'eid', 'eidn', 'ctx', 'sid', 'tid', 'fl', 'ts', 'tp']
ARG_CELL = ['attrs', 'attrsb', 'attrss', 'attrsi', 'attrsw', 'body', 'bodysv', 'bodycs', 'bodystd']
ATTR_KINDS = ('attrs', 'attrsb', 'attrss', 'attrsi', 'attrsw')   # KeyValueIterable, pair container, MakeAttributes(span | {…} | container)


def r_ident(rng):
    r = rng.random()
    if r < 0.08:
        return '0' * 32 + '/' + '0' * 16 + '/00'
    return f'{rng.getrandbits(128):032x}/{rng.getrandbits(64):016x}/{rng.choice([0, 1, 1, 2, 255, rng.randrange(256)]):02x}'


class Gen:
    """builds one program, tracking enough to place caller-memory operations safely or unsafely on purpose"""

    def __init__(self, rng, mode, big):
        self.rng, self.mode, self.big = rng, mode, big
        self.next_buf = 1
        self.next_rid = 1
        self.in_hand = []           # (rid, enabled)
        self.pending = []           # cells referenced by records queued on a batch processor (not yet flushed)
        self.exported = []          # cells whose records have been exported everywhere
        self.hand_cells = {}        # rid -> cells set on it
        self.ops = []
        self.depth = [0, 0, 0]

    def arg(self, kinds=None, no_nul_name=True):
        rng = self.rng
        k = rng.choice(kinds or (ARG_SCALAR + ARG_CELL + ['body', 'attrs', 'bodystd']))
        if k == 'sev': return f'sev:{rng.choice([0, 1, 9, 17, 24, 255, rng.randrange(256)])}', None
        if k == 'eid': return f'eid:{rng.choice([0, 1, -1, 2**63 - 1, -2**63, rng.randrange(-10**6, 10**6)])}', None
        if k == 'eidn':
            nm = bytes(rng.choice(b'abcdefgh.XYZ_') for _ in range(rng.randrange(0, 9)))
            return f'eid:{rng.randrange(-100, 100)}:{hx(nm)}', None
        if k == 'ctx': return 'ctx:' + r_ident(rng), None
        if k == 'sid': return f'sid:{rng.getrandbits(64):016x}', None
        if k == 'tid': return f'tid:{rng.getrandbits(128):032x}', None
        if k == 'fl': return f'fl:{rng.randrange(256):02x}', None
        if k in ('ts', 'tp'): return f'{k}:{rng.choice([0, 1, -5, 2**63 - 1, rng.randrange(10**18)])}', None
        b = self.next_buf
        self.next_buf += 1
        pool = [b'k', b'a', b'key.two', b'', b'k\x00x', b'\xff\xfe']
        if k in ATTR_KINDS:
            a = r_attrs(rng, pool, rng.choice([1, 2, 5]) if k == 'attrsi' else 5, self.big)
            return f'{k}#{b}/{a}', b
        if k == 'body': return f'body#{b}/{r_value(rng, self.big)}', b
        if k == 'bodycs': return f'bodycs#{b}/c:{hx(r_bytes(rng))}', b
        return f'{k}#{b}/s:{hx(r_bytes(rng, 40 if rng.random() < 0.1 else 12))}', b

    def emit(self):
        rng = self.rng
        t = rng.randrange(3)
        r = rng.random()
        args, cells = [], []
        for _ in range(rng.choice([0, 1, 1, 2, 2, 2])):
            a, c = self.arg()
            args.append(a)
            if c is not None:
                cells.append(c)
        if r < 0.62:
            en = 'e' if rng.random() < 0.88 else 'd'
            tgt = 'new'
            if rng.random() < 0.18:
                # through a convenience entry point of logs::Logger: same record as EmitLogRecord(severity, …)
                via = rng.choice(['v', 'v', 'l4e', 'l4i', 'l3', 'l2', 'w4e', 'w4i', 'w3', 'w2'])
                args, cells = [], []
                sev = rng.choice(SIX) if via == 'v' or via[0] == 'w' else rng.choice([0, 1, 9, 13, 24, 255, rng.randrange(256)])
                args.append(f'sev:{sev}')
                if via == 'v':
                    want = [rng.choice([k for k in ARG_SCALAR + ARG_CELL if k != 'sev'])] if rng.random() < 0.8 else []
                else:
                    want = [{'eid': 'eidn' if via.endswith('4e') and rng.random() < 0.7 else 'eid'}.get(k, k) for k in VIA_SHAPES[via][1:]]
                for k in want:
                    a, c = self.arg(kinds=[k])
                    args.append(a)
                    if c is not None:
                        cells.append(c)
                tgt = 'new:' + via
            self.ops.append(f'emit {t} {en} {tgt} ' + ' '.join(args))
            live = en == 'e'
        elif r < 0.68:
            self.ops.append(f'emit {t} e null ' + ' '.join(args))
            live = False
        elif r < 0.72:
            self.ops.append(f'emit {t} e {rng.randrange(900, 999)} ' + ' '.join(args))   # never created / already emitted
            live = False
        else:
            if not self.in_hand:
                self.create()
            rid, en = self.in_hand.pop(rng.randrange(len(self.in_hand)))
            cells += self.hand_cells.pop(rid, [])
            self.ops.append(f'emit {t} {"e" if en else "d"} {rid} ' + ' '.join(args))
            live = en
            if rng.random() < 0.15:
                self.ops.append(f'emit {t} e {rid} sev:1')       # the same record again: it is gone
        self.ops[-1] = self.ops[-1].rstrip()
        if live:
            (self.pending if 'b' in self.procs else self.exported).extend(cells)
        else:
            self.exported.extend(cells)

    def create(self):
        rng = self.rng
        rid = self.next_rid
        self.next_rid += 1
        en = rng.random() < 0.85
        self.ops.append(f'create {rng.randrange(3)} {"e" if en else "d"} {rid}')
        self.in_hand.append((rid, en))
        for _ in range(rng.choice([0, 1, 2, 3, 5])):
            a, c = self.arg()
            self.ops.append(f'set {rid} {a}')
            if c is not None:
                self.hand_cells.setdefault(rid, []).append(c)

    def build(self):
        rng = self.rng
        self.procs = ''.join(rng.choice('sb') for _ in range(rng.choice([1, 1, 2, 2, 3, 4, rng.randrange(1, 9)])))
        if self.mode != 'safe' and 'b' not in self.procs:
            self.procs = self.procs[:-1] + 'b' if len(self.procs) > 1 and rng.random() < 0.5 else self.procs + 'b'
            self.procs = self.procs[:8]
            if 'b' not in self.procs:
                self.procs = 'b' + self.procs[1:]
        scope = hx(r_bytes(rng, 8) or b's') + '/' + hx(r_bytes(rng, 6)) + '/' + hx(r_bytes(rng, 6))
        cfg = f'log {self.procs} {hx(r_bytes(rng, 6))} {scope}'
        n = rng.choice([1, 2, 4, 6, 10, 16, 24])
        hazard_done = False
        for i in range(n):
            r = rng.random()
            if r < 0.2:
                t = rng.randrange(3)
                if rng.random() < 0.12:
                    # the context's span entry carries no span (null Span, null SpanContext, another type): no active span
                    self.ops.append(f'{rng.choice(["pushn", "pushnc", "pushx"])} {t}')
                else:
                    self.ops.append(f'{rng.choice(["push", "push", "pushc"])} {t} {r_ident(rng)}')
                self.depth[t] += 1
            elif r < 0.3:
                t = rng.randrange(3)
                self.ops.append(f'pop {t}')
                self.depth[t] = max(0, self.depth[t] - 1)
            elif r < 0.38:
                self.create()
            elif r < 0.72:
                self.emit()
            elif r < 0.8:
                self.ops.append('flush')
                self.exported += self.pending
                self.pending = []
                if rng.random() < 0.2:
                    # attach one more processor (a batch one only where the program already reckons with deferred export)
                    # (`n`: a null processor, ignored; `z`: a processor that hands out no recordable and so receives nothing)
                    self.ops.append('addproc ' + (rng.choice('sbnz') if 'b' in self.procs else rng.choice('ssnz')))
            elif r < 0.92:
                # caller memory op: safe = only on cells nobody will read any more
                if self.mode == 'safe' or hazard_done or not self.pending:
                    if self.exported:
                        c = self.exported.pop(rng.randrange(len(self.exported)))
                        self.ops.append(f'{rng.choice(["scribble", "scribble", "free"])} {c}')
                else:
                    c = self.pending.pop(rng.randrange(len(self.pending)))
                    self.ops.append(('scribble' if self.mode == 'scribble' else 'free') + f' {c}')
                    hazard_done = True
            else:
                self.emit()
        if self.mode != 'safe' and not hazard_done:
            # make sure the hazard is there: a string body on the batch processor, touched before the final flush
            b = self.next_buf
            self.ops.append(f'emit 0 e new bodystd#{b}/s:{hx(b"hello-original")}')
            self.ops.append(('scribble' if self.mode == 'scribble' else 'free') + f' {b}')
        return ' ; '.join([cfg] + self.ops)


def corpus():
    C = lambda line, *tags: Case(line, H, ('corpus',) + tags, 'corpus')
    sp = '000102030405060708090a0b0c0d0e0f/0102030405060708/01'
    out = [
        C('log sb 7265 6c6962/31/- ; emit 0 e new sev:9 body#1/s:68656c6c6f', 'smoke'),
        # a processor attached later: the record already in hand does not reach it, records created afterwards do
        C('log s 7265 6c6962/31/- ; create 0 e 1 ; set 1 sev:9 ; addproc s ; emit 0 e 1 ; emit 0 e new sev:5 ; addproc b ; emit 1 e new sev:17 ; flush', 'addproc'),
        # D23 (fixed): EventId without a name
        C('log s 7265 6c6962/31/- ; emit 0 e new eid:5', 'D23-eventid-null-name'),
        C('log sb 7265 6c6962/31/- ; create 0 e 1 ; set 1 eid:-7 ; emit 0 e 1 sev:1 ; emit 1 e new eid:9:6e eid:10', 'D23-eventid-null-name'),
        # D14 witness: deferred export reads the caller's later bytes (simple copy right, batch copy wrong)
        C(f'log sb 7265 6c6962/31/- ; push 0 {sp} ; emit 0 e new sev:9 bodystd#1/s:68656c6c6f2d6f726967696e616c ; scribble 1', 'D14-witness-scribble'),
        C('log b 7265 6c6962/31/- ; emit 0 e new bodysv#1/s:68656c6c6f ; free 1', 'D14-witness-free'),
        C('log b 7265 6c6962/31/- ; emit 0 e new attrs#1/6b=s:68656c6c6f,6e=I:1.2.3 ; scribble 1 ; flush', 'D14-witness-scribble'),
        # the same caller behaviour is harmless when export is not deferred, or after the flush
        C('log ss 7265 6c6962/31/- ; emit 0 e new bodysv#1/s:68656c6c6f attrs#2/6b=S:61.62 ; scribble 1 ; free 2 ; emit 0 e new body#3/c:6100 ; free 3 ; free 1', 'simple-then-free'),
        C('log bb 7265 6c6962/31/- ; emit 0 e new bodysv#1/s:68656c6c6f attrs#2/6b=S:61.62 ; flush ; scribble 1 ; free 2 ; flush', 'batch-flush-then-free'),
        # scalars and empty views never point into caller memory
        C('log b 7265 6c6962/31/- ; emit 0 e new body#1/l:-5 attrs#2/61=b:1,62=d:7ff8000000000000,63=s:-,64=I:,65=U:18446744073709551615 ; free 1 ; free 2', 'scalars-owned'),
        # correlation: nested spans on two threads, explicit identity component-wise, release
        C(f'log s 72 6c/-/- ; push 0 {sp} ; push 1 ' + 'a' * 32 + '/' + 'b' * 16 + '/00 ; push 0 ' + 'c' * 32 + '/' + 'd' * 16 + '/ff ; '
          'emit 0 e new ; emit 1 e new ; emit 2 e new ; emit 0 e new tid:' + 'e' * 32 + ' ; emit 0 e new sid:' + 'f' * 16 + ' fl:7f ; '
          'emit 0 e new ctx:' + '1' * 32 + '/' + '2' * 16 + '/03 sid:' + '4' * 16 + ' ; pop 0 ; emit 0 e new ; pop 0 ; emit 0 e new ; pop 0 ; emit 0 e new', 'correlation'),
        C(f'log sb 72 6c/-/- ; create 1 e 5 ; pushc 1 {sp} ; emit 1 e 5 ; create 1 e 6 ; pop 1 ; emit 0 e 6 ; emit 0 e 6 sev:3 ; emit 0 e null sev:4', 'created-vs-emitted-context'),
        C('log sb 72 6c/-/- ; emit 0 d new sev:9 body#1/s:6162 ; create 0 d 3 ; set 3 sev:5 ; emit 0 d 3 ; emit 0 e new sev:1', 'disabled-logger'),
        # later argument wins, per field
        C('log s 72 6c/-/- ; emit 0 e new sev:1 sev:2 ; emit 0 e new body#1/s:61 body#2/i:5 ; emit 0 e new attrs#3/6b=i:1,6c=i:2 attrsb#4/6b=s:7a ; '
          'emit 0 e new ts:5 tp:6 ; emit 0 e new tp:6 ts:5 ; emit 0 e new eid:1:61 eid:2:62 ; create 0 e 1 ; set 1 sev:9 ; set 1 body#5/S:61.-.62 ; '
          'set 1 attrs#6/6b=B:1.0 ; set 1 ctx:' + '1' * 32 + '/' + '2' * 16 + '/03 ; emit 0 e 1 sev:10 tid:' + '9' * 32, 'later-argument-wins'),
        # a context whose span entry carries no span (null Span / null SpanContext / a value of another type) hides the span
        # below it: no active span, all-zero ids; explicit identity still applies; popping it brings the span back
        C(f'log sb 72 6c/-/- ; push 0 {sp} ; pushn 0 ; emit 0 e new sev:1 ; create 0 e 1 ; pop 0 ; emit 0 e new sev:2 ; emit 0 e 1 ; '
          f'pushnc 0 ; emit 0 e new sid:' + 'f' * 16 + ' ; pushx 0 ; emit 0 e new ; pop 0 ; pop 0 ; emit 0 e new ; pushx 1 ; emit 1 e new ; '
          f'pushc 1 {sp} ; emit 1 e new', 'span-entry-without-span'),
        C('log s 72 6c/-/- ; pushn 2 ; emit 2 e new ; pushnc 2 ; emit 2 e new fl:01 ; pushx 2 ; emit 2 e new tid:' + 'a' * 32, 'span-entry-without-span'),
        # attributes through common::MakeAttributes: a span of pairs, a braced list (0, 1, 2 and more pairs), a container view
        C('log sb 72 6c/-/- ; emit 0 e new attrss#1/6b=i:1,6c=s:7a attrsi#2/6b=i:2 ; emit 0 e new attrsi#3/- sev:3 ; '
          'emit 0 e new attrsi#4/61=b:1,62=l:-2 attrsw#5/62=s:6869,63=S:61.62 ; emit 0 e new attrsi#6/61=i:1,62=i:2,61=i:3 ; '
          'create 0 e 1 ; set 1 attrsw#7/6b=d:3ff0000000000000 ; set 1 attrss#8/- ; set 1 attrsi#9/6b=u:4 ; emit 0 e 1 attrsw#10/-', 'make-attributes'),
        C('log b 72 6c/-/- ; emit 0 e new:v sev:9 attrss#1/6b=s:68656c6c6f ; emit 0 e new:v sev:13 attrsi#2/6b=I:1.2 ; emit 0 e new:v sev:21 attrsw#3/6b=c:6100 ; flush ; free 1 ; free 2 ; free 3',
          'make-attributes'),
        # a null processor is ignored; a processor that hands out no recordable is handed nothing and disturbs nobody
        C('log s 72 6c/-/- ; addproc n ; emit 0 e new sev:1 ; addproc z ; emit 0 e new sev:2 body#1/s:61 attrs#2/6b=i:1 ; create 1 e 1 ; '
          'set 1 sev:3 ; set 1 eid:4:6e ; set 1 ctx:' + '1' * 32 + '/' + '2' * 16 + '/03 ; set 1 ts:5 ; addproc s ; emit 1 e 1 ; emit 0 e new sev:6 ; addproc n', 'addproc-null'),
        C('log bs 72 6c/-/- ; addproc z ; addproc b ; emit 2 e new sev:1 tp:7 ; emit 0 e null sev:2 ; flush ; addproc z ; emit 0 e new fl:01 sid:' + '3' * 16, 'addproc-null'),
        # every fixed-signature wrapper with an EventId, all six severities
        C(' ; '.join(['log sb 72 6c/76/73'] + [f'emit 0 e new:w4e sev:{v} eid:{v}:6e{v:02x} bodysv#{i * 2 + 1}/s:6d attrs#{i * 2 + 2}/6b=i:{v}' for i, v in enumerate((1, 5, 9, 13, 17, 21))]),
          'wrappers-eventid'),
        # the EventId wrapper keeps its name as a C string
        C('log s 72 6c/-/- ; emit 0 e new eid:1:610062', 'eventid-name-embedded-nul'),
    ]
    for bad in ('log', 'log x 72 6c/-/-', 'log s 72 -/-/-', 'log s 72 6c/-/- ; emit 3 e new', 'log s 72 6c/-/- ; emit 0 x new', 'log s 72 6c/-/- ; emit 0 e new sev:256',
                'log s 72 6c/-/- ; emit 0 e new body#1/s:61 body#1/s:62', 'log s 72 6c/-/- ; emit 0 e new sev:1 sev:2 sev:3', 'log s 72 6c/-/- ; set 1 bogus:1',
                'log s 72 6c/-/- ; emit 0 e new bodysv#1/i:5', 'log s 72 6c/-/- ; emit 0 e new tid:00', 'log s 72 6c/-/- ; push 0 00/00/00', 'log s 72 6c/-/- ; free x',
                'log s 72 6c/-/- ; emit 0 e new eid:1:2:3', 'log s 72 6c/-/- ; pushn 3', 'log s 72 6c/-/- ; pushx 0 ' + sp, 'log s 72 6c/-/- ; pushn',
                'log s 72 6c/-/- ; addproc x', 'log s 72 6c/-/- ; emit 0 e new attrsq#1/6b=i:1', 'log s 72 6c/-/- ; emit 0 e new attrsi#1/6b', 'log s 72 6c/-/- ; emit 0 e new body#1', 'log s 72 6c/-/- ; create 0 e'):
        out.append(C(bad, 'malformed'))
    return out


def generate(rng, tier):
    big = tier == 'thorough'
    out = []
    n = 60000 if big else 5000
    for i in range(n):
        r = rng.random()
        mode = 'safe' if r < 0.9 else 'scribble'
        out.append(Case(Gen(rng, mode, big).build(), H, ('program', 'caller-memory:' + mode)))
    for i in range(120 if big else 16):
        out.append(Case(Gen(rng, 'free', False).build(), H, ('program', 'caller-memory:free-before-deferred-export')))
    # every ordered pair of argument kinds through the real variadic template, with an active span
    sp = '000102030405060708090a0b0c0d0e0f/0102030405060708/01'
    kinds = ARG_SCALAR + ARG_CELL
    for a in kinds:
        for b in kinds:
            g = Gen(rng, 'safe', False)
            x, _ = g.arg([a])
            y, _ = g.arg([b])
            out.append(Case(f'log sb 72 6c/76/73 ; push 1 {sp} ; emit 1 e new {x} {y}', H, ('arg-pair',)))
            out.append(Case(f'log bs 72 6c/76/73 ; create 2 e 1 ; emit 0 e 1 {x} {y}', H, ('arg-pair',)))
    for i in range(300 if big else 60):
        line = Gen(rng, 'safe', False).build()
        toks = line.split(' ')
        j = rng.randrange(1, len(toks))
        r = rng.random()
        if r < 0.35:
            toks[j] = toks[j] + rng.choice(['g', ':', '#', '/', 'x:1'])
        elif r < 0.55:
            del toks[j]
        elif r < 0.75:
            toks.insert(j, rng.choice(['zz', '-', '1', ';']))
        else:
            toks[j] = rng.choice(['sev:256', 'emit', 'body#1', 'tid:00', '3', 'q'])
        out.append(Case(' '.join(toks), H, ('damaged-token',)))
    return out


# ---------------------------------------------------------------------------------------------- reference of the SPEC

ZERO = ('0' * 32, '0' * 16, '00')


def p_ident(s):
    p = s.split('/')
    if len(p) != 3:
        raise Bad(s)
    t, i, f = _hex(p[0]), _hex(p[1]), _hex(p[2])
    if len(t) != 16 or len(i) != 8 or len(f) != 1:
        raise Bad(s)
    return (t.hex(), i.hex(), f.hex())


def p_small(s, lim):
    return _int(s, 0, lim - 1, signed=False)


def p_arg(tok):
    """-> (kind, payload, cell)"""
    if '#' in tok:
        p = tok.split('#')
        if len(p) != 2:
            raise Bad(tok)
        q = p[1].split('/')
        if len(q) != 2:
            raise Bad(tok)
        b = p_small(q[0], 100000)
        if p[0] in ATTR_KINDS:
            return ('attrs', spec_attrs(q[1]), b)
        v = spec_value(q[1])
        tag = q[1].split(':')[0]
        if p[0] == 'body' or (p[0] in ('bodysv', 'bodystd') and tag == 's') or (p[0] == 'bodycs' and tag == 'c'):
            return ('body', v, b)
        raise Bad(tok)
    p = tok.split(':')
    if p[0] == 'sev' and len(p) == 2: return ('sev', p_small(p[1], 256), None)
    if p[0] == 'eid' and len(p) == 2: return ('eid', (_int(p[1], *I64), b''), None)
    if p[0] == 'eid' and len(p) == 3: return ('eid', (_int(p[1], *I64), _hex(p[2])), None)
    if len(p) != 2:
        raise Bad(tok)
    if p[0] == 'ctx': return ('ctx', p_ident(p[1]), None)
    if p[0] == 'sid':
        x = _hex(p[1])
        if len(x) != 8: raise Bad(tok)
        return ('sid', x.hex(), None)
    if p[0] == 'tid':
        x = _hex(p[1])
        if len(x) != 16: raise Bad(tok)
        return ('tid', x.hex(), None)
    if p[0] == 'fl':
        x = _hex(p[1])
        if len(x) != 1: raise Bad(tok)
        return ('fl', x.hex(), None)
    if p[0] in ('ts', 'tp'): return ('ts', _int(p[1], *I64), None)
    raise Bad(tok)


VIA_SHAPES = {'l4e': ['sev', 'eid', 'bodysv', 'attrs'], 'l4i': ['sev', 'eid', 'bodysv', 'attrs'], 'l3': ['sev', 'bodysv', 'attrs'],
              'l2': ['sev', 'bodysv']}
for _k in ('4e', '4i', '3', '2'):
    VIA_SHAPES['w' + _k] = VIA_SHAPES['l' + _k]
SIX = (1, 5, 9, 13, 17, 21)


def check_via(via, toks):
    """`emit … new:<via> args`: the record goes through a convenience entry point of logs::Logger - the variadic wrappers
    Trace … Fatal (`v`), Log(severity, …) (`l*`) or the fixed-signature wrappers (`w*`); the shapes they accept"""
    kinds = [re.split('[:#]', t)[0] for t in toks]
    if not kinds or kinds[0] != 'sev':
        raise Bad('via without severity')
    sev = int(toks[0].split(':')[1])
    if (via == 'v' or via.startswith('w')) and sev not in SIX:
        raise Bad('no wrapper for this severity')
    if via == 'v':
        if len(kinds) > 2 or (len(kinds) == 2 and kinds[1] == 'sev'):
            raise Bad('variadic wrapper shape')
        return
    if via not in VIA_SHAPES or kinds != VIA_SHAPES[via]:
        raise Bad('via shape')
    if via.endswith('4i') and len(toks[1].split(':')) != 2:
        raise Bad('int64 event id has no name')


def apply_arg(rec, a):
    k, v, cell = a
    if k == 'sev': rec['sev'] = v
    elif k == 'eid': rec['eid'], rec['ename'] = v
    elif k == 'ctx': rec['tid'], rec['sid'], rec['fl'] = v
    elif k in ('sid', 'tid', 'fl'): rec[k] = v
    elif k == 'ts': rec['ts'] = v
    elif k == 'body': rec['body'], rec['body_cell'] = v, cell
    elif k == 'attrs':
        for key, val in v:
            rec['attrs'][key] = (val, cell)


def new_record(active):
    t, s, f = active or ZERO
    return {'sev': 0, 'body': 's:-', 'body_cell': None, 'attrs': {}, 'ts': 0, 'eid': 0, 'ename': b'', 'tid': t, 'sid': s, 'fl': f}


class Sim(tuple):
    """simulate()'s result; `.late` = [(op index, kind)] of the processors attached later with `addproc`"""


def simulate(line):
    """the SPEC: which records every processor must export (values as given at emit time), plus the timeline needed to classify
    a deviation (which caller cells a record points into, when they were touched, when each record was exported)"""
    toks = line.split()
    if not toks or toks[0] != 'log':
        raise Bad('engine')
    segs, cur = [], []
    for t in toks[1:]:
        if t == ';':
            segs.append(cur); cur = []
        else:
            cur.append(t)
    segs.append(cur)
    c = segs[0]
    if len(c) != 3 or not re.fullmatch(r'[sb]{1,8}', c[0]):
        raise Bad('cfg')
    res = _hex(c[1])
    sc = c[2].split('/')
    if len(sc) != 3:
        raise Bad('scope')
    scope = [_hex(x) for x in sc]
    if not scope[0]:
        raise Bad('scope name')
    ops = []
    bufs = set()
    for o in segs[1:]:
        if not o:
            raise Bad('empty op')
        k = o[0]
        if k in ('push', 'pushc') and len(o) == 3: ops.append(('push', p_small(o[1], 3), p_ident(o[2])))
        elif k in ('pushn', 'pushnc', 'pushx') and len(o) == 2: ops.append(('push', p_small(o[1], 3), None))   # no span in it
        elif k == 'pop' and len(o) == 2: ops.append(('pop', p_small(o[1], 3)))
        elif k == 'create' and len(o) == 4 and o[2] in ('e', 'd'): ops.append(('create', p_small(o[1], 3), o[2] == 'e', p_small(o[3], 100000)))
        elif k == 'set' and len(o) == 3: ops.append(('set', p_small(o[1], 100000), [p_arg(o[2])]))
        elif k == 'emit' and 4 <= len(o) <= 8 and o[2] in ('e', 'd'):
            tg, via = (o[3][:3], o[3][4:]) if o[3].startswith('new:') else (o[3], None)
            if via is None and len(o) > 6:
                raise Bad('too many arguments')
            tgt = tg if tg in ('new', 'null') else p_small(tg, 100000)
            args = [p_arg(a) for a in o[4:]]
            if via is not None:
                check_via(via, o[4:])
            ops.append(('emit', p_small(o[1], 3), o[2] == 'e', tgt, args))
        elif k in ('scribble', 'free') and len(o) == 2: ops.append((k, p_small(o[1], 100000)))
        elif k == 'flush' and len(o) == 1: ops.append(('flush',))
        elif k == 'addproc' and len(o) == 2 and o[1] in ('s', 'b', 'n', 'z'): ops.append(('addproc', o[1]))
        else:
            raise Bad('op')
        if ops[-1][0] in ('set', 'emit'):
            for a in ops[-1][-1]:
                if a[2] is not None:
                    if a[2] in bufs:
                        raise Bad('cell reused')
                    bufs.add(a[2])
    stacks = {0: [], 1: [], 2: []}
    hand = {}
    emitted = []      # (op index, record)
    touched = []      # (op index, kind, cell)
    flushes = []
    late = []         # (op index, kind) of processors attached with `addproc`
    for i, o in enumerate(ops):
        if o[0] == 'addproc':
            if o[1] != 'n':                                # a null processor is not a processor
                late.append((i, o[1]))
            continue
        if o[0] == 'push': stacks[o[1]].append(o[2])
        elif o[0] == 'pop':
            if stacks[o[1]]: stacks[o[1]].pop()
        elif o[0] == 'create':
            hand[o[3]] = new_record(stacks[o[1]][-1] if stacks[o[1]] else None) if o[2] else 'noop'
            if isinstance(hand[o[3]], dict):
                hand[o[3]]['_born'] = i
        elif o[0] == 'set':
            r = hand.get(o[1])
            if isinstance(r, dict):
                apply_arg(r, o[2][0])
        elif o[0] == 'emit':
            _, t, en, tgt, args = o
            if tgt == 'null':
                continue                                   # a null record is ignored
            if tgt == 'new':
                r = new_record(stacks[t][-1] if stacks[t] else None) if en else 'noop'
            else:
                r = hand.pop(tgt, None)                    # emitted records are gone
            if not isinstance(r, dict):
                continue                                   # nothing in hand / disabled logger: nothing is emitted
            r.setdefault('_born', i)
            for a in args:
                apply_arg(r, a)
            emitted.append((i, r))
        elif o[0] in ('scribble', 'free'): touched.append((i, o[0], o[1]))
        elif o[0] == 'flush': flushes.append(i)
    flushes.append(len(ops))
    sim = Sim((c[0], hx(res), '/'.join(hx(x) for x in scope), emitted, touched, flushes))
    sim.late = late
    return sim


REC_RE = re.compile(r'\{sev=(\S+) body=(\S+) attrs=(\S+) ts=(\S+) eid=(\S+) ename=(\S+) tid=(\S+) sid=(\S+) fl=(\S+) res=(\S+) scope=(\S+)\}')
FIELDS = ('sev', 'body', 'attrs', 'ts', 'eid', 'ename', 'tid', 'sid', 'fl', 'res', 'scope')
CLAUSE = {'sev': 'severity-as-supplied', 'body': 'body-holds-the-value-given-at-emit', 'attrs': 'attributes-hold-the-values-given-at-emit-last-write-wins',
          'ts': 'timestamp-as-supplied', 'eid': 'event-id-as-supplied', 'ename': 'event-name-as-supplied',
          'tid': 'trace-id-of-active-span-unless-supplied', 'sid': 'span-id-of-active-span-unless-supplied',
          'fl': 'trace-flags-of-active-span-unless-supplied', 'res': 'resource-of-the-provider', 'scope': 'scope-of-the-logger'}


def want_fields(r, res, scope):
    attrs = '[' + ','.join(f'{hx(k)}={r["attrs"][k][0]}' for k in sorted(r['attrs'])) + ']'
    return {'sev': str(r['sev']), 'body': r['body'], 'attrs': attrs, 'ts': str(r['ts']), 'eid': str(r['eid']), 'ename': hx(r['ename']),
            'tid': r['tid'], 'sid': r['sid'], 'fl': r['fl'], 'res': res, 'scope': scope}


def hazard(sim, kinds=('scribble', 'free')):
    """records on a batch processor whose body/attribute cells the caller touches between Emit and the export"""
    procs, res, scope, emitted, touched, flushes = sim
    if 'b' not in procs and not any(k == 'b' for _, k in getattr(sim, 'late', [])):
        return []
    out = []
    for (ei, r) in emitted:
        exp_at = min(f for f in flushes if f > ei)
        cells = {r['body_cell']} | {c for (_, c) in r['attrs'].values()}
        for (ti, kind, cell) in touched:
            if kind in kinds and cell in cells and ei < ti < exp_at:
                out.append((ei, cell, kind))
    return out


def model_line(case, out):
    """the model has the configured processors only; what a processor attached later must receive is the oracle's business"""
    return re.sub(r' ; addproc [sbnz](?= ;|$)', '', case.line)


def agree(case, out, mout):
    n = len(re.findall(r' ; addproc [sbz](?= ;|$)', case.line))
    if n and not out.startswith(('CRASH', 'bad-op')):
        out = ' | '.join(out.split(' | ')[:-n])
    return out == mout


def oracle(case, out):
    try:
        sim = simulate(case.line)
    except Bad:
        if out.startswith('CRASH'):
            return ('no-crash', out)
        return None if out == 'bad-op' else ('malformed-case-rejected', out[:200])
    procs, res, scope, emitted, touched, flushes = sim
    if out.startswith('CRASH'):
        return ('values-held-regardless-of-caller-buffers/no-crash', out)
    if out == 'bad-op':
        return ('wellformed-case-accepted', out)
    parts = out.split(' | ')
    late = sim.late
    all_emitted = emitted
    kinds = procs + ''.join(k for _, k in late)
    if len(parts) != len(kinds):
        return ('reaches-every-processor-exactly-once', f'{len(parts)} processors reported, {len(procs)} configured + {len(late)} attached later')
    for i, seg in enumerate(parts):
        m = re.fullmatch(r'p(\d+):([sbz]):n=(\d+):x=\[(.*)\]', seg)
        if not m or int(m.group(1)) != i or m.group(2) != kinds[i]:
            return ('reaches-every-processor-exactly-once', f'processor {i}: {seg[:120]}')
        # a processor attached later receives exactly the records created after it was attached
        emitted = all_emitted if i < len(procs) else [(ei, r) for (ei, r) in all_emitted if r['_born'] > late[i - len(procs)][0]]
        if kinds[i] == 'z':
            emitted = []                                   # it hands out no recordable: nothing is emitted to it
        got = REC_RE.findall(m.group(4))
        if int(m.group(3)) != len(emitted) or len(got) != len(emitted):
            what = 'an ignored emit (null / already emitted record, disabled logger) reached the processor' if len(got) > len(emitted) else 'a record was lost'
            return ('reaches-every-processor-exactly-once',
                    f'processor {i} ({kinds[i]}): OnEmit={m.group(3)} exported={len(got)} emitted={len(emitted)}: {what}')
        if m.group(4).count('{') != len(got):
            return ('reaches-every-processor-exactly-once', f'processor {i}: unparsable export log')
        for j, ((ei, r), g) in enumerate(zip(emitted, got)):
            want = want_fields(r, res, scope)
            gd = dict(zip(FIELDS, g))
            for f in FIELDS:
                gv = strip_index('=' + gd[f])[1:] if f == 'body' else (strip_index(gd[f]) if f == 'attrs' else gd[f])
                if gv != want[f]:
                    return (CLAUSE[f], f'processor {i} ({kinds[i]}) record {j} (op {ei}) {f}: got {gv[:200]} want {want[f][:200]}')
    return None


def signature(case, out, clause):
    try:
        sim = simulate(case.line)
    except Bad:
        return clause
    if out.startswith('CRASH'):
        kind = out.split(' ', 1)[1] if ' ' in out else ''
        if kind == 'asan:heap-use-after-free' and hazard(sim, ('free',)):
            return D14
        return 'no-crash/' + kind
    if clause in (CLAUSE['body'], CLAUSE['attrs']):
        # only a deviation confined to body/attribute values of records whose cells were touched before a deferred export
        m = re.search(r'processor \d+ \(([sb])\) record \d+ \(op (\d+)\)', oracle(case, out)[1])
        if m and m.group(1) == 'b' and any(ei == int(m.group(2)) for (ei, _, _) in hazard(sim)):
            return D14
    if clause == CLAUSE['ename']:
        procs, res, scope, emitted, touched, flushes = sim
        d = oracle(case, out)[1]
        m = re.search(r'got (\S+) want (\S+)', d)
        if m and m.group(2) != '-' and b'\0' in bytes.fromhex(m.group(2)) and (
                bytes.fromhex(m.group(2)).split(b'\0')[0] == (bytes.fromhex(m.group(1)) if m.group(1) != '-' else b'')):
            return D_EVNAME
    return clause


def nontrivial(case, out):
    return '{sev=' in out


LEVEL_TEXT = ('Lean 4 theorems over an executable model of logger.cc / read_write_log_record.{h,cc} / logger.h + logger_type_traits.h / '
              'multi_recordable.cc / multi_log_record_processor.cc / simple_log_record_processor.cc (+ hand-over/flush of the batch '
              'processor), with per-thread context stacks and a caller heap: emit_fields / emit_attrs_last_write_wins / '
              'emit_identity_componentwise (the argument pack is a left-to-right fold, later argument wins per field), '
              'correlation_active_span, explicit_identity_wins, no_active_span_zero_ids, active_span_is_top_of_own_stack, '
              'null_record_ignored, disabled_logger_emits_nothing, each_processor_once (every program, every processor mix), emit_hands_over '
              '(the record handed to every processor, with the provider\'s resource and the logger\'s scope), exporter_logs_only_grow, '
              'exported_eq_emitted_partial + simple_processor_exports_emitted_values (values at export = values at emit when the caller '
              'did not touch the cells in between; always so for the simple processor) with kernel-checked witnesses that the full '
              'statement is false for deferred export. Model and code are run side by side under ASan/UBSan.')
LEVEL_NOTE = ('Trusted: Lean kernel; axioms propext/Quot.sound/Classical.choice at most; tools/gen_c04.py; harness, generators. '
              'Partial / findings: (1) D14 - ReadWriteLogRecord keeps non-owning AttributeValues, so "regardless of what the caller does '
              'with its buffers" is FALSE for deferred (batch) export: proved only as exported_eq_emitted_partial, witness in the model '
              'and reproduced on the code (wrong bytes / ASan heap-use-after-free) - KNOWN_FINDINGS signature ' + D14 + '; (2) the EventId '
              'wrapper stores its name as a C string (embedded NUL truncates) - signature ' + D_EVNAME + '; (3) lifetime facts are ASan '
              'evidence, not theorems; (4) threads are sequentialised (thread-locality of the context stack is C10\'s); (5) argument packs '
              'longer than two go through single typed setters + a two-argument pack.')
DESIGN_REF = 'DESIGN.md section 4, C13; section 5 D14'
TECHNIQUE = 'proof (Lean 4) + differential correspondence run + implementation-side oracle'
