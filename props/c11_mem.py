"""C11, weak-memory reading of "correct under every interleaving": the C++ memory orders actually written in
spin_lock_mutex.h / atomic_unique_ptr.h / circular_buffer.h (relaxed / acquire / release, not seq_cst everywhere).

 * tie 1: tools/gen_c11mo.py re-extracts the order at every atomic operation (Gen/MemOrder.lean); Props/C11Mem.lean proves
   race freedom / mutual exclusion / sequential behaviour of the protected plain data on a view-based release/acquire
   memory (Model/RelAcq.lean) for all orders satisfying `Orders.ok`, and `gen_orders_sufficient` (a `decide`) says the
   generated orders do.
 * tie 2: the unmodified headers run on REAL threads under ThreadSanitizer (harness/t_c11.cc, engine word `tsan`); a
   reported race is a failing input.
 * the executable RA model is stepped by the driver (engine word `ramem`) on generated executions - schedule and read
   choices on the line - and compared with the independent Python reference below, for the generated orders and for
   random (also too weak) ones.

Merged into props/c11.py (SUBS); not a property id of its own."""
import os, re, random, sys, zlib
from vcore import Case, Harness
import vcore

WORDS = {'tsan', 'ramem'}
GEN = ['MemOrder']
LEAN_TARGETS = ['OtelVerif.Props.C11Mem']
THEOREMS = ['Otel.C11Mem.' + t for t in (
    'gen_orders_sufficient', 'gen_spin_orders_sufficient', 'gen_slot_orders_sufficient', 'gen_headtail_orders_sufficient',
    # (a) spin-lock client on release/acquire memory
    'spin_no_data_race', 'spin_mutual_exclusion', 'spin_holder_view_current', 'spin_cell_sequential', 'spin_no_lost_update',
    'spin_reads_previous_write', 'spin_gen_race_free',
    'spin_relaxed_unlock_witness', 'spin_relaxed_lock_witness', 'spin_relaxed_trylock_witness', 'spin_weakened_not_race_free',
    # (b) slot hand-off
    'slot_no_data_race', 'slot_reads_initialised', 'slot_holder_view_current', 'slot_single_owner', 'slot_gen_race_free',
    'slot_relaxed_cas_witness', 'slot_relaxed_swap_witness', 'slot_relaxed_reset_witness', 'slot_weakened_not_race_free',
    # (c) stale loads of head_ / tail_ in Add
    'stale_reachable_inv', 'stale_consumed_is_log_prefix', 'stale_consumed_at_most_once', 'stale_failed_not_accepted',
    'stale_size_le_capacity', 'stale_no_empty_slot_consumed', 'stale_commit_exact', 'stale_undo_takes_own_element',
    'stale_add_fails_only_when_seen_full_partial', 'stale_spurious_full_witness',
    # the pairs (tail, head) Add can read
    'headtail_pairs_ordered', 'headtail_head_messages_count', 'headtail_gen_pairs_ordered',
    'headtail_relaxed_tail_load_witness', 'headtail_relaxed_fadd_witness', 'headtail_weakened_not_ordered')] + [
    'Otel.RelAcq.Spin.inv_run', 'Otel.RelAcq.Slot.inv_run', 'Otel.RelAcq.HT.inv_run', 'Otel.RingStale.reachable_inv',
    'Otel.RelAcq.load_le_latest', 'Otel.RelAcq.rmw_mono']
TSAN = ['-fno-sanitize=address,undefined', '-fsanitize=thread']
HN = 't_c11'
HARNESSES = [Harness(HN, ['harness/t_c11.cc'], flags=TSAN, includes=('api/include', 'sdk/include'), libs=['-pthread'] + TSAN)]
RULE = ('weak memory: (tsan) the unmodified spin_lock_mutex.h / atomic_unique_ptr.h / circular_buffer.h on 2-5 real threads under '
        'ThreadSanitizer - threads incrementing a plain counter inside lock()/try_lock()..unlock(); producers Adding heap '
        'objects with plain fields and a consumer Consuming them (Swap callback / Reset) and reading the fields; hand-off '
        'through one AtomicUniquePtr (SwapIfNull vs Swap / Reset / Get, incl. the undo path) - a reported race is a failing '
        'input; one self-test case with a deliberate plain race must be reported. (ramem) executions of the Lean '
        'release/acquire model - schedule and read choices on the line, generated orders and random weaker ones - compared '
        'with an independent Python reference; with the generated orders no execution may flag a race. non-trivial = a '
        'tsan case with at least two threads that completed, or a model execution in which at least two threads stepped')
LEVEL_TEXT_ADD = (' Weak memory (Props/C11Mem.lean, 46 theorems): on a view-based release/acquire memory (Model/RelAcq.lean: per '
                  'location a message list, per thread a view, loads may read stale messages, RMWs read the latest, plain '
                  'locations with a data-race flag) and for EVERY interleaving, EVERY read choice, any number of threads: the '
                  'spin-lock client (relaxed test load, exchange, plain read+write of a shared cell, unlocking store) never '
                  'races, keeps mutual exclusion, and every critical section reads what the previous one wrote; whoever gets a '
                  'pointer out of a ring slot by exchange (consumer, or the producer on its undo path) reads the payload '
                  'race-free and initialised - both for all orders with exchange >= acquire, unlock / slot CAS >= release; every '
                  'pair (tail, head) that Add reads has tail <= head (no uint64 wrap-around in the full test) when tail_ += n is '
                  '>= release and Add\'s tail_ load >= acquire; gen_orders_sufficient (decide) ties all three to the orders '
                  're-extracted from the source on every run (Gen/MemOrder.lean, 23 atomic operations); kernel-checked '
                  'executions show each weakened order racing / mis-ordering. The '
                  'SC invariants of the ring survive arbitrarily stale loads of head_/tail_ in Add (Model/RingStale.lean): '
                  'safety needs nothing of them; the failure justification survives only relative to the consumption the '
                  'producer has seen (stale_spurious_full_witness). The same headers run on real threads under '
                  'ThreadSanitizer (harness/t_c11.cc).')
LEVEL_NOTE_ADD = (' Weak-memory sub-check: trusted = the view-based model as a rendering of the C++ release/acquire fragment '
                  '(modification order = execution order, exact for RMW-only locations and for flag_ given mutual exclusion; '
                  'seq_cst treated as acq_rel, which only adds executions; no load-buffering / out-of-thin-air executions (RC11); '
                  'no fences / consume - the generator fails on a fence), tools/gen_c11mo.py, ThreadSanitizer of g++ 12. The '
                  'client programs are abstractions written by hand (spin: which accesses a critical section makes; slot: '
                  'exchanges only ever write null; head/tail: one consumer thread, the slot operations between Add\'s loads and its '
                  'head_ CAS left out). The stale-load ring model and the head/tail model are not coupled formally (the former '
                  'over-approximates: it also admits pairs with head < tail, as the wrap-around failure they would cause). Not '
                  'proved: progress under staleness (a producer that never sees newer values of head_/tail_ retries or reports full forever: the '
                  'C++ model only promises visibility "in a reasonable amount of time").')

ORD = ('rlx', 'con', 'acq', 'rel', 'ar', 'sc')
CODE2ORD = {0: 'rlx', 1: 'con', 2: 'acq', 3: 'rel', 4: 'ar', 5: 'sc'}
_GEN = {}


def gen_orders():
    """the orders written in the source, through the same extractor that writes Gen/MemOrder.lean"""
    if not _GEN:
        try:
            sys.path.insert(0, os.path.join(vcore.VERIF, 'tools'))
            import gen_c11mo
            vals, _ = gen_c11mo.collect(vcore.REPO)
        except Exception:
            vals = {}
        g = lambda k, d: CODE2ORD.get(vals.get(k, d), 'rlx')
        _GEN['spin'] = [g('moSpinTryLoad', 0), g('moSpinTryXchg', 2), g('moSpinLockXchg', 2), g('moSpinUnlockStore', 3)]
        _GEN['slot'] = [g('moSlotCasOk', 3), g('moSlotCasFail', 0), g('moSlotSwapXchg', 5), g('moSlotResetXchg', 5)]
    return _GEN


# ----------------------------------------------------------------------------------------------------------------------
# Python reference of the release/acquire memory (written from the description in Model/RelAcq.lean's header, with
# dictionaries instead of lists) and of the two client programs

def is_acq(o):
    return o in ('acq', 'ar', 'sc')


def is_rel(o):
    return o in ('rel', 'ar', 'sc')


def vjoin(a, b):
    out = dict(a)
    for k, v in b.items():
        if v > out.get(k, 0):
            out[k] = v
    return out


class RA:
    def __init__(self):
        self.atom = {}      # loc -> [(val, view)]
        self.na = {}        # loc -> [val, clk, lastW]
        self.views = {}     # thread -> {loc: ts}
        self.race = False

    def msgs(self, l):
        return self.atom.setdefault(l, [(0, {})])

    def cell(self, x):
        return self.na.setdefault(x, [0, 0, 0])

    def view(self, t):
        return self.views.setdefault(t, {})

    def load(self, t, l, o, k):
        ms = self.msgs(l)
        v = self.view(t)
        if not (v.get(l, 0) <= k < len(ms)):
            return None
        val, mv = ms[k]
        nv = dict(v); nv[l] = k
        if is_acq(o):
            nv = vjoin(nv, mv)
        self.views[t] = nv
        return val

    def latest(self, l):
        return self.msgs(l)[-1][0]

    def store(self, t, l, o, val):
        ms = self.msgs(l)
        nv = dict(self.view(t)); nv[l] = len(ms)
        ms.append((val, dict(nv) if is_rel(o) else {}))
        self.views[t] = nv

    def rmw(self, t, l, o, val):
        ms = self.msgs(l)
        old, oview = ms[-1]
        nv = dict(self.view(t))
        if is_acq(o):
            nv = vjoin(nv, oview)
        nv[l] = len(ms)
        ms.append((val, vjoin(nv if is_rel(o) else {}, oview)))
        self.views[t] = nv
        return old

    def na_read(self, t, x):
        c = self.cell(x)
        v = self.view(t).get(x, 0)
        if v < c[2]:
            self.race = True
        if v == c[1]:
            nv = dict(self.view(t)); nv[x] = c[1] + 1; self.views[t] = nv
        c[1] += 1
        return c[0]

    def na_write(self, t, x, val):
        c = self.cell(x)
        v = self.view(t).get(x, 0)
        if v < c[1]:
            self.race = True
        c[0], c[1], c[2] = val, c[1] + 1, c[1] + 1
        nv = dict(self.view(t)); nv[x] = c[1]; self.views[t] = nv


class SpinRef:
    FLAG, CELL = 0, 1

    def __init__(self, orders, n):
        self.m = RA(); self.o = orders; self.n = n
        self.pc = {}; self.hist = 0; self.skip = 0

    def enabled(self):
        out = []
        for p in range(self.n):
            pc = self.pc.get(p, 'idle')
            if pc == 'idle':
                out += [f'b{p}', f't{p}']
            elif pc == 'test':
                lo = self.m.view(p).get(self.FLAG, 0)
                out += [f'l{p}:{k}' for k in range(lo, len(self.m.msgs(self.FLAG)))]
            elif pc in ('txchg', 'lxchg'):
                out.append(f'x{p}')
            elif pc == 'csRead':
                out.append(f'r{p}')
            elif isinstance(pc, tuple):
                out.append(f'w{p}')
            elif pc == 'unlock':
                out.append(f'u{p}')
        return out

    def step(self, tok):
        c, args = tok[0], [int(x) for x in tok[1:].split(':')]
        p = args[0]
        pc = self.pc.get(p, 'idle')
        m = self.m
        ok = True
        if c in 'bt' and len(args) == 1 and pc == 'idle':
            self.pc[p] = 'test' if c == 't' else 'lxchg'
        elif c == 'l' and len(args) == 2 and pc == 'test':
            v = m.load(p, self.FLAG, self.o[0], args[1])
            if v is None:
                ok = False
            else:
                self.pc[p] = 'txchg' if v == 0 else 'idle'
        elif c == 'x' and len(args) == 1 and pc in ('txchg', 'lxchg'):
            old = m.rmw(p, self.FLAG, self.o[1] if pc == 'txchg' else self.o[2], 1)
            self.pc[p] = 'csRead' if old == 0 else 'idle'
        elif c == 'r' and len(args) == 1 and pc == 'csRead':
            self.pc[p] = ('csWrite', m.na_read(p, self.CELL))
        elif c == 'w' and len(args) == 1 and isinstance(pc, tuple):
            m.na_write(p, self.CELL, pc[1] + 1); self.hist += 1; self.pc[p] = 'unlock'
        elif c == 'u' and len(args) == 1 and pc == 'unlock':
            m.store(p, self.FLAG, self.o[3], 0); self.pc[p] = 'idle'
        else:
            ok = False
        if not ok:
            self.skip += 1
        return ok

    def summary(self):
        m = self.m
        views = ','.join(f'{m.view(t).get(self.FLAG, 0)}/{m.view(t).get(self.CELL, 0)}' for t in range(self.n))
        return (f'race={int(m.race)} skip={self.skip} cell={m.cell(self.CELL)[0]} cs={self.hist} '
                f'msgs={len(m.msgs(self.FLAG))} views=[{views}]')


class SlotRef:
    def __init__(self, orders, n, k):
        self.m = RA(); self.o = orders; self.n = n; self.k = k
        self.pc = {}; self.next = 0; self.seen = []; self.skip = 0

    @staticmethod
    def sl(i):
        return 2 * i

    @staticmethod
    def pl(e):
        return 2 * e + 1

    def enabled(self):
        out = []
        for p in range(self.n):
            pc = self.pc.get(p, ('idle',))
            if pc[0] == 'idle':
                out.append(f's{p}')
                out += [f'T{p}:{i}' for i in range(self.k)] + [f'R{p}:{i}' for i in range(self.k)]
            elif pc[0] == 'pInit':
                out.append(f'i{p}')
            elif pc[0] == 'pPub':
                for i in range(self.k):
                    if self.m.latest(self.sl(i)) == 0:
                        out.append(f'c{p}:{i}')
                    lo = self.m.view(p).get(self.sl(i), 0)
                    for kk in range(lo, len(self.m.msgs(self.sl(i)))):
                        out.append(f'f{p}:{i}:{kk}:1')
                        if self.m.msgs(self.sl(i))[kk][0] != 0:
                            out.append(f'f{p}:{i}:{kk}:0')
                out.append(f'g{p}')
            elif pc[0] == 'pPubd':
                out += [f'm{p}', f'n{p}']
            elif pc[0] == 'pChk':
                out.append(f'k{p}')
            elif pc[0] == 'tRead':
                out.append(f'd{p}')
            elif pc[0] == 'tDel':
                out.append(f'D{p}')
        return out

    def step(self, tok):
        c, args = tok[0], [int(x) for x in tok[1:].split(':')]
        p = args[0]
        pc = self.pc.get(p, ('idle',))
        m = self.m
        ok = True
        na = len(args)
        if c == 's' and na == 1 and pc[0] == 'idle':
            self.pc[p] = ('pInit', self.next); self.next += 1
        elif c == 'i' and na == 1 and pc[0] == 'pInit':
            m.na_write(p, self.pl(pc[1]), pc[1] + 1); self.pc[p] = ('pPub', pc[1])
        elif c == 'c' and na == 2 and pc[0] == 'pPub' and m.latest(self.sl(args[1])) == 0:
            m.rmw(p, self.sl(args[1]), self.o[0], pc[1] + 1); self.pc[p] = ('pPubd', args[1])
        elif c == 'f' and na == 4 and args[3] <= 1 and pc[0] == 'pPub':
            # a failed compare_exchange: a load with the failure order; it must have a reason to fail
            ms = m.msgs(self.sl(args[1]))
            lo = m.view(p).get(self.sl(args[1]), 0)
            if lo <= args[2] < len(ms) and (ms[args[2]][0] != 0 or args[3] == 1):
                m.load(p, self.sl(args[1]), self.o[1], args[2])
            else:
                ok = False
        elif c == 'g' and na == 1 and pc[0] == 'pPub':
            self.pc[p] = ('tRead', pc[1])
        elif c == 'm' and na == 1 and pc[0] == 'pPubd':
            self.pc[p] = ('idle',)
        elif c == 'n' and na == 1 and pc[0] == 'pPubd':
            old = m.rmw(p, self.sl(pc[1]), self.o[2], 0)
            self.pc[p] = ('idle',) if old == 0 else ('pChk', old - 1)
        elif c == 'k' and na == 1 and pc[0] == 'pChk':
            self.seen.append((p, pc[1], m.na_read(p, self.pl(pc[1])))); self.pc[p] = ('pPub', pc[1])
        elif c in 'TR' and na == 2 and pc[0] == 'idle':
            old = m.rmw(p, self.sl(args[1]), self.o[3] if c == 'R' else self.o[2], 0)
            self.pc[p] = ('idle',) if old == 0 else ('tRead', old - 1)
        elif c == 'd' and na == 1 and pc[0] == 'tRead':
            self.seen.append((p, pc[1], m.na_read(p, self.pl(pc[1])))); self.pc[p] = ('tDel', pc[1])
        elif c == 'D' and na == 1 and pc[0] == 'tDel':
            m.na_write(p, self.pl(pc[1]), 0); self.pc[p] = ('idle',)
        else:
            ok = False
        if not ok:
            self.skip += 1
        return ok

    def summary(self):
        m = self.m
        seen = ','.join(f'{t}:{e}:{v}' for t, e, v in self.seen)
        slots = ','.join(str(m.latest(self.sl(i))) for i in range(self.k))
        clks = ','.join(str(m.cell(self.pl(e))[1]) for e in range(self.next))
        views = ','.join('/'.join(str(m.view(t).get(self.pl(e), 0)) for e in range(self.next)) for t in range(self.n))
        return (f'race={int(m.race)} skip={self.skip} next={self.next} seen=[{seen}] slots=[{slots}] clk=[{clks}] views=[{views}]')


TOK_RE = re.compile(r'[a-zA-Z]\d{1,4}(:\d{1,4}){0,3}')
SPIN_LETTERS = {'b': 1, 't': 1, 'l': 2, 'x': 1, 'r': 1, 'w': 1, 'u': 1}
SLOT_LETTERS = {'s': 1, 'i': 1, 'c': 2, 'f': 4, 'g': 1, 'm': 1, 'n': 1, 'k': 1, 'T': 2, 'R': 2, 'd': 1, 'D': 1}


def parse_ramem(ln):
    """('spin'|'slot', orders, n, k, [tokens]) or None when the line is malformed (driver: bad-op)"""
    toks = ln.split()
    if len(toks) < 2 or toks[0] != 'ramem' or toks[1] not in ('spin', 'slot'):
        return None
    kind = toks[1]
    ops = ' '.join(toks[2:]).split(' ; ')
    cfg = ops[0].split()
    ncfg = 5 if kind == 'spin' else 6
    if len(cfg) != ncfg or any(o not in ORD + ('gen',) for o in cfg[:4]) or not all(re.fullmatch(r'\d{1,3}', x) for x in cfg[4:]):
        return None
    n = int(cfg[4]); k = int(cfg[5]) if kind == 'slot' else 0
    if not 1 <= n <= 8 or (kind == 'slot' and not 1 <= k <= 8):
        return None
    g = gen_orders()[kind]
    orders = [g[i] if o == 'gen' else o for i, o in enumerate(cfg[:4])]
    letters = SPIN_LETTERS if kind == 'spin' else SLOT_LETTERS
    acts = ops[1:]
    for a in acts:
        if not TOK_RE.fullmatch(a) or letters.get(a[0]) != a.count(':') + 1:
            return None
        if a[0] == 'f' and int(a.split(':')[3]) > 1:
            return None
    return kind, orders, n, k, acts


def reference(ln):
    p = parse_ramem(ln)
    if p is None:
        return 'bad-op'
    kind, orders, n, k, acts = p
    r = SpinRef(orders, n) if kind == 'spin' else SlotRef(orders, n, k)
    for a in acts:
        r.step(a)
    return r.summary()


def orders_ok(kind, orders):
    if kind == 'spin':
        return is_acq(orders[1]) and is_acq(orders[2]) and is_rel(orders[3])
    return is_rel(orders[0]) and is_acq(orders[2]) and is_acq(orders[3])


def gen_execution(rng, kind, cfg_orders, n, k, steps):
    """a ramem line whose schedule follows the reference (mostly enabled actions, a few arbitrary ones)"""
    g = gen_orders()[kind]
    orders = [g[i] if o == 'gen' else o for i, o in enumerate(cfg_orders)]
    r = SpinRef(orders, n) if kind == 'spin' else SlotRef(orders, n, k)
    acts = []
    for _ in range(steps):
        en = r.enabled()
        if not en:
            break
        if kind == 'spin':
            # prefer progress: a thread inside its critical section moves more often than new attempts start
            hot = [a for a in en if a[0] in 'rwux']
            a = rng.choice(hot) if hot and rng.random() < 0.55 else rng.choice(en)
        else:
            hot = [a for a in en if a[0] in 'icmnkdD']
            a = rng.choice(hot) if hot and rng.random() < 0.6 else rng.choice(en)
        if rng.random() < 0.04:
            letters = SPIN_LETTERS if kind == 'spin' else SLOT_LETTERS
            c = rng.choice(sorted(letters))
            a = c + ':'.join(str(rng.randrange(0, 4)) for _ in range(letters[c]))
            if c == 'f':
                a = a.rsplit(':', 1)[0] + ':' + str(rng.randrange(2))
        acts.append(a)
        r.step(a)
    head = f'ramem {kind} ' + ' '.join(cfg_orders) + f' {n}' + (f' {k}' if kind == 'slot' else '')
    return head + ''.join(' ; ' + a for a in acts)


# ----------------------------------------------------------------------------------------------------------------------

def _case(line, *tags, origin='gen'):
    return Case(line, HN, tags, origin)


def corpus():
    c = [_case('tsan selfrace 1', 'tsan', 'selfrace', origin='corpus'),
         _case('tsan spin 3 200 1', 'tsan', 'spin', origin='corpus'),
         _case('tsan spin 2 50 2', 'tsan', 'spin', origin='corpus'),
         _case('tsan slot 2 200 1', 'tsan', 'slot', origin='corpus'),
         _case('tsan slot 2 200 2', 'tsan', 'slot', origin='corpus'),
         _case('tsan ring 1 3 100 5', 'tsan', 'ring', origin='corpus'),
         _case('tsan ring 4 2 200 1', 'tsan', 'ring', origin='corpus'),
         # the executions of the kernel-checked witnesses, with the generated orders (no race) and weakened (race)
         _case('ramem spin gen gen gen gen 2 ; b0 ; x0 ; r0 ; w0 ; u0 ; b1 ; x1 ; r1', 'ramem', 'spin', 'witness-run', origin='corpus'),
         _case('ramem spin gen gen gen rlx 2 ; b0 ; x0 ; r0 ; w0 ; u0 ; b1 ; x1 ; r1', 'ramem', 'spin', 'weakened', origin='corpus'),
         _case('ramem spin gen gen rlx gen 2 ; b0 ; x0 ; r0 ; w0 ; u0 ; b1 ; x1 ; r1', 'ramem', 'spin', 'weakened', origin='corpus'),
         _case('ramem spin gen gen gen gen 3 ; b0 ; x0 ; r0 ; b1 ; x1 ; w0 ; u0 ; t2 ; l2:0 ; x2 ; r2 ; w2 ; u2', 'ramem', 'spin', 'stale-load', origin='corpus'),
         _case('ramem slot gen gen gen gen 2 1 ; s0 ; i0 ; c0:0 ; m0 ; T1:0 ; d1', 'ramem', 'slot', 'witness-run', origin='corpus'),
         _case('ramem slot rlx gen gen gen 2 1 ; s0 ; i0 ; c0:0 ; m0 ; T1:0 ; d1', 'ramem', 'slot', 'weakened', origin='corpus'),
         _case('ramem slot gen gen gen gen 3 2 ; s0 ; i0 ; c0:0 ; n0 ; k0 ; s2 ; i2 ; f2:0:0:1 ; c0:1 ; m0 ; R1:1 ; d1 ; c2:0 ; m2 ; D1 ; T1:0 ; d1 ; D1', 'ramem', 'slot', 'undo-path', origin='corpus')]
    return c


def generate(rng, tier):
    big = tier == 'thorough'
    out = []
    for _ in range(60 if big else 10):
        out.append(_case(f'tsan spin {rng.choice([2, 2, 3, 4, 5])} {rng.choice([50, 100, 300, 1000] if big else [40, 100, 250])} {rng.randrange(1, 10 ** 6)}', 'tsan', 'spin'))
    for _ in range(60 if big else 10):
        out.append(_case(f'tsan ring {rng.choice([1, 1, 2, 3, 8, 32])} {rng.choice([1, 2, 2, 3, 4])} {rng.choice([50, 200, 1000] if big else [30, 80, 200])} {rng.randrange(1, 10 ** 6)}', 'tsan', 'ring'))
    for _ in range(60 if big else 10):
        out.append(_case(f'tsan slot {rng.choice([1, 2, 2])} {rng.choice([50, 200, 1000] if big else [30, 80, 200])} {rng.randrange(1, 10 ** 6)}', 'tsan', 'slot'))
    out.append(_case(f'tsan selfrace {rng.randrange(1, 1000)}', 'tsan', 'selfrace'))
    for _ in range(6000 if big else 500):
        kind = rng.choice(['spin', 'slot'])
        if rng.random() < 0.55:
            cfg = ['gen'] * 4
            tag = 'gen-orders'
        else:
            cfg = [rng.choice(ORD + ('gen', 'gen')) for _ in range(4)]
            tag = 'random-orders'
        n = rng.choice([2, 2, 3, 3, 4])
        k = rng.choice([1, 1, 2, 3])
        out.append(_case(gen_execution(rng, kind, cfg, n, k, rng.randrange(6, 70)), 'ramem', kind, tag))
    for _ in range(40 if big else 12):
        out.append(_case(rng.choice(['tsan', 'tsan spin', 'tsan spin 0 10 1', 'tsan spin 9 10 1', 'tsan spin 2 x 1', 'tsan ring 0 1 1 1',
                                     'tsan ring 2 9 1 1', 'tsan slot 5 1 1', 'tsan flag 1 1 1', 'tsan spin 2 10 1 1', 'ramem', 'ramem spin',
                                     'ramem spin gen gen gen 2 ; b0', 'ramem spin gen gen gen gen 0 ; b0', 'ramem spin gen gen gen weak 2 ; b0',
                                     'ramem spin gen gen gen gen 2 ; q0', 'ramem spin gen gen gen gen 2 ; l0', 'ramem slot gen gen gen gen 2 ; s0',
                                     'ramem slot gen gen gen gen 2 9 ; s0', 'ramem slot gen gen gen gen 2 1 ; f0:0:0:2', 'ramem ring gen 1 ; s0']),
                         'malformed'))
    return out


TSAN_RE = {'spin': re.compile(r'tsan spin ([1-8]) (\d{1,4}) (\d{1,8})$'),
           'ring': re.compile(r'tsan ring (\d{1,2}) ([1-8]) (\d{1,4}) (\d{1,8})$'),
           'slot': re.compile(r'tsan slot ([1-4]) (\d{1,4}) (\d{1,8})$'),
           'selfrace': re.compile(r'tsan selfrace (\d{1,8})$')}


def parse_tsan(ln):
    ln = ' '.join(ln.split())
    for kind, rx in TSAN_RE.items():
        m = rx.match(ln)
        if m:
            a = [int(x) for x in m.groups()]
            if kind == 'spin' and not 1 <= a[1] <= 5000:
                return None
            if kind == 'ring' and not (1 <= a[0] <= 64 and 1 <= a[2] <= 5000):
                return None
            if kind == 'slot' and not 1 <= a[1] <= 5000:
                return None
            return kind, a
    return None


def wellformed(ln):
    toks = ln.split()
    if toks and toks[0] == 'ramem':
        return True           # the harness answers `model` to every ramem line; the driver judges it
    return parse_tsan(ln) is not None


def oracle(case, out):
    toks = case.line.split()
    if toks and toks[0] == 'ramem':
        return None if out == 'model' else ('harness-echoes-model-lines', out[:80])
    p = parse_tsan(case.line)
    if p is None:
        return None if out == 'bad-op' else ('malformed-case-rejected', out[:80])
    kind, a = p
    if out.startswith('CRASH'):
        return ('no-crash-on-real-threads', out)
    if out == 'bad-op':
        return ('harness-rejected-case', out)
    if kind == 'selfrace':
        return None if out.startswith('race') else ('thread-sanitizer-reports-a-deliberate-plain-race', out)
    if out.startswith('race'):
        return ('no-data-race-under-the-c++-memory-model', f'{kind}: ThreadSanitizer: {out}')
    f = dict(x.split('=') for x in out.split()[1:]) if out.startswith('ok ') else None
    if f is None:
        return ('summary', out[:120])
    try:
        if kind == 'spin':
            if int(f['count']) != a[0] * a[1] or int(f['cells']) != a[0] * a[1]:
                return ('critical-sections-lose-no-update', f'{out} expected {a[0] * a[1]}')
        elif kind == 'ring':
            if int(f['bad']) != 0:
                return ('consumer-sees-the-initialised-payload', out)
            if int(f['accepted']) + int(f['failed']) != a[1] * a[2] or int(f['consumed']) != int(f['accepted']) or int(f['left']) != 0:
                return ('accepted-iff-consumed-exactly-once', out)
            if int(f['disorder']) != 0:
                return ('per-producer-order', out)
        else:
            if int(f['bad']) != 0:
                return ('taker-sees-the-initialised-payload', out)
            if int(f['handed']) != a[0] * a[1]:
                return ('every-published-element-is-handed-over-once', out)
    except (KeyError, ValueError):
        return ('summary', out[:120])
    return None


_ML = {}


def model_line(case, out):
    """ramem lines go to the driver as they are; a tsan case is accompanied by a model execution of the same kind of
    program with the GENERATED orders (schedule and read choices derived from the case's seed)"""
    toks = case.line.split()
    if toks and toks[0] == 'ramem':
        return case.line
    if case.line in _ML:
        return _ML[case.line]
    p = parse_tsan(case.line)
    if p is None or p[0] == 'selfrace':
        ml = case.line
    else:
        kind, a = p
        r = random.Random(zlib.crc32(case.line.encode()))
        if kind == 'spin':
            ml = gen_execution(r, 'spin', ['gen'] * 4, min(a[0], 4), 0, 60)
        else:
            ml = gen_execution(r, 'slot', ['gen'] * 4, 3, 2 if kind == 'ring' else 1, 60)
    _ML[case.line] = ml
    return ml


def agree(case, out, mout):
    ml = model_line(case, out)
    toks = ml.split()
    if not toks or toks[0] != 'ramem':
        return mout == 'bad-op'            # malformed tsan lines and selfrace have no model side
    if out.startswith('CRASH'):
        return True
    ref = reference(ml)
    if mout != ref:
        return False
    p = parse_ramem(ml)
    if p is not None and orders_ok(p[0], p[1]) and not mout.startswith('race=0 '):
        return False                         # with sufficient orders no execution may flag a race
    return True


def signature(case, out, clause):
    return clause


def nontrivial(case, out):
    toks = case.line.split()
    if toks and toks[0] == 'ramem':
        p = parse_ramem(case.line)
        return bool(p) and len({a.split(':')[0][1:] for a in p[4]}) >= 2 and len(p[4]) >= 6
    p = parse_tsan(case.line)
    return bool(p) and p[0] != 'selfrace' and out.startswith('ok ') and (p[1][0] >= 2 or p[0] != 'spin')
