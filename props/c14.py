"""C14 - TraceState stays a valid, duplicate-free W3C list under every update."""
import re
from vcore import Case, Harness

ID = 'C14'
GEN = ['Hex', 'TraceState', 'TabTraceState', 'TabKv']
LEAN_TARGETS = ['OtelVerif.Props.C14', 'OtelVerif.Props.TabTraceState', 'OtelVerif.Props.TabKv']
THEOREMS = ['Otel.C14.' + t for t in (
    'isValidKey_iff', 'isValidValue_iff', 'set_spec', 'set_invalid_default', 'set_places_first', 'set_key_unique',
    'set_keeps_others', 'set_full_new_refused', 'set_full_existing_updates', 'delete_exact', 'delete_invalid_default',
    'get_set', 'get_set_other', 'get_delete', 'wf_set', 'wf_delete', 'fromHeader_spec', 'wf_fromHeader',
    'overlong_header_empty', 'invalid_member_header_empty', 'fromHeader_toHeader', 'members_eq_filter')] + ['Otel.rxMatch_iff'] + ['Otel.Tab.' + t for t in (
    'tab_tsKey1', 'tab_tsValue1', 'tab_tsKey2_cross', 'tab_tsValue2_cross', 'tab_trimDrops', 'tab_trimShort', 'tab_trim3Short', 'tab_kvTokSep', 'tab_kvTokShort')]
HARNESSES = [Harness('f_c09', ['harness/f_c09.cc'])]
H = 'f_c09'
RULE = ('op sequences (from/set/del/get/hdr/vk/vv) over a growing family of states, small key pool so keys repeat, '
        'boundary lengths 255/256/257 and the 241@14 tenant form, lists driven to 31/32/33 members; header strings with '
        'OWS, empty members, missing "=", 33+ members, non-ASCII; every byte in first/later key and value position. '
        'After each op the harness re-prints every earlier state (original never modified). Further entry points: Empty(), '
        'GetAllEntries with a declining callback (emp / ents), the tokenizer called directly with explicit options incl. '
        'ignore_empty_members=false, other separators and reset() (tok), KeyValueProperties(capacity) filled past its '
        'capacity, GetValue, Entry copies / SetValue and the constructor from an iterable (kvp). non-trivial = at least one '
        'op produced a non-empty state; distinct = distinct case line')
TRUSTED = ['std::regex (its result is compared with the translated predicate on every vk/vv op)']
ASSUMPTIONS = ['a header whose comma-separated segment count exceeds 32 only through empty segments may be discarded or parsed (oracle accepts both; the model mirrors the code)']

KEY_RE = re.compile(rb'[a-z0-9][a-z0-9*_\-/]{0,255}|[a-z0-9][a-z0-9*_\-/]{0,240}@[a-z0-9][a-z0-9*_\-/]{0,13}')
VAL_RE = re.compile(rb'[\x20-\x2b\x2d-\x3c\x3e-\x7e]{0,255}[\x21-\x2b\x2d-\x3c\x3e-\x7e]')
WS = b' \t\n\v\f\r'


def hx(b):
    return b.hex() if b else '-'


def unhx(s):
    return b'' if s == '-' else bytes.fromhex(s)


def vk(k):
    return KEY_RE.fullmatch(k) is not None


def vv(v):
    return VAL_RE.fullmatch(v) is not None


def spec_from(h):
    """returns list of acceptable results (each a list of (k,v))"""
    segs = h.split(b',') if h else []
    if segs and segs[-1] == b'' and len(segs) > 1:
        nseg = len(segs) - 1      # a trailing comma does not start a new member
    else:
        nseg = len(segs)
    mem = [s.strip(WS) for s in segs]
    mem = [m for m in mem if m]
    ok = []
    good = True
    for m in mem:
        if b'=' not in m:
            good = False; break
        k, v = m.split(b'=', 1)
        if not vk(k) or not vv(v):
            good = False; break
        ok.append((k, v))
    parsed = ok if good else []
    if len(mem) > 32:
        return [[]]
    if nseg > 32:
        return [[], parsed]
    return [parsed]


def spec_tok(h, msep, kvsep, ignore_empty):
    """the tokenizer by its documentation: members separated by msep (a separator that ends the string starts no further
    member), each trimmed; empty members skipped or reported as a valid pair of empty strings; key / value split at the first
    kvsep, a member without one is invalid"""
    segs = h.split(msep) if h else []
    if len(segs) > 1 and segs[-1] == b'':
        segs = segs[:-1]
    toks = []
    for m in (x.strip(WS) for x in segs):
        if not m:
            if not ignore_empty:
                toks.append('-:-')
        elif kvsep not in m:
            toks.append('!')
        else:
            k, v = m.split(kvsep, 1)
            toks.append(f'{hx(k)}:{hx(v)}')
    return f'n={len(segs)} t=[' + ','.join(toks) + ']'


def spec_set(es, k, v):
    if not vk(k) or not vv(v):
        return []
    present = any(e[0] == k for e in es)
    if present or len(es) < 32:
        return [(k, v)] + [e for e in es if e[0] != k]
    return list(es)


def spec_del(es, k):
    if not vk(k):
        return []
    return [e for e in es if e[0] != k]


def spec_get(es, k):
    if not vk(k):
        return None
    for e in es:
        if e[0] == k:
            return e[1]
    return None


def show(es):
    return '[' + ','.join(f'{hx(k)}:{hx(v)}' for k, v in es) + ']'


def parse_show(s):
    m = re.fullmatch(r'\[(.*)\]', s)
    if not m:
        return None
    if not m.group(1):
        return []
    out = []
    for part in m.group(1).split(','):
        a, b = part.split(':')
        out.append((unhx(a), unhx(b)))
    return out


def oracle(case, out):
    if out.startswith('CRASH'):
        return ('never-crashes', out)
    ops = ' '.join(case.line.split()[1:]).split(' ; ')
    obs = out.split(' ; ')
    if len(obs) != len(ops):
        return ('one-observation-per-op', out)
    states = [[]]
    for op, o in zip(ops, obs):
        t = op.split()
        if 'MUTATED' in o:
            return ('original-never-modified', f'{op} -> {o}')
        if t[0] == 'from':
            acc = spec_from(unhx(t[1]))
            got = parse_show(o)
            if got is None or got not in acc:
                return ('fromHeader-valid-all-or-nothing-max32', f'{op} -> {o} want {show(acc[0])}')
            states.append(got)
        elif t[0] == 'set':
            exp = spec_set(states[int(t[1])], unhx(t[2]), unhx(t[3]))
            if o != show(exp):
                cl = 'set-first-unique-others-kept' if exp else 'set-invalid-yields-empty'
                return (cl, f'{op} on {show(states[int(t[1])])} -> {o} want {show(exp)}')
            states.append(exp)
        elif t[0] == 'del':
            exp = spec_del(states[int(t[1])], unhx(t[2]))
            if o != show(exp):
                return ('delete-removes-exactly-the-key', f'{op} -> {o} want {show(exp)}')
            states.append(exp)
        elif t[0] == 'get':
            exp = spec_get(states[int(t[1])], unhx(t[2]))
            e = 'none' if exp is None else 'v=' + hx(exp)
            if o != e:
                return ('get-returns-most-recent', f'{op} -> {o} want {e}')
        elif t[0] == 'hdr':
            es = states[int(t[1])]
            e = 'h=' + hx(b','.join(k + b'=' + v for k, v in es))
            if o != e:
                return ('toHeader-is-the-ordered-list', f'{op} -> {o} want {e}')
        elif t[0] == 'vk':
            if o != ('1' if vk(unhx(t[1])) else '0'):
                return ('key-grammar', f'{op} -> {o}')
        elif t[0] == 'vv':
            if o != ('1' if vv(unhx(t[1])) else '0'):
                return ('value-grammar', f'{op} -> {o}')
        elif t[0] == 'emp':
            e = '1' if not states[int(t[1])] else '0'
            if o != e:
                return ('empty-iff-no-members', f'{op} -> {o} want {e}')
        elif t[0] == 'ents':
            es, n = states[int(t[1])], int(t[2])
            e = f'r={1 if n == 0 or len(es) < n else 0} ' + show(es if n == 0 else es[:n])
            if o != e:
                return ('enumeration-ordered-and-stops-when-declined', f'{op} -> {o} want {e}')
        elif t[0] == 'tok':
            if 'RESET-DIFF' in o:
                return ('tokenizer-reset-restarts', f'{op} -> {o}')
            e = spec_tok(unhx(t[4]), unhx(t[1]), unhx(t[2]), t[3] == '1')
            if o != e:
                return ('tokenizer-members-trimmed-split-at-first-separator', f'{op} -> {o} want {e}')
        elif t[0] == 'kvp':
            cap = int(t[1])
            kv = [(unhx(t[j]), unhx(t[j + 1])) for j in range(2, len(t), 2)]
            e = f's={min(cap, len(kv))} ' + show(kv[:cap])
            if o != e:
                return ('fixed-capacity-owned-ordered-entries', f'{op} -> {o} want {e}')
        else:
            return ('bad-case', op)
        # well-formedness of every state produced
        es = states[-1]
        if len(es) > 32 or any(not vk(k) or not vv(v) for k, v in es):
            return ('every-state-is-wellformed', f'{op} -> {o}')
    return None


def signature(case, out, clause):
    return clause


def nontrivial(case, out):
    return bool(re.search(r'\[[0-9a-f-]', out))


def corpus():
    out = []
    # D06: Set on an existing key must not duplicate it; update allowed at 32 members; new key refused at 32
    out.append(Case('ts from 613d312c623d32 ; set 1 61 39 ; hdr 2 ; get 2 61 ; get 2 62', H, ('corpus', 'D06-set-existing'), 'corpus'))
    full = b','.join(b'k%d=v%d' % (i, i) for i in range(32))
    out.append(Case(f'ts from {hx(full)} ; set 1 6b35 78 ; set 1 6e6577 78 ; hdr 2 ; hdr 3', H, ('corpus', 'D06-full-list'), 'corpus'))
    out.append(Case('ts from 613d312c613d322c623d33 ; set 1 62 39 ; set 1 61 39 ; del 1 61', H, ('corpus', 'dup-in-header'), 'corpus'))
    # further entry points (coverage audit)
    out.append(Case('ts emp 0 ; from 613d312c623d32 ; emp 1 ; ents 1 0 ; ents 1 1 ; ents 1 2 ; ents 1 3 ; ents 0 1 ; del 1 61 ; del 2 62 ; emp 3',
                    H, ('corpus', 'emp-ents'), 'corpus'))
    for h in (b'', b',', b',,', b' ', b' , ', b'a=1,', b',a=1', b'a=1,, b ,c=', b'a', b'=', b'a==b', b'a=1,b=2,c=3'):
        out.append(Case(f'ts tok 2c 3d 1 {hx(h)} ; tok 2c 3d 0 {hx(h)}', H, ('corpus', 'tok'), 'corpus'))
    out.append(Case('ts tok 3b 3a 0 613a313b3b623a ; tok 3b 3a 1 20613a31203b20', H, ('corpus', 'tok'), 'corpus'))
    out.append(Case('ts kvp 2 61 31 62 32 63 33 ; kvp 0 61 31 ; kvp 3 61 31 61 32 62 - ; kvp 0 ; kvp 2 61 31 62 32', H, ('corpus', 'kvp'), 'corpus'))
    return out


KEYCH = b'abcdefghijklmnopqrstuvwxyz0123456789_-*/'
VALCH = bytes(c for c in range(0x20, 0x7f) if c not in (0x2c, 0x3d))


def rkey(rng, pool):
    r = rng.random()
    if r < 0.6:
        return rng.choice(pool)
    if r < 0.7:   # boundary lengths
        n = rng.choice([255, 256, 257, 1, 2])
        return bytes([rng.choice(b'abz09')]) + bytes(rng.choice(KEYCH) for _ in range(n - 1))
    if r < 0.8:   # tenant forms around 241@14
        a = rng.choice([240, 241, 242, 1, 5]); b = rng.choice([13, 14, 15, 1, 3])
        return bytes([rng.choice(b'a0')]) + bytes(rng.choice(KEYCH) for _ in range(a - 1)) + b'@' + \
            bytes([rng.choice(b'a0_')]) + bytes(rng.choice(KEYCH) for _ in range(b - 1))
    if r < 0.9:   # invalid
        return rng.choice([b'', b'A', b'a b', b'a=b', b'@a', b'a@', b'a@@b', b'a@b@c', b'_a', b'-a', b'a,b', b'\xc3\xa9', b'a\x00', b'k\x80'])
    return bytes([rng.choice(KEYCH)]) + bytes(rng.choice(KEYCH + b'@') for _ in range(rng.randrange(0, 5)))


def rval(rng):
    r = rng.random()
    if r < 0.6:
        return bytes(rng.choice(VALCH) for _ in range(rng.randrange(1, 5))).rstrip(b' ') or b'v'
    if r < 0.72:
        n = rng.choice([255, 256, 257])
        return bytes(rng.choice(VALCH) for _ in range(n - 1)) + b'x'
    if r < 0.85:
        return rng.choice([b'', b' ', b'a ', b' a', b'a,b', b'a=b', b'\x7f', b'\x1f', b'\xc3\xa9', b'a\x00b', b'a\tb'])
    return bytes(rng.choice(VALCH) for _ in range(rng.randrange(1, 12))) + b'~'


def rheader(rng, pool):
    r = rng.random()
    n = rng.choice([0, 1, 2, 3, 5, 31, 32, 33, 40]) if r < 0.5 else rng.randrange(0, 6)
    mem = []
    for i in range(n):
        k = rng.choice(pool) if rng.random() < 0.5 else b'k%d' % i
        mem.append(k + b'=' + (rval(rng) if rng.random() < 0.2 else b'v%d' % i))
    rr = rng.random()
    if rr < 0.25:   # OWS and empty members
        mem2 = []
        for m in mem:
            if rng.random() < 0.3:
                mem2.append(rng.choice([b'', b' ', b'\t']))
            mem2.append(bytes(rng.choice(WS) for _ in range(rng.randrange(0, 3))) + m + bytes(rng.choice(WS) for _ in range(rng.randrange(0, 3))))
        mem = mem2
    elif rr < 0.35 and mem:
        i = rng.randrange(len(mem)); mem[i] = mem[i].replace(b'=', rng.choice([b'', b' = ', b'==']), 1)
    elif rr < 0.42 and mem:
        i = rng.randrange(len(mem)); mem[i] = rng.choice([b'\xff=1', b'a=\x00', b'=v', b'k=', b'K=v', b'a b=v'])
    h = b','.join(mem)
    if rng.random() < 0.1:
        h += rng.choice([b',', b',,', b' ', b', '])
    if rng.random() < 0.05:
        h = bytes(rng.randrange(256) for _ in range(rng.randrange(0, 30)))
    return h


def generate_entry_points(rng, big):
    """Empty / GetAllEntries with a declining callback on the states of a sequence; the tokenizer and the fixed-capacity array
    called directly"""
    out = []
    mul = 50 if big else 1
    for _ in range(200 * mul):
        pool = [bytes([rng.choice(b'abcd')]) + bytes(rng.choice(b'xy1') for _ in range(rng.randrange(0, 2))) for _ in range(rng.randrange(2, 6))]
        ops = ['emp 0']
        nstates = 1
        if rng.random() < 0.3:
            n = rng.choice([31, 32])
            ops.append('from ' + hx(b','.join(b'k%d=v%d' % (i, i) for i in range(n)))); nstates += 1
        for _k in range(rng.randrange(2, 14)):
            r = rng.random()
            i = rng.randrange(nstates) if rng.random() < 0.3 else nstates - 1
            if r < 0.1:
                ops.append('from ' + hx(rheader(rng, pool))); nstates += 1
            elif r < 0.4:
                ops.append(f'set {i} {hx(rkey(rng, pool))} {hx(rval(rng))}'); nstates += 1
            elif r < 0.55:
                ops.append(f'del {i} {hx(rkey(rng, pool))}'); nstates += 1
            elif r < 0.75:
                ops.append(f'emp {i}')
            else:
                ops.append(f'ents {i} {rng.choice([0, 1, 1, 2, 3, 5, 31, 32, 33, 40])}')
        out.append(Case('ts ' + ' ; '.join(ops), H, ('sequence', 'emp-ents')))
    pool = [b'a', b'b', b'c1', b't@s']
    for _ in range(500 * mul):
        h = rheader(rng, pool)
        if rng.random() < 0.3:      # more empty / blank members and stray separators
            parts = h.split(b',')
            for _j in range(rng.randrange(1, 4)):
                parts.insert(rng.randrange(len(parts) + 1), rng.choice([b'', b' ', b'\t ', b'x', b'=', b' = ']))
            h = b','.join(parts)
        msep, kvsep = b',', b'='
        if rng.random() < 0.25:
            msep, kvsep = rng.choice([(b';', b':'), (b'|', b'='), (b',', b':'), (b'\xff', b'\x00')])
            h = h.replace(b',', b'\x01').replace(b'=', b'\x02').replace(b'\x01', msep).replace(b'\x02', kvsep)
        ign = rng.choice('01')
        out.append(Case(f'ts tok {msep.hex()} {kvsep.hex()} {ign} {hx(h)}', H, ('tokenizer', 'ignore-empty' if ign == '1' else 'report-empty')))
    for _ in range(250 * mul):
        cap = rng.choice([0, 1, 2, 3, 5, 32, 33])
        n = max(0, cap + rng.choice([-2, -1, 0, 0, 1, 2, 5]))
        kv = []
        for _j in range(n):
            k = rng.choice(pool) if rng.random() < 0.4 else bytes(rng.randrange(1, 256) for _ in range(rng.randrange(0, 6)))
            v = bytes(rng.randrange(1, 256) for _ in range(rng.choice([0, 1, 3, 40])))
            kv.append(f'{hx(k)} {hx(v)}')
        out.append(Case(f'ts kvp {cap}' + ''.join(' ' + x for x in kv), H, ('kvprops', 'fits' if n <= cap else 'over-capacity')))
    return out


def generate(rng, tier):
    big = tier == 'thorough'
    out = []
    # every byte in first / later key position and in value position (validators vs translated regex + grammar)
    for b in range(256):
        for k in (bytes([b]), b'a' + bytes([b]), bytes([b]) + b'a', b'a@' + bytes([b]), b'a' + bytes([b]) + b'@b'):
            out.append(Case(f'ts vk {hx(k)}', H, ('validator', 'key-byte-sweep')))
        for v in (bytes([b]), b'a' + bytes([b]), bytes([b]) + b'a'):
            out.append(Case(f'ts vv {hx(v)}', H, ('validator', 'value-byte-sweep')))
    for n in list(range(250, 262)) + [0, 1, 2]:
        out.append(Case(f'ts vk {hx(b"a" * n)} ; vv {hx(b"v" * n)} ; vv {hx(b" " * (n - 1) + b"v") if n else "-"}', H, ('validator', 'length-boundary')))
        for m in (12, 13, 14, 15):
            out.append(Case(f'ts vk {hx(b"a" * n + b"@" + b"b" * m)}', H, ('validator', 'tenant-boundary')))
    for _ in range(120000 if big else 600):
        pool = [bytes([rng.choice(b'abcd')]) + bytes(rng.choice(b'xy1') for _ in range(rng.randrange(0, 2))) for _ in range(rng.randrange(2, 6))]
        if rng.random() < 0.3:
            pool.append(b't@s')
        ops = []
        pairs = []
        nstates = 1
        nops = rng.randrange(3, 40)
        # sometimes start from a list driven near the limit
        if rng.random() < 0.4:
            n = rng.choice([30, 31, 32])
            ops.append('from ' + hx(b','.join(b'k%d=v%d' % (i, i) for i in range(n))))
            j = rng.randrange(n)
            pool.append(b'k%d' % j)
            pairs.append((b'k%d' % j, b'v%d' % j))
            nstates += 1
        for _k in range(nops):
            r = rng.random()
            i = rng.randrange(nstates) if rng.random() < 0.3 else nstates - 1
            if r < 0.12:
                ops.append('from ' + hx(rheader(rng, pool))); nstates += 1
            elif r < 0.55:
                # a quarter of the Sets re-state a (key, value) pair that was set or parsed earlier in this case: the member
                # is there already, often not in front, with exactly this value - Set still moves it to the front
                if pairs and rng.random() < 0.25:
                    k, v = rng.choice(pairs)
                else:
                    k, v = rkey(rng, pool), rval(rng)
                    if rng.random() < 0.5:
                        pairs.append((k, v))
                ops.append(f'set {i} {hx(k)} {hx(v)}'); nstates += 1
            elif r < 0.7:
                ops.append(f'del {i} {hx(rkey(rng, pool))}'); nstates += 1
            elif r < 0.85:
                ops.append(f'get {i} {hx(rkey(rng, pool))}')
            else:
                ops.append(f'hdr {i}')
        tag = 'near-limit' if ops and ops[0].startswith('from') else 'random'
        out.append(Case('ts ' + ' ; '.join(ops), H, ('sequence', tag)))
    out += generate_entry_points(rng, big)
    # header round trips: hdr then from again
    for _ in range(60000 if big else 400):
        pool = [b'a', b'b', b'c1', b't@s']
        h = rheader(rng, pool)
        out.append(Case(f'ts from {hx(h)} ; hdr 1', H, ('header', 'parse')))
    return out


LEVEL_TEXT = ('Lean 4 theorems over an executable model of trace_state.h / kv_properties.h: the three std::regex literals '
              '(re-extracted from the source each run, matcher proved equal to a declarative chunk semantics) accept exactly '
              'the hand-written W3C key/value grammar (isValidKey_iff, isValidValue_iff); set_spec and corollaries (new member '
              'first, key unique, others kept in order, new key refused at 32, existing key updated at 32), delete_exact, '
              'get_set, wf_set/wf_delete/wf_fromHeader (always grammar-valid, <= 32), fromHeader_spec (all-or-nothing), '
              'fromHeader_toHeader (round trip for every well-formed list). Tied to the code by differential op sequences '
              'under ASan/UBSan, with every earlier state re-read after every op.')
LEVEL_NOTE = ('Trusted: Lean kernel; axioms propext/Quot.sound/Classical.choice at most; tools/extract.py regex translation; '
              'std::regex; harness and generators. "The original object is never modified" is immediate in the functional '
              'model and is carried for the code by the harness re-reading every earlier state after every operation.')
DESIGN_REF = 'DESIGN.md section 4, C14'
