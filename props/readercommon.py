"""Periodic metric reader under Engine D: schedules, abstraction of the implementation trace to protocol events, oracle."""
import re
from vcore import Case, Harness, sdk_sources, SDK_INCLUDES

SHIM = ['-include', 'harness/shim/detsched.h', '-DNDEBUG']
H_PMR = Harness('d_pmr', ['harness/d_reader.cc'], flags=SHIM, includes=SDK_INCLUDES, plain_srcs=['harness/shim/detsched.cc'],
                sdk_srcs=sdk_sources('common') + ['sdk/src/metrics/export/periodic_exporting_metric_reader.cc', 'sdk/src/metrics/export/periodic_exporting_metric_reader_factory.cc', 'sdk/src/metrics/metric_reader.cc'])
WORDS = {'pmr'}


class Cfg:
    def __init__(self, line):
        toks = ' '.join(line.split()[1:]).split(' ; ')
        c = toks[0].split()
        self.nrec, self.recs = int(c[0].rstrip('rfgxy')), int(c[1])      # suffix: how the reader is built (see d_reader.cc)
        self.ctor = c[0][-1] if c[0][-1] in 'rfgxy' else ''
        self.fl = '' if c[2] == '-' else c[2]
        self.nshut = int(c[3].rstrip('tzu'))                            # suffix: the timeout Shutdown is called with
        self.acts = toks[1:]
        self.nstatic = 1 + self.nrec + len(self.fl) + self.nshut

    def role(self, tid, final_tid):
        if tid == 0:
            return 'W'
        if tid <= self.nrec:
            return 'R'
        if tid <= self.nrec + len(self.fl):
            return f'F{tid - 1 - self.nrec}'
        if tid < self.nstatic:
            return f'S{tid - self.nstatic + self.nshut}'
        if tid == final_tid:
            return f'S{self.nshut}'
        return 'C'


def steps(cfg, out):
    parts = out.split(' ; ')
    summary = parts[-1]
    body = parts[:-1]
    res = []
    if len(body) < len(cfg.acts):
        raise ValueError('fewer step traces than actions')
    for a, tr in zip(cfg.acts, body[:len(cfg.acts)]):
        if tr == 'x' or a[0] in 'ow':
            continue
        res.append((int(a[1:]), tr.split(',')))
    for tr in body[len(cfg.acts):]:
        m = re.match(r'd(\d+):(.*)', tr)
        if not m:
            raise ValueError('bad drain segment ' + tr[:60])
        res.append((int(m.group(1)), m.group(2).split(',')))
    return res, summary


def final_tid(st):
    for tid, notes in st:
        if any(n.startswith('final-shutdown-begin') for n in notes):
            return tid
    return -1


def abstract(case_line, out):
    cfg = Cfg(case_line)
    st, _ = steps(cfg, out)
    ft = final_tid(st)
    ev = []
    after_unlock = False
    final_begun = False
    for tid, notes in st:
        role = cfg.role(tid, ft)
        for n in notes:
            t = n.split()
            k = t[0]
            if role == 'W':
                if k == 'ld' and t[1] == 'pending': ev.append(f'W:pend:{t[2]}')
                elif k == 'spawn': ev.append('W:spawn')
                elif k == 'st' and t[1].startswith('o') and t[2] == '1': ev.append('W:cancel')
                elif k == 'join': ev.append('W:joinc')
                elif k == 'ld' and t[1] == 'notified': ev.append(f'W:not:{t[2]}')
                elif k == 'cass' and t[1] == 'notified': ev.append(f'W:cas:{t[4]}')
                elif k == 'unlock' and t[1] == 'cv_m': after_unlock = True
                elif k == 'ld' and t[1] == 'shutdown' and after_unlock:
                    ev.append(f'W:loop:{"1t" if t[2] == "1" else "0f"}'); after_unlock = False
                elif k == 'end': ev.append('W:end')
            elif role == 'C':
                if k == 'produce': ev.append(f'C:prod:{t[1]}')
                elif k == 'ld' and t[1].startswith('o'): ev.append(f'C:cancel:{"1t" if t[2] == "1" else "0f"}')
                elif k == 'export-begin': ev.append(f'C:expb:{t[1]}')
                elif k == 'export-end': ev.append('C:expe')
                elif k == 'end': ev.append('C:end')
            elif role == 'R':
                if k == 'record': ev.append(f'R:rec:{t[1]}')
            elif role[0] == 'F':
                if k == 'flush-begin': ev.append(f'{role}:beg:{t[1]}')
                elif k == 'fadd' and t[1] == 'pending': ev.append(f'{role}:fadd:{t[3]}')
                elif k == 'ld' and t[1] == 'notified': ev.append(f'{role}:not:{t[2]}')
                elif k == 'xflush-begin': ev.append(f'{role}:xfb')
                elif k == 'xflush-end': ev.append(f'{role}:xfe:{"ok" if t[1] == "ok" else "no"}')
                elif k == 'flush-ret': ev.append(f'{role}:ret:{"1t" if t[1] == "1" else "0f"}')
            else:
                if k == 'shutdown-begin': ev.append(f'{role}:beg')
                elif k == 'ld' and t[1] == 'shutdown' and tid == ft and not final_begun:
                    final_begun = True     # the harness's own IsShutdown() test; the next load is MetricReader::Shutdown's
                    if t[2] == '0':
                        ev.append(f'{role}:beg')
                elif k == 'st' and t[1] == 'shutdown': ev.append(f'{role}:set')
                elif k == 'join': ev.append(f'{role}:join')
                elif k == 'xshutdown-begin': ev.append(f'{role}:xsb')
                elif k == 'xshutdown-end': ev.append(f'{role}:xse')
                elif k == 'shutdown-ret': ev.append(f'{role}:ret')
    return 'reader ; ' + ' ; '.join(ev)


def generate(rng, tier):
    big = tier == 'thorough'
    out = []
    for _ in range(12000 if big else 1200):
        nrec = rng.choice([0, 1, 1, 2])
        recs = rng.randrange(1, 4)
        fl = ''.join(rng.choice('iii120') for _ in range(rng.choice([0, 1, 1, 2])))
        nshut = rng.choice([0, 0, 1, 1, 2])          # two callers: Shutdown requested from two threads at once
        xs = rng.choice(['s', 's', 'sf', 'sF', 'sS', 'su', 'v', 'suvf'])
        nth = 1 + nrec + len(fl) + nshut + 3      # a few ids for collect threads
        n = rng.randrange(10, 140)
        th = list(range(nth))
        mode = rng.random()
        staged_toks = None
        if mode < 0.2:
            # staged: whole phases of one thread each, so that calls overlap - measurements, a ForceFlush, the worker and its
            # collect thread part of the way through the cycle, more measurements and a second ForceFlush (or Shutdown) that
            # arrive while the first is being served, the rest of the cycle, the callers' returns
            nrec, recs = 2, rng.randrange(1, 4)
            fl = ''.join(rng.choice('ii0') for _ in range(2))
            nshut = rng.choice([0, 0, 1])
            nth = 1 + nrec + len(fl) + nshut + 3
            th = list(range(nth))
            R1, R2, F1, F2 = 1, 2, 3, 4
            S1 = 5 if nshut else None
            C = 1 + nrec + len(fl) + nshut          # the first collect thread the worker spawns
            stages = [(R1, rng.randrange(2, 8)), (F1, rng.randrange(4, 12)), (0, rng.randrange(2, 14)), (C, rng.randrange(0, 8)),
                      (R2, rng.randrange(2, 8)), (F2 if S1 is None or rng.random() < 0.7 else S1, rng.randrange(4, 12)),
                      (C, rng.randrange(0, 10)), (0, rng.randrange(4, 30)), (C + 1, rng.randrange(0, 10)), (0, rng.randrange(4, 30)),
                      (F1, rng.randrange(2, 8)), (F2, rng.randrange(2, 8))]
            if S1 is not None and rng.random() < 0.5:
                stages.insert(rng.randrange(3, len(stages)), (S1, rng.randrange(3, 12)))
            sched = [t for t, k in stages for _k in range(k)]
            if rng.random() < 0.4:
                # the timeout path: the collect thread is parked inside (or just before) Export, the worker's wait for it
                # times out (`o0`), later the interval expires (`o0` again) and the next cycle's collect thread runs - the
                # first Export must have returned by then
                pre = [f't{R1}'] * rng.randrange(0, 4) + ['t0'] * rng.randrange(2, 8) + [f't{C}'] * rng.randrange(1, 7)
                mid = ['o0'] + ['t0'] * rng.randrange(1, 10) + ([f't{F1}'] * rng.randrange(3, 10) if rng.random() < 0.5 else [])
                nxt = ['o0'] + ['t0'] * rng.randrange(2, 12) + [f't{C + 1}'] * rng.randrange(2, 8) + [f't{C}'] * rng.randrange(0, 6)
                staged_toks = pre + mid + nxt + ['t0'] * rng.randrange(0, 10)
        elif mode < 0.4:
            cur = rng.choice(th); sched = []
            for _k in range(n):
                if rng.random() < 0.15:
                    cur = rng.choice(th)
                sched.append(cur)
        else:
            w = [rng.random() ** 2 + 0.02 for _ in th]
            w[0] += 0.6
            sched = rng.choices(th, weights=w, k=n)
        toks = []
        for t in ([] if staged_toks else sched):
            r = rng.random()
            if r < 0.08:
                toks.append(f'o{t}')
            elif r < 0.1:
                toks.append(f'w{t}')
            else:
                toks.append(f't{t}')
        if staged_toks:
            toks = staged_toks
        # every way of building the reader (two constructors, two factory overloads, options that are refused and replaced by the
        # defaults) must give the same reader; every timeout value (zero, finite below the interval, 1us, max) for both calls
        ctor = rng.choice(['', '', 'r', 'f', 'g', 'x', 'y'])
        if fl and rng.random() < 0.2:
            k = rng.randrange(len(fl))
            fl = fl[:k] + rng.choice('hu') + fl[k + 1:]
        shto = rng.choice(['', '', '', 't', 'z', 'u']) if nshut else ''
        out.append(Case(f'pmr {nrec}{ctor} {recs} {fl or "-"} {nshut}{shto} {xs} ; ' + ' ; '.join(toks), 'd_pmr',
                        ('pmr', 'timeout-path' if staged_toks else ('staged' if mode < 0.2 else 'random'), f'fl{len(fl)}sh{nshut}', 'ctor-' + (ctor or 'plain'))
                        + (('shutdown-timeout-' + shto,) if shto else ()) + (('flush-timeout-below-interval',) if set(fl) & set('hu') else ())))
    return out


def corpus():
    return [Case('pmr 1 2 i 1 s ; t0 ; t0 ; t0 ; t1 ; t1 ; t2 ; t2 ; t2 ; t2 ; t2 ; t2 ; t2 ; t0 ; t0 ; t0 ; t0', 'd_pmr', ('corpus', 'pmr'), 'corpus'),
            # D82: Shutdown requested from two threads at once (both used to join the worker)
            Case('pmr 0 1 1 2 sS', 'd_pmr', ('corpus', 'D82-concurrent-shutdown'), 'corpus'),
            Case('pmr 1 1 i 2 s ; t0 ; t0 ; t0 ; t3 ; t3 ; t4 ; t4 ; t3 ; t4 ; t3 ; t4 ; t0 ; t0', 'd_pmr', ('corpus', 'D82-concurrent-shutdown'), 'corpus')] + [
            # every constructor / factory overload, refused options; timeouts below the interval; Shutdown with a given timeout
            Case(f'pmr 1{c} 2 {f} 1{z} s ; ' + ' ; '.join(['t1'] * 3 + ['t0'] * 6 + ['t2'] * 8 + ['o2', 't2', 't2'] + ['t0'] * 12 + ['t4'] * 6 + ['t3'] * 8),
                 'd_pmr', ('corpus', 'pmr-ctor-' + (c or 'plain')), 'corpus')
            for c, f, z in (('', 'h', 't'), ('r', 'u', 'z'), ('f', 'i', 'u'), ('g', 'h', ''), ('x', '2', 't'), ('x', 'u', 'z'), ('y', 'i', ''), ('y', 'h', 'u'))]


def history(case_line, out):
    cfg = Cfg(case_line)
    st, summary = steps(cfg, out)
    ft = final_tid(st)
    ev = []
    tm = 0
    for tid, notes in st:
        for n in notes:
            ev.append((tm, tid, cfg.role(tid, ft), n.split())); tm += 1
    return cfg, ev, summary


def oracle(case, out, clauses=('c02', 'c03')):
    if out.startswith('CRASH'):
        return ('no-crash', out)
    if out == 'bad-op':
        return ('harness-rejected-case', out)
    cfg, ev, summary = history(case.line, out)
    m = re.fullmatch(r'done=(\d) reentrant=(\d+)(?: cfg=(\d+)/(\d+))?', summary)
    if not m:
        return ('summary', summary)
    if 'c02' in clauses and m.group(1) != '1':
        return ('reader-forceflush-and-shutdown-terminate', summary)
    if 'c03' in clauses and m.group(2) != '0':
        return ('reader-export-never-reentered', summary)
    if m.group(3) is None:
        return ('summary', summary)
    # every constructor / factory overload keeps the interval and timeout it was given (the harness asks for 1000 / 500 ms);
    # options that are refused (x, y: interval 400 <= timeout 500) are replaced by a valid pair, never kept
    iv, to = int(m.group(3)), int(m.group(4))
    if cfg.ctor in ('x', 'y'):
        if (iv, to) == (400, 500) or not to < iv:
            return ('reader-refused-options-are-replaced-by-a-valid-configuration', summary)
    elif (iv, to) != (1000, 500):
        return ('reader-keeps-the-configured-interval-and-timeout', summary)
    exports = []   # (begin, end, covered)
    xfl = []
    skipped = False
    flush = {}
    shut_ret = None
    recs = []      # times of records
    for tm, tid, role, t in ev:
        k = t[0]
        if k == 'record':
            recs.append(tm)
        elif k == 'export-begin':
            if 'c03' in clauses and t[2] != 'inflight=1':
                return ('reader-export-never-reentered', ' '.join(t))
            exports.append([tm, None, int(t[1])])
            if 'c02' in clauses and shut_ret is not None and tm > shut_ret:
                return ('reader-no-export-after-shutdown-returned', f'Export at {tm} > {shut_ret}')
        elif k == 'export-end' and exports:
            exports[-1][1] = tm
        elif role == 'C' and k == 'ld' and t[1].startswith('o') and t[2] == '1':
            skipped = True
        elif k == 'xflush-begin':
            xfl.append([tm, None, tid])
        elif k == 'xflush-end' and xfl:
            xfl[-1][1] = tm
        elif k == 'flush-begin':
            flush[tid] = {'begin': tm, 'recorded': int(t[1]), 'ret': None, 'ret_t': None}
        elif k == 'flush-ret':
            flush[tid]['ret'] = int(t[1]); flush[tid]['ret_t'] = tm
        elif k == 'shutdown-ret' and shut_ret is None:
            shut_ret = tm
    if 'c02' in clauses:
        for tid, f in flush.items():
            if f['ret'] == 1:
                if not skipped:
                    cov = max([c for b, e, c in exports if e is not None and e < f['ret_t']], default=0)
                    if cov < f['recorded']:
                        return ('reader-flush-true-means-everything-recorded-before-was-exported', f'T{tid}: recorded-before={f["recorded"]} exported-up-to={cov}')
                if not any(b > f['begin'] and e is not None and e < f['ret_t'] and t2 == tid for b, e, t2 in xfl):
                    return ('reader-flush-true-means-exporter-forceflush-invoked', f'T{tid}')
    return None


GEN = []
LEAN_TARGETS = ['OtelVerif.Props.C02Reader', 'OtelVerif.Props.C02ReaderLive']
THEOREMS_C02 = ['Otel.C02Reader.' + t for t in ('reader_no_export_after_shutdown', 'reader_flush_complete_partial',
                                                  'reader_flush_complete_witness', 'reader_flush_true_needs_exporter_flush')] + \
               ['Otel.Reader.reachable_inv', 'Otel.Reader.inv_astep']
THEOREMS_C02_LIVE = ['Otel.C02Reader.' + t for t in ('reader_flush_served_within', 'reader_worker_terminates_within', 'reader_join_enabled_when_done')] + [
    'Otel.Reader.served_of_wcount', 'Otel.Reader.done_of_wcount']
THEOREMS_C03 = ['Otel.C02Reader.export_not_reentrant_reader', 'Otel.Reader.reachable_inv', 'Otel.Reader.inv_astep']
HARNESSES = [H_PMR]


def model_line(case, out):
    return abstract(case.line, out)


def agree(case, out, mout):
    return mout.startswith('ok ')
