"""C19 - Instrument names, views and scope rules select exactly what they describe."""
import re
from vcore import Case, Harness, sdk_sources, SDK_INCLUDES

ID = 'C19'
GEN = ['C19', 'TabNaming']
LEAN_TARGETS = ['OtelVerif.Props.C19', 'OtelVerif.Props.TabNaming']
THEOREMS = ['Otel.C19.' + t for t in (
    'name_regex', 'unit_regex', 'validators_see_whole_view', 'gen_literals', 'rxMatch_iff_lang',
    'validName_iff', 'validUnit_iff', 'validName_aswas_witness', 'hand_constants', 'validNameHand_iff', 'validUnitHand_iff',
    'validators_agree', 'hand_aswas_witness', 'invalid_gives_inert', 'inert_never_streams',
    'disabled_meter_never_streams',
    'pattern_all', 'pattern_literal_iff', 'pattern_matches_iff_lang', 'exact_iff',
    'view_applies_iff_selectors_match', 'matchMeter_aswas_witness', 'findViews_spec',
    'storage_registry_per_stream', 'view_stream_exported', 'exported_iff', 'exported_count', 'view_shadowed_aswas_witness',
    'same_stream_name_both_exported', 'first_handle_registers_streams', 'second_handle_no_new_stream', 'handle_twice', 'view_shapes_stream', 'view_shapes_stream_filter_partial',
    'view_filter_ignored_witness', 'view_unit_irrelevant', 'histogram_defaults', 'unmatched_gets_type_default', 'default_aggregation_table',
    'configurator_first_match', 'configurator_default', 'disabled_scope_silent', 'others_unaffected',
    'same_identity_same_instance', 'instance_config_fixed')] + ['Otel.Tab.' + t for t in (
    'tab_nameValid1', 'tab_nameValidA', 'tab_nameValidB', 'tab_unitValid1', 'tab_unitValidA')]
HARNESSES = [Harness('s_c19', ['harness/s_c19.cc'],
                     sdk_srcs=sdk_sources('common', 'resource', 'version', 'metrics', 'trace', 'logs'),
                     includes=SDK_INCLUDES),
             # second TU: the hand-written (non-regex) validator variants, compiled from the unmodified source file
             Harness('s_c19b', ['harness/s_c19b.cc'], includes=SDK_INCLUDES)]
# sanitizer reports are classified by their first line; symbolizing every report would dominate a run in which many cases abort
HARNESS_ENV = {'ASAN_OPTIONS': 'detect_leaks=0:abort_on_error=0:exitcode=99:allocator_may_return_null=1:symbolize=0',
               'UBSAN_OPTIONS': 'print_stacktrace=0:halt_on_error=1:exitcode=98:symbolize=0'}
H = 's_c19'
import importlib, os
SUBS = [importlib.import_module('props.' + n) for n in ('c19_race',) if os.path.exists(os.path.join(os.path.dirname(__file__), n + '.py'))]
for _m in SUBS:
    LEAN_TARGETS = LEAN_TARGETS + list(_m.LEAN_TARGETS)
    THEOREMS = THEOREMS + list(_m.THEOREMS)
    HARNESSES = HARNESSES + [h for h in _m.HARNESSES if h.name not in {x.name for x in HARNESSES}]
    GEN = GEN + [g for g in (_m.GEN or []) if g not in GEN]


def _sub(case):
    w = case.line.split()[0] if case.line.split() else ''
    for m in SUBS:
        if w in m.WORDS:
            return m
    return None

RULE = ('validators: every byte value in first and in later position, lengths 0..300 with the boundaries 254/255/256 and 62/63/64, NUL and '
        '>=0x80 bytes, all in exact-size unterminated buffers; views: 1-4 registered views (type x pattern/exact/wildcard name x unit x meter '
        'name/version/schema selectors x name/description/aggregation (type and histogram boundaries)/attribute filter) against 1-4 instruments of all six ABI-v1 types, valid '
        'and invalid names/units, enabled and disabled meters, through a real MeterProvider and an explicitly collected reader; scope rules: '
        '0-4 configurator conditions (name/version/schema/prefix/any) and a default against 1-6 tracer/meter/logger requests with repeated '
        'identities, pointer identity of the returned objects. non-trivial = a non-empty name / at least one instrument / at least one request')
TRUSTED = ['std::regex (its result is compared with the translated predicate on every generated string)',
           'name patterns are modelled for the fragment literal, ".", "x*", ".*" only; generators stay inside it',
           'memory safety of the C++ is shown by ASan/UBSan runs on exact-size buffers, not by the theorems']
ASSUMPTIONS = ['a second handle of an instrument (same name, type, value type) has the same unit and description, and observable instruments have one handle (C17)',
               'unit characters: the source regex admits 0x01-0x7f; NUL is not counted as an ASCII "character" (the uncompiled non-regex variant would accept it)',
               'ABI v1: no synchronous gauge; tracer/meter identity is (name, version, schema url), logger identity adds the logger name and the scope attributes']

ITYPES = ['c', 'h', 'u', 'oc', 'og', 'ou']
OBSERVABLE = {'oc', 'og', 'ou'}
DEFAULT_AGG = {'c': 'sum', 'u': 'sum', 'oc': 'sum', 'ou': 'sum', 'h': 'hist', 'og': 'last'}
AGGS = ['def', 'drop', 'hist', 'last', 'sum']
DEFAULT_BOUNDS = [0, 5, 10, 25, 50, 75, 100, 250, 500, 750, 1000, 2500, 5000, 7500, 10000]
BOUNDS = ['-', '-', '-', '10,200', '100', '101', '102,103', '1', '500', '0,5,10,25,50,75,100,250,500,750,1000,2500,5000,7500,10000',
          '1,2,3,4,5,6,7,8,9,10,11,12,13,14,15,16,17,18,19,200', '99,100,101,102,103,104']
NAME_RE = re.compile(rb'[A-Za-z][A-Za-z0-9_.\-/]{0,254}', re.S)


def hx(b):
    return b.hex() if b else '-'


def unhx(t):
    return b'' if t == '-' else bytes.fromhex(t)


def spec_valid_name(s):
    return NAME_RE.fullmatch(s) is not None


def spec_valid_unit(s):
    return len(s) <= 63 and all(1 <= c <= 127 for c in s)


def C(line, *tags, origin='gen'):
    return Case(line, H, tags, origin)


# ------------------------------------------------------------------------------------------------
# parsing a case line (shared by oracle / signature)

def split_ops(t, start):
    ops = [[]]
    for x in t[start:]:
        if x == ';':
            ops.append([])
        else:
            ops[-1].append(x)
    return ops


def pattern_matches(pat, name):
    if pat == b'*':
        return True
    return re.fullmatch(pat, name, re.S) is not None and (b'\n' not in name and b'\r' not in name or True)


def exact_matches(sel, s):
    return sel == b'' or sel == s


def expected_streams(line):
    """the property, per instrument identity (name, type, value type): list of
       (first handle index, instrument, matching views, [stream tuples]); stream = (n, d, u, type, agg, bounds, keys, values)"""
    t = line.split()
    ops = split_ops(t, 1)
    m = ops[0]
    mn, mv, ms, en = unhx(m[1]), unhx(m[2]), unhx(m[3]), m[4] == '1'
    views = []
    instrs = []
    for op in ops[1:]:
        if op[0] == 'v':
            views.append(dict(type=op[1], pat=unhx(op[2]), unit=unhx(op[3]), mn=unhx(op[4]), mv=unhx(op[5]), ms=unhx(op[6]),
                              name=unhx(op[7]), desc=unhx(op[8]), agg=op[10], flt=op[11],
                              bounds=None if op[12] == '-' else [int(x) for x in op[12].split(',')]))
        else:
            instrs.append(dict(type=op[1], vt=op[2], name=unhx(op[3]), unit=unhx(op[4]), desc=unhx(op[5])))
    res = []
    groups = {}
    for idx, i in enumerate(instrs):
        if not en or not spec_valid_name(i['name']) or not spec_valid_unit(i['unit']):
            res.append((idx, i, [], []))
            continue
        ident = (i['name'], i['type'], i['vt'])
        if ident in groups:
            # a second handle of the same instrument records into the streams the first one registered
            first = groups[ident]
            if (instrs[first[0]]['unit'], instrs[first[0]]['desc']) != (i['unit'], i['desc']):
                first[4].append('conflicting-duplicate')
            for st in first[3]:
                st[7].append(100 + idx)
            continue
        matching = [v for v in views if v['type'] == i['type'] and pattern_matches(v['pat'], i['name']) and exact_matches(v['unit'], i['unit'])
                    and exact_matches(v['mn'], mn) and exact_matches(v['mv'], mv) and exact_matches(v['ms'], ms)]
        shaped = matching or [dict(name=b'', desc=b'', agg='def', flt='*', bounds=None)]
        streams = []
        for v in shaped:
            agg = DEFAULT_AGG[i['type']] if v['agg'] == 'def' else v['agg']
            if v['flt'] == '*':
                keys = ['61', '62']
            elif v['flt'] == 'e':
                keys = []
            else:
                allowed = set(v['flt'].split(','))
                keys = [k for k in ('61', '62') if k in allowed]
            bounds = (v['bounds'] if v['bounds'] is not None else DEFAULT_BOUNDS) if agg == 'hist' else None
            streams.append([hx(v['name'] or i['name']), hx(v['desc'] or i['desc']), hx(i['unit']), i['type'], agg, bounds, tuple(keys), [100 + idx]])
        entry = [idx, i, matching, streams, []]
        groups[ident] = entry
        res.append(entry)
    return res


def show_stream(s, keys=None):
    n, d, u, ty, agg, bounds, ks, values = s
    ks = ks if keys is None else keys
    a = agg
    if agg == 'hist':
        # the view's configured bucket boundaries (else the defaults); every measurement is counted in its bucket
        a = 'hist' + (''.join(f':{b}' for b in bounds) if bounds != DEFAULT_BOUNDS else '')
        a += ''.join(f'@{bi}' for bi in sorted({sum(1 for b in bounds if b < v) for v in values}))
    v = '-' if agg == 'drop' else str(values[-1] if agg == 'last' else sum(values))
    return f'n={n},d={d},u={u},t={ty},a={a},k={"+".join(ks) if ks else "none"},v={v}'


def variants(exp):
    """expected output under the property, and under the known deviation D22 (filter ignored for observables)"""
    def render(unfiltered_obs):
        out = []
        for e in exp:
            for s in e[3]:
                out.append(show_stream(s, ('61', '62') if unfiltered_obs and e[1]['type'] in OBSERVABLE else None))
        return '[' + '|'.join(sorted(out)) + ']'
    return {b: render(b) for b in (False, True)}


def spec_sc(line):
    t = line.split()
    kind = t[1]
    ops = split_ops(t, 2)
    dflt = ops[0][1] == '1'
    rules, reqs = [], []
    for op in ops[1:]:
        if op[0] == 'r':
            rules.append((op[1], unhx(op[2]), op[3] == '1'))
        else:
            n, v, s = unhx(op[1]), unhx(op[2]), unhx(op[3])
            if kind == 'l':
                ln = unhx(op[4])
                attrs = tuple(sorted(op[5].split(','))) if op[5] != '-' else ()
                reqs.append((n or ln, v, s, ln, attrs))
            else:
                reqs.append((n, v, s, b'', ()))
    outs = []
    for k, r in enumerate(reqs):
        first = reqs.index(r)
        en = dflt
        for m, arg, e in rules:
            hit = {'name': r[0] == arg, 'ver': r[1] == arg, 'schema': r[2] == arg, 'any': True, 'prefix': r[0].startswith(arg)}[m]
            if hit:
                en = e
                break
        outs.append((first, 1 if en else 0))
    return outs


def oracle(case, out):
    m = _sub(case)
    if m:
        return m.oracle(case, out)                     # the sub-check has its own malformed stream
    return _oracle(case, out)


def model_line(case, out):
    m = _sub(case)
    return m.model_line(case, out) if m and hasattr(m, 'model_line') else case.line


def agree(case, out, mout):
    m = _sub(case)
    return m.agree(case, out, mout) if m and hasattr(m, 'agree') else out == mout


def _oracle(case, out):
    t = case.line.split()
    if out.startswith('CRASH'):
        return ('no-out-of-bounds-read-or-crash', out)
    if out.startswith('bad-op'):
        return ('bad-case', out)
    if t[0] in ('val', 'val2'):
        s = unhx(t[2])
        want = spec_valid_name(s) if t[1] == 'name' else spec_valid_unit(s)
        if out != ('1' if want else '0'):
            return ('name-accepted-iff-letter-then-up-to-254-name-chars' if t[1] == 'name' else 'unit-accepted-iff-at-most-63-ascii', f'got {out} want {int(want)}')
        return None
    if t[0] == 'mv':
        if 'MISMATCH' in out:
            return ('stream-carries-its-meter-scope-and-provider-resource', out)
        exp = expected_streams(case.line)
        if any(len(e) > 4 and e[4] for e in exp):
            return ('bad-case', 'a second handle with another unit/description: outside the property')
        var = variants(exp)
        if out == var[False]:
            return None
        for e in exp:
            if not e[3] and re.search(rf'v={100 + e[0]}\b', out):
                return ('invalid-name-or-unit-or-disabled-meter-never-streams', out)
        if out == var[True]:
            return ('view-attribute-filter-shapes-stream', f'got {out} want {var[False]}')
        # which clause: a stream count that differs means a view that applies has no stream (or one that does not has one)
        n_got = 0 if out == '[]' else out.count('|') + 1
        n_want = sum(len(e[3]) for e in exp)
        if n_got != n_want:
            return ('every-matching-view-yields-its-stream', f'{n_got} streams, want {n_want}: got {out} want {var[False]}')
        return ('view-shapes-stream-and-nothing-else', f'got {out} want {var[False]}')
    if t[0] == 'sc':
        exp = spec_sc(case.line)
        if not exp:
            return None if out == 'none' else ('bad-output', out)
        got = []
        for part in out.split(' ; '):
            m = re.fullmatch(r'i=(\d+) out=(\d+) res=([01])', part)
            if not m:
                return ('bad-output', out)
            got.append((int(m.group(1)), int(m.group(2)), m.group(3)))
        if len(got) != len(exp):
            return ('bad-output', out)
        for k, ((gi, go, gr), (ei, eo)) in enumerate(zip(got, exp)):
            if gi != ei:
                return ('same-identity-same-instance', f'request {k}: instance first seen at {gi}, identity first seen at {ei}')
            if go != eo:
                return ('disabled-scope-silent-others-unaffected', f'request {k}: exported {go}, want {eo}')
            if gr != '1':
                return ('telemetry-references-provider-resource', f'request {k}')
        return None
    return ('bad-case', out)


def signature(case, out, clause):
    m = _sub(case)
    if m and hasattr(m, 'signature'):
        return m.signature(case, out, clause)
    t = case.line.split()
    if clause == 'no-out-of-bounds-read-or-crash':
        kind = ':'.join(out.split()[1].split(':')[:2]) if len(out.split()) > 1 else 'crash'
        return f'{clause}/{t[0]}/{kind}'
    if clause == 'view-attribute-filter-shapes-stream':
        return clause + '/observable-instrument'
    if t[0] == 'val2':
        return clause + '/hand-written-variant'
    if clause == 'same-identity-same-instance':
        return clause + '/' + {'t': 'tracer', 'm': 'meter', 'l': 'logger'}.get(t[1], '?')
    return clause


def nontrivial(case, out):
    m = _sub(case)
    if m and hasattr(m, 'nontrivial'):
        return m.nontrivial(case, out)
    t = case.line.split()
    if t[0] in ('val', 'val2'):
        return t[2] != '-'
    if t[0] == 'mv':
        return ' i ' in case.line
    return ' g ' in case.line


# ------------------------------------------------------------------------------------------------
# corpus

def corpus():
    out = []
    c = lambda line, *tags: out.append(C(line, 'corpus', *tags, origin='corpus'))
    # D12: validators must see the whole view (embedded NUL; unterminated buffers)
    c('val name ' + hx(b'abc\x00!!!'), 'D12')
    c('val name ' + hx(b'abc'), 'D12')
    c('val unit ' + hx(b'ms\x00\xff\xff'), 'D12')
    c('val unit ' + hx(b'ms'), 'D12')
    c('val name ' + hx(b'a' * 255), 'boundary')
    c('val name ' + hx(b'a' * 256), 'boundary')
    c('val unit ' + hx(b'u' * 63), 'boundary')
    c('val unit ' + hx(b'u' * 64), 'boundary')
    c(f'mv m {hx(b"m")} - - 1 ; i c l {hx(b"abc" + bytes([0]) + b"!!!")} - -', 'D12')
    # D62: the hand-written variants (second TU): empty name, NUL in a unit
    for line in ('val2 name -', 'val2 unit ' + hx(b'a\x00'), 'val2 name ' + hx(b'abc'), 'val2 unit ' + hx(b'ms')):
        out.append(Case(line, 's_c19b', ('corpus', 'D62'), 'corpus'))
    # D13: a meter without version / schema is not matched by a selector that names one
    c(f'mv m {hx(b"m")} - - 1 ; v c {hx(b"*")} - {hx(b"m")} {hx(b"2.0")} {hx(b"http://x")} {hx(b"renamed")} - - sum * - ; i c l {hx(b"reqs")} - -', 'D13')
    c(f'mv m {hx(b"m")} {hx(b"2.0")} {hx(b"http://x")} 1 ; v c {hx(b"*")} - {hx(b"m")} {hx(b"2.0")} {hx(b"http://x")} {hx(b"renamed")} - - sum * - ; i c l {hx(b"reqs")} - -', 'D13')
    # D20: a disabled logger is found again
    c(f'sc l d 1 ; r name {hx(b"off")} 0 ; g {hx(b"off")} - - {hx(b"ln")} - ; g {hx(b"off")} - - {hx(b"ln")} - ; g {hx(b"on")} - - {hx(b"ln")} -', 'D20')
    # D63: an observable instrument under a histogram view with explicit boundaries (more buckets than the default: out-of-bounds
    # read in the merge; fewer: the measurement is counted in no bucket)
    for it in ('oc', 'og', 'ou'):
        c(f'mv m {hx(b"m")} - - 1 ; v {it} {hx(b"*")} - - - - - - - hist * 1,2,3,4,5,6,7,8,9,10,11,12,13,14,15,16,17,18,19,200 ; i {it} l {hx(b"x")} - -', 'D63')
        c(f'mv m {hx(b"m")} - - 1 ; v {it} {hx(b"*")} - - - - - - - hist * 10,200 ; i {it} d {hx(b"x")} - -', 'D63')
    # D09 (fixed in 8d47170): every applying view yields its stream, also two views that rename to the same stream name;
    # a second handle records into the streams of the first; the same name with another type is another instrument
    c(f'mv m {hx(b"m")} - - 1 ; v c {hx(b"*")} - - - - {hx(b"same")} - - sum * - ; v c {hx(b"reqs")} - - - - {hx(b"same")} - - last * - ; i c l {hx(b"reqs")} - -', 'D09')
    c(f'mv m {hx(b"m")} - - 1 ; v c {hx(b"*")} - - - - {hx(b"first")} - - sum * - ; v c {hx(b"reqs")} - - - - - - - hist {hx(b"a")} - ; i c l {hx(b"reqs")} - - ; i c l {hx(b"reqs")} - -', 'D09')
    c(f'mv m {hx(b"m")} - - 1 ; i c l {hx(b"x")} - - ; i c d {hx(b"x")} - - ; i h l {hx(b"x")} - - ; i oc l {hx(b"x")} - -', 'D09')
    # D09 (witness) / D22 (finding)
    c(f'mv m {hx(b"m")} - - 1 ; v c {hx(b"*")} - - - - {hx(b"first")} - - sum * - ; v c {hx(b"reqs")} - - - - {hx(b"second")} - - sum * - ; i c l {hx(b"reqs")} - -', 'D09')
    c(f'mv m {hx(b"m")} - - 1 ; v oc {hx(b"*")} - - - - - - - def {hx(b"a")} - ; i oc l {hx(b"obs")} - -', 'D22')
    return out + [c for m in SUBS for c in m.corpus()]


# ------------------------------------------------------------------------------------------------
# generators

NAME_CHARS = b'abcdefghijklmnopqrstuvwxyzABCDEFGHIJKLMNOPQRSTUVWXYZ0123456789_.-/'


def gen_val(rng, big):
    out = []
    # every byte as first and as a later character, several lengths
    for b in range(256):
        out.append(C('val name ' + hx(bytes([b])), 'val', 'name-every-byte-first'))
        out.append(C('val name ' + hx(bytes([b]) + b'bc'), 'val', 'name-every-byte-first'))
        out.append(C('val name ' + hx(b'a' + bytes([b])), 'val', 'name-every-byte-later'))
        out.append(C('val name ' + hx(b'ab' + bytes([b]) + b'cd'), 'val', 'name-every-byte-later'))
        out.append(C('val name ' + hx(b'a' * 254 + bytes([b])), 'val', 'name-every-byte-last-of-255'))
        out.append(C('val unit ' + hx(bytes([b])), 'val', 'unit-every-byte'))
        out.append(C('val unit ' + hx(b'm' + bytes([b]) + b's'), 'val', 'unit-every-byte'))
        out.append(C('val unit ' + hx(b'u' * 62 + bytes([b])), 'val', 'unit-every-byte-last-of-63'))
    # lengths 0..300
    for n in range(0, 301):
        out.append(C('val name ' + hx(b'a' * n), 'val', 'name-length-sweep'))
        out.append(C('val name ' + hx(bytes(rng.choice(NAME_CHARS[:52]) if k == 0 else rng.choice(NAME_CHARS) for k in range(n))), 'val', 'name-length-sweep'))
        out.append(C('val unit ' + hx(bytes(rng.randrange(1, 128) for _ in range(n))), 'val', 'unit-length-sweep'))
        if n <= 80:
            out.append(C('val unit ' + hx(bytes(rng.randrange(0, 256) for _ in range(n))), 'val', 'unit-length-sweep'))
    for _ in range(60000 if big else 6000):
        n = rng.choice([1, 2, 3, 8, 30, 62, 63, 64, 65, 253, 254, 255, 256, 257, 300])
        s = bytearray(rng.choice(NAME_CHARS[:52]) if k == 0 else rng.choice(NAME_CHARS) for k in range(n))
        r = rng.random()
        if r < 0.35:
            s[rng.randrange(n)] = rng.randrange(256)
        elif r < 0.45:
            s[rng.randrange(n)] = 0
        elif r < 0.5:
            s[0] = rng.choice(b'0123456789_.-/ ')
        out.append(C(f'val {"name" if rng.random() < 0.6 else "unit"} {hx(bytes(s))}', 'val', 'random'))
    return out


NAMES = [b'reqs', b'req', b'req.count', b'requests', b'lat', b'a-b', b'x/y', b'R', b'r_q', b'rxq', b'aab', b'ab', b'b', b'A1']
BAD_NAMES = [b'', b'1bad', b'a b', b'_x', b'a' * 256, b'caf\xc3\xa9', b'a\x00b', b'.x']
PATTERNS = [b'*', b'*', b'reqs', b'req', b'req.*', b'r.q', b'.*', b'a*b', b'x*', b're.*s', b'.', b'r.*', b'lat', b'req.count', b'a-b', b'x/y', b'..', b'.*s',
            b'R', b'A.', b'r*e*q*s*', b'requests']
UNITS = [b'', b'', b'ms', b's', b'1', b'By']
BAD_UNITS = [b'u' * 64, b'\xc2\xb5s', b'm\x00s']
MNAMES = [b'm', b'lib', b'']
VERS = [b'', b'1.0', b'2.0']
SCHEMAS = [b'', b'http://x', b'http://y']
FILTERS = ['*', '*', 'e', '61', '62', '61,62', '63', '61,63']


def rand_pattern(rng):
    """a random pattern of the modelled fragment: atoms (literal name character or '.'), each optionally starred"""
    out = b''
    for _ in range(rng.choice([0, 1, 2, 2, 3, 4, 6])):
        out += bytes([rng.choice(b'aabbr.-/_A1')])
        if rng.random() < 0.4:
            out += b'*'
    return out


def rand_small_name(rng):
    return bytes([rng.choice(b'abrA')]) + bytes(rng.choice(b'aabbr.-/_A1') for _ in range(rng.choice([0, 1, 2, 3, 5])))


def rand_view(rng, meter, target=None):
    """a view; with a target instrument (type, name, unit) it is built to match it, then possibly perturbed in one selector"""
    it = rng.choice(ITYPES)
    pat = rng.choice(PATTERNS)
    unit = rng.choice([b'', b'', b'', b'ms', b's'])
    mn = rng.choice([b'', b'', meter[0], meter[0], b'other'])
    mv = rng.choice([b'', b'', meter[1], meter[1], b'9.9'])
    ms = rng.choice([b'', b'', meter[2], meter[2], b'http://z'])
    if target is not None:
        it = target[0]
        good = [p for p in PATTERNS if pattern_matches(p, target[1])]
        pat = rng.choice(good) if good else b'*'
        if rng.random() < 0.3:
            pat = rand_pattern(rng)          # exercises the backtracking matcher: a*ab, .*a.*, a*a*b, …
        unit = rng.choice([b'', target[2]])
        mn, mv, ms = rng.choice([b'', meter[0]]), rng.choice([b'', meter[1]]), rng.choice([b'', meter[2]])
        r = rng.random()
        if r < 0.06: it = rng.choice(ITYPES)
        elif r < 0.12: pat = rng.choice(PATTERNS)
        elif r < 0.16: unit = rng.choice([b'ms', b's', b'x'])
        elif r < 0.20: mn = b'other'
        elif r < 0.24: mv = rng.choice([b'9.9', b'1.0', b'2.0'])
        elif r < 0.28: ms = rng.choice([b'http://z', b'http://x'])
    vname = rng.choice([b'', b'', b'renamed', b'v2', b'1 odd name'])
    vdesc = rng.choice([b'', b'', b'view description'])
    vunit = rng.choice([b'', b'', b'vu'])
    agg = rng.choice(AGGS + ['def', 'def'])
    flt = rng.choice(FILTERS)
    hb = rng.choice(BOUNDS)
    return f'v {it} {hx(pat)} {hx(unit)} {hx(mn)} {hx(mv)} {hx(ms)} {hx(vname)} {hx(vdesc)} {hx(vunit)} {agg} {flt} {hb}'


D22_KEEP = 12


def gen_mv(rng, big):
    out = []
    d22 = []
    for _ in range(100000 if big else 10000):
        meter = (rng.choice(MNAMES), rng.choice(VERS), rng.choice(SCHEMAS))
        en = 0 if rng.random() < 0.05 else 1
        nv = rng.choice([0, 1, 1, 2, 2, 3, 4])
        ni = rng.choice([1, 1, 2, 3, 4])
        names = rng.sample(NAMES, ni)
        if rng.random() < 0.35:
            names = sorted({rand_small_name(rng) for _ in range(ni * 3)})[:ni]      # sorted: set order depends on PYTHONHASHSEED
            ni = len(names)
        ops = [f'm {hx(meter[0])} {hx(meter[1])} {hx(meter[2])} {en}']
        instrs = []
        targets = []
        tags = ['mv']
        for k in range(ni):
            it = rng.choice(ITYPES)
            name = names[k]
            unit = rng.choice(UNITS)
            r = rng.random()
            if r < 0.08:
                name = rng.choice(BAD_NAMES); tags.append('invalid-name')
            elif r < 0.12:
                unit = rng.choice(BAD_UNITS); tags.append('invalid-unit')
            desc = rng.choice([b'', b'instrument description'])
            instrs.append(f'i {it} {rng.choice("ld")} {hx(name)} {hx(unit)} {hx(desc)}')
            targets.append((it, name, unit))
        # further handles: an exact second handle of a synchronous instrument (records into the same streams), or the same name
        # with another type / value type (its own streams)
        r = rng.random()
        if r < 0.15:
            k = rng.randrange(len(instrs))
            if targets[k][0] not in OBSERVABLE:
                instrs.append(instrs[k]); tags.append('second-handle')
        elif r < 0.25:
            k = rng.randrange(len(instrs))
            parts = instrs[k].split(' ')
            if rng.random() < 0.5:
                parts[1] = rng.choice([x for x in ITYPES if x != parts[1]])
            else:
                parts[2] = 'd' if parts[2] == 'l' else 'l'
            if (parts[1], parts[2], parts[3]) not in {tuple(x.split(' ')[1:4]) for x in instrs}:
                instrs.append(' '.join(parts)); targets.append((parts[1], unhx(parts[3]), unhx(parts[4]))); tags.append('same-name-other-type')
        # one handle per observable instrument; a second synchronous handle only as an exact copy
        seen, keep = {}, []
        for x in instrs:
            p_ = x.split(' ')
            ident = (p_[1], p_[2], p_[3])
            if ident in seen and (p_[1] in OBSERVABLE or seen[ident] != x):
                continue
            seen.setdefault(ident, x)
            keep.append(x)
        instrs = keep
        views = [rand_view(rng, meter, rng.choice(targets) if rng.random() < 0.8 else None) for _ in range(nv)]
        tags.append(f'views-{nv}')
        line = 'mv ' + ' ; '.join(ops + views + instrs)
        exp = expected_streams(line)
        nm = max((len(e[2]) for e in exp), default=0)
        tags.append(f'max-matching-views-{min(nm, 3)}')
        var = variants(exp)
        if var[False] != var[True]:
            # the case exhibits the known finding D22 (filter on an observable instrument).  vcore stops evaluating a run after
            # 40 oracle failures, known findings included: keep a handful as evidence that D22 still reproduces, at the end
            if len(d22) < D22_KEEP:
                d22.append(C(line, *tags, 'exhibits-D22'))
            continue
        out.append(C(line, *tags))
    # all instrument types x all aggregations x filters, single view
    for it in ITYPES:
        for agg in AGGS:
            for flt in ('*', 'e', '61'):
                if it in OBSERVABLE and flt != '*':
                    continue          # D22 (known finding): represented by the corpus case and the D22_KEEP cases above
                out.append(C(f'mv m {hx(b"m")} - - 1 ; v {it} {hx(b"*")} - - - - - - - {agg} {flt} - ; i {it} l {hx(b"x")} - -', 'mv', 'type-x-agg-x-filter'))
                out.append(C(f'mv m {hx(b"m")} - - 1 ; v {it} {hx(b"*")} - - - - {hx(b"vn")} {hx(b"vd")} {hx(b"vu")} {agg} {flt} - ; i {it} d {hx(b"x")} {hx(b"ms")} {hx(b"d")}', 'mv', 'type-x-agg-x-filter'))
            for hb in BOUNDS[3:]:
                out.append(C(f'mv m {hx(b"m")} - - 1 ; v {it} {hx(b"*")} - - - - - - - {agg} * {hb} ; i {it} l {hx(b"x")} - - ; i {it} d {hx(b"y")} - -', 'mv', 'type-x-agg-x-bounds'))
        for it2 in ITYPES:
            out.append(C(f'mv m {hx(b"m")} - - 1 ; v {it} {hx(b"*")} - - - - {hx(b"vn")} - - def * - ; i {it2} l {hx(b"x")} - -', 'mv', 'type-x-type'))
    return out, d22


def gen_sc(rng, big):
    out = []
    names = [b'off', b'on', b'lib', b'lib.a', b'lib.b', b'', b'x']
    for _ in range(100000 if big else 10000):
        kind = rng.choice('tml')
        dflt = rng.choice([1, 1, 1, 0])
        ops = [f'd {dflt}']
        for _r in range(rng.choice([0, 1, 1, 2, 3, 4])):
            m = rng.choice(['name', 'name', 'name', 'ver', 'schema', 'any', 'prefix'])
            arg = {'name': rng.choice(names), 'ver': rng.choice(VERS), 'schema': rng.choice(SCHEMAS), 'any': b'', 'prefix': rng.choice([b'lib', b'o', b''])}[m]
            ops.append(f'r {m} {hx(arg)} {rng.choice([0, 0, 1])}')
        pool = []
        for _g in range(rng.choice([1, 2, 3, 4, 6])):
            if pool and rng.random() < 0.4:
                ops.append(rng.choice(pool))
                continue
            n, v, s = rng.choice(names), rng.choice(VERS), rng.choice(SCHEMAS)
            if kind == 'l':
                ln = rng.choice([b'logger', b'l2', b'on', b'off'])
                attrs = rng.choice(['-', '-', f'{hx(b"k")}={hx(b"v")}', f'{hx(b"k")}={hx(b"w")}', f'{hx(b"k")}={hx(b"v")},{hx(b"j")}={hx(b"u")}',
                                    f'{hx(b"j")}={hx(b"u")},{hx(b"k")}={hx(b"v")}'])
                g = f'g {hx(n)} {hx(v)} {hx(s)} {hx(ln)} {attrs}'
            else:
                g = f'g {hx(n)} {hx(v)} {hx(s)}'
            pool.append(g)
            ops.append(g)
        out.append(C(f'sc {kind} ' + ' ; '.join(ops), 'sc', 'sc-' + kind))
    return out


def generate(rng, tier):
    big = tier == 'thorough'
    vals = gen_val(rng, big)
    # the same validator strings go to the hand-written variants in the second TU
    vals2 = [Case('val2' + c.line[3:], 's_c19b', ('val2',) + c.tags[1:]) for c in vals]
    mv, d22 = gen_mv(rng, big)
    return vals + vals2 + mv + gen_sc(rng, big) + d22 + [c for m in SUBS for c in m.generate(rng, tier)]


LEVEL_TEXT = ('Lean 4 theorems over executable models of instrument_metadata_validator.cc, the view registry / predicates / selectors, '
              'default_aggregation.h, Meter::Register*MetricStorage, ScopeConfigurator and the provider lookups: validName_iff / validUnit_iff '
              '(exactly the grammar of the property text, 254 and 63 as literals, for every byte string), invalid_gives_inert, '
              'inert_never_streams, view_applies_iff_selectors_match, view_shapes_stream, unmatched_gets_type_default, '
              'configurator_first_match, disabled_scope_silent / others_unaffected, same_identity_same_instance over every request history. '
              'Regexes, the default-aggregation table and the matching rules are re-extracted from the source each run; the models are tied to '
              'the code by a differential run through a real MeterProvider / TracerProvider / LoggerProvider under ASan/UBSan.')
LEVEL_NOTE = ('Trusted: Lean kernel; axioms propext/Quot.sound/Classical.choice at most; tools/gen_c19.py; harness and generators; std::regex. '
              'Partial: (D22) a view\'s attribute filter is ignored for observable instruments - modelled as the code is, proved as a '
              '*_partial theorem with a kernel-checked witness, reported as a known finding; name patterns only for the fragment literal/"."/"x*"/".*"; histogram boundaries only strictly increasing integer lists; '
              'out-of-bounds reads are excluded by sanitizer runs on exact-size buffers, not by a theorem.')
DESIGN_REF = 'DESIGN.md section 4, C19'
TECHNIQUE = 'Lean 4 proof + differential correspondence'
for _m in SUBS:
    RULE = RULE + ' | ' + getattr(_m, 'RULE', '')
    LEVEL_TEXT = LEVEL_TEXT + getattr(_m, 'LEVEL_TEXT_ADD', '')
    LEVEL_NOTE = LEVEL_NOTE + getattr(_m, 'LEVEL_NOTE_ADD', '')
