"""C19 - stub"""
from vcore import Case, Harness, sdk_sources, SDK_INCLUDES
ID = 'C19'
HARNESSES = [Harness('s_c19', ['harness/s_c19.cc'],
                     sdk_srcs=sdk_sources('common', 'resource', 'version', 'metrics', 'trace', 'logs'),
                     includes=SDK_INCLUDES)]
