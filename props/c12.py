"""C12 - sampling is consistent: ratio sampling is a monotone function of the trace id; parent-based / on / off."""
import math, re, struct
from vcore import Case, Harness, sdk_sources, SDK_INCLUDES

ID = 'C12'
GEN = ['Hex', 'Sampler']
LEAN_TARGETS = ['OtelVerif.Props.C12']
THEOREMS = ['Otel.C12.' + t for t in (
    # generic over every monotone rounding that fixes the integers below 2^53 (structure Rnd)
    'thr_mono', 'thr_bounds', 'thresholdWith_eq', 'thresholdWith_mono', 'thresholdWith_le_max', 'thresholdWith_no_wrap',
    'idThresholdWith_mono', 'sample_mono_generic', 'sample_antitone_in_id_generic',
    # the concrete executable binary64 rounding is such a rounding
    'roundEven_mono', 'ilog2_spec', 'fl_mono', 'fl_int', 'flRnd_fl',
    # the property, for the model of the code (rnd = fl)
    'threshold_mono', 'thresholdD_mono', 'threshold_lt_two_pow_64', 'threshold_no_wrap', 'sample_mono', 'sample_monoD',
    'ratio_le_zero_never', 'ratio_ge_one_always', 'ratio_result_shape',
    'decision_depends_only_on_id_and_ratio', 'participants_agree', 'sample_antitone_in_id',
    'isSampled_iff_bit0', 'parentBased_valid_parent', 'parentBased_valid_parent_no_consult', 'parentBased_root_delegates',
    'parentBased_root_consults', 'alwaysOn_constant', 'alwaysOff_constant',
    # spans started through a Tracer (the sampling part of Tracer::StartSpan)
    'effectiveParent_valid', 'effectiveParent_invalid', 'span_parentBased_valid_parent', 'span_root_delegates',
    'span_participants_agree', 'span_alwaysOn_sampled', 'span_alwaysOff_not_sampled',
    'gen_constants')]
HARNESSES = [Harness('s_c12', ['harness/s_c12.cc'], sdk_srcs=sdk_sources('common', 'resource', 'version', 'trace'),
                     includes=SDK_INCLUDES)]
H = 's_c12'
RULE = ('ratio cases: 2-6 ratios (raw IEEE bit patterns: +-0, subnormals, 2^-k, neighbours of powers of two, k/(2^32-1) and k/2^32 '
        'neighbours, 1-2^-53, 1, >1, <0, +-inf, random) x 12-40 trace ids (random, first 8 bytes all-zero / all-one / around '
        '2^64-2^10, prefixes within +-2^13 of each threshold); every decision asked 4 times with parent/name/kind/attributes/links '
        'varied; threshold_ read through the private member and compared bit for bit. sample cases: sampler trees '
        '(pb/pb/leaf, leaf = on|off|ratio|custom; built through the constructors or the sampler factories) x parents (none, invalid '
        'ids, valid remote/local, all 256 flag bytes, trace states). span cases: the same trees as the sampler of a real TracerProvider '
        'with a fixed id generator; a span is started with the parent supplied as options.parent SpanContext / options.parent Context / '
        'active span / active span overridden by an is_root_span context, and its sampled flag, recording state, trace state and trace id '
        'are observed, beside the decision of an equal sampler asked directly about that trace id. '
        'non-trivial = some ratio strictly inside (0,1) with a threshold other than 0 / 2^64-1, or a parent-based sampler; '
        'distinct = distinct case line')
TRUSTED = ['binary64 arithmetic of the build (SSE2, round-to-nearest, no FMA contraction, little-endian memcpy) is what `fl`/`leNat` formalise; '
           'it is compared bit for bit on every generated ratio, not proved',
           'NaN ratios are outside the quantifier (static_cast<uint64_t>(NaN) is undefined behaviour); the harness never executes them']
ASSUMPTIONS = ['ratio is not NaN', 'parent trace states in generated cases are canonical W3C lists (parsing is C14\'s)']
U64 = 2 ** 64


def bits(x):
    return struct.unpack('<Q', struct.pack('<d', x))[0]


def dbl(b):
    return struct.unpack('<d', struct.pack('<Q', b))[0]


def b16(b):
    return f'{b:016x}'


def approx_threshold(r):
    """generator-side estimate of the threshold (only used to aim ids at the boundary)"""
    if not (r > 0):
        return 0
    if r >= 1:
        return U64 - 1
    p = (2 ** 32 - 1) * r
    h = math.floor(p)
    l = math.ldexp(p - h, 32) + p
    return min(U64 - 1, (int(h) << 32) + int(l))


def id_with_prefix(x, rng):
    x %= U64
    return x.to_bytes(8, 'little') + bytes(rng.randrange(256) for _ in range(8))


SPECIAL_RATIOS = [0x0000000000000000, 0x8000000000000000, 0x0000000000000001, 0x000fffffffffffff, 0x0010000000000000,
                  0x3ff0000000000000, 0x3fefffffffffffff, 0x3feffffffffffffe, 0x3ff0000000000001, 0x4000000000000000,
                  0x7ff0000000000000, 0xfff0000000000000, 0xbff0000000000000, 0x8000000000000001, 0x3fe0000000000000,
                  0x3fdfffffffffffff, 0x3fe0000000000001, 0x7fefffffffffffff, 0xffefffffffffffff, bits(0.01), bits(0.1), bits(0.25),
                  bits(1 / 3), bits(2 ** -32), bits(2 ** -64), bits(1.0 / (2 ** 32 - 1)), bits(2 ** -53), bits(1 - 2 ** -32)]


def rand_ratio(rng):
    r = rng.random()
    if r < 0.10:
        return rng.choice(SPECIAL_RATIOS)
    if r < 0.25:      # power of two 2^-k and its neighbours
        k = rng.randrange(0, 80) if rng.random() < 0.8 else rng.randrange(80, 1075)
        b = bits(math.ldexp(1.0, -k))
        return max(0, b + rng.choice([-2, -1, 0, 0, 1, 2]))
    if r < 0.40:      # k/(2^32-1) and k/2^32 neighbours: the product is next to an integer
        k = rng.randrange(1, 2 ** 32) if rng.random() < 0.7 else rng.choice([1, 2, 3, 2 ** 31, 2 ** 32 - 2, 2 ** 32 - 1])
        d = rng.choice([2 ** 32 - 1, 2 ** 32 - 1, 2 ** 32])
        return bits(k / d) + rng.choice([-2, -1, 0, 0, 1, 2])
    if r < 0.60:      # uniform in [0,1)
        return bits(rng.random())
    if r < 0.75:      # log-uniform exponent
        return bits(math.ldexp(rng.random() + 1.0, -rng.randrange(1, 70)))
    if r < 0.80:      # just below one
        return 0x3ff0000000000000 - rng.randrange(1, 5000)
    if r < 0.85:      # subnormal / tiny
        return rng.randrange(0, 2 ** 53)
    if r < 0.90:      # above one
        return bits(1.0 + rng.random() * rng.choice([1e-15, 1, 1e300]))
    if r < 0.95:      # negative
        return bits(-rng.random() * rng.choice([1e-300, 1e-15, 1, 1e300]))
    b = rng.getrandbits(64)   # any bit pattern except NaN
    if (b >> 52) & 0x7ff == 0x7ff:
        b &= ~((1 << 52) - 1)
    return b


def ratio_case(rng, nr, nid, tags):
    rs = [rand_ratio(rng) for _ in range(nr)]
    if rng.random() < 0.5 and rs:   # add an adjacent double of one of them
        b = rng.choice(rs)
        nb = b + rng.choice([-1, 1])
        if 0 <= nb < 2 ** 64 and (nb >> 52) & 0x7ff != 0x7ff:
            rs.append(nb)
    ids = []
    ths = [approx_threshold(dbl(b)) for b in rs]
    while len(ids) < nid:
        r = rng.random()
        if r < 0.35:
            ids.append(bytes(rng.randrange(256) for _ in range(16)))
        elif r < 0.40:
            ids.append(bytes(8) + bytes(rng.randrange(256) for _ in range(8)))
        elif r < 0.45:
            ids.append(b'\xff' * 8 + bytes(rng.randrange(256) for _ in range(8)))
        elif r < 0.55:
            ids.append(id_with_prefix(U64 - rng.randrange(1, 2 ** rng.choice([2, 10, 11, 12, 13, 20])), rng))
        elif r < 0.60:
            ids.append(id_with_prefix(rng.randrange(0, 2 ** rng.choice([1, 4, 11, 32, 53])), rng))
        else:
            t = rng.choice(ths)
            d = rng.choice([0, 1, 2, 3, 2 ** 10, 2 ** 11, 2 ** 12, rng.randrange(2 ** 13), rng.randrange(2 ** 20)])
            ids.append(id_with_prefix(t + rng.choice([-1, 1]) * d, rng))
    return Case('sm ratio ' + ' '.join(b16(b) for b in rs) + ' ids ' + ' '.join(i.hex() for i in ids), H, tags)


ALPHA = 'abcdefghijklmnopqrstuvwxyz0123456789'


def rand_entries(rng):
    n = rng.choice([0, 0, 1, 2, 3, 5])
    es = []
    for i in range(n):
        k = rng.choice('abcdefghijklmnopqrstuvwxyz') + ''.join(rng.choice(ALPHA + '_-*/') for _ in range(rng.randrange(0, 5))) + str(i)
        v = ''.join(chr(rng.choice([c for c in range(0x21, 0x7f) if c not in (0x2c, 0x3d)])) for _ in range(rng.randrange(1, 6)))
        es.append(f'{k.encode().hex()}:{v.encode().hex()}')
    return ','.join(es) if es else '-'


def rand_leaf(rng):
    r = rng.random()
    if r < 0.2:
        return 'on'
    if r < 0.4:
        return 'off'
    if r < 0.65:
        return 'ratio=' + b16(rand_ratio(rng))
    return f'custom={rng.randrange(3)}=' + (rng.choice(['null', '-']) if rng.random() < 0.4 else rand_entries(rng))


def rand_parent(rng, flags=None):
    r = rng.random()
    if r < 0.12:
        return 'none'
    tid = bytes(rng.randrange(256) for _ in range(16))
    sid = bytes(rng.randrange(256) for _ in range(8))
    if r < 0.2:
        tid = bytes(16)      # invalid: zero trace id (flags may still say sampled)
    elif r < 0.28:
        sid = bytes(8)       # invalid: zero span id
    elif r < 0.33:
        tid = bytes(15) + b'\x01'
    f = rng.randrange(256) if flags is None else flags
    return f'{tid.hex()}/{sid.hex()}/{f:02x}/{rng.randrange(2)}/{rand_entries(rng)}'


def sample_case(rng, tags, flags=None, depth=None):
    d = rng.choice([0, 1, 1, 1, 2, 3]) if depth is None else depth
    spec = 'pb/' * d + rand_leaf(rng)
    tid = bytes(rng.randrange(256) for _ in range(16))
    if rng.random() < 0.1:
        tid = rng.choice([bytes(16), b'\xff' * 16])
    return Case(f'sm sample {spec} {rand_parent(rng, flags)} {tid.hex()}', H, tags)


HOWS = 'cxar'   # the parent as options.parent SpanContext / options.parent Context / active span / active span + explicit root


def span_case(rng, tags, flags=None, depth=None, how=None):
    d = rng.choice([0, 0, 1, 1, 1, 2, 3]) if depth is None else depth
    spec = 'pb/' * d + rand_leaf(rng)
    tid = bytes(rng.randrange(256) for _ in range(16))
    if rng.random() < 0.06:
        tid = rng.choice([bytes(16), b'\xff' * 16])
    return Case(f'sm span {spec} {rand_parent(rng, flags)} {tid.hex()} {how or rng.choice(HOWS)}', H, tags)


def corpus():
    out = []
    z = bytes(16).hex(); ones = (b'\xff' * 16).hex(); half = ((2 ** 63).to_bytes(8, 'little') + bytes(8)).hex()
    out.append(Case('sm ratio ' + ' '.join(b16(b) for b in SPECIAL_RATIOS) + f' ids {z} {ones} {half} ' +
                    ((2 ** 63 - 1).to_bytes(8, 'little') + bytes(8)).hex() + ' ' + ((U64 - 1024).to_bytes(8, 'little') + bytes(8)).hex(),
                    H, ('corpus', 'special-ratios'), 'corpus'))
    out.append(Case(f'sm ratio 7ff8000000000000 3fe0000000000000 ids {z}', H, ('corpus', 'nan'), 'corpus'))
    p = '0102030405060708090a0b0c0d0e0f10/0102030405060708'
    for f in ('00', '01', '02', 'fe', 'ff'):
        for rem in '01':
            out.append(Case(f'sm sample pb/custom=1=6b:76 {p}/{f}/{rem}/61:62,63:64 {ones}', H, ('corpus', 'pb-valid-parent'), 'corpus'))
            out.append(Case(f'sm sample pb/off {p}/{f}/{rem}/- {ones}', H, ('corpus', 'pb-valid-parent'), 'corpus'))
            out.append(Case(f'sm sample pb/on {p}/{f}/{rem}/- {ones}', H, ('corpus', 'pb-valid-parent'), 'corpus'))
    out.append(Case(f'sm sample pb/custom=2=6b:76 none {ones}', H, ('corpus', 'pb-root'), 'corpus'))
    out.append(Case(f'sm sample pb/custom=0=null {bytes(16).hex()}/0102030405060708/01/1/61:62 {ones}', H, ('corpus', 'pb-root'), 'corpus'))
    # spans through a Tracer: every way of supplying the parent x sampled / unsampled valid parent, invalid parent, none
    for how in HOWS:
        for f in ('00', '01', 'fe', 'ff'):
            out.append(Case(f'sm span pb/custom=1=6b:76 {p}/{f}/1/61:62,63:64 {ones} {how}', H, ('corpus', 'span-pb'), 'corpus'))
            out.append(Case(f'sm span pb/pb/off {p}/{f}/0/- {z} {how}', H, ('corpus', 'span-pb'), 'corpus'))
        out.append(Case(f'sm span pb/on none {half} {how}', H, ('corpus', 'span-root'), 'corpus'))
        out.append(Case(f'sm span pb/custom=2=null {bytes(16).hex()}/0102030405060708/01/1/61:62 {ones} {how}', H, ('corpus', 'span-root'), 'corpus'))
        out.append(Case(f'sm span custom=1=- {p}/01/0/61:62 {ones} {how}', H, ('corpus', 'span-record-only'), 'corpus'))
        out.append(Case(f'sm span off {p}/01/0/61:62 {ones} {how}', H, ('corpus', 'span-off-under-sampled-parent'), 'corpus'))
        # ratio 1/2: trace id prefix 0 is sampled, prefix 2^64-1 is not - as a root (generated id) and as a child (parent's id)
        out.append(Case(f'sm span ratio=3fe0000000000000 none {z} {how}', H, ('corpus', 'span-ratio'), 'corpus'))
        out.append(Case(f'sm span ratio=3fe0000000000000 none {ones} {how}', H, ('corpus', 'span-ratio'), 'corpus'))
        out.append(Case(f'sm span ratio=3fe0000000000000 {"f" * 32}/0102030405060708/01/0/- {z} {how}', H, ('corpus', 'span-ratio'), 'corpus'))
        out.append(Case(f'sm span pb/ratio=3fe0000000000000 {"f" * 32}/0102030405060708/01/0/- {z} {how}', H, ('corpus', 'span-ratio'), 'corpus'))
    out.append(Case(f'sm span ratio=7ff8000000000000 none {z} c', H, ('corpus', 'nan'), 'corpus'))
    for bad in (f'sm span on none {z}', f'sm span on none {z} q', f'sm span pb none {z} c', f'sm span on none 00 c', f'sm span on x/y {z} a'):
        out.append(Case(bad, H, ('corpus', 'malformed'), 'corpus'))
    return out


def generate(rng, tier):
    big = tier == 'thorough'
    out = []
    for _ in range(15000 if big else 1500):
        out.append(ratio_case(rng, rng.randrange(2, 7), rng.randrange(12, 41), ('ratio', 'mixed')))
    for _ in range(3000 if big else 200):   # adjacent doubles only: a run of consecutive bit patterns
        b0 = max(1, rand_ratio(rng) & (2 ** 63 - 1))
        if (b0 >> 52) >= 0x7fe:
            b0 = 0x3fe0000000000000
        rs = [b0 + i for i in range(-2, 4) if b0 + i >= 0]
        ids = []
        ths = [approx_threshold(dbl(b)) for b in rs]
        for t in ths:
            for d in (-2049, -1, 0, 1, 2049):
                ids.append(id_with_prefix(min(max(t + d, 0), U64 - 1), rng))
        out.append(Case('sm ratio ' + ' '.join(b16(b) for b in rs) + ' ids ' + ' '.join(i.hex() for i in ids), H, ('ratio', 'adjacent-run')))
    for k in range(0, 1075, 1 if big else 5):   # every power of two with both neighbours
        b = bits(math.ldexp(1.0, -k))
        rs = [x for x in (b - 1, b, b + 1) if x >= 0]
        t = approx_threshold(dbl(b))
        ids = [id_with_prefix(min(max(t + d, 0), U64 - 1), rng) for d in (-2, -1, 0, 1, 2, 4096, -4096)] + [bytes(16), b'\xff' * 16]
        out.append(Case('sm ratio ' + ' '.join(b16(x) for x in rs) + ' ids ' + ' '.join(i.hex() for i in ids), H, ('ratio', 'pow2-neighbours')))
    for f in range(256):   # all flag bytes under parent-based
        out.append(sample_case(rng, ('sample', 'all-flags'), flags=f, depth=rng.choice([1, 1, 2])))
    for _ in range(40000 if big else 4000):
        out.append(sample_case(rng, ('sample', 'mixed')))
    for f in range(256):   # all flag bytes of the parent of a span under a parent-based tracer, every way of supplying it
        out.append(span_case(rng, ('span', 'all-flags'), flags=f, depth=rng.choice([1, 1, 2]), how=HOWS[f % 4]))
    for _ in range(20000 if big else 1800):
        out.append(span_case(rng, ('span', 'mixed')))
    return out


# ------------------------------------------------------------------------------------------------
# oracle: the property on the implementation's observation alone

def parse_ratio_out(out):
    res = []
    for part in out.split(' ; '):
        if part == 'nan-ub':
            res.append(None)
            continue
        m = re.fullmatch(r'T=([0-9a-f]{16}) D=([01Vx]*)', part)
        if not m:
            raise ValueError('unparsable: ' + part[:80])
        res.append((int(m.group(1), 16), m.group(2)))
    return res


def spec_sample(parts, parent):
    """(decision or None = not fixed by the property, trace state text or None = not fixed, custom calls)"""
    leaf = parts[-1]
    if len(parts) > 1:           # parent based
        if parent is not None:
            return (2 if parent['flags'] & 1 else 0, parent['ts'], 0)
        return spec_sample(parts[1:], parent)
    kind = leaf.split('=')
    if kind[0] == 'on':
        return (2, None, 0)
    if kind[0] == 'off':
        return (0, None, 0)
    if kind[0] == 'custom':
        return (int(kind[1]), 'null' if kind[2] == 'null' else '[' + ('' if kind[2] == '-' else kind[2]) + ']', 1)
    r = dbl(int(kind[1], 16))
    return (0 if r <= 0 else 2 if r >= 1 else None, 'null', 0)


def parse_parent(s):
    """None = no valid parent"""
    if s == 'none':
        return None
    tid, sid, fl, rem, ts = s.split('/')
    if int(tid, 16) == 0 or int(sid, 16) == 0:
        return None
    return {'flags': int(fl, 16), 'remote': rem == '1', 'ts': '[' + ('' if ts == '-' else ts) + ']'}


def oracle(case, out):
    t = case.line.split()
    if out.startswith('CRASH'):
        return ('never-crashes', out)
    if t[1] == 'ratio':
        k = t.index('ids')
        rbits = [int(x, 16) for x in t[2:k]]
        nid = len(t) - k - 1
        obs = parse_ratio_out(out)
        if len(obs) != len(rbits):
            return ('one-observation-per-ratio', out[:200])
        rows = []
        for b, o in zip(rbits, obs):
            r = dbl(b)
            if r != r:
                if o is not None:
                    return ('nan-not-executed', str(o))
                continue
            if o is None or len(o[1]) != nid:
                return ('one-decision-per-id', out[:200])
            T, D = o
            if 'V' in D or 'x' in D:
                return ('decision-depends-only-on-trace-id-and-ratio', f'ratio {b16(b)}: {D}')
            if r <= 0 and '1' in D:
                return ('ratio<=0-samples-nothing', f'ratio {b16(b)}: {D}')
            if r >= 1 and '0' in D:
                return ('ratio>=1-samples-everything', f'ratio {b16(b)}: {D}')
            rows.append((r, b, T, D))
        rows.sort(key=lambda x: x[0])
        for (r1, b1, T1, D1), (r2, b2, T2, D2) in zip(rows, rows[1:]):
            for i, (a, c) in enumerate(zip(D1, D2)):
                if a == '1' and c != '1':
                    return ('sampled-at-a-ratio-implies-sampled-at-every-larger-ratio', f'id #{i} {t[k + 1 + i]}: sampled at {b16(b1)} but not at {b16(b2)}')
            if r1 == r2 and D1 != D2:
                return ('decision-depends-only-on-trace-id-and-ratio', f'equal ratios {b16(b1)} {b16(b2)} differ')
            if T1 > T2:
                return ('threshold-monotone-in-ratio', f'{b16(b1)}->{T1:016x} > {b16(b2)}->{T2:016x}')
        # ids sharing the first 8 bytes... (the property only says "depends on the trace id"): same id twice -> same answer
        seen = {}
        for i, idh in enumerate(t[k + 1:]):
            for (_, b, _, D) in rows:
                key = (idh, b)
                if key in seen and seen[key] != D[i]:
                    return ('decision-depends-only-on-trace-id-and-ratio', f'id {idh} ratio {b16(b)}')
                seen[key] = D[i]
        return None
    if t[1] == 'sample':
        if out == 'bad-op':
            return None if 'ratio=7ff' in t[2] or 'ratio=fff' in t[2] else ('bad-case', out)
        m = re.fullmatch(r'dec=(\d) ts=(\S+) calls=(\d+)', out)
        if not m:
            return ('sampling-result-well-formed', out[:200])
        dec, ts, calls = int(m.group(1)), m.group(2), int(m.group(3))
        parts = t[2].split('/')
        parent = parse_parent(t[3])
        e_dec, e_ts, e_calls = spec_sample(parts, parent)
        pb = len(parts) > 1
        if pb and parent is not None:
            if dec != e_dec:
                return ('parent-based-decision-is-the-parents-sampled-bit', f'flags {parent["flags"]:02x} remote {parent["remote"]} -> dec {dec}')
            if ts != e_ts:
                return ('parent-based-trace-state-is-the-parents', f'got {ts} want {e_ts}')
            if calls != 0:
                return ('root-sampler-consulted-only-without-valid-parent', f'calls={calls}')
            return None
        if e_dec is not None and dec != e_dec:
            clause = 'always-on-off-constant' if parts[-1] in ('on', 'off') else 'root-span-gets-the-root-samplers-result' if pb else 'ratio-end-points'
            return (clause, f'dec {dec} want {e_dec}')
        if pb and e_ts is not None and ts != e_ts:
            return ('root-span-gets-the-root-samplers-result', f'ts {ts} want {e_ts}')
        if calls != e_calls:
            return ('root-sampler-consulted-exactly-once-for-a-root-span', f'calls={calls}')
        return None
    if t[1] == 'span':
        wellformed = len(t) == 6 and t[5] in HOWS and t[3].count('/') in (0, 4) and len(t[4]) == 32 and t[2].split('/')[-1] != 'pb'
        if out == 'bad-op':
            return None if not wellformed or 'ratio=7ff' in t[2] or 'ratio=fff' in t[2] else ('bad-case', out)
        m = re.fullmatch(r'dec=(\d) ts=(\S+) calls=(\d+) tid=([0-9a-f]{32}|-) sdec=(\d)', out)
        if not m:
            return ('span-observation-well-formed', out[:200])
        dec, ts, calls, tid, sdec = int(m.group(1)), m.group(2), int(m.group(3)), m.group(4), int(m.group(5))
        parts = t[2].split('/')
        how = t[5]
        # an explicit root has no parent, whatever span is active; a parent that is not valid is no parent
        parent = None if how == 'r' else parse_parent(t[3])
        want_tid = t[3].split('/')[0] if parent is not None else t[4]
        if tid != want_tid:
            return ('span-joins-its-valid-parents-trace-else-a-new-one', f'trace id {tid} want {want_tid}')
        # every participant asked about this trace id says the same: the flag on the span is the sampler's decision
        if (dec == 2) != (sdec == 2):
            return ('span-sampled-flag-is-the-samplers-decision-for-its-trace-id', f'span dec {dec}, sampler asked directly {sdec}')
        e_dec, e_ts, e_calls = spec_sample(parts, parent)
        pb = len(parts) > 1
        if pb and parent is not None:
            if dec != e_dec:
                return ('parent-based-decision-is-the-parents-sampled-bit', f'{how}: flags {parent["flags"]:02x} remote {parent["remote"]} -> dec {dec}')
            if ts != e_ts:
                return ('parent-based-trace-state-is-the-parents', f'{how}: got {ts} want {e_ts}')
            if calls != 0:
                return ('root-sampler-consulted-only-without-valid-parent', f'{how}: calls={calls}')
            return None
        if e_dec is not None and dec != e_dec:
            clause = 'always-on-off-constant' if parts[-1] in ('on', 'off') else 'root-span-gets-the-root-samplers-result' if pb else (
                'ratio-end-points' if parts[-1].startswith('ratio') else 'span-flag-and-recording-follow-the-samplers-decision')
            return (clause, f'{how}: dec {dec} want {e_dec}')
        if e_ts is not None:
            # the sampler's trace state when it gives one, else the valid parent's, else none
            want = e_ts if e_ts != 'null' else (parent['ts'] if parent is not None else '[]')
            if ts != want:
                return ('span-trace-state-is-the-samplers-else-the-valid-parents', f'{how}: ts {ts} want {want}')
        if calls != e_calls:
            return ('root-sampler-consulted-exactly-once-for-a-root-span', f'{how}: calls={calls}')
        return None
    return ('bad-case', out)


def signature(case, out, clause):
    return clause


def nontrivial(case, out):
    t = case.line.split()
    if out.startswith('bad-op') or out.startswith('CRASH'):
        return False
    if t[1] == 'ratio':
        return any(o is not None and 0 < o[0] < U64 - 1 for o in parse_ratio_out(out))
    if t[1] == 'span':
        return t[2].startswith('pb/') or ('ratio=' in t[2] and 'sdec=' in out)
    return t[2].startswith('pb/')


LEVEL_TEXT = ('Lean 4 theorems over an executable model of trace_id_ratio.cc / parent.cc / always_on.h / always_off.h in which '
              'binary64 values are exact rationals and every C++ floating-point operation is the exact result rounded by an '
              'executable 53-bit round-to-nearest-even `fl`: threshold monotone in the ratio (proved for every monotone rounding that '
              'fixes integers below 2^53, then for `fl`, for which both facts are proved), no 64-bit wrap-around, sampled at r1 => sampled '
              'at every r2 >= r1, ratio <= 0 never / >= 1 always, decision a function of the first 8 trace-id bytes and the ratio only, '
              'parent-based = parent\'s sampled bit and trace state (remote or local, any flags byte) with the root sampler consulted '
              'exactly for spans without a valid parent, on/off constant; the same at the level of spans started through a Tracer '
              '(sampleSpan: effective parent by the way it is supplied, flag = IsSampled of the one result, trace state the sampler\'s else the '
              'valid parent\'s: span_parentBased_valid_parent, span_root_delegates, span_participants_agree). The constants of CalculateThreshold are re-extracted from the '
              'source each run; the model is tied to the code by a bit-for-bit comparison of threshold_ and of decisions on generated '
              'ratio bit patterns x trace ids under ASan/UBSan.')
LEVEL_NOTE = ('Trusted: Lean kernel; axioms propext/Quot.sound/Classical.choice at most; tools/gen_c12.py; harness, generators; that the '
              'build\'s double arithmetic is IEEE-754 binary64 round-to-nearest-even without contraction and memcpy is little-endian '
              '(compared bit for bit on every generated case, not proved). NaN ratios are excluded by hypothesis (undefined behaviour in '
              'the C++). Overflow of `fl` to infinity is not modelled (all intermediate values are below 2^65).')
DESIGN_REF = 'DESIGN.md section 4, C12; Appendix E'
