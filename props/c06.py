"""C06 - counter measurements are conserved across readers, temporalities, handles, view streams (and threads)."""
import re
from vcore import Case, Harness, SDK_INCLUDES, sdk_sources

ID = 'C06'
GEN = ['MetricsTemporal', 'MeterRegLock', 'GetScopeLock']
LEAN_TARGETS = ['OtelVerif.Props.C06', 'OtelVerif.Props.C06Race']
THEOREMS = ['Otel.C06.' + t for t in (
    # the inductive invariant and the refinement to the specification (storage level)
    'inv_run', 'collect_matches',
    # the clauses, for every history of one stream
    'interval_exact_rev', 'delta_conservation_rev', 'cumulative_running_total_rev',
    'reader_noninterference_step', 'reader_noninterference_rev',
    'delta_intervals_abut_rev', 'cumulative_starts_at_sdk_start_rev',
    # chronological restatements
    'interval_exact', 'first_interval_exact', 'delta_conservation', 'cumulative_running_total',
    'reader_noninterference', 'delta_intervals_abut', 'cumulative_starts_at_sdk_start',
    # the meter: projection of a meter history on a stream, handles and view streams
    'minv_run', 'streamOut_eq', 'meter_collect_matches', 'meter_outs_cons', 'meter_outs_other', 'recorded_proj',
    'every_handle_counts_cumulative', 'every_handle_counts_delta', 'every_view_stream_registered',
    # record/collect races: every interleaving of add / swap / build steps
    'sched_conservation', 'sched_conservation_quiescent', 'sched_no_lost_update',
    # literal facts of the source text the model depends on (generated fragment)
    'gen_fast_path', 'gen_sum_signs',
    # map algebra the above stands on
)] + ['Otel.C06Race.' + t for t in ('handles_share_one_storage', 'handed_out_storage_stays_registered', 'gen_meter_registry_lock_facts')] + ['Otel.GetScopeLock.reachable_inv'] + ['Otel.Temporal.' + t for t in ('valAt_addTo', 'valAt_mergeInto', 'valAt_mergeAll', 'valAt_eq_lookup', 'NoDup_mergeAll', 'fastPath_def')]
HARNESSES = [Harness('s_c06', ['harness/s_c06.cc'], sdk_srcs=sdk_sources('common', 'resource', 'version', 'metrics'),
                     includes=SDK_INCLUDES)]
H = 's_c06'
SHIM = ['-include', 'harness/shim/detsched.h', '-DNDEBUG']
H_SYN = Harness('d_syn', ['harness/d_sync.cc'], flags=SHIM, includes=SDK_INCLUDES, plain_srcs=['harness/shim/detsched.cc'],
                sdk_srcs=sdk_sources('common', 'resource', 'version', 'metrics'))
H_MRG = Harness('d_mrg', ['harness/d_meterreg.cc'], flags=SHIM, includes=SDK_INCLUDES, plain_srcs=['harness/shim/detsched.cc'],
                sdk_srcs=sdk_sources('common', 'resource', 'version', 'metrics'))
HARNESSES = HARNESSES + [H_SYN, H_MRG]
RULE = ('histories of 20-200 operations (create handle / Add / Collect; 8% of them with real-thread `race` operations: 1-4 recorder threads against a collecting thread) on a real MeterProvider with 1-3 explicit readers of '
        'mixed temporality (a quarter of the histories: readers that select the temporality by instrument type, readers added with a MetricFilter, '
        'provider ForceFlush / Shutdown in between), 0-3 views (every third with a description), 1-3 instrument names x {counter, up-down} x {long, double} created through the '
        '(name) / (name, description) / (name, description, unit) forms, several handles per '
        'instrument, attribute sets from a pool of 6; every collection output of model and implementation compared, and the '
        'property evaluated on the implementation output by an independent reference. non-trivial = the history has at '
        'least one Add and two collections; distinct = distinct case line')
TRUSTED = ['double sums are exact in the generated range (values k*2^-10, |k| <= 2^20, <= 200 operations); int64 overflow is not generated',
           'system_clock is non-decreasing while the harness runs (stamps are mapped to collection indices through disjoint windows)']
ASSUMPTIONS = ['attribute-set canonicalisation, attribute filters and the cardinality limit are C08 (histories stay far below the limit)',
               'the set of readers is fixed before the first instrument is created']

KINDS = ['cl', 'cd', 'ul', 'ud']
READER_RE = re.compile(r'[DCPQ](~[0-2])?')


def rtemp(tok, kind):
    """temporality reader `tok` asks for, for an instrument of `kind`: D / C for every type, P = delta for Counter and
    cumulative for UpDownCounter, Q the other way round (a selector by instrument type)"""
    m = tok[0]
    if m in 'DC':
        return m
    counter = kind[0] == 'c'
    return ('D' if counter else 'C') if m == 'P' else ('C' if counter else 'D')


def rfilter(tok):
    """mode of the MetricFilter the reader was added with (None: the plain AddMetricReader(reader))"""
    return int(tok[2]) if len(tok) == 3 else None


def stream_digit(views, name, kind, j):
    """last digit of the exported stream name: v<g> of the j-th matching view, i<name> under the default view"""
    idx = [g for g, (n, t) in enumerate(views) if str(n) == name and t == kind[0]]
    return idx[j] % 10 if j < len(idx) else int(name.split(':')[-1]) % 10


def filtered(flt, digit, want):
    """what a reader with filter mode `flt` is to be given of a stream whose points would be `want`:
    (verdict 'accept' | 'drop' | 'partial', the points it may see)"""
    if flt is None:
        return 'accept', want
    x = (digit + flt) % 3
    if x == 0:
        return 'accept', want
    if x == 1:
        return 'drop', {}
    return 'partial', {a: v for a, v in want.items() if (int(a) + flt) % 2 == 0}


def line(cfg_readers, views, ops):
    v = ','.join(f'{n}:{t}' for n, t in views) if views else '-'
    return 'met cfg ' + ','.join(cfg_readers) + ' ' + v + ' ; ' + ' ; '.join(ops)


def corpus():
    out = []
    c = lambda l, tag: out.append(Case(l, H, ('corpus', tag), 'corpus'))
    # D08: single delta reader, second point must start where the first ended
    c(line(['D'], [], ['create 0 cl', 'add 0 1 5', 'collect 0', 'add 0 1 7', 'collect 0']), 'D08-delta-fast-path-start')
    c(line(['D'], [], ['create 0 ud', 'add 0 2 5', 'collect 0', 'collect 0', 'add 0 2 -7', 'collect 0', 'add 0 3 1', 'collect 0']), 'D08-delta-fast-path-start')
    # D09: two handles for one instrument
    c(line(['C'], [], ['create 0 cl', 'create 0 cl', 'add 0 1 10', 'add 1 1 100', 'collect 0']), 'D09-second-handle')
    c(line(['D', 'C'], [], ['create 0 cl', 'add 0 1 10', 'collect 0', 'create 0 cl', 'add 0 1 1', 'add 1 1 100', 'collect 1', 'collect 0']), 'D09-second-handle')
    # D09: two views on one instrument
    c(line(['C'], [(0, 'c'), (0, 'c')], ['create 0 cl', 'add 0 1 10', 'collect 0']), 'D09-second-view')
    c(line(['D', 'D'], [(0, 'u'), (1, 'c'), (0, 'u')], ['create 0 ud', 'create 1 cd', 'add 0 1 -10', 'add 1 0 3', 'collect 0', 'add 0 1 4', 'collect 1', 'collect 0']), 'D09-second-view')
    # basics
    c(line(['D', 'C'], [], ['create 0 cl', 'add 0 3 5', 'collect 0', 'add 0 3 7', 'add 0 4 1', 'collect 1', 'collect 0', 'collect 0', 'collect 1']), 'mixed-readers')
    c(line(['C'], [], ['collect 0', 'create 0 cd', 'collect 0', 'add 0 0 -5', 'collect 0', 'add 0 0 5', 'collect 0']), 'negative-on-counter')
    c(line(['D'], [], ['create 0 cl', 'add 0 0 -3', 'collect 0', 'add 0 2 0', 'collect 0']), 'negative-on-counter')
    c(line(['D', 'D', 'C'], [], ['create 0 ul', 'collect 2', 'add 0 1 -4', 'collect 1', 'collect 1', 'add 0 1 9', 'collect 0', 'collect 2']), 'mixed-readers')
    # real threads: recorders racing a collector
    c(line(['D', 'C'], [], ['create 0 cl', 'add 0 3 5', 'race 0 3 500 0 10', 'collect 1', 'add 0 1 2', 'collect 0', 'collect 1']), 'race')
    c(line(['D'], [], ['create 0 ud', 'create 1 cl', 'add 1 2 7', 'add 0 1 -3', 'race 0 4 300 0 8', 'add 0 1 1', 'add 1 2 1', 'collect 0']), 'race')
    c(line(['C', 'D'], [(0, 'c'), (0, 'c')], ['create 0 cd', 'race 0 2 1000 0 20', 'collect 1', 'race 0 1 10 1 2', 'collect 0']), 'race')
    # temporality selected by instrument type (P: counters delta, up-down counters cumulative; Q the other way round)
    c(line(['P'], [], ['create 0 cl', 'create 0 ul', 'add 0 1 5', 'add 1 1 -3', 'collect 0', 'add 0 1 2', 'add 1 1 -1', 'collect 0', 'collect 0']), 'temporality-by-type')
    c(line(['Q', 'P', 'D'], [(0, 'c')], ['create 0 cd', 'create 1 ud', 'add 0 2 7', 'add 1 0 -7', 'collect 1', 'collect 0', 'add 0 2 1', 'add 1 3 4', 'collect 2', 'collect 0', 'collect 1']), 'temporality-by-type')
    c(line(['P', 'C'], [], ['create 0 ul', 'create 1 cl', 'add 1 1 1', 'race 1 2 200 0 6', 'race 0 2 100 0 3', 'collect 1', 'collect 0']), 'temporality-by-type')
    # a MetricFilter on a reader (AddMetricReader(reader, filter)): drop / accept / accept-partial by stream, other readers unaffected
    c(line(['D~0', 'C'], [], ['create 0 cl', 'create 1 cl', 'create 2 cl', 'add 0 1 5', 'add 1 1 6', 'add 2 1 7', 'add 2 2 8', 'collect 0', 'collect 1', 'add 2 2 1', 'add 2 4 1', 'collect 0', 'collect 1']), 'metric-filter')
    c(line(['C~1', 'D~2', 'D'], [(0, 'c'), (0, 'c'), (1, 'u')], ['create 0 cl', 'create 1 ud', 'add 0 0 5', 'add 0 3 1', 'add 1 2 -6', 'collect 0', 'collect 1', 'collect 2', 'add 0 0 1', 'add 1 1 1', 'collect 1', 'collect 0', 'collect 2']), 'metric-filter')
    c(line(['D~2'], [], ['create 0 cl', 'add 0 1 5', 'collect 0', 'add 0 2 5', 'collect 0', 'add 0 2 1', 'collect 0']), 'metric-filter')
    # two meters under one provider: equally named instruments are different instruments, the views select meter m only, every collection takes both
    c(line(['D', 'C'], [(0, 'c'), (0, 'c')], ['create 0 cl', 'create 0 cl n', 'create 1 ud n', 'add 0 1 5', 'add 1 1 7', 'add 2 0 -2', 'collect 0', 'add 1 1 1', 'collect 1', 'create 0 cl n', 'add 3 1 100', 'collect 0', 'collect 1']), 'two-meters')
    c(line(['P~1'], [], ['create 2 cl n', 'create 2 ul n', 'create 2 cl', 'add 0 2 5', 'add 1 2 6', 'add 2 2 7', 'collect 0', 'race 0 2 100 0 3', 'collect 0']), 'two-meters')
    c('met cfg D - ; create 0 cl m', 'malformed')
    # ForceFlush / Shutdown of the provider take nothing away; readers may go on collecting
    c(line(['D', 'C'], [(0, 'c'), (0, 'c'), (0, 'c')], ['create 0 cl', 'add 0 1 5', 'flush', 'collect 0', 'add 0 1 2', 'shutdown', 'add 0 2 1', 'collect 1', 'collect 0', 'shutdown', 'flush', 'collect 0']), 'flush-shutdown')
    # every instrument-creation form (name) / (name, description) / (name, description, unit), views with a description
    c(line(['C'], [(0, 'c'), (1, 'c'), (2, 'c'), (2, 'u')], ['create 0 cl', 'create 0 cd', 'create 1 cl', 'create 1 ul', 'create 2 cl', 'create 2 ud', 'create 2 ul', 'add 0 1 1', 'add 1 1 1', 'add 2 1 1', 'add 3 1 1', 'add 4 1 1', 'add 5 1 1', 'add 6 1 1', 'collect 0']), 'descriptor-forms')
    # malformed
    c('met cfg D~3 - ; create 0 cl', 'malformed')
    c('met cfg D~ - ; create 0 cl', 'malformed')
    c('met cfg D - ; create 0 cl ; flush 1', 'malformed')
    c('met cfg D - ; add 0 1 5', 'malformed')
    c('met cfg X - ; create 0 cl', 'malformed')
    c('met cfg D - ; create 0 cl ; collect 1', 'malformed')
    c('met create 0 cl', 'malformed')
    return out


def gen_history(rng, nops, shape, shape_race=False, widen=False):
    nr = rng.choice([1, 1, 2, 2, 3]) if shape != 'single' else 1
    readers = [rng.choice('DC') for _ in range(nr)]
    if shape == 'single-delta':
        readers = ['D']
    if widen:
        # a quarter of the histories: temporality selectors by instrument type and / or MetricFilters on some readers
        readers = [(rng.choice('PQ') if rng.random() < 0.5 else t) + (f'~{rng.randrange(3)}' if rng.random() < 0.4 else '') for t in readers]
    names = rng.choice([1, 1, 2, 3])
    views = []
    if rng.random() < 0.5:
        for _ in range(rng.randrange(1, 4)):
            views.append((rng.randrange(names), rng.choice('cu')))
    pool = rng.sample(range(0, 8), rng.choice([1, 2, 3, 6]))
    ops = []
    handles = []
    pcollect = rng.choice([0.1, 0.25, 0.5])
    pcreate = rng.choice([0.02, 0.05, 0.15])
    prace = 0.03 if shape_race else 0.0
    pctl = 0.02 if widen else 0.0
    two_meters = widen and rng.random() < 0.5      # some instruments live on a second meter of the provider
    for _ in range(nops):
        r = rng.random()
        if pctl and rng.random() < pctl:
            ops.append(rng.choice(['flush', 'flush', 'shutdown']))
            continue
        if handles and rng.random() < prace:
            ops.append(f'race {rng.randrange(len(handles))} {rng.randrange(1, 5)} {rng.choice([1, 50, 200, 600])} {rng.randrange(nr)} {rng.choice([1, 2, 5, 12])}')
            continue
        if not handles or r < pcreate:
            k = rng.choice(KINDS) if rng.random() < 0.6 or not handles else rng.choice(handles)[1]
            n = rng.randrange(names) if rng.random() < 0.6 or not handles else rng.choice(handles)[0]
            on_n = two_meters and rng.random() < 0.4
            ops.append(f'create {n} {k}' + (' n' if on_n else ''))
            handles.append((n, k))
        elif r < pcreate + pcollect:
            ops.append(f'collect {rng.randrange(nr)}')
        else:
            h = rng.randrange(len(handles))
            k = handles[h][1]
            a = rng.choice(pool)
            if k[1] == 'd':
                v = rng.choice([rng.randrange(0, 5000), rng.randrange(0, 1 << 20), 1, 1024, 0])
            else:
                v = rng.choice([rng.randrange(0, 100), rng.randrange(0, 1 << 40), 1, 0])
            if k[0] == 'u' and rng.random() < 0.4:
                v = -v
            elif k[0] == 'c' and rng.random() < 0.04:
                v = -v          # a negative value on a monotonic instrument is ignored
            ops.append(f'add {h} {a} {v}')
    return line(readers, views, ops)


def gen_race_schedules(rng, tier):
    """recorders racing collectors on the real SyncMetricStorage under the deterministic scheduler (Engine D)"""
    out = []
    for _ in range(6000 if tier == 'thorough' else 500):
        temps = rng.choice(['D', 'C', 'DC', 'DD', 'CD'])
        nrec = rng.randrange(1, 4); adds = rng.randrange(1, 4); ncol = rng.randrange(1, 4)
        nth = nrec + len(temps)
        n = rng.randrange(20, 160)
        if rng.random() < 0.5:
            sched = [rng.randrange(nth) for _ in range(n)]
        else:
            cur = rng.randrange(nth); sched = []
            for _k in range(n):
                if rng.random() < 0.25:
                    cur = rng.randrange(nth)
                sched.append(cur)
        out.append(Case(f'syn {temps} {nrec} {adds} {ncol} ; ' + ' ; '.join(f't{t}' for t in sched), 'd_syn', ('race-schedule', temps)))
    return out


def gen_registry_schedules(rng, tier):
    """threads that obtain their first handle of one instrument at the same time and record through it, on the real Meter
    under the deterministic scheduler: all interleavings of the creation phase for two threads, then random schedules"""
    out = []
    # systematic: two threads on the same instrument, every interleaving of their first 5 steps each (the creation), then drained
    import itertools
    for kind in 'cuh':
        for k in (3, 4, 5):
            for pos in itertools.combinations(range(2 * k), k):
                sched = ['t1'] * (2 * k)
                for p in pos:
                    sched[p] = 't0'
                out.append(Case(f'mrg 2 aa 2 {kind} ; ' + ' ; '.join(sched), 'd_mrg', ('registry-race', 'systematic')))
            if tier != 'thorough' and kind != 'c':
                break
    for _ in range(4000 if tier == 'thorough' else 400):
        nth = rng.choice([2, 2, 3, 4])
        names = ''.join(rng.choice('aabA') for _ in range(nth))
        adds = rng.randrange(1, 4)
        n = rng.randrange(6, 60)
        if rng.random() < 0.5:
            sched = [rng.randrange(nth) for _ in range(n)]
        else:
            cur = rng.randrange(nth); sched = []
            for _k in range(n):
                if rng.random() < 0.3:
                    cur = rng.randrange(nth)
                sched.append(cur)
        col = rng.random() < 0.4          # a collector thread (index nth) racing the creators
        if col:
            sched = [t if rng.random() < 0.7 else nth for t in sched]
        out.append(Case(f'mrg {nth} {names} {adds} {rng.choice("cuh")}{"+" if col else ""} ; ' + ' ; '.join(f't{t}' for t in sched), 'd_mrg',
                        ('registry-race', 'random+collector' if col else 'random')))
    out.append(Case('mrg 0 - 1 c', 'd_mrg', ('registry-race', 'malformed')))
    out.append(Case('mrg 2 ad 1 c ; t0', 'd_mrg', ('registry-race', 'malformed')))
    return out


def generate(rng, tier):
    return _generate(rng, tier) + gen_race_schedules(rng, tier) + gen_registry_schedules(rng, tier)


def _generate(rng, tier):
    big = tier == 'thorough'
    out = []
    n = 60000 if big else 5000
    for i in range(n):
        shape = rng.choice(['mixed', 'mixed', 'mixed', 'single', 'single-delta'])
        nops = rng.choice([20, 40, 80, 120, 200])
        race = rng.random() < 0.08
        widen = i % 4 == 3
        out.append(Case(gen_history(rng, nops if not race else min(nops, 80), shape, race, widen), H,
                        ('history', shape, f'ops<={nops}') + (('real-thread-race',) if race else ()) + (('selectors/filters/flush',) if widen else ())))
    # a reader that lags far behind another one: reader 0 collects after every measurement, the others only at the end (or
    # once in the middle) - nothing recorded in between may be taken away from the late reader, however many of the other
    # reader's collections have gone by (lengths around powers of two and well beyond a hundred)
    for n_col in ([130, 260] if not big else [64, 100, 127, 128, 129, 130, 200, 257, 300, 520, 1030]):
        readers = rng.choice([['D', 'D'], ['D', 'C', 'D'], ['C', 'D'], ['D', 'D', 'D']])
        kind = rng.choice(['cl', 'cd', 'ul'])
        ops = [f'create 0 {kind}']
        mid = rng.randrange(n_col) if rng.random() < 0.5 else -1
        for i in range(n_col):
            ops.append(f'add 0 {rng.choice([0, 1, 2])} {rng.randrange(1, 50)}')
            ops.append('collect 0')
            if i == mid:
                ops.append(f'collect {len(readers) - 1}')
        for r in range(1, len(readers)):
            ops.append(f'collect {r}')
        ops.append('collect 0')
        out.append(Case(line(readers, [], ops), H, ('history', 'lagging-reader', f'collections-{n_col}')))
    # a reader attached to a provider that is already in use (oracle only)
    for _ in range(60 if big else 12):
        out.append(Case(f'late {rng.choice("DC")} {rng.randrange(0, 41)} {rng.randrange(1, 41)}', H, ('late-reader',)))
    # malformed stream
    for i in range(40):
        l = gen_history(rng, 12, 'mixed')
        toks = l.split(' ')
        j = rng.randrange(1, len(toks))
        toks[j] = rng.choice(['x', '-1', '99', 'collect', '', 'zz', '1e3'])
        out.append(Case(' '.join(t for t in toks if t != ''), H, ('malformed-mutation',)))
    return out


# ------------------------------------------------------------------------------------------------
# implementation-side oracle: the property, evaluated on what the readers received

MD_RE = re.compile(r'^(\S+) ([DC?]) (\S+) (\S+) \{(.*)\}$')


def parse_collect(obs):
    """'[label T start end {a=v,..} | ...]' -> list of (label, T, start, end, {a: v})"""
    assert obs.startswith('[') and obs.endswith(']'), obs
    body = obs[1:-1]
    res = []
    if not body:
        return res
    for part in body.split(' | '):
        m = MD_RE.match(part)
        if not m:
            raise ValueError('unparsable MetricData: ' + part)
        pts = {}
        if m.group(5):
            for kv in m.group(5).split(','):
                a, v = kv.split('=')
                if a in pts:
                    raise ValueError('duplicate point for one attribute set: ' + part)
                pts[a] = v
        res.append((m.group(1), m.group(2), m.group(3), m.group(4), pts))
    return res


def effective(kind, v):
    """value as the instrument accepts it: monotonic instruments ignore negative values"""
    if kind[0] == 'c' and v < 0:
        return None if kind[1] == 'd' else 0
    return v


def oracle(case, out):
    if case.line.startswith('late '):
        if out.startswith('CRASH'):
            return ('no-crash', out)
        t = case.line.split()
        ok = len(t) == 4 and t[1] in 'DC' and t[2].isdigit() and t[3].isdigit() and int(t[2]) <= 40 and 1 <= int(t[3]) <= 40
        if out == 'bad-op':
            return ('wellformed-case-accepted', out) if ok else None
        m = re.fullmatch(r'late first=(-?\d+) second=(-?\d+) r0=(-?\d+) before=(\d+) after=(\d+)', out)
        if not m:
            return ('summary', out[-100:])
        first, second, r0, before, after = map(int, m.groups())
        if r0 != before + after + 5:
            return ('one-readers-collection-never-takes-measurements-away-from-another', f'reader 0 received {r0} of {before + after + 5}')
        want2 = 5 if t[1] == 'D' else after + 5
        if first != after or second != want2:
            return ('a-reader-attached-later-receives-everything-recorded-after-it-was-attached',
                    f'late {t[1]} reader: first collection {first} (recorded since it was attached: {after}), second {second} (want {want2})')
        return None
    if case.line.startswith('mrg '):
        if out.startswith('CRASH'):
            return ('handles-obtained-concurrently/no-crash', out)
        if out == 'bad-op':
            return None if re.fullmatch(r'mrg [1-4] [abcABC]{1,4} [1-5] [cuh][+]?( ; t\d+)*', case.line) is None or len(case.line.split()[2]) != int(case.line.split()[1]) else ('wellformed-case-accepted', out)
        m = re.search(r'done=(\d) rec=(\S+) got=(\S+)$', out)
        if not m or m.group(1) != '1':
            return ('handles-obtained-concurrently/terminates', out[-120:])
        rec = dict(x.split(':') for x in m.group(2).split(','))
        for x in m.group(3).split(','):
            nm, v = x.split(':')
            tot, streams = v.split('/')
            if streams != '1':
                return ('one-stream-per-instrument-however-many-handles', f'instrument {nm}: {streams} streams exported')
            if tot != rec[nm]:
                return ('every-handle-of-an-instrument-records-into-its-stream', f'instrument {nm}: recorded {rec[nm]} through all handles, the reader was given {tot}')
        return None
    if case.line.startswith('syn '):
        if out.startswith('CRASH'):
            return ('recorded-concurrently-with-collections/no-crash', out)
        m = re.search(r'done=(\d) rec=(-?\d+)((?: r\d+=-?\d+)*)$', out)
        if not m or m.group(1) != '1':
            return ('recorded-concurrently-with-collections/terminates', out[-120:])
        for r, v in re.findall(r' r(\d+)=(-?\d+)', m.group(3)):
            if v != m.group(2):
                return ('recorded-concurrently-with-collections', f'recorded {m.group(2)}, reader {r} was given {v} in total')
        return None
    if out.startswith('CRASH'):
        return ('never-crashes', out)
    toks = case.line.split(' ')
    ops = ' '.join(toks[1:]).split(' ; ')
    if out == 'bad-op':
        return None if bad_case(ops) else ('wellformed-history-is-executed', out)
    obs = out.split(' ; ')
    if len(obs) != len(ops):
        return ('one-observation-per-operation', f'{len(obs)} observations for {len(ops)} operations')
    cfg = ops[0].split(' ')
    readers = cfg[1].split(',')
    views = [] if cfg[2] == '-' else [(int(x.split(':')[0]), x.split(':')[1]) for x in cfg[2].split(',')]
    nr = len(readers)
    handles = []                       # (name, kind); name = "3" on meter m, "n:3" on the second meter n (no view selects that meter)
    total = {}                         # (name, kind) -> {a: running total}
    since = [dict() for _ in range(nr)]  # per reader: (name, kind) -> {a: sum since its last collection}
    last_end = [dict() for _ in range(nr)]  # per reader: label -> end stamp of the last MetricData
    ncollect = 0

    def nstreams(name, kind):
        m = sum(1 for (n, t) in views if str(n) == name and t == kind[0])
        return m if m else 1

    mystamps = [set() for _ in range(nr)]   # per reader: the stamps of its own collections

    def stamp_no(x):
        return 0 if x == 'sdk' else int(x[1:]) if x[1:].isdigit() else -1

    for op, ob in zip(ops[1:], obs[1:]):
        t = op.split(' ')
        if t[0] in ('flush', 'shutdown'):
            if ob != 'ok':
                return (f'provider-{t[0]}-succeeds', ob)
        elif t[0] == 'create':
            handles.append((('n:' if len(t) == 4 else '') + t[1], t[2]))
            if ob != f'h{len(handles) - 1}':
                return ('create-returns-a-handle', ob)
        elif t[0] == 'add':
            name, kind = handles[int(t[1])]
            v = effective(kind, int(t[3]))
            if v is not None:
                total.setdefault((name, kind), {})
                total[(name, kind)][t[2]] = total[(name, kind)].get(t[2], 0) + v
                for r in range(nr):
                    d = since[r].setdefault((name, kind), {})
                    d[t[2]] = d.get(t[2], 0) + v
        elif t[0] == 'race':
            # collect r ; T*N + 1 concurrent/late adds of one unit ; K collects: printed per stream is the sum of the
            # delta points (delta reader) or the last cumulative points - conservation makes it schedule-independent
            hd, T, N, r, K = (int(x) for x in t[1:6])
            name, kind = handles[hd]
            adds = {}
            for th in range(T):
                adds[str(th % 3 + 1)] = adds.get(str(th % 3 + 1), 0) + N
            adds['1'] = adds.get('1', 0) + 1
            total.setdefault((name, kind), {})
            for a, v in adds.items():
                total[(name, kind)][a] = total[(name, kind)].get(a, 0) + v
                for rr in range(nr):
                    d = since[rr].setdefault((name, kind), {})
                    d[a] = d.get(a, 0) + v
            m = re.fullmatch(r'race \[(.*)\]', ob)
            if not m:
                return ('recorded-concurrently-with-collections', 'unreadable race summary: ' + ob)
            got = {}
            if m.group(1):
                for part in m.group(1).split(' | '):
                    label, body = part.split(' ', 1)
                    got[label] = dict(kv.split('=') for kv in body[1:-1].split(',')) if body != '{}' else {}
            streams = {}
            for (nm, kd) in dict.fromkeys(handles):
                for j in range(nstreams(nm, kd)):
                    streams[f'{nm}.{kd}.{j}'] = (nm, kd)
            for label in got:
                if label not in streams:
                    return ('only-configured-streams', f'{label} in race summary')
            for label, key in streams.items():
                want = since[r].get(key, {}) if rtemp(readers[r], key[1]) == 'D' else total.get(key, {})
                verdict, want = filtered(rfilter(readers[r]), stream_digit(views, key[0], key[1], int(label.split('.')[2])), want)
                if verdict == 'drop' and label in got:
                    return ('metric-filter-drops-the-stream', f'{label} in race summary of reader {r} ({readers[r]})')
                pts = got.get(label, {})
                for a in set(want) | set(pts):
                    if verdict == 'partial' and a not in want:
                        return ('metric-filter-keeps-only-accepted-attribute-sets', f'race by reader {r} ({readers[r]}) stream {label}: attrs {a} reported')
                    if pts.get(a, '0') != str(want.get(a, 0)):
                        return ('recorded-concurrently-with-collections',
                                f'race by reader {r} ({readers[r]}) stream {label} attrs {a}: readers received {pts.get(a, "0")}, recorded {want.get(a, 0)}')
            first, last = ncollect + 1, ncollect + K + 1
            ncollect += K + 1
            mystamps[r].update(f'#{k}' for k in range(first, last + 1))
            for label, key in streams.items():
                if rtemp(readers[r], key[1]) == 'D':
                    if label in got:
                        # the stream of the raced handle reports in the last collection; on the single-reader fast path any
                        # other stream reported (if at all) in the first one, which took what was pending before the race
                        if key == (name, kind) or nr > 1:
                            last_end[r][label] = f'#{last}'
                        else:
                            last_end[r][label] = f'#{first}'
            since[r] = {}
        elif t[0] == 'collect':
            r = int(t[1])
            ncollect += 1
            stamp = f'#{ncollect}'
            try:
                mds = parse_collect(ob)
            except (ValueError, AssertionError) as e:
                return ('collection-output-wellformed', str(e))
            got = {}
            for (label, T, start, end, pts) in mds:
                if label in got:
                    return ('one-metricdata-per-stream', f'{label} twice in collection {stamp}')
                got[label] = (T, start, end, pts)
            streams = {}
            for (name, kind) in dict.fromkeys(handles):
                for j in range(nstreams(name, kind)):
                    streams[f'{name}.{kind}.{j}'] = (name, kind)
            for label in got:
                if label not in streams:
                    return ('only-configured-streams', f'{label} in collection {stamp}')
            flt = rfilter(readers[r])
            for label, (name, kind) in streams.items():
                many_handles = sum(1 for h in handles if h == (name, kind)) > 1
                many_streams = nstreams(name, kind) > 1
                md = got.get(label)
                pts = md[3] if md else {}
                rt = rtemp(readers[r], kind)        # the temporality this reader asks for, for this instrument type
                want = since[r].get((name, kind), {}) if rt == 'D' else total.get((name, kind), {})
                verdict, want = filtered(flt, stream_digit(views, name, kind, int(label.split('.')[2])), want)
                if verdict == 'drop' and md:
                    return ('metric-filter-drops-the-stream', f'{label} given to reader {r} ({readers[r]}) in collection {stamp}')
                for a in set(want) | set(pts):
                    if verdict == 'partial' and a not in want:
                        return ('metric-filter-keeps-only-accepted-attribute-sets', f'collection {stamp} by reader {r} ({readers[r]}) stream {label}: attrs {a} reported')
                    g = pts.get(a, '0')
                    w = want.get(a, 0)
                    if g != str(w):
                        if many_handles:
                            cl = 'every-handle-counts'
                        elif many_streams:
                            cl = 'every-view-stream-counts'
                        else:
                            cl = 'delta-interval-exact' if rt == 'D' else 'cumulative-running-total'
                        return (cl, f'collection {stamp} by reader {r} ({readers[r]}) stream {label} attrs {a}: got {g}, '
                                    f'recorded {"in its interval" if rt == "D" else "in total"} {w}')
                if md:
                    T, start, end, _ = md
                    if T != rt:
                        return ('temporality-of-the-reader', f'{label}: {T} for reader {r} ({readers[r]})')
                    if end != stamp:
                        return ('interval-ends-at-collection', f'{label}: end {end} in collection {stamp}')
                    if rt == 'C':
                        if start != 'sdk':
                            return ('cumulative-starts-at-sdk-start', f'{label}: start {start} in collection {stamp}')
                    else:
                        exp = last_end[r].get(label, 'sdk')
                        if flt is None or verdict == 'accept':
                            if start != exp:
                                return ('delta-intervals-abut', f'{label}: reader {r} start {start} in collection {stamp}, previous point ended at {exp}')
                        elif not ((start == 'sdk' or start in mystamps[r]) and stamp_no(start) >= stamp_no(exp)):
                            # a partially accepted stream is withheld from the reader when no accepted attribute set has a point:
                            # its next point starts at one of this reader's own collections, not before the last point it was given
                            return ('delta-intervals-abut', f'{label}: reader {r} start {start} in collection {stamp}: not a collection of this reader at or after {exp}')
                    last_end[r][label] = end
            mystamps[r].add(stamp)
            since[r] = {}
        else:
            return ('bad-case', op)
    return None


def bad_case(ops):
    """is the case line malformed (so that `bad-op` is the right answer)?"""
    try:
        cfg = ops[0].split(' ')
        if len(cfg) != 3 or cfg[0] != 'cfg':
            return True
        readers = cfg[1].split(',')
        if not readers or len(readers) > 4 or any(not READER_RE.fullmatch(r) for r in readers):
            return True
        if cfg[2] != '-':
            vs = cfg[2].split(',')
            if len(vs) > 4:
                return True
            for v in vs:
                n, t = v.split(':')
                if not n.isdigit() or int(n) >= 8 or t not in ('c', 'u'):
                    return True
        handles = []
        for op in ops[1:]:
            t = op.split(' ')
            if t[0] == 'create' and (len(t) == 3 or (len(t) == 4 and t[3] == 'n')):
                if not t[1].isdigit() or int(t[1]) >= 8 or t[2] not in KINDS:
                    return True
                handles.append(t[2])
            elif t[0] == 'add' and len(t) == 4:
                if not t[1].isdigit() or not t[2].isdigit() or not re.fullmatch(r'-?\d{1,14}', t[3]):
                    return True
                if int(t[1]) >= len(handles) or int(t[2]) >= 16:
                    return True
                lim = (1 << 20) if handles[int(t[1])][1] == 'd' else (1 << 40)
                if abs(int(t[3])) > lim:
                    return True
            elif t[0] == 'collect' and len(t) == 2:
                if not t[1].isdigit() or int(t[1]) >= len(readers):
                    return True
            elif t[0] in ('flush', 'shutdown') and len(t) == 1:
                pass
            elif t[0] == 'race' and len(t) == 6:
                if not all(x.isdigit() for x in t[1:]):
                    return True
                hd, T, N, r, K = (int(x) for x in t[1:])
                if hd >= len(handles) or not (1 <= T <= 4) or N > 5000 or r >= len(readers) or not (1 <= K <= 64):
                    return True
            else:
                return True
        return False
    except Exception:
        return True


def signature(case, out, clause):
    return clause


def nontrivial(case, out):
    if case.line.startswith(('syn ', 'mrg ')):
        return len({t for t in case.line.split(' ; ')[1:]}) >= 2 and not out.startswith('bad-op')
    return case.line.count('; add ') >= 1 and case.line.count('; collect ') >= 2 and not out.startswith('bad-op')


LEVEL_TEXT = ('Lean 4 theorems over an executable model of TemporalMetricStorage::buildMetrics (incl. the single-delta-reader fast '
              'path), SyncMetricStorage, the sum aggregation, SyncMultiMetricStorage and the Meter registry / Collect, for EVERY '
              'history of create/Add/Collect with any fixed set of readers of mixed temporality: one inductive invariant '
              '(inv_run, Appendix D), refinement of every collection output to a specification written as recursions over the '
              'history (collect_matches, meter_collect_matches), and from it interval_exact, delta_conservation, '
              'cumulative_running_total, reader_noninterference, delta_intervals_abut, cumulative_starts_at_sdk_start, '
              'every_handle_counts, every_view_stream_registered; conservation for every interleaving of Add / swap / build '
              'steps (sched_conservation). The model is tied to the code by differential runs on a real MeterProvider.')
LEVEL_NOTE = ('Trusted: Lean kernel (axioms propext/Quot.sound/Classical.choice at most); the harness, generators and canonicalisation '
              '(time stamps mapped to collection indices). Modelled after two fix: patches (fixes/D08-*, fixes/D09-*). Partial: the '
              'record-vs-collect race clause is proved for the step system add / swap / build with Add atomic w.r.t. swap (they '
              'take the same SpinLockMutex); real-thread executions, weak-memory behaviour and the spin lock itself (C11) are not '
              'exercised by this check. int64 overflow and inexact double sums are outside the generated range. Attribute-set '
              'identity and the cardinality limit are C08.')
DESIGN_REF = 'DESIGN.md section 4, C06; Appendix D'


def model_line(case, out):
    return case.line


def agree(case, out, mout):
    if case.line.startswith('late '):
        return True      # oracle only: the protocol model has a fixed set of readers (DESIGN 9.7b)
    if case.line.startswith(('syn ', 'mrg ')):
        return out.split(' ; ')[-1] == mout      # only the schedule-independent summary is predicted
    return out == mout
