"""C09 - W3C trace-context propagation round-trips and only accepts well-formed headers."""
import re
from vcore import Case, Harness

ID = 'C09'
GEN = ['Hex', 'TraceState', 'TabHex', 'TabKv']
LEAN_TARGETS = ['OtelVerif.Props.C09', 'OtelVerif.Props.TabHex', 'OtelVerif.Props.TabHexB', 'OtelVerif.Props.TabW3c', 'OtelVerif.Props.TabKv']
THEOREMS = ['Otel.C09.' + t for t in (
    'traceId_table_lower', 'spanId_table_lower', 'traceFlags_table_lower', 'isHexDigit_iff', 'hexToInt_eq_digitVal',
    'extract_of_wellformed', 'wellformed_of_extract', 'extract_iff_wellformed', 'extract_some_valid',
    'inject_invalid_none', 'inject_shape', 'extract_inject')] + ['Otel.Tab.' + t for t in (
    'tab_hexToInt', 'tab_isValidHex1', 'tab_hexToBinary1', 'tab_hexToBinary2_digits', 'tab_hexToBinaryShort', 'tab_traceIdLower', 'tab_spanIdLower', 'tab_flagsLower', 'tab_flagsIsSampled', 'tab_flagsIsRandom', 'tab_hexToBinary2_cross', 'tab_tpFlagsByte', 'tab_tpInjectFlags', 'tab_tpVersion', 'tab_trimDrops', 'tab_trimShort', 'tab_trim3Short', 'tab_kvTokSep', 'tab_kvTokShort')]
HARNESSES = [Harness('f_c09', ['harness/f_c09.cc'])]
H = 'f_c09'
RULE = ('inject/roundtrip: random and edge ids x all 256 flag bytes x canonical trace states; extract: valid headers, '
        'every single-byte substitution of a valid header (55x256, exhaustive), insert/delete/duplicate mutations, '
        'length sweep, versions, surrounding whitespace, NUL and >=0x80 bytes. non-trivial = the case exercises a '
        'non-empty traceparent / a valid span context; distinct = distinct case line')
TRUSTED = ['std::regex (its result is compared with the translated predicate)', 'memory safety of the C++ is shown by ASan/UBSan runs on exact-size buffers, not by the theorems']
ASSUMPTIONS = ['tracestate semantics are C14\'s; the C09 oracle checks the trace state only for canonical lists']
WS = b' \t\n\v\f\r'
HEXD = b'0123456789abcdefABCDEF'


def hx(b):
    return b.hex() if b else '-'


def corpus():
    tid = bytes(range(1, 17)); sid = bytes(range(1, 9))
    out = []
    # D04: flags with letters must come out lower-case
    for f in (0xab, 0xff, 0x0a, 0xf0):
        out.append(Case(f'tc inject {tid.hex()} {sid.hex()} {f:02x} -', H, ('corpus', 'inject-flags-letters'), 'corpus'))
        out.append(Case(f'tc roundtrip {tid.hex()} {sid.hex()} {f:02x} -', H, ('corpus', 'roundtrip'), 'corpus'))
    return out


def valid_tp(rng, version=b'00', upper=False):
    tid = bytes(rng.randrange(256) for _ in range(16))
    sid = bytes(rng.randrange(256) for _ in range(8))
    if rng.random() < 0.1:
        tid = bytes(15) + bytes([rng.randrange(1, 256)])
    fl = bytes([rng.randrange(256)])
    s = version + b'-' + tid.hex().encode() + b'-' + sid.hex().encode() + b'-' + fl.hex().encode()
    if upper:
        s = bytes(c - 32 if rng.random() < 0.5 and 97 <= c <= 102 else c for c in s)
    return s


def rand_ts(rng):
    """canonical valid trace state header"""
    n = rng.choice([0, 0, 1, 2, 3, 5, 32])
    ks = []
    alpha = 'abcdefghijklmnopqrstuvwxyz0123456789'
    members = []
    for i in range(n):
        k = rng.choice(alpha) + ''.join(rng.choice(alpha + '_-*/') for _ in range(rng.randrange(0, 6))) + str(i)
        v = ''.join(chr(rng.choice([c for c in range(0x21, 0x7f) if c not in (0x2c, 0x3d)])) for _ in range(rng.randrange(1, 6)))
        members.append(f'{k}={v}')
    return ','.join(members).encode()


def generate(rng, tier):
    big = tier == 'thorough'
    out = []
    # ---- inject / roundtrip: all 256 flag bytes
    for f in range(256):
        tid = bytes(rng.randrange(256) for _ in range(16)); sid = bytes(rng.randrange(256) for _ in range(8))
        ts = rand_ts(rng)
        out.append(Case(f'tc inject {tid.hex()} {sid.hex()} {f:02x} {hx(ts)}', H, ('inject', 'all-flags')))
        out.append(Case(f'tc roundtrip {tid.hex()} {sid.hex()} {f:02x} {hx(ts)}', H, ('roundtrip', 'all-flags')))
    for _ in range(20000 if big else 300):
        tid = bytes(rng.choice([0, 0, 255, rng.randrange(256)]) if rng.random() < 0.3 else rng.randrange(256) for _ in range(16))
        sid = bytes(rng.choice([0, 0, 255, rng.randrange(256)]) if rng.random() < 0.3 else rng.randrange(256) for _ in range(8))
        r = rng.random()
        if r < 0.08: tid = bytes(16)
        elif r < 0.16: sid = bytes(8)
        elif r < 0.2: tid = bytes(15) + b'\x01'
        elif r < 0.24: sid = b'\x80' + bytes(7)
        ts = rand_ts(rng)
        op = rng.choice(['inject', 'roundtrip'])
        out.append(Case(f'tc {op} {tid.hex()} {sid.hex()} {rng.randrange(256):02x} {hx(ts)}', H, (op, 'random-ids')))
    # ---- extract: valid
    for _ in range(30000 if big else 400):
        tp = valid_tp(rng, upper=rng.random() < 0.3)
        ts = rand_ts(rng)
        out.append(Case(f'tc extract {hx(tp)} {hx(ts)}', H, ('extract', 'valid')))
    # ---- extract: every single-byte substitution of a valid header (exhaustive 55 x 256)
    base = valid_tp(rng)
    for pos in range(55):
        for b in range(256):
            m = bytearray(base); m[pos] = b
            out.append(Case(f'tc extract {hx(bytes(m))} -', H, ('extract', 'subst-55x256')))
    # ---- versions
    for v in range(256):
        ver = f'{v:02x}'.encode()
        tp = valid_tp(rng, version=ver)
        out.append(Case(f'tc extract {hx(tp)} -', H, ('extract', 'version')))
        for suf in (b'-', b'-00', b'x', b'-' + b'a' * 20, b'00', b'--'):
            out.append(Case(f'tc extract {hx(tp + suf)} -', H, ('extract', 'version-suffix')))
        out.append(Case(f'tc extract {hx(tp[:-1])} -', H, ('extract', 'version-short')))
        # the same version byte spelled with upper-case / mixed-case hex digits (the parser is case-insensitive, so FF is ff)
        for alt in sorted({ver.upper(), ver[:1].upper() + ver[1:], ver[:1] + ver[1:].upper()} - {ver}):
            out.append(Case(f'tc extract {hx(alt + tp[2:])} -', H, ('extract', 'version-case')))
            out.append(Case(f'tc extract {hx(alt + tp[2:] + b"-00")} -', H, ('extract', 'version-case')))
    # ---- whitespace around
    for _ in range(15000 if big else 300):
        tp = valid_tp(rng)
        pre = bytes(rng.choice(WS) for _ in range(rng.randrange(0, 4)))
        post = bytes(rng.choice(WS + b'\x00\xa0\x85') if rng.random() < 0.9 else rng.randrange(256) for _ in range(rng.randrange(0, 4)))
        out.append(Case(f'tc extract {hx(pre + tp + post)} -', H, ('extract', 'whitespace')))
    for w in (b'', b' ', b'   ', b'\t\n', b'\x00', b'\xa0', b' \x00 '):
        out.append(Case(f'tc extract {hx(w)} -', H, ('extract', 'blank')))
    # ---- structural mutations
    for _ in range(300000 if big else 2500):
        tp = bytearray(valid_tp(rng, version=rng.choice([b'00', b'00', b'01', b'cc', b'ff', b'fe'])))
        for _k in range(rng.randrange(1, 3)):
            r = rng.random()
            pos = rng.randrange(len(tp) + 1)
            if r < 0.25 and len(tp):
                del tp[min(pos, len(tp) - 1)]
            elif r < 0.5:
                tp.insert(pos, rng.choice(b'-0aAfFgG \x00\xff-'))
            elif r < 0.65 and len(tp):
                p = min(pos, len(tp) - 1); tp.insert(p, tp[p])
            elif r < 0.8:
                tp = tp[:pos]
            elif r < 0.9:
                tp += bytes(rng.choice(b'-0a') for _ in range(rng.randrange(1, 70)))
            else:
                # swap two dashes/fields
                parts = bytes(tp).split(b'-')
                rng.shuffle(parts); tp = bytearray(b'-'.join(parts))
        ts = rand_ts(rng) if rng.random() < 0.2 else b''
        out.append(Case(f'tc extract {hx(bytes(tp))} {hx(ts)}', H, ('extract', 'mutation')))
    # ---- length sweep of junk / hex-only / dash-only
    for n in range(0, 121):
        for alpha in (b'0', b'-', b'0123456789abcdef-', bytes(range(256))):
            s = bytes(rng.choice(alpha) for _ in range(n))
            out.append(Case(f'tc extract {hx(s)} -', H, ('extract', 'length-sweep')))
    # ---- zero ids
    z = b'00-' + b'0' * 32 + b'-' + b'1' * 16 + b'-01'
    out.append(Case(f'tc extract {hx(z)} -', H, ('extract', 'zero-id')))
    z = b'00-' + b'1' * 32 + b'-' + b'0' * 16 + b'-01'
    out.append(Case(f'tc extract {hx(z)} -', H, ('extract', 'zero-id')))
    return out


TP_RE = re.compile(rb'^([0-9a-fA-F]{2})-([0-9a-fA-F]{32})-([0-9a-fA-F]{16})-([0-9a-fA-F]{2})(-.*)?$', re.S)


def spec_extract(tp):
    """the W3C level-1 grammar, directly: returns (tid, sid, flags) or None"""
    t = tp.strip(WS)
    m = TP_RE.match(t)
    if not m:
        return None
    ver = int(m.group(1), 16)
    if ver == 0xff:
        return None
    if ver == 0 and m.group(5) is not None:
        return None
    tid = bytes.fromhex(m.group(2).decode()); sid = bytes.fromhex(m.group(3).decode())
    if tid == bytes(16) or sid == bytes(8):
        return None
    return tid, sid, int(m.group(4), 16)


def parse_ctx(s):
    m = re.fullmatch(r'tid=(\S+) sid=(\S+) fl=(\S+) remote=(\d) ts=\[(.*)\]', s)
    if not m:
        return None
    return m.group(1), m.group(2), m.group(3), m.group(4), m.group(5)


def canon_entries(ts):
    if not ts:
        return ''
    return ','.join(f'{k.hex()}:{v.hex()}' for k, v in (mem.split(b'=', 1) for mem in ts.split(b',')))


def oracle(case, out):
    t = case.line.split()
    if out.startswith('CRASH'):
        return ('never-crashes-or-reads-out-of-bounds', out)
    if t[1] in ('inject', 'roundtrip'):
        tid, sid, fl = bytes.fromhex(t[2]), bytes.fromhex(t[3]), int(t[4], 16)
        ts = b'' if t[5] == '-' else bytes.fromhex(t[5])
        valid = tid != bytes(16) and sid != bytes(8)
        if not valid:
            return None if out == 'none' else ('invalid-context-never-injected', out)
        if t[1] == 'inject':
            exp_tp = f'00-{tid.hex()}-{sid.hex()}-{fl:02x}'.encode()
            exp = f'tp={exp_tp.hex()} ts={ts.hex() if ts else "unset"}'
            if out != exp:
                m = re.match(r'tp=(\S+)', out)
                got = bytes.fromhex(m.group(1)) if m and m.group(1) not in ('unset', '-') else b''
                if got != exp_tp:
                    return ('traceparent-is-w3c-level1-lowercase-55', f'got {got!r} want {exp_tp!r}')
                return ('tracestate-written-iff-nonempty', out)
            return None
        exp = f'tid={tid.hex()} sid={sid.hex()} fl={fl:02x} remote=1 ts=[{canon_entries(ts)}]'
        return None if out == exp else ('extract-of-inject-is-identity', f'got {out} want {exp}')
    if t[1] == 'extract':
        tp = b'' if t[2] == '-' else bytes.fromhex(t[2])
        sp = spec_extract(tp)
        if out.startswith('installed-invalid'):
            return ('invalid-context-never-installed', out)
        if out.startswith('ERR'):
            return ('callers-context-unchanged', out)
        if sp is None:
            return None if out == 'none' else ('only-wellformed-headers-accepted', out)
        c = parse_ctx(out)
        if c is None:
            return ('every-wellformed-header-accepted', out)
        if (c[0], c[1], c[2], c[3]) != (sp[0].hex(), sp[1].hex(), f'{sp[2]:02x}', '1'):
            return ('exactly-the-encoded-ids-and-flags', out)
        return None
    return ('bad-case', out)


def signature(case, out, clause):
    return clause


def nontrivial(case, out):
    t = case.line.split()
    return t[2] != '-' and not out.startswith('bad-op')

LEVEL_TEXT = ('Lean 4 theorems over an executable model of http_trace_context.h / hex.h / string.h: inject_shape (55 bytes, '
              'lower-case, all 256 flag bytes), extract_inject (round trip), extract_iff_wellformed (accepts exactly the W3C '
              'level-1 grammar, for every byte string), extract_some_valid, inject_invalid_none. Digit tables, kHexDigits and '
              'sizes are re-extracted from the source each run; the model is tied to the code by a differential run '
              '(incl. the exhaustive 55x256 single-byte substitutions) under ASan/UBSan.')
LEVEL_NOTE = ('Trusted: Lean kernel; axioms propext/Quot.sound/Classical.choice at most; tools/extract.py; harness and generators; '
              'std::regex and isspace of the C library. Partial: memory safety (no out-of-bounds read) of the C++ is shown by '
              'sanitizer runs on exact-size buffers, not by a theorem; trace-state content is C14\'s.')
DESIGN_REF = 'DESIGN.md section 4, C09'
