"""C09 - W3C trace-context propagation round-trips and only accepts well-formed headers."""
import re
from vcore import Case, Harness
from props import c14 as C14     # the Python reference of the tracestate grammar (spec_from / spec_set), not the model

ID = 'C09'
GEN = ['Hex', 'TraceState', 'TabHex', 'TabKv', 'TraceHeaders']
LEAN_TARGETS = ['OtelVerif.Props.C09', 'OtelVerif.Props.TabHex', 'OtelVerif.Props.TabHexB', 'OtelVerif.Props.TabW3c', 'OtelVerif.Props.TabKv']
THEOREMS = ['Otel.C09.traceId_table_lower', 'Otel.C09.spanId_table_lower', 'Otel.C09.traceFlags_table_lower', 'Otel.C09.isHexDigit_iff', 'Otel.C09.hexToInt_eq_digitVal', 'Otel.C09.extract_of_wellformed', 'Otel.C09.wellformed_of_extract', 'Otel.C09.extract_iff_wellformed', 'Otel.C09.extract_some_valid', 'Otel.C09.inject_invalid_none', 'Otel.C09.inject_shape', 'Otel.C09.extract_inject', 'Otel.C09.fields_names', 'Otel.C09.fields_stop', 'Otel.C09.idFromHex_traceIdToHex', 'Otel.C09.idFromHex_spanIdToHex', 'Otel.C09.idFromHex_flagsToHex', 'Otel.C09.idFromHex_overlong', 'Otel.Tab.tab_hexToInt', 'Otel.Tab.tab_isValidHex1', 'Otel.Tab.tab_hexToBinary1', 'Otel.Tab.tab_hexToBinary2_digits', 'Otel.Tab.tab_hexToBinaryShort', 'Otel.Tab.tab_traceIdLower', 'Otel.Tab.tab_spanIdLower', 'Otel.Tab.tab_flagsLower', 'Otel.Tab.tab_flagsIsSampled', 'Otel.Tab.tab_flagsIsRandom', 'Otel.Tab.tab_hexToBinary2_cross', 'Otel.Tab.tab_tpFlagsByte', 'Otel.Tab.tab_tpInjectFlags', 'Otel.Tab.tab_tpVersion', 'Otel.Tab.tab_trimDrops', 'Otel.Tab.tab_trimShort', 'Otel.Tab.tab_trim3Short', 'Otel.Tab.tab_kvTokSep', 'Otel.Tab.tab_kvTokShort']
HARNESSES = [Harness('f_c09', ['harness/f_c09.cc'])]
H = 'f_c09'
RULE = ('inject/roundtrip: random and edge ids x all 256 flag bytes x canonical trace states; extract: valid headers, '
        'every single-byte substitution of a valid header (55x256, exhaustive), insert/delete/duplicate mutations, '
        'length sweep, versions, surrounding whitespace, NUL and >=0x80 bytes; tracestate headers that are messy / invalid / '
        'over-long beside a valid traceparent (the installed trace state is judged by the grammar); the same extract '
        'streams with a caller context that already holds a span (extractp); trace states built with Set instead of '
        'FromHeader (injects / roundtrips); Fields() with a declining callback; Inject of a span-less context; the public '
        'static TraceIdFromHex / SpanIdFromHex / TraceFlagsFromHex and detail::HexToBinary / IsValidHex / SplitString called '
        'directly (odd, short, over-long inputs, count 0..6); every accessor of ids / flags / context cross-checked in the '
        'harness on every printed context. non-trivial = the case exercises a '
        'non-empty traceparent / a valid span context; distinct = distinct case line')
TRUSTED = ['std::regex (its result is compared with the translated predicate)', 'memory safety of the C++ is shown by ASan/UBSan runs on exact-size buffers, not by the theorems']
ASSUMPTIONS = ['tracestate semantics are C14\'s: the C09 oracle judges the installed trace state with C14\'s Python reference of the grammar (all-or-nothing, at most 32 members)',
               'HexToBinary on a non-hex byte in a high-nibble position is undefined behaviour before C++20 (left shift of -1); it is unreachable from Extract (IsValidHex guards it) and kept out of the direct-call streams, see CANDIDATE_FINDINGS']
WS = b' \t\n\v\f\r'
HEXD = b'0123456789abcdefABCDEF'


def hx(b):
    return b.hex() if b else '-'


def corpus():
    tid = bytes(range(1, 17)); sid = bytes(range(1, 9))
    out = []
    # D04: flags with letters must come out lower-case
    for f in (0xab, 0xff, 0x0a, 0xf0):
        out.append(Case(f'tc inject {tid.hex()} {sid.hex()} {f:02x} -', H, ('corpus', 'inject-flags-letters'), 'corpus'))
        out.append(Case(f'tc roundtrip {tid.hex()} {sid.hex()} {f:02x} -', H, ('corpus', 'roundtrip'), 'corpus'))
    # further entry points (coverage audit): Fields(), span-less Inject, Set-built trace state, the static helpers
    for n in range(0, 4):
        out.append(Case(f'tc fields {n}', H, ('corpus', 'fields'), 'corpus'))
    out.append(Case('tc inject0', H, ('corpus', 'inject-no-span'), 'corpus'))
    out.append(Case(f'tc injects {tid.hex()} {sid.hex()} ab {hx(b"a=1,b=2")}', H, ('corpus', 'inject-set-built'), 'corpus'))
    out.append(Case(f'tc roundtrips {tid.hex()} {sid.hex()} ab {hx(b"a=1,b=2")}', H, ('corpus', 'roundtrip-set-built'), 'corpus'))
    out.append(Case(f'tc injects {tid.hex()} {sid.hex()} 01 -', H, ('corpus', 'inject-set-built'), 'corpus'))
    tp = f'00-{tid.hex()}-{sid.hex()}-01'.encode()
    full33 = b','.join(b'k%d=v' % i for i in range(33))
    for ts in (b'a=1', b'a=1,,b=2', b' a=1 , b=2 ', b'a=1,b', b'A=1', b'a=\x7f', full33, full33[:-6], b'a=1,' * 33, b','):
        out.append(Case(f'tc extract {hx(tp)} {hx(ts)}', H, ('corpus', 'extract-tracestate'), 'corpus'))
        out.append(Case(f'tc extractp {hx(tp)} {hx(ts)}', H, ('corpus', 'extractp'), 'corpus'))
    for bad in (b'', tp[:-1], tp + b'-', b'ff' + tp[2:], b'00-' + b'0' * 32 + tp[35:]):
        out.append(Case(f'tc extractp {hx(bad)} {hx(b"a=1")}', H, ('corpus', 'extractp'), 'corpus'))
    for w, h in (('t', b''), ('t', b'abc'), ('t', b'A' * 32), ('t', b'1' * 33), ('s', b'1' * 17), ('s', b'f'), ('f', b''), ('f', b'a'),
                 ('f', b'Ab'), ('f', b'123'), ('f', b'g'), ('f', b'1g')):
        out.append(Case(f'tc idhex {w} {hx(h)}', H, ('corpus', 'idhex'), 'corpus'))
    for n, h in ((0, b''), (0, b'1'), (1, b'1'), (1, b'12'), (1, b'123'), (2, b'123'), (4, b'abc'), (3, b'ABCDEF'), (3, b'ABCDEF0')):
        out.append(Case(f'tc hex2bin {n} {hx(h)}', H, ('corpus', 'hex2bin'), 'corpus'))
    for cnt, h in ((0, b'a-b'), (0, b''), (1, b'a-b'), (2, b'a-b-c'), (3, b'a-b-c'), (4, b'a-b-c'), (2, b'--'), (3, b''), (4, b'-')):
        out.append(Case(f'tc split 2d {cnt} {hx(h)}', H, ('corpus', 'split'), 'corpus'))
    return out


# Inputs on which the unchanged tree misbehaves; kept OUT of the default generation (the framework owner triages them).
# HexToBinary (hex.h:74) computes `HexToInt(c) << 4` with HexToInt(c) == -1 for a non-hex byte: a left shift of a negative
# value, undefined behaviour in the C++14/17 the library is built as (UBSan: "left shift of negative value -1").  Extract
# never gets there (IsValidHex is checked first); the public static helpers TraceIdFromHex / SpanIdFromHex /
# TraceFlagsFromHex do.  Observed: the harness aborts under -fsanitize=undefined; expected: some id / no UB.
CANDIDATE_FINDINGS = [
    'tc idhex f 6731',         # TraceFlagsFromHex("g1")
    'tc idhex t 7a7a',         # TraceIdFromHex("zz")
    'tc hex2bin 2 6731',       # detail::HexToBinary("g1", buf, 2)
]


def valid_tp(rng, version=b'00', upper=False):
    tid = bytes(rng.randrange(256) for _ in range(16))
    sid = bytes(rng.randrange(256) for _ in range(8))
    if rng.random() < 0.1:
        tid = bytes(15) + bytes([rng.randrange(1, 256)])
    fl = bytes([rng.randrange(256)])
    s = version + b'-' + tid.hex().encode() + b'-' + sid.hex().encode() + b'-' + fl.hex().encode()
    if upper:
        s = bytes(c - 32 if rng.random() < 0.5 and 97 <= c <= 102 else c for c in s)
    return s


def rand_ts(rng):
    """canonical valid trace state header"""
    n = rng.choice([0, 0, 1, 2, 3, 5, 32])
    ks = []
    alpha = 'abcdefghijklmnopqrstuvwxyz0123456789'
    members = []
    for i in range(n):
        k = rng.choice(alpha) + ''.join(rng.choice(alpha + '_-*/') for _ in range(rng.randrange(0, 6))) + str(i)
        v = ''.join(chr(rng.choice([c for c in range(0x21, 0x7f) if c not in (0x2c, 0x3d)])) for _ in range(rng.randrange(1, 6)))
        members.append(f'{k}={v}')
    return ','.join(members).encode()


def generate(rng, tier):
    big = tier == 'thorough'
    out = []
    # ---- inject / roundtrip: all 256 flag bytes
    for f in range(256):
        tid = bytes(rng.randrange(256) for _ in range(16)); sid = bytes(rng.randrange(256) for _ in range(8))
        ts = rand_ts(rng)
        out.append(Case(f'tc inject {tid.hex()} {sid.hex()} {f:02x} {hx(ts)}', H, ('inject', 'all-flags')))
        out.append(Case(f'tc roundtrip {tid.hex()} {sid.hex()} {f:02x} {hx(ts)}', H, ('roundtrip', 'all-flags')))
    for _ in range(20000 if big else 300):
        tid = bytes(rng.choice([0, 0, 255, rng.randrange(256)]) if rng.random() < 0.3 else rng.randrange(256) for _ in range(16))
        sid = bytes(rng.choice([0, 0, 255, rng.randrange(256)]) if rng.random() < 0.3 else rng.randrange(256) for _ in range(8))
        r = rng.random()
        if r < 0.08: tid = bytes(16)
        elif r < 0.16: sid = bytes(8)
        elif r < 0.2: tid = bytes(15) + b'\x01'
        elif r < 0.24: sid = b'\x80' + bytes(7)
        ts = rand_ts(rng)
        op = rng.choice(['inject', 'roundtrip'])
        out.append(Case(f'tc {op} {tid.hex()} {sid.hex()} {rng.randrange(256):02x} {hx(ts)}', H, (op, 'random-ids')))
    # ---- extract: valid
    for _ in range(30000 if big else 400):
        tp = valid_tp(rng, upper=rng.random() < 0.3)
        ts = rand_ts(rng)
        out.append(Case(f'tc extract {hx(tp)} {hx(ts)}', H, ('extract', 'valid')))
    # ---- extract: every single-byte substitution of a valid header (exhaustive 55 x 256)
    base = valid_tp(rng)
    for pos in range(55):
        for b in range(256):
            m = bytearray(base); m[pos] = b
            out.append(Case(f'tc extract {hx(bytes(m))} -', H, ('extract', 'subst-55x256')))
    # ---- versions
    for v in range(256):
        ver = f'{v:02x}'.encode()
        tp = valid_tp(rng, version=ver)
        out.append(Case(f'tc extract {hx(tp)} -', H, ('extract', 'version')))
        for suf in (b'-', b'-00', b'x', b'-' + b'a' * 20, b'00', b'--'):
            out.append(Case(f'tc extract {hx(tp + suf)} -', H, ('extract', 'version-suffix')))
        out.append(Case(f'tc extract {hx(tp[:-1])} -', H, ('extract', 'version-short')))
        # the same version byte spelled with upper-case / mixed-case hex digits (the parser is case-insensitive, so FF is ff)
        for alt in sorted({ver.upper(), ver[:1].upper() + ver[1:], ver[:1] + ver[1:].upper()} - {ver}):
            out.append(Case(f'tc extract {hx(alt + tp[2:])} -', H, ('extract', 'version-case')))
            out.append(Case(f'tc extract {hx(alt + tp[2:] + b"-00")} -', H, ('extract', 'version-case')))
    # ---- whitespace around
    for _ in range(15000 if big else 300):
        tp = valid_tp(rng)
        pre = bytes(rng.choice(WS) for _ in range(rng.randrange(0, 4)))
        post = bytes(rng.choice(WS + b'\x00\xa0\x85') if rng.random() < 0.9 else rng.randrange(256) for _ in range(rng.randrange(0, 4)))
        out.append(Case(f'tc extract {hx(pre + tp + post)} -', H, ('extract', 'whitespace')))
    for w in (b'', b' ', b'   ', b'\t\n', b'\x00', b'\xa0', b' \x00 '):
        out.append(Case(f'tc extract {hx(w)} -', H, ('extract', 'blank')))
    # ---- structural mutations
    for _ in range(300000 if big else 2500):
        tp = bytearray(valid_tp(rng, version=rng.choice([b'00', b'00', b'01', b'cc', b'ff', b'fe'])))
        for _k in range(rng.randrange(1, 3)):
            r = rng.random()
            pos = rng.randrange(len(tp) + 1)
            if r < 0.25 and len(tp):
                del tp[min(pos, len(tp) - 1)]
            elif r < 0.5:
                tp.insert(pos, rng.choice(b'-0aAfFgG \x00\xff-'))
            elif r < 0.65 and len(tp):
                p = min(pos, len(tp) - 1); tp.insert(p, tp[p])
            elif r < 0.8:
                tp = tp[:pos]
            elif r < 0.9:
                tp += bytes(rng.choice(b'-0a') for _ in range(rng.randrange(1, 70)))
            else:
                # swap two dashes/fields
                parts = bytes(tp).split(b'-')
                rng.shuffle(parts); tp = bytearray(b'-'.join(parts))
        ts = rand_ts(rng) if rng.random() < 0.2 else b''
        out.append(Case(f'tc extract {hx(bytes(tp))} {hx(ts)}', H, ('extract', 'mutation')))
    # ---- length sweep of junk / hex-only / dash-only
    for n in range(0, 121):
        for alpha in (b'0', b'-', b'0123456789abcdef-', bytes(range(256))):
            s = bytes(rng.choice(alpha) for _ in range(n))
            out.append(Case(f'tc extract {hx(s)} -', H, ('extract', 'length-sweep')))
    out += generate_entry_points(rng, big, base)
    # ---- zero ids
    z = b'00-' + b'0' * 32 + b'-' + b'1' * 16 + b'-01'
    out.append(Case(f'tc extract {hx(z)} -', H, ('extract', 'zero-id')))
    z = b'00-' + b'1' * 32 + b'-' + b'0' * 16 + b'-01'
    out.append(Case(f'tc extract {hx(z)} -', H, ('extract', 'zero-id')))
    return out


def uniq_ts(rng):
    """canonical valid trace state with pairwise distinct keys (so that building it with Set gives the same list)"""
    n = rng.choice([0, 1, 1, 2, 3, 5, 31, 32])
    alpha = 'abcdefghijklmnopqrstuvwxyz0123456789'
    members = []
    for i in range(n):
        k = rng.choice(alpha) + ''.join(rng.choice(alpha + '_-*/') for _ in range(rng.randrange(0, 6))) + f'_{i}'
        if rng.random() < 0.1:
            k += '@' + rng.choice(alpha) + ''.join(rng.choice(alpha + '_-*/') for _ in range(rng.randrange(0, 4)))
        v = ''.join(chr(rng.choice([c for c in range(0x21, 0x7f) if c not in (0x2c, 0x3d)])) for _ in range(rng.randrange(1, 6)))
        members.append(f'{k}={v}')
    return ','.join(members).encode()


def safe_hexish(rng, n, nonhex):
    """n bytes of hex digits (either case); with `nonhex`, some bytes in LOW-nibble / odd-leading positions are arbitrary
    (a non-hex byte in a high-nibble position is the undefined shift listed under CANDIDATE_FINDINGS)"""
    b = bytearray(rng.choice(HEXD) for _ in range(n))
    if nonhex:
        for i in range(n):
            if i % 2 != n % 2 and rng.random() < 0.3:
                b[i] = rng.choice(b'gG:@/` \x00\xff-') if rng.random() < 0.7 else rng.randrange(256)
    return bytes(b)


def generate_entry_points(rng, big, base):
    """entry points beside Inject / Extract on a fresh context that funnel into the same anchored code"""
    out = []
    mul = 20 if big else 1
    for n in range(0, 5):
        out.append(Case(f'tc fields {n}', H, ('fields', 'callback-stops-at-%d' % n)))
    out.append(Case('tc inject0', H, ('inject', 'no-span')))
    # ---- trace state built by Set (and the constructor's defaulted trace-state argument when empty)
    for _ in range(250 * mul):
        tid = bytes(rng.randrange(256) for _ in range(16)); sid = bytes(rng.randrange(256) for _ in range(8))
        r = rng.random()
        if r < 0.05: tid = bytes(16)
        elif r < 0.1: sid = bytes(8)
        op = rng.choice(['injects', 'roundtrips'])
        out.append(Case(f'tc {op} {tid.hex()} {sid.hex()} {rng.randrange(256):02x} {hx(uniq_ts(rng))}', H, (op, 'set-built-state')))
    # ---- extract: a valid (sometimes invalid) traceparent beside a messy tracestate
    pool = [b'a', b'b', b'c1', b't@s']
    for _ in range(700 * mul):
        tp = valid_tp(rng, version=rng.choice([b'00', b'00', b'00', b'01', b'fe']), upper=rng.random() < 0.2)
        if rng.random() < 0.15:
            tp = tp[:rng.randrange(len(tp))] if rng.random() < 0.5 else b'ff' + tp[2:]
        ts = C14.rheader(rng, pool)
        op = 'extract' if rng.random() < 0.6 else 'extractp'
        out.append(Case(f'tc {op} {hx(tp)} {hx(ts)}', H, (op, 'messy-tracestate')))
    # ---- extractp: the caller's context already holds a span; the extract streams again
    for _ in range(300 * mul):
        tp = valid_tp(rng, upper=rng.random() < 0.3)
        out.append(Case(f'tc extractp {hx(tp)} {hx(rand_ts(rng))}', H, ('extractp', 'valid')))
    for pos in range(55):          # a slice of the exhaustive substitution table
        for b in range(pos % 8, 256, 8):
            m = bytearray(base); m[pos] = b
            out.append(Case(f'tc extractp {hx(bytes(m))} -', H, ('extractp', 'subst-slice')))
    for _ in range(300 * mul):
        tp = bytearray(valid_tp(rng, version=rng.choice([b'00', b'00', b'01', b'ff'])))
        r = rng.random(); pos = rng.randrange(len(tp) + 1)
        if r < 0.3: del tp[min(pos, len(tp) - 1)]
        elif r < 0.6: tp.insert(pos, rng.choice(b'-0aAgG \x00\xff'))
        elif r < 0.8: tp = tp[:pos]
        else: tp += bytes(rng.choice(b'-0a') for _ in range(rng.randrange(1, 20)))
        pre = bytes(rng.choice(WS) for _ in range(rng.randrange(0, 3)))
        out.append(Case(f'tc extractp {hx(pre + bytes(tp))} {hx(rand_ts(rng) if rng.random() < 0.3 else b"")}', H, ('extractp', 'mutation')))
    # ---- the public static helpers and the detail functions, called directly
    for w, cap in (('t', 32), ('s', 16), ('f', 2)):
        for n in range(0, cap + 4):
            for rep in range(2 * mul):
                out.append(Case(f'tc idhex {w} {hx(safe_hexish(rng, n, rep % 2 == 1))}', H, ('idhex', 'len<=cap' if n <= cap else 'overlong')))
    for bn in range(0, 10):
        for n in range(0, 2 * bn + 3):
            for rep in range(2 * mul):
                out.append(Case(f'tc hex2bin {bn} {hx(safe_hexish(rng, n, rep % 2 == 1))}', H, ('hex2bin', 'fits' if n <= 2 * bn else 'overlong')))
    for b in range(256):
        out.append(Case(f'tc ishex {bytes([b]).hex()}', H, ('ishex', 'byte-sweep')))
    for _ in range(150 * mul):
        n = rng.randrange(0, 40)
        h = bytes(rng.choice(HEXD) for _ in range(n))
        if rng.random() < 0.5 and n:
            i = rng.randrange(n); h = h[:i] + bytes([rng.randrange(256)]) + h[i + 1:]
        out.append(Case(f'tc ishex {hx(h)}', H, ('ishex', 'random')))
    for _ in range(400 * mul):
        sep = rng.choice([b'-', b'-', b':', b',', b'\x00', b'\xff'])
        alpha = sep + rng.choice([b'a', b'ab0', bytes(range(256))])
        txt = bytes(rng.choice(alpha) if rng.random() < 0.7 else sep[0] for _ in range(rng.randrange(0, 14)))
        out.append(Case(f'tc split {sep.hex()} {rng.randrange(0, 7)} {hx(txt)}', H, ('split', 'random')))
    return out


TP_RE = re.compile(rb'^([0-9a-fA-F]{2})-([0-9a-fA-F]{32})-([0-9a-fA-F]{16})-([0-9a-fA-F]{2})(-.*)?$', re.S)


def spec_extract(tp):
    """the W3C level-1 grammar, directly: returns (tid, sid, flags) or None"""
    t = tp.strip(WS)
    m = TP_RE.match(t)
    if not m:
        return None
    ver = int(m.group(1), 16)
    if ver == 0xff:
        return None
    if ver == 0 and m.group(5) is not None:
        return None
    tid = bytes.fromhex(m.group(2).decode()); sid = bytes.fromhex(m.group(3).decode())
    if tid == bytes(16) or sid == bytes(8):
        return None
    return tid, sid, int(m.group(4), 16)


def parse_ctx(s):
    m = re.fullmatch(r'tid=(\S+) sid=(\S+) fl=(\S+) remote=(\d) ts=\[(.*)\]', s)
    if not m:
        return None
    return m.group(1), m.group(2), m.group(3), m.group(4), m.group(5)


def canon_entries(ts):
    if not ts:
        return ''
    return ','.join(f'{k.hex()}:{v.hex()}' for k, v in (mem.split(b'=', 1) for mem in ts.split(b',')))


def oracle(case, out):
    t = case.line.split()
    if out.startswith('CRASH'):
        return ('never-crashes-or-reads-out-of-bounds', out)
    if ' ACC:' in out:
        return ('accessors-tell-the-same-ids-and-flags', out)
    if t[1] in ('fields', 'inject0', 'idhex', 'hex2bin', 'ishex', 'split'):
        return oracle_entry_points(t, out)
    if t[1] in ('inject', 'roundtrip', 'injects', 'roundtrips'):
        tid, sid, fl = bytes.fromhex(t[2]), bytes.fromhex(t[3]), int(t[4], 16)
        ts = b'' if t[5] == '-' else bytes.fromhex(t[5])
        valid = tid != bytes(16) and sid != bytes(8)
        if not valid:
            return None if out == 'none' else ('invalid-context-never-injected', out)
        if t[1].endswith('s'):
            # the list as Set builds it, by the statement of C14 (new member first, unique keys, at most 32)
            es = []
            for mem in reversed(ts.split(b',') if ts else []):
                k, v = mem.split(b'=', 1)
                es = C14.spec_set(es, k, v)
            ts = b','.join(k + b'=' + v for k, v in es)
        if t[1] in ('inject', 'injects'):
            exp_tp = f'00-{tid.hex()}-{sid.hex()}-{fl:02x}'.encode()
            exp = f'tp={exp_tp.hex()} ts={ts.hex() if ts else "unset"}'
            if out != exp:
                m = re.match(r'tp=(\S+)', out)
                got = bytes.fromhex(m.group(1)) if m and m.group(1) not in ('unset', '-') else b''
                if got != exp_tp:
                    return ('traceparent-is-w3c-level1-lowercase-55', f'got {got!r} want {exp_tp!r}')
                return ('tracestate-written-iff-nonempty', out)
            return None
        exp = f'tid={tid.hex()} sid={sid.hex()} fl={fl:02x} remote=1 ts=[{canon_entries(ts)}]'
        return None if out == exp else ('extract-of-inject-is-identity', f'got {out} want {exp}')
    if t[1] in ('extract', 'extractp'):
        tp = b'' if t[2] == '-' else bytes.fromhex(t[2])
        sp = spec_extract(tp)
        if out.startswith('installed-invalid'):
            return ('invalid-context-never-installed', out)
        if out.startswith('ERR'):
            return ('callers-context-unchanged', out)
        if sp is None:
            return None if out == 'none' else ('only-wellformed-headers-accepted', out)
        c = parse_ctx(out)
        if c is None:
            return ('every-wellformed-header-accepted', out)
        if (c[0], c[1], c[2], c[3]) != (sp[0].hex(), sp[1].hex(), f'{sp[2]:02x}', '1'):
            return ('exactly-the-encoded-ids-and-flags', out)
        # the installed trace state: the tracestate header parsed all-or-nothing by the W3C grammar (C14's reference)
        acc = C14.spec_from(b'' if t[3] == '-' else bytes.fromhex(t[3]))
        try:
            got = C14.parse_show('[' + c[4] + ']')
        except ValueError:
            got = None
        if got is None or got not in acc:
            return ('tracestate-installed-is-the-parsed-header-or-empty', f'{out} want {C14.show(acc[0])}')
        return None
    return ('bad-case', out)


TRACEPARENT, TRACESTATE = b'traceparent', b'tracestate'


def oracle_entry_points(t, out):
    op = t[1]
    if op == 'fields':
        n = int(t[2])
        names = [TRACEPARENT, TRACESTATE]
        seen = names if n == 0 or n > 2 else names[:n]
        exp = 'f=[' + ','.join(hx(x) for x in seen) + '] r=' + ('1' if n == 0 or n > 2 else '0')
        return None if out == exp else ('fields-are-traceparent-and-tracestate', f'got {out} want {exp}')
    if op == 'inject0':
        return None if out == 'none' else ('invalid-context-never-injected', out)
    if op in ('idhex', 'hex2bin'):
        if op == 'idhex':
            n = {'t': 16, 's': 8, 'f': 1}[t[2]]
        else:
            n = int(t[2])
        h = b'' if t[3] == '-' else bytes.fromhex(t[3])
        m = re.fullmatch(r'id=(\S+)', out) if op == 'idhex' else re.fullmatch(r'r=([01]) buf=(\S+)', out)
        if not m:
            return ('hex-helper-answers', out)
        got = m.group(m.lastindex)
        got = b'' if got == '-' else bytes.fromhex(got)
        if len(got) != n:
            return ('hex-helper-fills-exactly-the-buffer', out)
        if len(h) > 2 * n:
            ok = got == bytes(n) and (op == 'idhex' or m.group(1) == '0')
            return None if ok else ('overlong-hex-yields-zero-id', out)
        if all(c in HEXD for c in h):
            want = int(h.decode() or '0', 16).to_bytes(n, 'big')
            ok = got == want and (op == 'idhex' or m.group(1) == '1')
            return None if ok else ('hex-decodes-left-padded', f'got {out} want {want.hex()}')
        return None      # non-hex input: no statement beyond "no crash" (CRASH is caught above)
    if op == 'ishex':
        h = b'' if t[2] == '-' else bytes.fromhex(t[2])
        exp = '1' if all(c in HEXD for c in h) else '0'
        return None if out == exp else ('hex-digits-of-either-case', f'got {out} want {exp}')
    if op == 'split':
        sep, cnt = bytes.fromhex(t[2]), int(t[3])
        h = b'' if t[4] == '-' else bytes.fromhex(t[4])
        parts = h.split(sep)[:cnt]
        exp = f'n={len(parts)} [' + ','.join(hx(x) for x in parts) + ']'
        return None if out == exp else ('split-first-count-fields', f'got {out} want {exp}')
    return ('bad-case', out)


def signature(case, out, clause):
    return clause


def nontrivial(case, out):
    t = case.line.split()
    return len(t) > 2 and t[2] != '-' and not out.startswith('bad-op')

LEVEL_TEXT = ('Lean 4 theorems over an executable model of http_trace_context.h / hex.h / string.h: inject_shape (55 bytes, '
              'lower-case, all 256 flag bytes), extract_inject (round trip), extract_iff_wellformed (accepts exactly the W3C '
              'level-1 grammar, for every byte string), extract_some_valid, inject_invalid_none. Digit tables, kHexDigits and '
              'sizes are re-extracted from the source each run; the model is tied to the code by a differential run '
              '(incl. the exhaustive 55x256 single-byte substitutions) under ASan/UBSan.')
LEVEL_NOTE = ('Trusted: Lean kernel; axioms propext/Quot.sound/Classical.choice at most; tools/extract.py; harness and generators; '
              'std::regex and isspace of the C library. Partial: memory safety (no out-of-bounds read) of the C++ is shown by '
              'sanitizer runs on exact-size buffers, not by a theorem; trace-state content is C14\'s.')
DESIGN_REF = 'DESIGN.md section 4, C09'
