"""C20 - nostd vocabulary types behave like the std types they stand in for."""
import re
from vcore import Case, Harness

ID = 'C20'
GEN = []
LEAN_TARGETS = ['OtelVerif.Props.C20']
THEOREMS = ['Otel.C20.' + t for t in (
    'compare_eq_lexSign', 'compare_lt_iff_lex', 'compare_eq_zero_iff', 'compare_antisymm', 'compare_total', 'lex_trans',
    'compare_trans', 'eq_iff', 'lt_iff_lex', 'gt_iff_lex',
    'find_spec', 'find_none_iff', 'substr_spec', 'substr_fails_iff', 'compare3_fails_iff', 'hash_respects_eq',
    'slice_spec', 'span_get_in_bounds', 'span_get_out_of_bounds', 'fixedSpan_terminates_iff',
    'sh_inv_run', 'sh_no_use_after_destroy', 'sh_never_destroyed_twice', 'sh_each_object_destroyed_exactly_once',
    'sh_self_assign_keeps', 'un_inv_run', 'un_no_use_after_destroy', 'un_never_destroyed_twice',
    'un_owned_or_destroyed_once', 'un_each_object_destroyed_exactly_once', 'un_unique_owner',
    'variant_get_holds', 'variant_get_some_iff', 'variant_visit_active', 'function_ref_applies')]
HARNESSES = [Harness('f_c20', ['harness/f_c20.cc'])]
H = 'f_c20'
RULE = ('three-way lock-step (nostd type | std counterpart | Lean model): string_view compare/==/!=/</>/find/substr/'
        'compare(pos,n,..)/compare(const char*)/hash/[]/iteration/const char* and std::string conversions/operator<< over byte '
        'strings with embedded NULs, bytes >= 0x80, empty strings, prefixes of one another, positions at, one past and far '
        'beyond the end (npos, 2^63); span construction (ptr+count, range, C array, std::array, container, converting, static '
        'extents incl. the mismatch -> terminate, observed in a child process), indexing in and out of bounds; unique_ptr and '
        'shared_ptr op sequences (construct / copy / move / assign incl. self-assignment / nullptr / reset / release / adopt '
        '/ swap incl. self / conversions from std pointers / destroy) over 1-5 handle slots with instance-counting payloads, '
        'state of every handle and object printed after every op; variant set/get/get_if/holds/index/visit/copy; '
        'function_ref calls; further overloads of the same operations: compare(pos,n,const char*[,count]), mixed != / reversed == '
        'with std::string and const char*, the default-constructed view, static-extent spans from whole containers (mismatch -> '
        'terminate) and their operator[], the std::array constructors, nostd::data / nostd::size, handles built / assigned from '
        'handles of a derived type, nullptr comparisons in both orders, variant move and selection by type / on a const variant, '
        'function_ref bound to a (null) function pointer object. non-trivial = a well-formed line with at least 3 operations; distinct = distinct line')
TRUSTED = ['libstdc++ std::string_view / unique_ptr / shared_ptr / variant / function as the reference the property names',
           'span: an index-checked slice written in the harness stands in for std::span (gnu++17 build)']
ASSUMPTIONS = ['span operator[] out of bounds is checked only by assert (this harness build keeps asserts; the repo build has NDEBUG)']
MAXU = 2 ** 64 - 1


def hx(b):
    return b.hex() if b else '-'


# --------------------------------------------------------------------------------------------------
# generators

def rand_bytes(rng, n):
    alpha = rng.choice([b'ab', b'a\x00b', b'\x00\x7f\x80\xff', bytes(range(256))])
    return bytes(rng.choice(alpha) for _ in range(n))


def sv_pair(rng):
    a = rand_bytes(rng, rng.choice([0, 0, 1, 2, 3, 5, 8, 17]))
    r = rng.random()
    if r < 0.2: b = a
    elif r < 0.4: b = a[:rng.randrange(len(a) + 1)]                       # prefix
    elif r < 0.55: b = a + rand_bytes(rng, rng.randrange(1, 4))            # extension
    elif r < 0.75 and a:                                                    # differs in one byte
        i = rng.randrange(len(a)); b = a[:i] + bytes([rng.choice([0, 0x7f, 0x80, 0xff, a[i] ^ 1])]) + a[i + 1:]
    else: b = rand_bytes(rng, rng.choice([0, 1, 2, 3, 5, 8]))
    if rng.random() < 0.5:
        a, b = b, a
    return a, b


def pos_near(rng, n):
    return rng.choice([0, 1, max(n - 1, 0), n, n + 1, n + 2, MAXU, MAXU - 1, 2 ** 63, 2 ** 32, rng.randrange(0, n + 3)])


def sv_ops(rng, a, b, m):
    ops = []
    for _ in range(m):
        k = rng.choice(['cmp', 'eq', 'ne', 'lt', 'gt', 'find', 'find', 'substr', 'substr', 'cmp3', 'cmp5', 'cmpc', 'hash', 'at',
                        'size', 'iter', 'cstr', 'str', 'eqs', 'eqc', 'os', 'cmp3c', 'cmp4c', 'nes', 'nec', 'ceq', 'dflt'])
        if k == 'find':
            ch = rng.choice(list(a) + [0, 0x61, 0xff]) if rng.random() < 0.8 else rng.randrange(256)
            ops.append(f'find {ch:02x} {pos_near(rng, len(a))}')
        elif k == 'substr':
            ops.append(f'substr {pos_near(rng, len(a))} {pos_near(rng, len(a))}')
        elif k == 'cmp3':
            ops.append(f'cmp3 {pos_near(rng, len(a))} {pos_near(rng, len(a))}')
        elif k == 'cmp3c':
            ops.append(f'cmp3c {pos_near(rng, len(a))} {pos_near(rng, len(a))}')
        elif k == 'cmp4c':
            ops.append(f'cmp4c {pos_near(rng, len(a))} {pos_near(rng, len(a))} {rng.choice([0, len(b), max(len(b) - 1, 0), rng.randrange(len(b) + 1)])}')
        elif k == 'cmp5':
            ops.append(f'cmp5 {pos_near(rng, len(a))} {pos_near(rng, len(a))} {pos_near(rng, len(b))} {pos_near(rng, len(b))}')
        elif k == 'at':
            if a:
                ops.append(f'at {rng.randrange(len(a))}')
        else:
            ops.append(k)
    return ops


def gen_sv(rng):
    a, b = sv_pair(rng)
    return f'sv {hx(a)} {hx(b)} ; ' + ' ; '.join(sv_ops(rng, a, b, rng.randrange(6, 20)))


def gen_sp(rng):
    base = bytes(rng.randrange(256) for _ in range(rng.choice([0, 1, 3, 4, 5, 8, 12])))
    n = len(base)
    ops = []

    def oc():
        off = rng.randrange(n + 1); return off, rng.randrange(n - off + 1)
    for _ in range(rng.randrange(4, 14)):
        k = rng.choice(['dyn', 'rng', 'copy', 'conv', 'empty', 'fix', 'convfix', 'vec', 'arr', 'carr', 'get', 'get', 'default',
                        'cfix', 'getf', 'arr2', 'util'])
        if k in ('dyn', 'rng', 'copy', 'conv', 'empty'):
            off, cnt = oc(); ops.append(f'{k} {off} {cnt}')
        elif k == 'fix':
            off, cnt = oc()
            N = cnt if cnt in (0, 1, 2, 3, 4, 8) and rng.random() < 0.9 else rng.choice([0, 1, 2, 3, 4, 8])
            ops.append(f'fix {N} {off} {cnt}')
        elif k == 'convfix':
            N = rng.choice([x for x in (0, 1, 2, 3, 4, 8) if x <= n]); ops.append(f'convfix {N} {rng.randrange(n - N + 1)}')
        elif k in ('arr', 'carr', 'arr2', 'util'):
            if n >= 4: ops.append(k)
        elif k == 'cfix':
            ops.append(f'cfix {n if n in (0, 1, 2, 3, 4, 8) and rng.random() < 0.7 else rng.choice([0, 1, 2, 3, 4, 8])}')
        elif k == 'getf':
            N = rng.choice([x for x in (0, 1, 2, 3, 4, 8) if x <= n]); off = rng.randrange(n - N + 1)
            i = rng.randrange(N) if N and rng.random() < 0.85 else rng.choice([N, N + 1, MAXU])
            ops.append(f'getf {N} {off} {i}')
        elif k == 'get':
            off, cnt = oc()
            i = rng.randrange(cnt) if cnt and rng.random() < 0.9 else rng.choice([cnt, cnt + 1, MAXU])
            ops.append(f'get {off} {cnt} {i}')
        else:
            ops.append(k)
    return f'sp {hx(base)} ; ' + ' ; '.join(ops)


def gen_ptr(rng, kind, nops):
    k = rng.choice([1, 2, 2, 3, 3, 4, 5])
    alive = [False] * k
    raws = []   # held?
    ops = []
    shared = kind == 'shp'
    while len(ops) < nops:
        vac = [i for i in range(k) if not alive[i]]
        liv = [i for i in range(k) if alive[i]]
        r = rng.random()
        if vac and (r < 0.25 or not liv):
            h = rng.choice(vac)
            c = rng.random()
            if c < 0.15: ops.append(rng.choice(['ctor', 'ctor'] if shared else ['ctor', 'ctor.n']) + f' {h}')
            elif c < 0.6 or not liv:
                ops.append(rng.choice(['ctorp', 'ctorp', 'ctorp.u', 'ctorp.su', 'ctorp.ss', 'ctorp.d'] if shared else ['ctorp', 'ctorp', 'ctorp.su', 'ctorp.d']) + f' {h}')
            elif c < 0.8 and shared: ops.append(f'ctorc {h} {rng.choice(liv)}')
            else: ops.append(f'ctorm {h} {rng.choice(liv)}')
            alive[h] = True
            continue
        if not liv:
            continue
        h = rng.choice(liv)
        g = rng.choice(liv) if rng.random() < 0.92 else h     # self-operations on purpose
        if shared:
            op = rng.choice(['dtor', 'asgc', 'asgc', 'asgc', 'asgm', 'asgm', 'asgn', 'asgp', 'asgp', 'swap', 'swap', 'get', 'get', 'eq'])
        else:
            op = rng.choice(['dtor', 'asgm', 'asgm', 'asgm', 'asgn', 'asgp', 'asgp.su', 'asgp.d', 'reset', 'resetp', 'resetp', 'release', 'release',
                             'adopt', 'adopt', 'del', 'swap', 'swap', 'tostd', 'get', 'get', 'eq'])
        if op in ('asgc', 'asgm', 'swap', 'eq'):
            ops.append(f'{op} {h} {g}')
        elif op == 'adopt':
            held = [i for i, x in enumerate(raws) if x]
            if held:
                r_ = rng.choice(held); ops.append(f'adopt {h} {r_}'); raws[r_] = False
        elif op == 'del':
            held = [i for i, x in enumerate(raws) if x]
            if held:
                r_ = rng.choice(held); ops.append(f'del {r_}'); raws[r_] = False
        elif op == 'release':
            ops.append(f'release {h}'); raws.append(None)     # held iff the handle was non-null: not tracked here ...
        else:
            ops.append(f'{op} {h}')
            if op == 'dtor':
                alive[h] = False
        if op == 'release':
            # ... so recompute which raws are held with the reference machine
            raws = [x is not None for x in ref_unique(k, ops)[1]]
    return f'{kind} {k} ; ' + ' ; '.join(ops)


def ref_unique(k, ops):
    """tiny reference unique_ptr machine (for the generator only): returns (slots, raws)"""
    slots = [None] * k    # None vacant, 'n' null, int
    raws = []
    nxt = 0
    for o in ops:
        t = o.split(); name = t[0].split('.')[0]; a = [int(x) for x in t[1:]]
        if name == 'ctor': slots[a[0]] = 'n'
        elif name in ('ctorp', 'asgp', 'resetp'): slots[a[0]] = nxt; nxt += 1
        elif name == 'ctorm': slots[a[0]] = slots[a[1]]; slots[a[1]] = 'n'
        elif name == 'dtor': slots[a[0]] = None
        elif name == 'asgm':
            if a[0] != a[1]: slots[a[0]] = slots[a[1]]; slots[a[1]] = 'n'
        elif name in ('asgn', 'reset', 'tostd'): slots[a[0]] = 'n'
        elif name == 'release': raws.append(slots[a[0]] if slots[a[0]] != 'n' else None); slots[a[0]] = 'n'
        elif name == 'adopt': slots[a[0]] = raws[a[1]]; raws[a[1]] = None
        elif name == 'del': raws[a[0]] = None
        elif name == 'swap': slots[a[0]], slots[a[1]] = slots[a[1]], slots[a[0]]
    return slots, raws


def gen_var(rng):
    ops = []
    for _ in range(rng.randrange(5, 25)):
        k = rng.choice(['set', 'set', 'get', 'get', 'getif', 'holds', 'index', 'visit', 'copy', 'move', 'gett', 'getift', 'cget'])
        if k == 'set':
            v = rng.choice(['m', 'b:0', 'b:1', f'i:{rng.choice([0, -1, 2 ** 63 - 1, -2 ** 63, rng.randrange(-99, 99)])}',
                            's:' + hx(rand_bytes(rng, rng.randrange(0, 40)))])
            ops.append(f'set {v}')
        elif k in ('get', 'getif', 'holds', 'gett', 'getift', 'cget'):
            ops.append(f'{k} {rng.randrange(4)}')
        else:
            ops.append(k)
    return 'var ; ' + ' ; '.join(ops)


def gen_fr(rng):
    ops = []
    for _ in range(rng.randrange(2, 10)):
        k = rng.choice(['call', 'call', 'copy', 'null', 'nullfp', 'callp'])
        x = rng.choice([0, -1, 1000000, -1000000, rng.randrange(-1000, 1000)])
        ops.append(k if k in ('null', 'nullfp') else f'callp {x}' if k == 'callp' else f'{k} {rng.randrange(4)} {x}')
    return 'fr ; ' + ' ; '.join(ops)


def corpus():
    out = []
    c = lambda line, *tags: out.append(Case(line, H, ('corpus',) + tags, 'corpus'))
    # D16: self copy-assignment / self move-assignment of a shared_ptr must leave object and handle alone
    c('shp 1 ; ctorp 0 ; asgc 0 0 ; get 0', 'D16-self-copy-assign')
    c('shp 1 ; ctorp 0 ; asgm 0 0 ; get 0', 'D16-self-move-assign')
    c('shp 2 ; ctorp 0 ; ctorc 1 0 ; asgc 0 0 ; asgm 1 1 ; dtor 1 ; get 0', 'D16-self-assign-shared')
    c('up 2 ; ctorp 0 ; asgm 0 0 ; swap 0 0 ; get 0 ; ctor 1 ; asgm 1 0 ; asgm 0 1 ; get 0', 'unique-self-move')
    c('sv 80 7f ; cmp ; lt ; gt', 'unsigned-bytes')
    c('sv 6100 61 ; cmp ; eq ; cmpc ; eqc ; hash', 'embedded-nul')
    c('sv 616263 - ; substr 3 1 ; substr 4 0 ; substr 3 18446744073709551615 ; find 63 2 ; find 63 3 ; cmp3 4 0 ; cmp5 0 1 1 0', 'positions-at-end')
    c('sp 0102030405 ; fix 3 1 3 ; fix 3 1 2 ; get 0 5 4 ; get 0 5 5', 'span-bounds')
    # further overloads / entry points of the same operations (coverage audit)
    c('sv 61620063 616200 ; cmp3c 0 2 ; cmp3c 5 0 ; cmp4c 0 3 3 ; cmp4c 0 3 2 ; cmp4c 4 0 0 ; cmp4c 5 0 0 ; nes ; nec ; ceq ; dflt', 'sv-cstr-overloads')
    c('sv - - ; dflt ; nes ; nec ; ceq ; cmp3c 0 0 ; cmp4c 0 0 0 ; cmp3c 1 0', 'sv-empty-overloads')
    c('sp 01020304 ; cfix 4 ; cfix 3 ; cfix 8 ; cfix 0 ; getf 4 0 3 ; getf 4 0 4 ; getf 0 4 0 ; getf 2 2 18446744073709551615 ; arr2 ; util', 'span-static-extent')
    c('sp - ; cfix 0 ; cfix 1 ; getf 0 0 0', 'span-static-extent-empty')
    c('shp 2 ; ctorp.d 0 ; ctorc 1 0 ; get 1 ; dtor 0 ; get 1 ; asgn 1', 'shared-from-derived')
    c('up 2 ; ctorp.d 0 ; ctor 1 ; asgp.d 1 ; asgp.d 1 ; asgm 0 1 ; get 0 ; release 0 ; adopt 1 0', 'unique-from-derived')
    c('var ; move ; set s:616263 ; move ; get 3 ; set i:-5 ; move ; visit', 'variant-move')
    c('var ; gett 0 ; gett 1 ; getift 0 ; getift 3 ; cget 0 ; cget 2 ; set s:00 ; gett 3 ; gett 2 ; getift 3 ; getift 1 ; cget 3 ; cget 1 ; set b:1 ; gett 1 ; cget 1 ; getift 1', 'variant-by-type')
    c('fr ; nullfp ; callp 41 ; callp -1000000 ; null', 'function-pointer-object')
    return out


def generate(rng, tier):
    big = tier == 'thorough'
    out = []
    for _ in range(60000 if big else 5000):
        out.append(Case(gen_sv(rng), H, ('string_view',)))
    for _ in range(8000 if big else 600):
        out.append(Case(gen_sp(rng), H, ('span',)))
    for _ in range(100000 if big else 5000):
        out.append(Case(gen_ptr(rng, 'shp', rng.choice([4, 8, 12, 20, 30, 60])), H, ('shared_ptr',)))
    for _ in range(100000 if big else 5000):
        out.append(Case(gen_ptr(rng, 'up', rng.choice([4, 8, 12, 20, 30, 60])), H, ('unique_ptr',)))
    for _ in range(20000 if big else 1000):
        out.append(Case(gen_var(rng), H, ('variant',)))
    for _ in range(1000 if big else 80):
        out.append(Case(gen_fr(rng), H, ('function_ref',)))
    # ill-formed lines: both sides must refuse them
    for _ in range(1000 if big else 80):
        line = rng.choice([gen_sv, gen_sp, gen_var, gen_fr, lambda r: gen_ptr(r, 'shp', 6), lambda r: gen_ptr(r, 'up', 6)])(rng)
        bad = rng.choice(['frob', 'get 9', 'substr 1', 'find 6 0', 'find 61 -1', 'substr 18446744073709551616 0', 'dyn 99 1', 'fix 5 0 0',
                          'ctorc 0 0', 'adopt 0 99', 'set i:9223372036854775808', 'set x', 'call 4 0', 'call 0 1000001', 'at 99',
                          'asgc 0 7', 'del 0 0', 'ctor.x 0', 'get 4', 'cmp4c 0 0 99', 'cmp3c 0', 'cfix 5', 'getf 3 99 0', 'callp 1000001',
                          'ctorp.dd 0', 'nullfp 0', 'dflt 0', 'gett 4', 'cget', 'getift 9'])
        ops = line.split(' ; ')
        if bad == 'get 4' and ops[0] in ('shp 5', 'up 5'):
            bad = 'get 5'        # five slots: `get 4` can be well-formed there (slot 4 alive); slot 5 never exists
        ops.insert(rng.randrange(1, len(ops) + 1), bad)
        out.append(Case(' ; '.join(ops), H, ('malformed',)))
    return out


# --------------------------------------------------------------------------------------------------
# oracle: (1) the nostd observation equals the std observation printed by the same harness, operation by operation
#         (2) independently, the property's own wording evaluated on the nostd observation:
#             string_view / span against Python's bytes (lexicographic order on unsigned bytes, slicing),
#             ownership: no object destroyed twice, no handle on a destroyed object, all destroyed once at the end

def sgn(x):
    return (x > 0) - (x < 0)


def cmp_bytes(a, b):
    return sgn((a > b) - (a < b))


def py_substr(a, pos, n):
    return None if pos > len(a) else a[pos:pos + min(n, len(a) - pos)]


def sv_expect(a, b, op):
    t = op.split()
    k = t[0]
    if k == 'cmp': return str(cmp_bytes(a, b))
    if k == 'eq': return str(int(a == b))
    if k == 'ne': return str(int(a != b))
    if k == 'lt': return str(int(a < b))
    if k == 'gt': return str(int(a > b))
    if k == 'find':
        ch, pos = bytes.fromhex(t[1]), int(t[2])
        i = a.find(ch, pos) if pos < len(a) else -1
        return 'npos' if i < 0 else str(i)
    if k == 'substr':
        r = py_substr(a, int(t[1]), int(t[2])); return 'oor' if r is None else hx(r)
    if k == 'cmp3':
        r = py_substr(a, int(t[1]), int(t[2])); return 'oor' if r is None else str(cmp_bytes(r, b))
    if k == 'cmp5':
        r = py_substr(a, int(t[1]), int(t[2])); s = py_substr(b, int(t[3]), int(t[4]))
        return 'oor' if r is None or s is None else str(cmp_bytes(r, s))
    if k == 'cmp3c':
        r = py_substr(a, int(t[1]), int(t[2])); return 'oor' if r is None else str(cmp_bytes(r, b.split(b'\0')[0]))
    if k == 'cmp4c':
        r = py_substr(a, int(t[1]), int(t[2])); return 'oor' if r is None else str(cmp_bytes(r, b[:int(t[3])]))
    if k == 'nes': return str(int(a != b)) * 2
    if k == 'nec': return str(int(a != b.split(b'\0')[0])) * 2
    if k == 'ceq': return str(int(a == b.split(b'\0')[0]))
    if k == 'dflt': return '0e' + str(cmp_bytes(a, b'')) + '1'
    if k == 'cmpc': return str(cmp_bytes(a, b.split(b'\0')[0]))
    if k == 'hash': return 'ok'
    if k == 'at': return hx(a[int(t[1]):int(t[1]) + 1])
    if k == 'size': return f'{len(a)}' + ('e' if not a else 'n')
    if k in ('iter', 'str', 'os'): return hx(a)
    if k == 'cstr': return hx(a.split(b'\0')[0])
    if k == 'eqs': return str(int(a == b)) * 2
    if k == 'eqc': return str(int(a == b.split(b'\0')[0]))
    return None


def sp_expect(base, op):
    t = op.split(); k = t[0]
    show = lambda s: f'{len(s)}:{hx(s)}'
    if k in ('dyn', 'rng', 'copy', 'conv'):
        off, cnt = int(t[1]), int(t[2]); return show(base[off:off + cnt])
    if k == 'empty': return str(int(int(t[2]) == 0))
    if k == 'fix':
        N, off, cnt = int(t[1]), int(t[2]), int(t[3]); return show(base[off:off + cnt]) if N == cnt else 'terminate'
    if k == 'convfix':
        N, off = int(t[1]), int(t[2]); return show(base[off:off + N])
    if k == 'vec': return show(base)
    if k in ('arr', 'carr', 'arr2', 'util'): return show(base[:4])
    if k == 'cfix': return show(base) if int(t[1]) == len(base) else 'terminate'
    if k == 'getf':
        N, off, i = int(t[1]), int(t[2]), int(t[3]); return hx(base[off + i:off + i + 1]) if i < N else 'oob'
    if k == 'get':
        off, cnt, i = int(t[1]), int(t[2]), int(t[3]); return hx(base[off + i:off + i + 1]) if i < cnt else 'oob'
    if k == 'default': return '0:-'
    return None


ST_RE = re.compile(r'h=\[([^\]]*)\] o=\[([^\]]*)\](?: r=\[([^\]]*)\])?')


def ownership_check(obs, final):
    m = ST_RE.search(obs)
    if not m:
        return 'state-missing'
    hs = [x for x in m.group(1).split(',') if x]
    os_ = [x for x in m.group(2).split(',') if x]
    rs = [x for x in (m.group(3) or '').split(',') if x]
    for o in os_:
        if o not in ('L', 'D1'):
            return 'object-destroyed-more-than-once'
    for x in hs + rs:
        if x.isdigit():
            if int(x) >= len(os_) or os_[int(x)] != 'L':
                return 'handle-references-destroyed-object'
        elif x not in ('x', '-'):
            return 'handle-unknown-target'
    held = {int(x) for x in hs + rs if x.isdigit()}
    for i, o in enumerate(os_):
        if o == 'L' and i not in held:
            return 'live-object-without-owner'
    if 'r=' in obs:
        owners = [int(x) for x in hs + rs if x.isdigit()]
        if len(owners) != len(set(owners)):
            return 'two-unique-owners'
    if final and any(o != 'D1' for o in os_):
        return 'object-not-destroyed-exactly-once'
    return None


def oracle(case, out):
    if out.startswith('CRASH'):
        return ('no-crash-or-undefined-behaviour', out)
    eng = case.line.split()[0]
    if 'malformed' in case.tags:
        return None if out == 'bad-op' else ('ill-formed-line-rejected', out[:100])
    if out == 'bad-op':
        return ('well-formed-line-runs', out)
    ops = case.line.split(' ; ')[1:]
    got = out.split(' ; ') if out else []
    exp_n = len(ops) + (1 if eng in ('shp', 'up') else 0)
    if len(got) != exp_n:
        return ('one-observation-per-operation', f'{len(got)} for {exp_n}')
    head = case.line.split(' ; ')[0].split()
    for i, g in enumerate(got):
        if '|' not in g:
            return ('observation-shape', g[:100])
        n, s = g.split('|', 1)
        op = ops[i] if i < len(ops) else 'end'
        if n != s:
            return (f'{eng}-same-as-std', f'op {i} `{op}`: nostd {n[:120]} std {s[:120]}')
        if eng == 'sv':
            a = b'' if head[1] == '-' else bytes.fromhex(head[1]); b = b'' if head[2] == '-' else bytes.fromhex(head[2])
            e = sv_expect(a, b, op)
            if e is not None and e != n:
                return ('sv-' + op.split()[0] + '-spec', f'op {i} `{op}`: got {n} want {e}')
        elif eng == 'sp':
            base = b'' if head[1] == '-' else bytes.fromhex(head[1])
            e = sp_expect(base, op)
            if e is not None and e != n:
                return ('span-' + op.split()[0] + '-spec', f'op {i} `{op}`: got {n} want {e}')
        elif eng in ('shp', 'up'):
            r = ownership_check(n, op == 'end')
            if r:
                return (r, f'op {i} `{op}`: {n[:160]}')
    return None


def signature(case, out, clause):
    if out.startswith('CRASH'):
        return 'crash/' + case.line.split()[0] + '/' + (out.split(' ', 1)[1][:60] if ' ' in out else '')
    return clause


def nontrivial(case, out):
    return out != 'bad-op' and not out.startswith('CRASH') and case.line.count(' ; ') >= 3


LEVEL_TEXT = ('Lean 4 theorems over an executable model of nostd/string_view.h, span.h, unique_ptr.h, shared_ptr.h, variant.h, '
              'function_ref.h: compare = sign of the lexicographic order on unsigned bytes (total, antisymmetric, transitive, 0 iff '
              'equal), find = least index >= pos or npos, substr = the slice / fails iff pos > size, span indexing = the slice, '
              'extent mismatch terminates; for EVERY unique_ptr / shared_ptr operation sequence (self-assignment and self-swap '
              'included) no object is destroyed twice, no handle ever refers to a destroyed object, live objects always have an '
              'owner, and after the handles are gone every object was destroyed exactly once; variant get/holds/visit select the '
              'active alternative. Tie: three-way lock-step nostd | std | model over generated operation sequences under ASan/UBSan.')
LEVEL_NOTE = ('Trusted: Lean kernel; axioms propext/Quot.sound/Classical.choice at most; harness, generators, canonicalisation; '
              'libstdc++ as the reference. Partial: ABI layout is not modelled; variant is the vendored absl implementation and only '
              'selection / get / get_if / holds_alternative / visit / copy over four alternatives are compared; span has no '
              'subspan/first/last in this tree (its sub-views are the constructors) and std::span is replaced by a checked slice; '
              'hash is modelled as an arbitrary function of the bytes (checked on the code: equal bytes at different addresses hash '
              'equal). Models the code after fix D16 (self copy/move assignment of nostd::shared_ptr is a no-op).')
DESIGN_REF = 'DESIGN.md section 4, C20'
TECHNIQUE = 'proof + three-way differential correspondence'
