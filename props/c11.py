"""C11 - The lock-free queue and spin lock are correct under every interleaving."""
import itertools, re
from vcore import Case, Harness

ID = 'C11'
GEN = ['SpinLock', 'Ring']
LEAN_TARGETS = ['OtelVerif.Props.C11']
THEOREMS = ['Otel.C11.' + t for t in (
    'gen_ring', 'consumed_is_log_prefix', 'log_nodup', 'consumed_at_most_once', 'drained_all', 'no_empty_slot_consumed',
    'per_producer_fifo', 'failed_not_accepted', 'failed_not_in_buffer', 'element_accounting', 'size_le_capacity',
    'add_fails_only_when_full', 'fail_step_records', 'fine_reachable', 'fine_consume_contract', 'mutual_exclusion',
    'holder_sets_flag', 'tryLock_sound', 'no_entry_when_locked', 'acquire_only_when_free', 'lock_solo_progress')] + [
    'Otel.Ring.reachable_inv', 'Otel.RingFine.reach_finv', 'Otel.SpinLock.inv_run']
SHIM = ['-include', 'harness/shim/detsched.h', '-DNDEBUG']
HARNESSES = [Harness('d_c11', ['harness/d_c11.cc'], flags=SHIM, includes=('api/include', 'sdk/include'),
                     plain_srcs=['harness/shim/detsched.cc'])]
H = 'd_c11'
import importlib, os
SUBS = [importlib.import_module('props.' + n) for n in ('c11_mem',) if os.path.exists(os.path.join(os.path.dirname(__file__), n + '.py'))]
for _m in SUBS:
    LEAN_TARGETS = LEAN_TARGETS + list(_m.LEAN_TARGETS)
    THEOREMS = THEOREMS + list(_m.THEOREMS)
    HARNESSES = HARNESSES + [h for h in _m.HARNESSES if h.name not in {x.name for x in HARNESSES}]
    GEN = GEN + [g for g in (_m.GEN or []) if g not in GEN]


def _sub(case):
    w = case.line.split()[0] if case.line.split() else ''
    for m in SUBS:
        if w in m.WORDS:
            return m
    return None


ENGINE = 'lean-proof + deterministic-scheduler correspondence (Engine D)'
RULE = ('schedules (one action = one atomic access of one thread of the UNMODIFIED circular_buffer.h / spin_lock_mutex.h '
        'under the token-renaming scheduler shim): preemption-bounded exhaustive block schedules on the smallest '
        'configurations + random priority schedules with spurious weak-CAS failures, 1-3 producers x capacity 1-3 x '
        '1-4 Adds each x consumer request sizes; 2-3 threads of lock/try_lock scripts. Every step trace and the end '
        'summary are compared with the Lean model. non-trivial = at least two threads took a step before the drain; '
        'distinct = distinct case line')
TRUSTED = ['the scheduler shim: sequentially consistent atomics, one access per step (C++ relaxed/acquire/release orders are NOT modelled)',
           'fairness: termination is checked under the round-robin drain only']
ASSUMPTIONS = ['sequential consistency', 'uint64 wrap-around of head_/tail_ after 2^64 operations is out of scope']
SHRINK = True


def corpus():
    out = []
    out.append(Case('ring 2 2 2 2 3 ; p0 ; p0 ; p0 ; p0 ; p1 ; p1 ; p1 ; p1 ; p0 ; p1 ; p0! ; p1 ; p1 ; c ; c ; c ; c ; p0 ; c ; c ; c ; c ; c ; p1 ; p1 ; p1 ; p9 ; c', H, ('corpus', 'undo-path'), 'corpus'))
    out.append(Case('ring 1 2 2 1 4 ; p0 ; p0 ; p0 ; p0 ; p0 ; p0 ; p1 ; p1 ; p1 ; p1 ; c ; c ; c ; c ; c ; c ; c ; p1 ; p1', H, ('corpus', 'full-then-consume'), 'corpus'))
    for em in 'qknd':
        # consumer requests nothing (0 rounds): everything accepted is still queued at the end and goes out through `em`
        out.append(Case(f'ring 3 2 2m 1 0{em} ; ' + ' ; '.join(['p0'] * 12 + ['p1'] * 12), H, ('corpus', 'end-' + em), 'corpus'))
        out.append(Case(f'ring 2 1 1 1 1{em} ; ' + ' ; '.join(['p0'] * 8 + ['c'] * 10), H, ('corpus', 'end-' + em + '-empty'), 'corpus'))
    out.append(Case('spin LT TL L ; t0 ; t1 ; t0 ; t0 ; t1 ; t1 ; t1 ; t2 ; t2 ; t2 ; t2 ; t0 ; t0 ; t1', H, ('corpus', 'spin'), 'corpus'))
    return out + [c for m in SUBS for c in m.corpus()]


def block_schedules(nthreads, nblocks, lens):
    """all schedules made of `nblocks` maximal runs (preemption bound nblocks-1; the harness drains afterwards)"""
    for order in itertools.product(range(nthreads), repeat=nblocks):
        if any(order[i] == order[i + 1] for i in range(nblocks - 1)):
            continue
        for ls in itertools.product(lens, repeat=nblocks):
            yield [t for t, n in zip(order, ls) for _ in range(n)]


def ring_line(ms, nprod, adds, creq, rounds, sched, spur=()):
    toks = []
    for j, t in enumerate(sched):
        if t == nprod:
            toks.append('c')
        else:
            toks.append(f'p{t}' + ('!' if j in spur else ''))
    return f'ring {ms} {nprod} {adds} {creq} {rounds} ; ' + ' ; '.join(toks)


def generate(rng, tier):
    big = tier == 'thorough'
    out = []
    # ---- preemption-bounded exhaustive on the smallest configurations
    lens = [1, 2, 3, 4, 5, 6, 8, 11] if not big else list(range(1, 15))
    for (ms, nprod, adds, creq, rounds) in ([(1, 2, 1, 1, 2), (1, 1, 2, 1, 2), (2, 2, 2, 2, 2)] if not big else
                                             [(1, 2, 1, 1, 2), (1, 1, 2, 1, 2), (2, 2, 2, 2, 2), (1, 2, 2, 1, 3), (2, 1, 3, 1, 3), (3, 2, 2, 2, 2)]):
        for sched in block_schedules(nprod + 1, 3, lens):
            out.append(Case(ring_line(ms, nprod, adds, creq, rounds, sched), H, ('ring', 'preempt<=2')))
    if big:
        for sched in block_schedules(3, 4, [1, 2, 3, 4, 6, 9]):
            out.append(Case(ring_line(1, 2, 2, 1, 3, sched), H, ('ring', 'preempt<=3')))
        for sched in block_schedules(4, 3, [1, 2, 3, 4, 5, 7, 10]):
            out.append(Case(ring_line(2, 3, 1, 2, 2, sched), H, ('ring', 'preempt<=2')))
    # ---- random priority schedules with spurious CAS failures
    for _ in range(40000 if big else 2500):
        ms = rng.choice([1, 1, 2, 2, 3])
        nprod = rng.choice([1, 2, 2, 3, 3])
        adds = rng.randrange(1, 5)
        creq = rng.choice([1, 1, 2, 3, 4])
        rounds = rng.randrange(1, 6)
        n = rng.randrange(10, 120)
        sched = []
        # PCT-like: random priorities, a few priority change points; or uniformly random; or sticky
        mode = rng.random()
        th = list(range(nprod + 1))
        if mode < 0.4:
            cur = rng.choice(th)
            for _k in range(n):
                if rng.random() < 0.15:
                    cur = rng.choice(th)
                sched.append(cur)
        elif mode < 0.8:
            sched = [rng.choice(th) for _k in range(n)]
        else:
            w = [rng.random() ** 2 for _ in th]
            sched = rng.choices(th, weights=w, k=n)
        spur = {j for j in range(n) if rng.random() < 0.08}
        if rng.random() < 0.03:
            sched[rng.randrange(n)] = 9   # an invalid thread id: both sides must answer "x"
        # further entry points that funnel into the same core, same accesses under the scheduler: the rvalue Add overload;
        # at quiescence Peek / empty / max_size / the two counters, and the rest taken out by Clear(), Consume(n) without a
        # callback or the buffer's destructor instead of Consume(n, callback)
        mv = 'm' if rng.random() < 0.3 else ''
        em = rng.choice(['', '', 'q', 'k', 'n', 'd'])
        line = ring_line(ms, nprod, f'{adds}{mv}', creq, f'{rounds}{em}', sched, spur).replace('p9!', 'p9')
        out.append(Case(line, H, ('ring', 'random') + (('add-rvalue',) if mv else ()) + (('end-' + em,) if em else ())))
    # ---- spin lock
    scripts_pool = ['L', 'T', 'LL', 'LT', 'TL', 'TT', 'LTL', 'LLL', 'TLT']
    for sc in itertools.product(['L', 'T', 'LT', 'TL'], repeat=2):
        for sched in block_schedules(2, 4 if big else 3, [1, 2, 3, 4, 5, 7]):
            out.append(Case('spin ' + ' '.join(sc) + ' ; ' + ' ; '.join(f't{t}' for t in sched), H, ('spin', 'preempt-bounded')))
    for _ in range(20000 if big else 1500):
        nt = rng.choice([2, 2, 3, 3])
        sc = [rng.choice(scripts_pool) for _ in range(nt)]
        n = rng.randrange(5, 90)
        mode = rng.random()
        if mode < 0.5:
            sched = [rng.randrange(nt) for _ in range(n)]
        else:
            cur = rng.randrange(nt); sched = []
            for _k in range(n):
                if rng.random() < 0.2:
                    cur = rng.randrange(nt)
                sched.append(cur)
        out.append(Case('spin ' + ' '.join(sc) + ' ; ' + ' ; '.join(f't{t}' for t in sched), H, ('spin', 'random')))
    # the holder releases while the waiter is at every position around the end of its fast loop (100 iterations), its
    # yield and its sleep: lock() has four places where it can acquire (first exchange, try_lock in the fast loop, try_lock after
    # the yield, first exchange of the next round) and each must be an exchange that read "free"
    for n in range(94, 114):
        for sc in ('L L', 'L LT', 'LL L'):
            out.append(Case(f'spin {sc} ; t0 ; t0 ; t0 ; ' + ' ; '.join(['t1'] * n) + ' ; t0 ; t0 ; t0 ; ' + ' ; '.join(['t1'] * 6 + ['t0'] * 4 + ['t1'] * 4),
                            H, ('spin', 'handover-around-yield')))
    # a waiter that goes all the way through the fast loop, yield and sleep while the lock is held
    out.append(Case('spin L L ; t0 ; t0 ; t0 ; t1 ; t1 ; ' + ' ; '.join(['t1'] * 230) + ' ; t0 ; t0 ; t1 ; t1 ; t1 ; t1', H, ('spin', 'long-wait')))
    return out + [c for m in SUBS for c in m.generate(rng, tier)]


def segments(case, out):
    """[(thread, [notes])] for schedule + drain steps, and the summary string"""
    parts = out.split(' ; ')
    toks = ' '.join(case.line.split()[1:]).split(' ; ')
    cfg, acts = toks[0].split(), toks[1:]
    summary = parts[-1]
    steps = []
    body = parts[:-1]
    if len(body) < len(acts):
        raise ValueError('fewer step traces than actions')
    for a, tr in zip(acts, body[:len(acts)]):
        if a == 'c':
            th = 'c'
        else:
            th = int(a[1:].rstrip('!'))
        steps.append((th, tr.split(',')))
    for tr in body[len(acts):]:
        m = re.match(r'd(\d+):(.*)', tr)
        if not m:
            raise ValueError('bad drain segment ' + tr)
        steps.append((int(m.group(1)), m.group(2).split(',')))
    return cfg, steps, summary


def oracle_ring(case, out):
    cfg, steps, summary = segments(case, out)
    ms, nprod = int(cfg[0]), int(cfg[1])
    int(cfg[2].rstrip('m')); int(cfg[4].rstrip('qknd'))     # optional suffixes: rvalue Add overload / end-of-case accessors
    begun = 0
    consumed = 0
    inflight = {}      # thread -> elem
    owner = {}
    consumed_at_begin = {}
    ret = {}
    queued = 0
    cons_seq = []
    for th, notes in steps:
        t = nprod if th == 'c' else th
        for n in notes:
            if n == 'OWNERSHIP-MISMATCH':
                return ('failed-add-leaves-element-with-caller', out[:300])
            m = re.fullmatch(r'begin e(\d+)', n)
            if m:
                e = int(m.group(1)); begun += 1
                inflight[t] = e; owner[e] = t; consumed_at_begin[e] = consumed
                continue
            m = re.fullmatch(r'ret ([01])', n)
            if m:
                e = inflight.pop(t)
                ret[e] = m.group(1) == '1'
                if not ret[e]:
                    if (begun - 1) - consumed_at_begin[e] < ms:
                        return ('add-fails-only-when-full', f'e{e} failed: begun-before-return={begun - 1} consumed-before-start={consumed_at_begin[e]} max_size={ms}')
                continue
            m = re.fullmatch(r'casw head (\d+) (\d+) ok', n)
            if m:
                queued += 1
                if queued > ms:
                    return ('queued-never-exceeds-capacity', f'{queued} > {ms}')
                continue
            m = re.fullmatch(r'fadd tail (\d+) (\d+)', n)
            if m:
                queued -= int(m.group(1))
                if queued < 0:
                    return ('consumer-takes-only-queued', n)
                continue
            m = re.fullmatch(r'xchg s(\d+) null (\S+)', n)
            if m and t == nprod:
                if m.group(2) == 'null':
                    return ('consumer-never-takes-an-empty-slot', n)
                consumed += 1
                cons_seq.append(int(m.group(2)[1:]))
    m = re.fullmatch(r'done=(\d) res=\[(.*)\] out=\[(.*)\] rest=\[([^\]]*)\](?: q=(\S+))? live=(-?\d+)', summary)
    if not m:
        return ('summary', summary)
    if m.group(1) != '1':
        return ('every-operation-terminates', summary)
    ids = lambda s: [(-1 if x == 'null' else int(x[1:])) for x in s.split(',')] if s else []
    outl, rest = ids(m.group(3)), ids(m.group(4))
    end_mode = cfg[4][-1] if cfg[4][-1] in 'qknd' else ''
    if end_mode:
        # the sequential accessors, read at quiescence: what Peek shows is exactly what is then taken out (by Consume with a
        # callback, Clear(), Consume(n) or the buffer's destructor), the counters count accepted / consumed elements
        if not m.group(5):
            return ('accessors-answer', summary)
        mq = re.fullmatch(r'max:(\d+),empty:([01]),prod:(\d+),cons:(\d+),peek:\[([^\]]*)\],n:(\d+),pe:([01]),all:([01]),stop:(\d+)/([01]),aup:([01])', m.group(5))
        if not mq:
            return ('accessors-answer', summary)
        peek = ids(mq.group(5))
        nacc = sum(1 for r in ret.values() if r)
        if int(mq.group(1)) != ms:
            return ('max_size-is-the-configured-capacity', summary)
        if (peek if end_mode != 'd' else sorted(peek)) != rest:
            return ('peek-shows-exactly-what-is-consumed-next', summary)
        if int(mq.group(3)) != nacc or int(mq.group(4)) != len(outl) or int(mq.group(3)) - int(mq.group(4)) != len(peek):
            return ('counters-count-accepted-and-consumed', summary)
        if (mq.group(2) == '1') != (not peek) or (mq.group(7) == '1') != (not peek) or int(mq.group(6)) != len(peek) or mq.group(8) != '1':
            return ('empty-and-range-size-agree-with-content', summary)
        if int(mq.group(9)) != min(2, len(peek)) or (mq.group(10) == '1') != (len(peek) < 2):
            return ('ForEach-stops-when-its-callback-says-so', summary)
        if mq.group(11) != '1':
            return ('a-slot-owns-its-element-and-refuses-a-second-one', summary)
    elif m.group(5):
        return ('summary', summary)
    allc = outl + rest
    if outl != cons_seq:
        return ('summary-consistent-with-trace', summary)
    if -1 in allc:
        return ('consumer-never-takes-an-empty-slot', summary)
    if len(set(allc)) != len(allc):
        return ('consumed-at-most-once', summary)
    acc = {e for e, r in ret.items() if r}
    if set(allc) != acc:
        return ('accepted-iff-consumed-exactly-once', f'accepted={sorted(acc)} consumed={sorted(allc)}')
    for p in range(nprod):
        seq = [e for e in allc if owner.get(e) == p]
        if seq != sorted(seq):
            return ('per-producer-order', f'producer {p}: {seq}')
    if m.group(6) != '0':
        return ('no-leak-no-double-free', summary)
    return None


def oracle_spin(case, out):
    cfg, steps, summary = segments(case, out)
    holder = None
    for th, notes in steps:
        for n in notes:
            if n == 'acq':
                if not any(x == 'xchg flag 1 0' for x in notes):
                    return ('try_lock/lock-succeed-only-on-a-free-lock', ','.join(notes))
                if holder is not None:
                    return ('at-most-one-holder', f'T{th} acquired while T{holder} holds')
                holder = th
            m = re.fullmatch(r'cs (\d+)', n)
            if m and m.group(1) != '1':
                return ('at-most-one-holder', n)
            if n == 'st flag 0':
                if holder != th:
                    return ('unlock-by-holder', f'T{th} unlocked, holder T{holder}')
                holder = None
    m = re.fullmatch(r'done=(\d) viol=(\d+) try=\[(.*)\] flag=(\d)', summary)
    if not m:
        return ('summary', summary)
    if m.group(1) != '1':
        return ('every-lock-returns-once-the-holder-unlocks', summary)
    if m.group(2) != '0':
        return ('at-most-one-holder', summary)
    if m.group(4) != '0':
        return ('lock-free-at-quiescence', summary)
    return None


def oracle(case, out):
    m = _sub(case)
    if m:
        return m.oracle(case, out)                     # the sub-check has its own malformed stream
    if out.startswith('CRASH'):
        return ('no-crash-no-double-free', out)
    if out == 'bad-op':
        return ('harness-rejected-case', out)
    if case.line.startswith('ring'):
        return oracle_ring(case, out)
    return oracle_spin(case, out)


def model_line(case, out):
    m = _sub(case)
    return m.model_line(case, out) if m and hasattr(m, 'model_line') else case.line


def agree(case, out, mout):
    m = _sub(case)
    return m.agree(case, out, mout) if m and hasattr(m, 'agree') else out == mout


def signature(case, out, clause):
    m = _sub(case)
    if m and hasattr(m, 'signature'):
        return m.signature(case, out, clause)
    return clause


def nontrivial(case, out):
    m = _sub(case)
    if m and hasattr(m, 'nontrivial'):
        return m.nontrivial(case, out)
    toks = ' '.join(case.line.split()[1:]).split(' ; ')[1:]
    return len({t.rstrip('!') for t in toks}) >= 2


LEVEL_TEXT = ('Lean 4: inductive invariants (Ring.Inv 15 conjuncts + ghost Inv2 9 conjuncts) over the small-step model of '
              'CircularBuffer::Add/Consume - any number of producers, any capacity, every schedule, spurious weak-CAS '
              'failures - give: consumed = prefix of the commit log (at most once, commit order; all of it once drained), '
              'per-producer FIFO, a failed Add is in no slot / not committed / not consumed (element accounting: exactly one '
              'place per element), size <= max_size, failure justification (Adds begun before the return minus consumed '
              'before the start >= max_size), no empty slot consumed, Consume contract always met by the fine-grained '
              'consumer; spin lock: mutual exclusion, try_lock sound, entry only when the flag read free, solo progress '
              'in <= 3 steps. The models are stepped in lock-step with the UNMODIFIED headers under a deterministic '
              'scheduler shim: every atomic access of every generated schedule is compared, plus an implementation-side oracle.')
LEVEL_NOTE = ('Trusted: Lean kernel (axioms propext, Classical.choice, Quot.sound); the scheduler shim (sequentially consistent '
              'atomics, one access per step); tools/gen_c11.py structure markers. Partial: C++ relaxed/acquire/release '
              'orders are not modelled (SC only); starvation-freedom of the spin lock is not claimed (solo progress only); '
              '64-bit counter wrap-around.')
DESIGN_REF = 'DESIGN.md section 4, C11; Appendix A'
for _m in SUBS:
    RULE = RULE + ' | ' + getattr(_m, 'RULE', '')
    LEVEL_TEXT = LEVEL_TEXT + getattr(_m, 'LEVEL_TEXT_ADD', '')
    LEVEL_NOTE = LEVEL_NOTE + getattr(_m, 'LEVEL_NOTE_ADD', '')
