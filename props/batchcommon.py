"""Shared by C01 / C02 / C03: schedules for the batch processors under Engine D, the abstraction of an
implementation trace to protocol events (input of the Lean refinement check), and trace parsing for the oracles."""
import re
from vcore import Case, Harness, sdk_sources, SDK_INCLUDES

SHIM = ['-include', 'harness/shim/detsched.h', '-DNDEBUG']
H_BSP = Harness('d_bsp', ['harness/d_batch.cc'], flags=SHIM, includes=SDK_INCLUDES, plain_srcs=['harness/shim/detsched.cc'],
                sdk_srcs=sdk_sources('common') + ['sdk/src/trace/batch_span_processor.cc', 'sdk/src/trace/exporter.cc'])
H_BLP = Harness('d_blp', ['harness/d_batch.cc'], flags=SHIM + ['-DBATCH_LOGS'], includes=SDK_INCLUDES, plain_srcs=['harness/shim/detsched.cc'],
                sdk_srcs=sdk_sources('common') + ['sdk/src/logs/batch_log_record_processor.cc', 'sdk/src/logs/exporter.cc'])


class Cfg:
    def __init__(self, line):
        toks = ' '.join(line.split()[1:]).split(' ; ')
        c = toks[0].split()
        self.kind = line.split()[0]
        self.maxq, self.maxb, self.nprod, self.adds = int(c[0]), int(c[1]), int(c[2]), int(c[3])
        self.fl = '' if c[4] == '-' else c[4]
        self.nshut = int(c[5])
        self.xs = '' if c[6] == '-' else c[6]
        self.acts = toks[1:]
        self.nthreads = 1 + self.nprod + len(self.fl) + self.nshut

    def role(self, tid):
        """role token of a thread id (the destructor thread, spawned last, is one more shutdown caller)"""
        if tid == 0:
            return 'W'
        if tid <= self.nprod:
            return f'P{tid - 1}'
        if tid <= self.nprod + len(self.fl):
            return f'F{tid - 1 - self.nprod}'
        return f'S{tid - 1 - self.nprod - len(self.fl)}'


def steps(cfg, out):
    """[(tid, [notes])] for the schedule and drain steps of an implementation trace, and the summary"""
    parts = out.split(' ; ')
    summary = parts[-1]
    body = parts[:-1]
    res = []
    if len(body) < len(cfg.acts):
        raise ValueError('fewer step traces than actions')
    for a, tr in zip(cfg.acts, body[:len(cfg.acts)]):
        if tr == 'x' or a[0] in 'ow':
            continue
        res.append((int(a[1:].rstrip('!')), tr.split(',')))
    for tr in body[len(cfg.acts):]:
        m = re.match(r'd(\d+):(.*)', tr)
        if not m:
            raise ValueError('bad drain segment ' + tr[:60])
        res.append((int(m.group(1)), m.group(2).split(',')))
    return res, summary


def abstract(case_line, out):
    """implementation trace -> the line fed to the Lean refinement check (`batch <maxq> <maxb> ; <event> ; ...`)"""
    cfg = Cfg(case_line)
    st, _ = steps(cfg, out)
    ev = []
    dtor_seen_isd = {}
    for tid, notes in st:
        role = cfg.role(tid)
        is_dtor = tid >= cfg.nthreads
        for n in notes:
            t = n.split()
            k = t[0]
            if role == 'W':
                if k == 'ld' and t[1] == 'is_shutdown': ev.append(f'W:isd:{"1t" if t[2] == "1" else "0f"}')
                elif k == 'ld' and t[1] == 'pending': ev.append(f'W:pend:{t[2]}')
                elif k == 'ld' and t[1] == 'notified': ev.append(f'W:not:{t[2]}')
                elif k == 'ld' and t[1] == 'head': ev.append(f'W:head:{t[2]}')
                elif k == 'ld' and t[1] == 'tail': ev.append(f'W:tail:{t[2]}')
                elif k == 'fadd' and t[1] == 'tail': ev.append(f'W:fadd:{t[2]}')
                elif k == 'export-begin': ev.append(f'W:expb:{t[1]}')
                elif k == 'export-end': ev.append('W:expe')
                elif k == 'xflush-begin': ev.append('W:xfb')
                elif k == 'xflush-end': ev.append('W:xfe')
                elif k == 'cass' and t[1] == 'notified': ev.append(f'W:cas:{t[4]}')
                elif k == 'end': ev.append('W:end')
            elif role[0] == 'P':
                if k == 'onend-begin': ev.append(f'{role}:beg')
                elif k == 'ld' and t[1] == 'is_shutdown': ev.append(f'{role}:isd:{"1t" if t[2] == "1" else "0f"}')
                elif k == 'casw' and t[1] == 'head' and t[4] == 'ok': ev.append(f'{role}:commit')
                elif k == 'onend-ret': ev.append(f'{role}:ret')
            elif role[0] == 'F':
                if k == 'flush-begin': ev.append(f'{role}:beg')
                elif k == 'ld' and t[1] == 'is_shutdown': ev.append(f'{role}:isd:{"1t" if t[2] == "1" else "0f"}')
                elif k == 'fadd' and t[1] == 'pending': ev.append(f'{role}:fadd:{t[3]}')
                elif k == 'ld' and t[1] == 'notified': ev.append(f'{role}:not:{t[2]}')
                elif k == 'flush-ret': ev.append(f'{role}:ret:{"1t" if t[1] == "1" else "0f"}')
            else:  # shutdown caller / destructor
                if k == 'shutdown-begin': ev.append(f'{role}:beg')
                elif k == 'ld' and t[1] == 'is_shutdown' and is_dtor:
                    dtor_seen_isd[tid] = t[2]
                    if t[2] == '0':
                        ev.append(f'{role}:beg')     # ~Processor(): not yet shut down -> calls Shutdown()
                elif k == 'lock' and t[1] == 'sd_m': ev.append(f'{role}:lock')
                elif k == 'xchg' and t[1] == 'is_shutdown': ev.append(f'{role}:xchg:{"1t" if t[3] == "1" else "0f"}')
                elif k == 'join': ev.append(f'{role}:join')
                elif k == 'xshutdown-begin': ev.append(f'{role}:xsb')
                elif k == 'xshutdown-end': ev.append(f'{role}:xse')
                elif k == 'unlock' and t[1] == 'sd_m': ev.append(f'{role}:unlock')
                elif k == 'shutdown-ret': ev.append(f'{role}:ret')
    return f'batch {cfg.maxq} {cfg.maxb} ; ' + ' ; '.join(ev)


class History:
    """the observable history of one implementation run (for the implementation-side oracles)"""

    def __init__(self, case_line, out):
        cfg = Cfg(case_line)
        self.cfg = cfg
        st, self.summary = steps(cfg, out)
        self.events = []       # (time, tid, role, note tokens)
        tm = 0
        for tid, notes in st:
            for n in notes:
                self.events.append((tm, tid, cfg.role(tid), n.split()))
                tm += 1
        m = re.fullmatch(r'done=(\d) reentrant=(\d+) live=(\S+)', self.summary)
        self.done = m and m.group(1) == '1'
        self.reentrant = int(m.group(2)) if m else -1
        self.live = m.group(3) if m else '?'


def gen_schedules(rng, tier, kinds=('bsp', 'blp'), flush=True, shut=True):
    big = tier == 'thorough'
    out = []
    n_cases = 12000 if big else 900
    for _ in range(n_cases):
        kind = rng.choice(kinds)
        maxq = rng.choice([1, 2, 2, 3, 4])
        maxb = rng.randrange(1, maxq + 1)
        nprod = rng.choice([1, 1, 2, 2, 3])
        adds = rng.randrange(1, 5)
        fl = ''
        if flush:
            fl = ''.join(rng.choice('iii12') for _ in range(rng.choice([0, 1, 1, 2])))
        nshut = rng.choice([0, 1, 1, 2]) if shut else 0
        xs = rng.choice(['s', 's', 'sf', 'f', 'sF', 'sS', 'sfFS'])
        nth = 1 + nprod + len(fl) + nshut
        n = rng.randrange(10, 160)
        mode = rng.random()
        th = list(range(nth))
        sched = []
        if mode < 0.35:
            cur = rng.choice(th)
            for _k in range(n):
                if rng.random() < 0.12:
                    cur = rng.choice(th)
                sched.append(cur)
        elif mode < 0.7:
            sched = [rng.choice(th) for _k in range(n)]
        else:
            w = [rng.random() ** 2 + 0.02 for _ in th]
            w[0] += 0.5
            sched = rng.choices(th, weights=w, k=n)
        toks = []
        for t in sched:
            r = rng.random()
            if r < 0.06:
                toks.append(f'o{t}')          # timer expiry of t's timed wait (no-op "x" when t is not in one)
            elif r < 0.09:
                toks.append(f'w{t}')          # spurious wake-up
            elif r < 0.14 and 1 <= t <= nprod:
                toks.append(f't{t}!')         # spurious weak-CAS failure in the queue
            else:
                toks.append(f't{t}')
        line = f'{kind} {maxq} {maxb} {nprod} {adds} {fl or "-"} {nshut} {xs} ; ' + ' ; '.join(toks)
        out.append(Case(line, 'd_bsp' if kind == 'bsp' else 'd_blp', (kind, 'random', f'fl{len(fl)}sh{nshut}')))
    return out
