"""Shared by C01 / C02 / C03: schedules for the batch processors under Engine D, the abstraction of an
implementation trace to protocol events (input of the Lean refinement check), and trace parsing for the oracles."""
import re
from vcore import Case, Harness, sdk_sources, SDK_INCLUDES

SHIM = ['-include', 'harness/shim/detsched.h', '-DNDEBUG']
H_BSP = Harness('d_bsp', ['harness/d_batch.cc'], flags=SHIM, includes=SDK_INCLUDES, plain_srcs=['harness/shim/detsched.cc'],
                sdk_srcs=sdk_sources('common') + ['sdk/src/trace/batch_span_processor.cc', 'sdk/src/trace/batch_span_processor_factory.cc', 'sdk/src/trace/exporter.cc'])
H_BLP = Harness('d_blp', ['harness/d_batch.cc'], flags=SHIM + ['-DBATCH_LOGS'], includes=SDK_INCLUDES, plain_srcs=['harness/shim/detsched.cc'],
                sdk_srcs=sdk_sources('common') + ['sdk/src/logs/batch_log_record_processor.cc', 'sdk/src/logs/batch_log_record_processor_factory.cc', 'sdk/src/logs/exporter.cc'])


class Cfg:
    def __init__(self, line):
        toks = ' '.join(line.split()[1:]).split(' ; ')
        c = toks[0].split()
        self.kind = line.split()[0]
        self.ctor = c[0][-1] if not c[0][-1].isdigit() else ''     # how the processor is built (see d_batch.cc)
        self.maxq, self.maxb, self.nprod, self.adds = int(c[0].rstrip('rfga')), int(c[1]), int(c[2]), int(c[3])
        self.fl = '' if c[4] == '-' else c[4]
        self.nshut = int(c[5].split(':')[0])      # <n> or <n>:<one timeout char per Shutdown caller>
        self.xs = '' if c[6] == '-' else c[6]
        self.acts = toks[1:]
        self.nthreads = 1 + self.nprod + len(self.fl) + self.nshut

    def role(self, tid):
        """role token of a thread id (the destructor thread, spawned last, is one more shutdown caller)"""
        if tid == 0:
            return 'W'
        if tid <= self.nprod:
            return f'P{tid - 1}'
        if tid <= self.nprod + len(self.fl):
            return f'F{tid - 1 - self.nprod}'
        return f'S{tid - 1 - self.nprod - len(self.fl)}'


def steps(cfg, out):
    """[(tid, [notes])] for the schedule and drain steps of an implementation trace, and the summary"""
    parts = out.split(' ; ')
    summary = parts[-1]
    body = parts[:-1]
    res = []
    if len(body) < len(cfg.acts):
        raise ValueError('fewer step traces than actions')
    for a, tr in zip(cfg.acts, body[:len(cfg.acts)]):
        if tr == 'x' or a[0] in 'ow':
            continue
        res.append((int(a[1:].rstrip('!')), tr.split(',')))
    for tr in body[len(cfg.acts):]:
        m = re.match(r'd(\d+):(.*)', tr)
        if not m:
            raise ValueError('bad drain segment ' + tr[:60])
        res.append((int(m.group(1)), m.group(2).split(',')))
    return res, summary


def abstract(case_line, out):
    """implementation trace -> the line fed to the Lean refinement check (`batch <maxq> <maxb> ; <event> ; ...`)"""
    cfg = Cfg(case_line)
    st, _ = steps(cfg, out)
    ev = []
    dtor_seen_isd = {}
    for tid, notes in st:
        role = cfg.role(tid)
        is_dtor = tid >= cfg.nthreads
        for n in notes:
            t = n.split()
            k = t[0]
            if role == 'W':
                if k == 'ld' and t[1] == 'is_shutdown': ev.append(f'W:isd:{"1t" if t[2] == "1" else "0f"}')
                elif k == 'ld' and t[1] == 'pending': ev.append(f'W:pend:{t[2]}')
                elif k == 'ld' and t[1] == 'notified': ev.append(f'W:not:{t[2]}')
                elif k == 'ld' and t[1] == 'head': ev.append(f'W:head:{t[2]}')
                elif k == 'ld' and t[1] == 'tail': ev.append(f'W:tail:{t[2]}')
                elif k == 'fadd' and t[1] == 'tail': ev.append(f'W:fadd:{t[2]}')
                elif k == 'export-begin': ev.append(f'W:expb:{t[1]}')
                elif k == 'export-end': ev.append('W:expe')
                elif k == 'xflush-begin': ev.append('W:xfb')
                elif k == 'xflush-end': ev.append('W:xfe')
                elif k == 'cass' and t[1] == 'notified': ev.append(f'W:cas:{t[4]}')
                elif k == 'end': ev.append('W:end')
            elif role[0] == 'P':
                if k == 'onend-begin': ev.append(f'{role}:beg')
                elif k == 'ld' and t[1] == 'is_shutdown': ev.append(f'{role}:isd:{"1t" if t[2] == "1" else "0f"}')
                elif k == 'casw' and t[1] == 'head' and t[4] == 'ok': ev.append(f'{role}:commit')
                elif k == 'onend-ret': ev.append(f'{role}:ret')
            elif role[0] == 'F':
                if k == 'flush-begin': ev.append(f'{role}:beg')
                elif k == 'ld' and t[1] == 'is_shutdown': ev.append(f'{role}:isd:{"1t" if t[2] == "1" else "0f"}')
                elif k == 'fadd' and t[1] == 'pending': ev.append(f'{role}:fadd:{t[3]}')
                elif k == 'ld' and t[1] == 'notified': ev.append(f'{role}:not:{t[2]}')
                elif k == 'flush-ret': ev.append(f'{role}:ret:{"1t" if t[1] == "1" else "0f"}')
            else:  # shutdown caller / destructor
                if k == 'shutdown-begin': ev.append(f'{role}:beg')
                elif k == 'ld' and t[1] == 'is_shutdown' and is_dtor:
                    dtor_seen_isd[tid] = t[2]
                    if t[2] == '0':
                        ev.append(f'{role}:beg')     # ~Processor(): not yet shut down -> calls Shutdown()
                elif k == 'lock' and t[1] == 'sd_m': ev.append(f'{role}:lock')
                elif k == 'xchg' and t[1] == 'is_shutdown': ev.append(f'{role}:xchg:{"1t" if t[3] == "1" else "0f"}')
                elif k == 'join': ev.append(f'{role}:join')
                elif k == 'xshutdown-begin': ev.append(f'{role}:xsb')
                elif k == 'xshutdown-end': ev.append(f'{role}:xse')
                elif k == 'unlock' and t[1] == 'sd_m': ev.append(f'{role}:unlock')
                elif k == 'shutdown-ret': ev.append(f'{role}:ret')
    return f'batch {cfg.maxq} {cfg.maxb} ; ' + ' ; '.join(ev)


class History:
    """the observable history of one implementation run (for the implementation-side oracles)"""

    def __init__(self, case_line, out):
        cfg = Cfg(case_line)
        self.cfg = cfg
        st, self.summary = steps(cfg, out)
        self.events = []       # (time, tid, role, note tokens)
        tm = 0
        for tid, notes in st:
            for n in notes:
                self.events.append((tm, tid, cfg.role(tid), n.split()))
                tm += 1
        m = re.fullmatch(r'done=(\d) reentrant=(\d+) live=(\S+)', self.summary)
        self.done = m and m.group(1) == '1'
        self.reentrant = int(m.group(2)) if m else -1
        self.live = m.group(3) if m else '?'


def gen_schedules(rng, tier, kinds=('bsp', 'blp'), flush=True, shut=True):
    big = tier == 'thorough'
    out = []
    n_cases = 30000 if big else 3000
    for _ in range(n_cases):
        kind = rng.choice(kinds)
        maxq = rng.choice([1, 2, 2, 3, 4])
        maxb = rng.randrange(1, maxq + 1)
        nprod = rng.choice([1, 1, 2, 2, 3])
        adds = rng.randrange(1, 5)
        fl = ''
        if flush:
            fl = ''.join(rng.choice('iii120') for _ in range(rng.choice([0, 1, 1, 2])))
        nshut = rng.choice([0, 1, 1, 2]) if shut else 0
        xs = rng.choice(['s', 's', 'sf', 'f', 'sF', 'sS', 'sfFS', 'u', 'su', 'v', 'suvf', 'uS'])
        nth = 1 + nprod + len(fl) + nshut
        n = rng.randrange(10, 160)
        mode = rng.random()
        th = list(range(nth))
        sched = []
        if mode < 0.25 and flush:
            # staged: whole phases of one thread each, in an order that makes calls overlap - a backlog, a ForceFlush that
            # finds it, the worker part of the way through serving it, then more records and a second ForceFlush (or a
            # Shutdown) that arrive while the first is still being served
            maxq = rng.choice([3, 4, 4]); maxb = rng.choice([1, 1, 2]); adds = rng.randrange(2, 5)
            nprod = max(nprod, 2)
            fl = ''.join(rng.choice('ii0') for _ in range(2))
            nshut = rng.choice([0, 0, 1]) if shut else 0
            nth = 1 + nprod + len(fl) + nshut
            th = list(range(nth))
            P1, P2, F1, F2 = 1, 2, 1 + nprod, 2 + nprod
            S1 = 1 + nprod + len(fl) if nshut else None
            stages = [(P1, rng.randrange(10, 45)), (F1, rng.randrange(5, 14)), (0, rng.randrange(3, 45)),
                      (P2, rng.randrange(8, 30)), (F2 if S1 is None or rng.random() < 0.7 else S1, rng.randrange(5, 14)),
                      (0, rng.randrange(5, 70)), (F1, rng.randrange(2, 8)), (F2, rng.randrange(2, 8))]
            if rng.random() < 0.5:
                # the same shape with phase lengths in units of what one Add (about 10 steps) and one iteration of the
                # worker's export loop (about 9) take, jittered: k1 records queued, the first ForceFlush, the worker j batches
                # into serving it, one more record and the second ForceFlush, the worker up to somewhere around the
                # publication, the second caller's return, then a burst from both producers
                maxq, maxb, adds = 4, 1, 4
                k1 = rng.choice([2, 3]); j = rng.randrange(0, k1)
                jit = lambda n: max(1, n + rng.randrange(-2, 4))
                stages = [(P1, jit(10 * k1)), (F1, jit(11)), (0, jit(8 + 9 * j)), (P2, jit(10)), (F2, jit(10)),
                          (0, jit(9 * (k1 - j) + 7 + rng.randrange(0, 10))), (F2, jit(6)), (P1, jit(10 * (4 - k1) + 2)), (P2, jit(32))]
            elif rng.random() < 0.5:
                stages.insert(rng.randrange(2, len(stages)), (rng.choice([P1, P2]), rng.randrange(5, 30)))
            if S1 is not None and rng.random() < 0.5:
                stages.insert(rng.randrange(3, len(stages)), (S1, rng.randrange(3, 12)))
            if rng.random() < 0.6:
                # … and once the second ForceFlush has returned, a burst of up to max_queue_size more records while the
                # worker is not scheduled: nothing may be dropped if that flush really was complete
                adds = 4
                stages += [(F2, rng.randrange(3, 10)), (P1, rng.randrange(15, 50)), (P2, rng.randrange(15, 50))]
            sched = [t for t, k in stages for _k in range(k)]
        elif mode < 0.35:
            cur = rng.choice(th)
            for _k in range(n):
                if rng.random() < 0.12:
                    cur = rng.choice(th)
                sched.append(cur)
        elif mode < 0.7:
            sched = [rng.choice(th) for _k in range(n)]
        else:
            w = [rng.random() ** 2 + 0.02 for _ in th]
            w[0] += 0.5
            sched = rng.choices(th, weights=w, k=n)
        toks = []
        for t in sched:
            r = rng.random()
            if r < 0.06:
                toks.append(f'o{t}')          # timer expiry of t's timed wait (no-op "x" when t is not in one)
            elif r < 0.09:
                toks.append(f'w{t}')          # spurious wake-up
            elif r < 0.14 and 1 <= t <= nprod:
                toks.append(f't{t}!')         # spurious weak-CAS failure in the queue
            else:
                toks.append(f't{t}')
        # every way of building the processor (two / three constructors, two factory overloads) must configure the same one
        ctor = rng.choice(['', '', 'r', 'f', 'g'] + (['a'] if kind == 'blp' else []))
        # every timeout value (zero, finite, max): a ForceFlush timeout below schedule_delay clips the caller's wait
        # ('h' half a delay, 'u' one microsecond)
        if fl and rng.random() < 0.2:
            k = rng.randrange(len(fl))
            fl = fl[:k] + rng.choice('hu') + fl[k + 1:]
        # Shutdown callers with a finite timeout (a quarter / half / one schedule_delay, zero, or one microsecond): the timeout
        # bounds the caller's patience, never what is exported - the virtual clock moves when a timed wait expires (`o<i>`)
        shtok = str(nshut)
        if nshut and rng.random() < 0.4:
            shtok = f'{nshut}:' + ''.join(rng.choice('i0124u') for _ in range(nshut))
            toks = [(f'o{rng.choice([0] + list(range(1 + nprod, nth)))}' if rng.random() < 0.08 else t) for t in toks]
        line = f'{kind} {maxq}{ctor} {maxb} {nprod} {adds} {fl or "-"} {shtok} {xs} ; ' + ' ; '.join(toks)
        out.append(Case(line, 'd_bsp' if kind == 'bsp' else 'd_blp', (kind, 'random', f'fl{len(fl)}sh{nshut}', 'ctor-' + (ctor or 'plain'))
                        + (('shutdown-timeout',) if ':' in shtok else ()) + (('flush-timeout-below-delay',) if set(fl) & set('hu') else ())))
    return out


# ------------------------------------------------------------------------------------------------------------------
# implementation-side oracles (the property clauses evaluated on the observable history alone)

def analyse(h: History):
    """derived facts: per record begin/chk/commit/ret times, exports, flush and shutdown calls"""
    rec = {}          # id -> dict(tid, begin, chk(None/0/1), chk_t, commit_t, ret_t)
    cur = {}          # tid -> id in flight
    exports = []      # dict(begin_t, end_t, ids, size, inflight)
    xflush = []       # (begin_t, end_t)
    xshut = []        # begin_t
    flushes = {}      # tid -> dict(begin, ret_t, ret)
    shuts = {}        # tid -> dict(begin, ret_t, ret)
    worker_end = None
    blocking = []     # producer notes that block
    open_exp = None
    for tm, tid, role, t in h.events:
        k = t[0]
        if role[0] == 'P':
            if k == 'onend-begin':
                i = int(t[1][1:]); rec[i] = {'tid': tid, 'begin': tm, 'chk': None, 'chk_t': None, 'commit_t': None, 'ret_t': None}; cur[tid] = i
            elif k == 'ld' and t[1] == 'is_shutdown':
                if rec[cur[tid]]['chk'] is None:      # the first test of the flag in this call decides; a later re-read does not
                    rec[cur[tid]]['chk'] = int(t[2]); rec[cur[tid]]['chk_t'] = tm
            elif k == 'casw' and t[1] == 'head' and t[4] == 'ok':
                rec[cur[tid]]['commit_t'] = tm
            elif k == 'onend-ret':
                rec[cur[tid]]['ret_t'] = tm
            elif k in ('lock', 'relock', 'wait', 'twait', 'join', 'trylock', 'sleep', 'yield'):
                blocking.append((tid, ' '.join(t)))     # a producer that locks, waits, sleeps or yields is waiting for somebody
        elif role == 'W':
            if k == 'export-begin':
                ids = [] if t[2] == '-' else [(-1 if x == 'null' else int(x[1:])) for x in t[2].split('.')]
                open_exp = {'begin_t': tm, 'end_t': None, 'ids': ids, 'size': int(t[1]), 'inflight': int(t[3].split('=')[1])}
                exports.append(open_exp)
            elif k == 'export-end' and open_exp is not None:
                open_exp['end_t'] = tm
            elif k == 'xflush-begin':
                xflush.append([tm, None])
            elif k == 'xflush-end' and xflush:
                xflush[-1][1] = tm
            elif k == 'end':
                worker_end = tm
        elif role[0] == 'F':
            if k == 'flush-begin':
                flushes[tid] = {'begin': tm, 'ret_t': None, 'ret': None}
            elif k == 'flush-ret':
                flushes[tid]['ret_t'] = tm; flushes[tid]['ret'] = int(t[1])
        else:
            if k in ('shutdown-begin', 'dtor-begin'):
                shuts[tid] = {'begin': tm, 'ret_t': None, 'ret': None, 'dtor': k == 'dtor-begin'}
            elif k == 'shutdown-ret':
                shuts[tid]['ret_t'] = tm; shuts[tid]['ret'] = int(t[1])
            elif k == 'dtor-ret':
                shuts[tid]['ret_t'] = tm; shuts[tid]['ret'] = 1
            elif k == 'xshutdown-begin':
                xshut.append(tm)
        if role != 'W' and k in ('export-begin', 'xflush-begin'):
            exports.append({'begin_t': tm, 'end_t': tm, 'ids': [], 'size': -1, 'inflight': 99, 'by': role})
    return rec, exports, xflush, xshut, flushes, shuts, worker_end, blocking


def oracle_c01(case, out):
    if out.startswith('CRASH'):
        return ('no-crash', out)
    h = History(case.line, out)
    if not h.done:
        return None   # termination is C02's clause
    rec, exports, xflush, xshut, flushes, shuts, worker_end, blocking = analyse(h)
    delivered = [i for e in exports for i in e['ids']]
    if -1 in delivered:
        return ('no-null-record-delivered', out[-200:])
    if len(set(delivered)) != len(delivered):
        return ('nothing-delivered-twice', f'{sorted(delivered)}')
    first_shut = min([s['begin'] for s in shuts.values()], default=None)
    exp_end_times = sorted((e['end_t'], e['size']) for e in exports if e['end_t'] is not None)
    begun_times = sorted(r['chk_t'] for r in rec.values() if r['chk'] == 0)
    for i, r in rec.items():
        if r['ret_t'] is None:
            continue
        if r['commit_t'] is not None:
            # accepted: must be delivered exactly once, unless its OnEnd raced Shutdown (not "ended before shutdown")
            if i not in delivered and (first_shut is None or r['ret_t'] < first_shut):
                return ('accepted-record-is-delivered', f'r{i} accepted at {r["commit_t"]}, never exported')
        else:
            if i in delivered:
                return ('only-accepted-records-delivered', f'r{i}')
            if r['chk'] == 0:
                # dropped: only because the queue was at capacity
                begun_before_ret = sum(1 for t in begun_times if t < r['ret_t']) - 1
                exported_before_begin = sum(sz for (t, sz) in exp_end_times if t < r['chk_t'])
                if begun_before_ret - exported_before_begin < h.cfg.maxq:
                    return ('dropped-only-when-queue-full', f'r{i}: begun-before-return={begun_before_ret} exported-before-begin={exported_before_begin} max_queue_size={h.cfg.maxq}')
                # … in particular never when at most max_queue_size records were produced since a completed flush: a
                # ForceFlush that returned true before this Add began has emptied the queue of everything whose OnEnd
                # had returned when it began, so only records still in OnEnd then, or begun since, can occupy it
                for ftid, f in flushes.items():
                    if f['ret'] == 1 and f['ret_t'] is not None and f['ret_t'] < r['chk_t']:
                        since = sum(1 for q in rec.values() if q['chk'] == 0 and q['chk_t'] < r['ret_t'] and
                                    (q['ret_t'] is None or q['ret_t'] > f['begin']))
                        if since <= h.cfg.maxq:
                            return ('no-drop-within-max_queue_size-of-a-completed-flush',
                                    f'r{i} dropped; flush of T{ftid} returned true at {f["ret_t"]}; {since} records (this one included) '
                                    f'were in OnEnd or begun since it began at {f["begin"]}; max_queue_size={h.cfg.maxq}')
    for tid in {r['tid'] for r in rec.values()}:
        seq = [i for i in delivered if rec.get(i, {}).get('tid') == tid]
        if seq != sorted(seq):
            return ('per-producer-order', f'T{tid}: {seq}')
    if blocking:
        return ('producers-never-wait', str(blocking[:2]))
    if h.live not in ('0',):
        return ('no-leak', h.summary)
    return None


def oracle_c02(case, out):
    if out.startswith('CRASH'):
        return ('no-crash', out)
    h = History(case.line, out)
    if not h.done:
        return ('forceflush-and-shutdown-terminate', h.summary)
    rec, exports, xflush, xshut, flushes, shuts, worker_end, blocking = analyse(h)
    exp_of = {}
    for e in exports:
        for i in e['ids']:
            exp_of[i] = e
    for tid, f in flushes.items():
        if f['ret_t'] is None:
            continue
        if f['ret'] == 1:
            last = f['begin']
            for i, r in rec.items():
                if r['commit_t'] is not None and r['commit_t'] < f['begin']:
                    e = exp_of.get(i)
                    if e is None or e['end_t'] is None or e['end_t'] > f['ret_t']:
                        return ('flush-true-means-everything-before-was-exported', f'flusher T{tid}: r{i} committed at {r["commit_t"]} < begin {f["begin"]}, not exported by {f["ret_t"]}')
                    last = max(last, e['end_t'])
            if not any(b >= last and e2 is not None and e2 <= f['ret_t'] for b, e2 in xflush):
                return ('flush-true-means-exporter-forceflush-invoked', f'flusher T{tid}: no exporter ForceFlush between {last} and {f["ret_t"]}')
    rets = [s['ret_t'] for s in shuts.values() if s['ret_t'] is not None]
    if rets:
        first_ret = min(rets)
        if len(xshut) != 1:
            return ('exporter-shut-down-exactly-once', f'{len(xshut)} exporter Shutdown calls')
        first = min(shuts.values(), key=lambda s: s['ret_t'] if s['ret_t'] is not None else 10 ** 9)
        for i, r in rec.items():
            if r['commit_t'] is not None and r['ret_t'] is not None and r['ret_t'] < min(s['begin'] for s in shuts.values()):
                e = exp_of.get(i)
                if e is None or e['end_t'] is None or e['end_t'] > first_ret:
                    return ('shutdown-exports-everything-produced-before', f'r{i}')
        for e in exports:
            if e['begin_t'] > first_ret:
                return ('no-exporter-call-after-shutdown-returned', f'Export at {e["begin_t"]} > {first_ret}')
        for b, _e in xflush:
            if b > first_ret:
                return ('no-exporter-call-after-shutdown-returned', f'ForceFlush at {b}')
        for b in xshut:
            if b > first_ret:
                return ('no-exporter-call-after-shutdown-returned', f'Shutdown at {b}')
        for i, r in rec.items():
            if r['begin'] > first_ret and (r['commit_t'] is not None or r['chk'] != 1):
                return ('late-onend-is-a-noop', f'r{i}')
        for tid, f in flushes.items():
            if f['begin'] > first_ret and f['ret'] not in (0, None):
                return ('late-forceflush-returns-false', f'T{tid}')
        for tid, s in shuts.items():
            if s['begin'] > first_ret and s['ret'] not in (1, None):
                return ('late-shutdown-returns-true', f'T{tid}')
    elif xshut:
        pass
    return None


def oracle_c03(case, out):
    if out.startswith('CRASH'):
        return ('no-crash', out)
    h = History(case.line, out)
    rec, exports, xflush, xshut, flushes, shuts, worker_end, blocking = analyse(h)
    if h.reentrant != 0:
        return ('export-never-reentered', h.summary)
    for e in exports:
        if e.get('by'):
            return ('only-the-worker-calls-the-exporter', e['by'])
        if e['inflight'] != 1:
            return ('export-never-reentered', f'inflight={e["inflight"]}')
        if e['size'] < 1:
            return ('batch-non-empty', f'size {e["size"]}')
        if e['size'] > h.cfg.maxb:
            return ('batch-at-most-max_export_batch_size', f'batch of {e["size"]} > {h.cfg.maxb} ({"after" if any(f["begin"] < e["begin_t"] for f in flushes.values()) else "without"} a ForceFlush)')
    return None


H_SSP = Harness('d_ssp', ['harness/d_simple.cc'], flags=SHIM, includes=SDK_INCLUDES, plain_srcs=['harness/shim/detsched.cc'],
                sdk_srcs=sdk_sources('common') + ['sdk/src/trace/exporter.cc', 'sdk/src/trace/simple_processor_factory.cc'])
H_SLP = Harness('d_slp', ['harness/d_simple.cc'], flags=SHIM + ['-DSIMPLE_LOGS'], includes=SDK_INCLUDES, plain_srcs=['harness/shim/detsched.cc'],
                sdk_srcs=sdk_sources('common') + ['sdk/src/logs/exporter.cc', 'sdk/src/logs/simple_log_record_processor.cc', 'sdk/src/logs/simple_log_record_processor_factory.cc'])


def model_line(case, out):
    w = case.line.split()[0]
    if w in ('bsp', 'blp'):
        return abstract(case.line, out)
    if w in ('ssp', 'slp'):
        cfg, rest = case.line.split(' ; ', 1) if ' ; ' in case.line else (case.line, '')
        scripts = ' '.join('L' * int(n.rstrip('f')) if int(n.rstrip('f')) else '-' for n in cfg.split()[1:] if n != 'S')     # suffix f: built by the factory
        return f'spin {scripts}' + (f' ; {rest}' if rest else '')
    return case.line


def agree(case, out, mout):
    w = case.line.split()[0]
    if w in ('bsp', 'blp'):
        return mout.startswith('ok ')
    return out == mout


def batch_corpus():
    out = []
    # D01: a ForceFlush before the records arrive, then more than max_export_batch_size records queued
    out.append(Case('bsp 3 1 1 3 i 0 s ; t2 ; t2 ; t2 ; t2 ; t2 ; t2 ; t1 ; t1 ; t1 ; t1 ; t1 ; t1 ; t1 ; t1 ; t1 ; t1 ; t1 ; t1 ; t1 ; t1 ; t1 ; t1 ; t0 ; t0 ; t0 ; t0 ; t0 ; t0 ; t0 ; t0 ; t0 ; t0 ; t0 ; t0', 'd_bsp', ('corpus', 'D01-flush-then-batch'), 'corpus'))
    out.append(Case('blp 3 1 1 3 i 0 s ; t2 ; t2 ; t2 ; t2 ; t2 ; t2 ; t1 ; t1 ; t1 ; t1 ; t1 ; t1 ; t1 ; t1 ; t1 ; t1 ; t1 ; t1 ; t1 ; t1 ; t1 ; t1 ; t1 ; t1 ; t0 ; t0 ; t0 ; t0 ; t0 ; t0 ; t0 ; t0 ; t0 ; t0 ; t0 ; t0', 'd_blp', ('corpus', 'D01-flush-then-batch'), 'corpus'))
    out.append(Case('bsp 4 2 1 3 i 1 s ; t0 ; t0 ; t0 ; t0 ; t0 ; t0 ; t1 ; t1 ; t1 ; t1 ; t1 ; t1 ; t1 ; t1 ; t1 ; t1 ; t1 ; t0 ; t0 ; t0 ; t0 ; t0', 'd_bsp', ('corpus', 'flush-and-shutdown'), 'corpus'))
    # a burst larger than max_export_batch_size but within max_queue_size, through every constructor / factory overload
    burst = ' ; '.join(['t1'] * 40 + ['t0'] * 40)
    for kind, ctors in (('bsp', ['', 'r', 'f', 'g']), ('blp', ['', 'r', 'f', 'g', 'a'])):
        for c in ctors:
            out.append(Case(f'{kind} 4{c} 1 1 4 - 0 s ; {burst}', 'd_bsp' if kind == 'bsp' else 'd_blp', ('corpus', 'ctor-' + (c or 'plain')), 'corpus'))
    # every timeout value: a ForceFlush whose timeout is below schedule_delay (its wait is clipped and expires: 'o2'), and
    # Shutdown called with a finite / zero / one-microsecond timeout (`<n>:<chars>`)
    for kind in ('bsp', 'blp'):
        hn = 'd_bsp' if kind == 'bsp' else 'd_blp'
        for f in 'hu':
            out.append(Case(f'{kind} 3 2 1 3 {f} 0 s ; ' + ' ; '.join(['t1'] * 25 + ['t2'] * 8 + ['o2', 't2', 't2', 't2'] + ['t0'] * 30), hn, ('corpus', 'flush-timeout-below-delay'), 'corpus'))
        for z in ('3u', '0i', 'u4'):
            out.append(Case(f'{kind} 3 2 1 3 i 2:{z} sS ; ' + ' ; '.join(['t1'] * 25 + ['t3'] * 6 + ['t4'] * 6 + ['t0'] * 30 + ['t3'] * 10 + ['t4'] * 10), hn, ('corpus', 'shutdown-timeout'), 'corpus'))
    return out


def gen_simple(rng, tier):
    big = tier == 'thorough'
    out = []
    for _ in range(3000 if big else 250):
        kind = rng.choice(['ssp', 'slp'])
        nt = rng.choice([2, 2, 3])
        counts = [rng.randrange(1, 4) for _ in range(nt)]
        n = rng.randrange(5, 80)
        if rng.random() < 0.5:
            sched = [rng.randrange(nt) for _ in range(n)]
        else:
            cur = rng.randrange(nt); sched = []
            for _k in range(n):
                if rng.random() < 0.2:
                    cur = rng.randrange(nt)
                sched.append(cur)
        # a third of the cases on a processor that has been shut down: the calls still serialise on the lock
        sd = ' S' if rng.random() < 0.33 else ''
        fac = rng.random() < 0.5        # constructor or the factory's Create: the same processor
        out.append(Case(f'{kind} ' + ' '.join(map(str, counts)).replace(' ', 'f ' if fac else ' ', 1) + sd + ' ; ' + ' ; '.join(f't{t}' for t in sched),
                        'd_ssp' if kind == 'ssp' else 'd_slp', (kind, 'random', 'after-shutdown' if sd else 'live', 'ctor-factory' if fac else 'ctor-plain')))
    # a slow exporter: thread 0 is inside Export while thread 1 goes through the whole fast loop of the spin lock (100
    # iterations), its yield and its sleep; Export returns when the waiter is at each position around them
    for kind in ('ssp', 'slp'):
        for n in (range(94, 114) if big else range(98, 110)):
            out.append(Case(f'{kind} 2 2 ; t0 ; t0 ; t0 ; ' + ' ; '.join(['t1'] * n) + ' ; t0 ; t0 ; t0 ; ' + ' ; '.join(['t1'] * 6 + ['t0'] * 5 + ['t1'] * 6),
                            'd_ssp' if kind == 'ssp' else 'd_slp', (kind, 'slow-export-handover-around-yield')))
            # ... and the first thread comes back for its second call while the waiter, having got the lock k steps after the
            # hand-over, is still inside Export: whoever holds the lock must have SET it
            for k in (1, 2, 3):
                out.append(Case(f'{kind} 2 2 ; t0 ; t0 ; t0 ; ' + ' ; '.join(['t1'] * n) + ' ; t0 ; t0 ; t0 ; ' + ' ; '.join(['t1'] * k + ['t0'] * 6 + ['t1'] * 8 + ['t0'] * 4),
                                'd_ssp' if kind == 'ssp' else 'd_slp', (kind, 'slow-export-handover-then-relock')))
    return out


def oracle_simple(case, out):
    """SimpleSpanProcessor / SimpleLogRecordProcessor: Export never re-entered"""
    if out.startswith('CRASH'):
        return ('no-crash', out)
    m = re.search(r'done=(\d) viol=(\d+)', out)
    if not m:
        return ('summary', out[-100:])
    if m.group(1) != '1':
        return ('onend-terminates', out[-100:])
    if m.group(2) != '0' or re.search(r'cs (?!1\b)\d+', out):
        return ('export-never-reentered', out[-200:])
    return None
