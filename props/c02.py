"""C02 - ForceFlush and Shutdown are complete, final and always return."""
from props import batchcommon as B
from props import readercommon as RD
import importlib, os

ID = 'C02'
GEN = ['Batch']
LEAN_TARGETS = ['OtelVerif.Props.C02', 'OtelVerif.Props.C02Live'] + RD.LEAN_TARGETS
THEOREMS = ['Otel.C02.' + t for t in (
    'flush_complete', 'published_tickets_flushed', 'exporter_shutdown_at_most_once', 'shutdown_returned', 'shutdown_drains',
    'no_exporter_call_after_shutdown_returned', 'no_export_after_done', 'shutdown_is_final', 'late_onend_is_noop',
    'late_forceflush_returns_false', 'late_shutdown_is_noop', 'worker_never_stuck', 'flusher_never_stuck',
    'shutdown_blocked_only_by',
    # progress (Props/C02Live.lean): a rank the worker lowers with every transition until the newest ticket is served
    'flush_served_within', 'rank_decreases', 'served_flusher_returns_true', 'queue_within_capacity',
    'worker_terminates_within', 'worker_terminates', 'rank2_decreases', 'join_enabled_when_done')] + ['Otel.Batch.reachable_inv', 'Otel.Batch.inv_astep', 'Otel.Batch.served_of_wcount', 'Otel.Batch.done_of_wcount']
THEOREMS = THEOREMS + RD.THEOREMS_C02 + RD.THEOREMS_C02_LIVE
HARNESSES = [B.H_BSP, B.H_BLP] + RD.HARNESSES
SUBS = [importlib.import_module('props.' + n) for n in ('c02_fanout', 'c02_mpflush') if os.path.exists(os.path.join(os.path.dirname(__file__), n + '.py'))]
for _m in SUBS:
    LEAN_TARGETS = LEAN_TARGETS + list(_m.LEAN_TARGETS)
    THEOREMS = THEOREMS + list(_m.THEOREMS)
    HARNESSES = HARNESSES + [h for h in _m.HARNESSES if h.name not in {x.name for x in HARNESSES}]
    GEN = GEN + [g for g in (_m.GEN or []) if g not in GEN]
ENGINE = 'lean-proof + deterministic-scheduler refinement check (Engine D)'
RULE = ('schedules of the UNMODIFIED batch processors with concurrent ForceFlush callers (indefinite and finite timeouts), 0-2 '
        'Shutdown callers and the destructor, exporters whose Export / ForceFlush / Shutdown report failure, timer expiry and '
        'spurious wake-ups as schedule actions; every run is drained to quiescence under a step budget (termination). The trace '
        'is abstracted to protocol events and replayed on the Lean model. non-trivial = at least two threads act')
TRUSTED = ['the scheduler shim', 'props/batchcommon.py::abstract',
           'scheduling fairness for the worker / collect thread and expiry of timed waits (the progress theorems count that thread\'s transitions; every run of the correspondence is also drained to quiescence under a step budget)']
ASSUMPTIONS = ['sequential consistency', 'periodic reader: flush completeness is partial (D17: a collection cancelled by export_timeout skips Export but the ticket is still published)']


def corpus():
    return B.batch_corpus() + RD.corpus() + [c for m in SUBS for c in m.corpus()]


def generate(rng, tier):
    return B.gen_schedules(rng, tier) + RD.generate(rng, tier) + [c for m in SUBS for c in m.generate(rng, tier)]


def oracle(case, out):
    w = case.line.split()[0]
    for m in SUBS:
        if w in m.WORDS:
            return m.oracle(case, out)                 # the sub-check has its own malformed stream (bad-op expected on both sides)
    if out == 'bad-op':
        return ('harness-rejected-case', out)
    if w in RD.WORDS:
        return RD.oracle(case, out, ('c02',))
    for m in SUBS:
        if w in m.WORDS:
            return m.oracle(case, out)
    return B.oracle_c02(case, out)


def model_line(case, out):
    w = case.line.split()[0]
    if w in RD.WORDS:
        return RD.model_line(case, out)
    for m in SUBS:
        if w in m.WORDS:
            return m.model_line(case, out) if hasattr(m, 'model_line') else case.line
    return B.model_line(case, out)


def agree(case, out, mout):
    w = case.line.split()[0]
    if w in RD.WORDS:
        return RD.agree(case, out, mout)
    for m in SUBS:
        if w in m.WORDS:
            return m.agree(case, out, mout) if hasattr(m, 'agree') else out == mout
    return B.agree(case, out, mout)


def signature(case, out, clause):
    w = case.line.split()[0]
    for m in SUBS:
        if w in m.WORDS and hasattr(m, 'signature'):
            return m.signature(case, out, clause)
    return clause


def nontrivial(case, out):
    w = case.line.split()[0]
    for m in SUBS:
        if w in m.WORDS and hasattr(m, 'nontrivial'):
            return m.nontrivial(case, out)
    toks = case.line.split(' ; ')[1:]
    return len({t.rstrip('!')[1:] for t in toks}) >= 2


LEVEL_TEXT = ('Lean 4: from one inductive invariant of the protocol model, for every schedule: flush_complete (ForceFlush true => '
              'everything committed before the call began was exported before a completed exporter ForceFlush), exporter shut '
              'down at most once and exactly once when a Shutdown returned, shutdown_drains, no exporter call after a Shutdown '
              'returned, shutdown final, late OnEnd/ForceFlush/Shutdown are no-ops, "never stuck" lemmas, and progress: flush_served_within (from every reachable '
              'state, in every continuation that issues no further ticket, 5*max_queue_size+24 worker transitions publish every '
              'outstanding ticket or the processor is shut down; worker_terminates_within: once is_shutdown is set and no in-flight '
              'producer / flusher acts any more, 32*(max_queue_size+unpublished tickets)+32 worker transitions end DoBackgroundWork, '
              'so Shutdown\'s join returns; worker_terminates: the same with no assumption on the environment, 64 more transitions per late '
              'commit / ticket; reader_flush_served_within (23) and reader_worker_terminates_within (13) for the periodic reader; the '
              'fan-out over providers and multi-processors (30 theorems) - rank functions, not bounded searches). '
              'Tie: refinement check of real executions under the deterministic scheduler.')
LEVEL_NOTE = ('Trusted: Lean kernel; scheduler shim (SC); event abstraction; fairness. Partial: that the worker thread is scheduled and its timed wait expires is assumed (wcount counts its transitions);  reader flush completeness holds unless a collection was cancelled by export_timeout (D17 witness).')
DESIGN_REF = 'DESIGN.md section 4, C02; Appendix C'
