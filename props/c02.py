"""C02 - ForceFlush and Shutdown are complete, final and always return."""
from props import batchcommon as B

ID = 'C02'
GEN = ['Batch']
LEAN_TARGETS = ['OtelVerif.Props.C02']
THEOREMS = ['Otel.C02.' + t for t in (
    'flush_complete', 'published_tickets_flushed', 'exporter_shutdown_at_most_once', 'shutdown_returned', 'shutdown_drains',
    'no_exporter_call_after_shutdown_returned', 'no_export_after_done', 'shutdown_is_final', 'late_onend_is_noop',
    'late_forceflush_returns_false', 'late_shutdown_is_noop', 'worker_never_stuck', 'flusher_never_stuck',
    'shutdown_blocked_only_by')] + ['Otel.Batch.reachable_inv', 'Otel.Batch.inv_astep']
HARNESSES = [B.H_BSP, B.H_BLP]
ENGINE = 'lean-proof + deterministic-scheduler refinement check (Engine D)'
RULE = ('schedules of the UNMODIFIED batch processors with concurrent ForceFlush callers (indefinite and finite timeouts), 0-2 '
        'Shutdown callers and the destructor, exporters whose Export / ForceFlush / Shutdown report failure, timer expiry and '
        'spurious wake-ups as schedule actions; every run is drained to quiescence under a step budget (termination). The trace '
        'is abstracted to protocol events and replayed on the Lean model. non-trivial = at least two threads act')
TRUSTED = ['the scheduler shim', 'props/batchcommon.py::abstract', 'fairness (termination is "never stuck" + drained runs)']
ASSUMPTIONS = ['sequential consistency', 'provider / multi-processor fan-out and the periodic reader are in progress']


def corpus():
    return B.batch_corpus()


def generate(rng, tier):
    return B.gen_schedules(rng, tier)


def oracle(case, out):
    if out == 'bad-op':
        return ('harness-rejected-case', out)
    return B.oracle_c02(case, out)


model_line = B.model_line
agree = B.agree


def signature(case, out, clause):
    return clause


def nontrivial(case, out):
    toks = case.line.split(' ; ')[1:]
    return len({t.rstrip('!')[1:] for t in toks}) >= 2


LEVEL_TEXT = ('Lean 4: from one inductive invariant of the protocol model, for every schedule: flush_complete (ForceFlush true => '
              'everything committed before the call began was exported before a completed exporter ForceFlush), exporter shut '
              'down at most once and exactly once when a Shutdown returned, shutdown_drains, no exporter call after a Shutdown '
              'returned, shutdown final, late OnEnd/ForceFlush/Shutdown are no-ops, and "never stuck" lemmas for termination. '
              'Tie: refinement check of real executions under the deterministic scheduler.')
LEVEL_NOTE = ('Trusted: Lean kernel; scheduler shim (SC); event abstraction; fairness. Partial: liveness under real schedulers; '
              'provider fan-out and periodic reader clauses are being added.')
DESIGN_REF = 'DESIGN.md section 4, C02; Appendix C'
