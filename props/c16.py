"""C16 - B3 and Jaeger propagation: round-trip identity and the sampling decision."""
import re
from vcore import Case, Harness

ID = 'C16'
GEN = ['Hex', 'TraceState', 'B3', 'TabB3', 'TabHex']
LEAN_TARGETS = ['OtelVerif.Props.C16', 'OtelVerif.Props.TabB3', 'OtelVerif.Props.TabHex', 'OtelVerif.Props.TabHexB']
THEOREMS = ['Otel.Idx.splitString_eq', 'Otel.Idx.hexToBinary_eq'] + ['Otel.C16.' + t for t in (
    'gen_b3', 'gen_b3_multi_fixed', 'gen_jaeger', 'gen_header_names',
    'isSampled_iff', 'and_one_eq_sampledBit', 'fixed_multi_sampled_right', 'asis_multi_sampled_right_iff',
    'traceFlagsFromHex_eq', 'b3_extract_eq', 'jaeger_extract_eq', 'b3_never_oob', 'jaeger_never_oob',
    'hexToBinary_hex', 'hexToBinary_length',
    'b3_accepts', 'jaeger_accepts', 'b3single_roundtrip', 'b3multi_roundtrip', 'jaeger_roundtrip',
    'b3multi_roundtrip_asis_witness', 'b3multi_roundtrip_asis_partial',
    'b3_64bit_id_left_padded', 'jaeger_64bit_id_left_padded', 'b3_sampling_decision', 'b3_debug_is_sampled',
    'b3_missing_sampling_unsampled', 'jaeger_missing_flags_unsampled', 'jaeger_sampling_decision', 'b3_two_field_header_presents', 'b3_multi_without_sampled_presents',
    'b3_single_precedes_multi', 'b3_extract_valid_or_unchanged', 'jaeger_extract_valid_or_unchanged',
    'b3_extract_iff', 'jaeger_extract_iff', 'never_oob', 'extract_valid_or_unchanged',
    'invalid_never_injected', 'no_span_never_injected', 'idFromHex_overlong_invalid')] + ['Otel.Tab.' + t for t in (
    'tab_b3FlagsFromHex1', 'tab_b3FlagsFromHexShort', 'tab_b3InjectSingleChar', 'tab_b3InjectMultiSampled', 'tab_jaegerGetTraceFlags', 'tab_jaegerInjectChar', 'tab_hexToInt', 'tab_isValidHex1', 'tab_hexToBinary1', 'tab_hexToBinary2_digits', 'tab_hexToBinaryShort', 'tab_traceIdLower', 'tab_spanIdLower', 'tab_flagsLower', 'tab_flagsIsSampled', 'tab_flagsIsRandom', 'tab_hexToBinary2_cross', 'tab_tpFlagsByte', 'tab_tpInjectFlags')]
HARNESSES = [Harness('f_c16', ['harness/f_c16.cc'])]
H = 'f_c16'
RULE = ('inject / round trip: all 256 flag bytes x random and edge ids x {B3 single, B3 multi, Jaeger}; extract: valid headers '
        '(32/16-digit ids, either case, flags 0/1/d/absent, parent id), single + multi together (precedence), every single-byte '
        'substitution of a valid b3 (51x256) and uber-trace-id (54x256) header, id lengths 0-40 (odd too), missing fields, '
        'extra separators, insert/delete/duplicate/truncate mutations, NUL and >=0x80 bytes, junk length sweeps; extraction into a '
        'context that already holds a span; contexts without a span / with a non-span value under the span key on the inject side; '
        'Fields() with a declining callback; the static helpers TraceFlagsFromHex (every byte) and TraceIdFromHex / SpanIdFromHex '
        '(hex of 0-40 digits) called directly; round-trip results compared through SpanContext / TraceId / SpanId / TraceFlags operator== / !=. '
        'non-trivial = a non-empty header / a valid span context is involved; distinct = distinct case line')
TRUSTED = ['memory safety of the C++ (no out-of-bounds read) is shown by ASan/UBSan runs on exact-size buffers; the never_oob '
           'theorems are about the index-explicit model']
ASSUMPTIONS = ['a carrier returns the empty string for an absent header (as the repo\'s carriers do)',
               'fix D05 (fixes/D05-b3-multi-sampled.diff) is applied: the model follows Gen.b3MultiSampledFromDecision, the '
               'round-trip theorem needs it to be true']
HEXD = b'0123456789abcdefABCDEF'


def hx(b):
    return b.hex() if b else '-'


# ------------------------------------------------------------------------------------------------ corpus

def corpus():
    tid = bytes(range(1, 17)); sid = bytes(range(1, 9))
    out = []
    # D05: sampled + another low-nibble bit -> X-B3-Sampled must still be "1" and read back as sampled
    for f in (0x03, 0x05, 0x0f, 0xff, 0x09, 0x0b, 0x02, 0x0d, 0x1d, 0x10, 0x00, 0x01):
        out.append(Case(f'b3 rt-multi {tid.hex()} {sid.hex()} {f:02x}', H, ('corpus', 'D05-witness'), 'corpus'))
        out.append(Case(f'b3 inject-multi {tid.hex()} {sid.hex()} {f:02x}', H, ('corpus', 'D05-witness'), 'corpus'))
    for f in (0x03, 0xfe, 0xab):
        out.append(Case(f'b3 rt-single {tid.hex()} {sid.hex()} {f:02x}', H, ('corpus', 'roundtrip'), 'corpus'))
        out.append(Case(f'jg rt {tid.hex()} {sid.hex()} {f:02x}', H, ('corpus', 'roundtrip'), 'corpus'))
    # the documented examples
    ex = b'80f198ee56343ba864fe8b2a57d3eff7-e457b5a2e4d86bd1-1-05e3ac9a4f6e3b90'
    out.append(Case(f'b3 extract {hx(ex)} - - -', H, ('corpus', 'doc-example'), 'corpus'))
    out.append(Case(f'b3 extract {hx(b"463ac35c9f6413ad-0020000000000001-d")} - - -', H, ('corpus', 'doc-example'), 'corpus'))
    out.append(Case(f'b3 extract {hx(b"463ac35c9f6413ad-0020000000000001")} - - -', H, ('corpus', 'doc-example'), 'corpus'))
    out.append(Case(f'b3 extract - {hx(b"463ac35c9f6413ad")} {hx(b"0020000000000001")} -', H, ('corpus', 'doc-example'), 'corpus'))
    out.append(Case(f'jg extract {hx(b"4bf92f3577b34da6a3ce929d0e0e4736:0102030405060708:0:01")}', H, ('corpus', 'doc-example'), 'corpus'))
    out.append(Case(f'jg extract {hx(b"a3ce929d0e0e4736:0102030405060708:0:3")}', H, ('corpus', 'doc-example'), 'corpus'))
    return out


# ------------------------------------------------------------------------------------------------ generators

def rand_id(rng, n):
    r = rng.random()
    if r < 0.05:
        return bytes(n)
    if r < 0.12:
        return bytes(n - 1) + bytes([rng.randrange(1, 256)])
    if r < 0.18:
        return bytes([rng.randrange(1, 256)]) + bytes(n - 1)
    if r < 0.24:
        return bytes(rng.choice([0, 0xff, 0x0a, 0xa0]) for _ in range(n))
    return bytes(rng.randrange(256) for _ in range(n))


def hexcase(rng, b, upper=None):
    s = b.hex().encode()
    if upper is None:
        upper = rng.random() < 0.3
    if upper:
        s = bytes(c - 32 if 97 <= c <= 102 and rng.random() < 0.6 else c for c in s)
    return s


def rand_hex(rng, n):
    return bytes(rng.choice(HEXD) for _ in range(n))


def valid_b3(rng):
    """(b3 header, tag): a documented single header"""
    tid = rand_id(rng, rng.choice([16, 16, 8]))
    sid = rand_id(rng, 8)
    h = hexcase(rng, tid) + b'-' + hexcase(rng, sid)
    r = rng.random()
    if r < 0.2:
        return h
    h += b'-' + rng.choice([b'1', b'0', b'd', b'1', b'0'])
    if r < 0.5:
        h += b'-' + hexcase(rng, rand_id(rng, 8))
    return h


def valid_jg(rng):
    tid = rand_id(rng, rng.choice([16, 16, 8]))
    sid = rand_id(rng, 8)
    parent = rng.choice([b'0', b'', hexcase(rng, rand_id(rng, 8))])
    fl = rng.choice([b'0', b'1', b'00', b'01', b'3', b'03', b'02', b'ff', b'FE', b'', b'7', b'a'])
    return hexcase(rng, tid) + b':' + hexcase(rng, sid) + b':' + parent + b':' + fl


def mutate(rng, s, sep):
    s = bytearray(s)
    for _ in range(rng.randrange(1, 4)):
        r = rng.random()
        pos = rng.randrange(len(s) + 1)
        alpha = bytes([sep, sep]) + b'0aAfFgGd1 \x00\xff\x80' + bytes([rng.randrange(256)])
        if r < 0.2 and s:
            del s[min(pos, len(s) - 1)]
        elif r < 0.45:
            s.insert(pos, rng.choice(alpha))
        elif r < 0.6 and s:
            s[min(pos, len(s) - 1)] = rng.choice(alpha)
        elif r < 0.7 and s:
            p = min(pos, len(s) - 1); s.insert(p, s[p])
        elif r < 0.8:
            s = s[:pos]
        elif r < 0.9:
            s += bytes(rng.choice(bytes([sep]) + b'0a') for _ in range(rng.randrange(1, 40)))
        else:
            parts = bytes(s).split(bytes([sep]))
            rng.shuffle(parts); s = bytearray(bytes([sep]).join(parts))
    return bytes(s)


def generate(rng, tier):
    big = tier == 'thorough'
    out = []
    ops = ['b3 inject-single', 'b3 inject-multi', 'b3 rt-single', 'b3 rt-multi', 'jg inject', 'jg rt']
    # ---- inject / round trip: all 256 flag bytes x ids x three propagators
    for f in range(256):
        for _ in range(60 if big else 2):
            tid = rand_id(rng, 16); sid = rand_id(rng, 8)
            if tid == bytes(16) or sid == bytes(8):
                tid = bytes(15) + b'\x01'; sid = b'\x01' + bytes(7)
            for op in ops:
                out.append(Case(f'{op} {tid.hex()} {sid.hex()} {f:02x}', H, ('inject' if 'inject' in op else 'roundtrip', 'all-flags')))
    for _ in range(60000 if big else 600):
        tid = rand_id(rng, 16); sid = rand_id(rng, 8)
        op = rng.choice(ops)
        out.append(Case(f'{op} {tid.hex()} {sid.hex()} {rng.randrange(256):02x}', H, ('inject' if 'inject' in op else 'roundtrip', 'random-ids')))
    # ---- B3 extract: documented headers
    for _ in range(100000 if big else 1500):
        out.append(Case(f'b3 extract {hx(valid_b3(rng))} - - -', H, ('extract', 'b3-valid-single')))
    for _ in range(100000 if big else 1500):
        tid = hexcase(rng, rand_id(rng, rng.choice([16, 16, 8]))); sid = hexcase(rng, rand_id(rng, 8))
        smp = rng.choice([b'1', b'0', b'd', b'', b'', b'true', b'01', b'D', b'2', b'\x00', b' 1', b'1 '])
        out.append(Case(f'b3 extract - {hx(tid)} {hx(sid)} {hx(smp)}', H, ('extract', 'b3-valid-multi')))
    # ---- both kinds present: the single header wins
    for _ in range(10000 if big else 600):
        tid = hexcase(rng, rand_id(rng, 16)); sid = hexcase(rng, rand_id(rng, 8))
        b3 = rng.choice([valid_b3(rng), valid_b3(rng), b'x', b'-', b'0-0', mutate(rng, valid_b3(rng), 45)])
        out.append(Case(f'b3 extract {hx(b3)} {hx(tid)} {hx(sid)} {hx(rng.choice([b"1", b"0", b"d", b""]))}', H, ('extract', 'b3-single-and-multi')))
    # ---- every single-byte substitution of a valid 51-byte b3 header / 54-byte uber-trace-id (exhaustive)
    base = bytes(rng.randrange(1, 256) for _ in range(16)).hex().encode() + b'-' + bytes(rng.randrange(1, 256) for _ in range(8)).hex().encode() + b'-1'
    for pos in range(len(base)):
        for b in range(256):
            m = bytearray(base); m[pos] = b
            out.append(Case(f'b3 extract {hx(bytes(m))} - - -', H, ('extract', 'b3-subst-51x256')))
    basej = bytes(rng.randrange(1, 256) for _ in range(16)).hex().encode() + b':' + bytes(rng.randrange(1, 256) for _ in range(8)).hex().encode() + b':0:01'
    for pos in range(len(basej)):
        for b in range(256):
            m = bytearray(basej); m[pos] = b
            out.append(Case(f'jg extract {hx(bytes(m))}', H, ('extract', 'jaeger-subst-54x256')))
    # ---- id lengths 0..40 digits, odd lengths included (over-long = more than 32 / 16)
    for n in range(0, 41):
        for m in (0, 1, 8, 15, 16, 17, 18, 33, 40) + tuple(rng.randrange(0, 41) for _ in range(6 if big else 2)):
            t = rand_hex(rng, n); s = rand_hex(rng, m)
            if rng.random() < 0.2:
                t = b'0' * n
            out.append(Case(f'b3 extract {hx(t + b"-" + s + b"-1")} - - -', H, ('extract', 'b3-id-lengths')))
            out.append(Case(f'b3 extract - {hx(t)} {hx(s)} {hx(b"1")}', H, ('extract', 'b3-id-lengths')))
            out.append(Case(f'jg extract {hx(t + b":" + s + b":0:1")}', H, ('extract', 'jaeger-id-lengths')))
    # ---- Jaeger documented headers, flags field sweep
    for _ in range(100000 if big else 1500):
        out.append(Case(f'jg extract {hx(valid_jg(rng))}', H, ('extract', 'jaeger-valid')))
    tj = b'4bf92f3577b34da6a3ce929d0e0e4736:0102030405060708:0:'
    for f in range(256):
        out.append(Case(f'jg extract {hx(tj + b"%02x" % f)}', H, ('extract', 'jaeger-flags')))
        out.append(Case(f'jg extract {hx(tj + bytes([f]))}', H, ('extract', 'jaeger-flags')))
        out.append(Case(f'jg extract {hx(tj + b"0" + bytes([f]))}', H, ('extract', 'jaeger-flags')))
        out.append(Case(f'jg extract {hx(tj + b"%03x" % f)}', H, ('extract', 'jaeger-flags')))
        out.append(Case(f'b3 extract {hx(b"4bf92f3577b34da6a3ce929d0e0e4736-0102030405060708-" + bytes([f]))} - - -', H, ('extract', 'b3-flags')))
        out.append(Case(f'b3 extract - {hx(b"a3ce929d0e0e4736")} {hx(b"0102030405060708")} {hx(bytes([f]))}', H, ('extract', 'b3-flags')))
    # ---- missing fields / extra separators
    t32 = b'4bf92f3577b34da6a3ce929d0e0e4736'; s16 = b'0102030405060708'
    for sep, eng in ((b'-', 'b3'), (b':', 'jg')):
        forms = [b'', sep, sep * 2, sep * 3, sep * 4, t32, t32 + sep, sep + t32, t32 + sep + s16, t32 + sep + s16 + sep,
                 t32 + sep * 2 + s16, sep + t32 + sep + s16, t32 + sep + s16 + sep * 2 + b'1', t32 + sep + s16 + sep + b'0' + sep,
                 t32 + sep + s16 + sep + b'0' + sep + b'1', t32 + sep + s16 + sep + b'0' + sep + b'1' + sep + b'zz',
                 t32 + sep + s16 + sep + sep + b'1', s16 + sep + t32 + sep + b'0' + sep + b'1', t32 + s16, b' ' + t32 + sep + s16 + sep + b'0' + sep + b'1',
                 t32 + sep + s16 + sep + b'0' + sep + b'1 ', t32 + sep + s16 + sep + b'0' + sep + b'1\x00', b'\x00', b'\xff' * 5]
        for fm in forms:
            if eng == 'b3':
                out.append(Case(f'b3 extract {hx(fm)} - - -', H, ('extract', 'separators')))
            else:
                out.append(Case(f'jg extract {hx(fm)}', H, ('extract', 'separators')))
    # ---- structural mutations
    for _ in range(300000 if big else 4000):
        if rng.random() < 0.5:
            out.append(Case(f'b3 extract {hx(mutate(rng, valid_b3(rng), 45))} - - -', H, ('extract', 'b3-mutation')))
        else:
            out.append(Case(f'jg extract {hx(mutate(rng, valid_jg(rng), 58))}', H, ('extract', 'jaeger-mutation')))
    for _ in range(20000 if big else 1000):
        tid = mutate(rng, hexcase(rng, rand_id(rng, 16)), 45) if rng.random() < 0.5 else hexcase(rng, rand_id(rng, 16))
        sid = mutate(rng, hexcase(rng, rand_id(rng, 8)), 45) if rng.random() < 0.5 else hexcase(rng, rand_id(rng, 8))
        smp = bytes(rng.choice(b'10d\x00 -xD') for _ in range(rng.randrange(0, 3)))
        out.append(Case(f'b3 extract - {hx(tid)} {hx(sid)} {hx(smp)}', H, ('extract', 'b3-multi-mutation')))
    # ---- contexts without a span ('-') or with a value of another type under the span key ('x'): nothing is injected
    for op in ops:
        for tok in ('-', 'x'):
            out.append(Case(f'{op} {tok} - -', H, ('inject' if 'inject' in op else 'roundtrip', 'no-span-in-context')))
    # ---- Fields(): the header names, with a callback that declines at each position
    for op, n in (('b3 fields-single', 1), ('b3 fields-multi', 3), ('jg fields', 1)):
        for stop in range(0, n + 2):
            out.append(Case(f'{op} {stop}', H, ('fields',)))
    # ---- extraction into a context that already holds a span: replaced by a valid remote one, else left as it was
    for _ in range(40000 if big else 700):
        b3 = valid_b3(rng) if rng.random() < 0.5 else mutate(rng, valid_b3(rng), 45)
        out.append(Case(f'b3 extract-over {hx(b3)} - - -', H, ('extract', 'over-existing-span', 'b3-single')))
        jg = valid_jg(rng) if rng.random() < 0.5 else mutate(rng, valid_jg(rng), 58)
        out.append(Case(f'jg extract-over {hx(jg)}', H, ('extract', 'over-existing-span', 'jaeger')))
    for _ in range(20000 if big else 400):
        tid = hexcase(rng, rand_id(rng, rng.choice([16, 16, 8]))); sid = hexcase(rng, rand_id(rng, 8))
        if rng.random() < 0.3:
            tid = mutate(rng, tid, 45)
        smp = rng.choice([b'1', b'0', b'd', b'', b'true', b'D'])
        out.append(Case(f'b3 extract-over - {hx(tid)} {hx(sid)} {hx(smp)}', H, ('extract', 'over-existing-span', 'b3-multi')))
    for eng in ('b3', 'jg'):
        for fm in (b'', b'-', b':', b'0-0', b'0:0:0:0', b'zz'):
            out.append(Case(f'b3 extract-over {hx(fm)} - - -' if eng == 'b3' else f'jg extract-over {hx(fm)}', H, ('extract', 'over-existing-span', 'junk')))
    # ---- the public static helpers called directly: TraceFlagsFromHex on any bytes, TraceIdFromHex / SpanIdFromHex on hex of 0..40 digits
    for b in range(256):
        out.append(Case(f'b3 flags {hx(bytes([b]))}', H, ('helpers', 'flags-all-bytes')))
    for fm in (b'', b'11', b'1d', b'd1', b'01', b'10', b'1\x00', b'\x001', b'dd', b'111', b' 1', b'1 ', b'true'):
        out.append(Case(f'b3 flags {hx(fm)}', H, ('helpers', 'flags-lengths')))
    for n in range(0, 41):
        for _ in range(10 if big else 2):
            h = rand_hex(rng, n) if rng.random() < 0.8 else b'0' * n
            out.append(Case(f'b3 tidhex {hx(h)}', H, ('helpers', 'id-from-hex')))
            out.append(Case(f'b3 sidhex {hx(h)}', H, ('helpers', 'id-from-hex')))
    # ---- junk length sweeps
    for n in range(0, 100):
        for alpha in (b'0', b'-', b':', b'0123456789abcdef-', b'0123456789abcdef:', bytes(range(256))):
            s = bytes(rng.choice(alpha) for _ in range(n))
            out.append(Case(f'b3 extract {hx(s)} - - -', H, ('extract', 'length-sweep')))
            out.append(Case(f'jg extract {hx(s)}', H, ('extract', 'length-sweep')))
    return out


# ------------------------------------------------------------------------------------------------ oracle: the spec

def is_hex(s):
    return all(c in HEXD for c in s)


def ctx_line(t, s, fl):
    return f'tid={t.to_bytes(16, "big").hex()} sid={s.to_bytes(8, "big").hex()} fl={fl:02x} remote=1 ts=[]'


def spec_b3(b3, tid, sid, smp):
    """(context line or None, documented?) per the B3 format: single header wins when present; ids are hex of either
    case, shorter ids left-padded; sampled iff the state is '1' or 'd'"""
    if b3:
        parts = b3.split(b'-')
        if len(parts) < 2:
            return None, True
        th, sh = parts[0], parts[1]
        fh = parts[2] if len(parts) > 2 else b''
    else:
        th, sh, fh = tid, sid, smp
    documented = len(th) in (16, 32) and len(sh) == 16
    if not is_hex(th) or not is_hex(sh) or len(th) > 32 or len(sh) > 16:
        return None, True
    t = int(th or b'0', 16); s = int(sh or b'0', 16)
    if t == 0 or s == 0:
        return None, True
    return ctx_line(t, s, 1 if fh in (b'1', b'd') else 0), documented


def spec_jaeger(h):
    parts = h.split(b':')
    if len(parts) < 4:
        return None, True
    th, sh, fh = parts[0], parts[1], parts[3]
    documented = len(th) in (16, 32) and len(sh) == 16 and len(fh) in (1, 2)
    if not (is_hex(th) and is_hex(sh) and is_hex(fh)) or len(th) > 32 or len(sh) > 16 or len(fh) > 2:
        return None, True
    t = int(th or b'0', 16); s = int(sh or b'0', 16)
    if t == 0 or s == 0:
        return None, True
    return ctx_line(t, s, int(fh or b'0', 16) & 1), documented


CTX_RE = re.compile(r'tid=([0-9a-f]{32}) sid=([0-9a-f]{16}) fl=([0-9a-f]{2}) remote=(\d) ts=\[(.*)\]')


def arg(t):
    return b'' if t == '-' else bytes.fromhex(t)


def oracle(case, out):
    t = case.line.split()
    if out.startswith('CRASH'):
        return ('never-crashes-or-reads-out-of-bounds', out)
    if out.startswith('ERR span-context-equality'):
        return ('roundtrip-context-equal-by-the-api-iff-same-ids-and-decision', out)
    if out.startswith('ERR'):
        return ('callers-context-unchanged', out)
    if out.startswith('installed-invalid'):
        return ('installed-context-has-nonzero-ids', out)
    op = t[1]
    if out.startswith('bad-op'):
        return ('bad-case', case.line[:200])
    if op in ('fields-single', 'fields-multi', 'fields'):
        names = {'fields-single': [b'b3'], 'fields-multi': [b'X-B3-TraceId', b'X-B3-SpanId', b'X-B3-Sampled'], 'fields': [b'uber-trace-id']}[op]
        stop = int(t[2])
        stopped = 1 <= stop <= len(names)
        exp = 'f=[' + ','.join(hx(n) for n in (names[:stop] if stopped else names)) + '] ret=' + ('0' if stopped else '1')
        return None if out == exp else ('fields-are-the-header-names-injected', f'got {out} want {exp}')
    if op == 'flags':
        exp = 'fl=01' if arg(t[2]) in (b'1', b'd') else 'fl=00'
        return None if out == exp else ('sampling-decision', f'TraceFlagsFromHex: got {out} want {exp}')
    if op in ('tidhex', 'sidhex'):
        h = arg(t[2]); n = 16 if op == 'tidhex' else 8
        if not is_hex(h):
            return ('bad-case', case.line[:200])
        v = int(h or b'0', 16) if len(h) <= 2 * n else 0          # an over-long string gives the invalid (all-zero) id
        exp = 'id=' + v.to_bytes(n, 'big').hex()
        return None if out == exp else ('ids-are-the-left-padded-hex-values', f'{op}: got {out} want {exp}')
    if op in ('inject-single', 'inject-multi', 'rt-single', 'rt-multi', 'inject', 'rt'):
        if t[2] in ('-', 'x'):
            return None if out == 'none' else ('invalid-context-never-injected', out)
        tid, sid, fl = bytes.fromhex(t[2]), bytes.fromhex(t[3]), int(t[4], 16)
        valid = tid != bytes(16) and sid != bytes(8)
        if not valid:
            return None if out == 'none' else ('invalid-context-never-injected', out)
        smp = b'1' if fl & 1 else b'0'
        if op.startswith('rt') :
            exp = f'tid={tid.hex()} sid={sid.hex()} fl={fl & 1:02x} remote=1 ts=[]'
            if out == exp:
                return None
            m = CTX_RE.fullmatch(out)
            if m and (m.group(1), m.group(2)) == (tid.hex(), sid.hex()) and m.group(4) == '1' and m.group(5) == '':
                return (('b3multi' if op == 'rt-multi' else 'b3single' if op == 'rt-single' else 'jaeger') + '-roundtrip-same-sampled-decision',
                        f'flags {fl:02x}: got {out} want {exp}')
            return ('roundtrip-same-ids', f'got {out} want {exp}')
        if op == 'inject-single':
            exp = 'b3=' + (tid.hex().encode() + b'-' + sid.hex().encode() + b'-' + smp).hex()
        elif op == 'inject-multi':
            exp = f'tid={tid.hex().encode().hex()} sid={sid.hex().encode().hex()} smp={smp.hex()}'
        else:
            exp = 'h=' + (tid.hex().encode() + b':' + sid.hex().encode() + b':0:0' + smp).hex()
        if out == exp:
            return None
        if op == 'inject-multi' and out.startswith(exp.rsplit(' ', 1)[0] + ' smp='):
            return ('b3multi-sampled-header-is-the-decision', f'flags {fl:02x}: got {out.rsplit(" ", 1)[1]} want smp={smp.hex()}')
        return ('injected-header-format', f'got {out} want {exp}')
    if op in ('extract', 'extract-over'):
        if t[0] == 'b3':
            exp, documented = spec_b3(arg(t[2]), arg(t[3]), arg(t[4]), arg(t[5]))
        else:
            exp, documented = spec_jaeger(arg(t[2]))
        if out == 'none':
            if exp is not None and documented:
                return ('documented-variant-accepted', f'want {exp}')
            return None
        m = CTX_RE.fullmatch(out)
        if not m:
            return ('valid-context-or-unchanged', out)
        if int(m.group(1), 16) == 0 or int(m.group(2), 16) == 0 or m.group(4) != '1' or m.group(5) != '':
            return ('installed-context-has-nonzero-ids', out)
        if exp is None:
            return ('only-hex-nonzero-ids-accepted', out)
        if out != exp:
            if out.rsplit(' fl=', 1)[0] == exp.rsplit(' fl=', 1)[0]:
                return ('sampling-decision', f'got {out} want {exp}')
            return ('ids-are-the-left-padded-hex-values', f'got {out} want {exp}')
        return None
    return ('bad-case', out)


def signature(case, out, clause):
    return clause


def nontrivial(case, out):
    t = case.line.split()
    if out.startswith('bad-op'):
        return False
    if t[1] in ('extract', 'extract-over'):
        return any(x != '-' for x in t[2:])
    return True


LEVEL_TEXT = ('Lean 4 theorems over an executable, index-explicit model of b3_propagator.h / jaeger.h / detail/hex.h / detail/string.h: '
              'b3single_roundtrip, b3multi_roundtrip, jaeger_roundtrip (same ids and same sampled decision for every valid context and all '
              '256 flag bytes), b3_extract_iff / jaeger_extract_iff (a context is installed for exactly the carriers presenting hex ids of '
              '<=32 / <=16 digits with non-zero value, left-padded; sampled iff "1"/"d", resp. bit 0 of the flags), the named variants '
              '(64-bit ids, debug flag, missing sampling field, single-over-multi precedence), *_extract_valid_or_unchanged and *_never_oob '
              '(every s[i], substr and buffer write is a checked access in the model; Idx.splitString_eq / Idx.hexToBinary_eq show no fault is '
              'reachable). Constants, header names and the X-B3-Sampled expression are re-extracted from the source each run; the model is '
              'tied to the code by a differential run (incl. exhaustive 51x256 / 54x256 single-byte substitutions) under ASan/UBSan.')
LEVEL_NOTE = ('Trusted: Lean kernel; axioms propext/Quot.sound/Classical.choice at most; tools/gen_c16.py; harness and generators. '
              'Partial: memory safety of the C++ itself is shown by sanitizer runs on exact-size buffers, not by a theorem; the public static '
              'helpers TraceIdFromHex/SpanIdFromHex called directly with non-hex text (not reachable through Extract) would shift a negative '
              'int - modelled as the token `ub`, proved unreachable from Extract. Requires fix D05 (X-B3-Sampled written from the sampling '
              'decision); on the unfixed code the check reports the violation with flags 0x03 as witness.')
DESIGN_REF = 'DESIGN.md section 4, C16; section 5, D05'
TECHNIQUE = 'proof + differential correspondence'
