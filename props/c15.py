"""C15 - Baggage round-trips through its header; composite propagators apply every part."""
import itertools, re
from vcore import Case, Harness

ID = 'C15'
GEN = ['Hex', 'TraceState', 'B3', 'Baggage', 'TabBaggage', 'TabKv']
LEAN_TARGETS = ['OtelVerif.Props.C15', 'OtelVerif.Props.TabBaggage', 'OtelVerif.Props.TabKv']
THEOREMS = ['Otel.KvIdx.trim3_spec', 'Otel.KvIdx.trim1_spec', 'Otel.KvIdx.splitMember_spec', 'Otel.KvIdx.tokens_eq'] + ['Otel.C15.' + t for t in (
    'gen_baggage', 'urlEncodeByte_spec', 'urlDecode_eq', 'decode_never_oob', 'urlDecode_urlEncode', 'pctDecode_pctEncode',
    'set_eq', 'delete_eq', 'set_replaces', 'set_invalid_copy', 'delete_removes', 'set_delete_pure',
    'parseKv_eq', 'fromHeader_eq', 'fromHeader_never_oob', 'fromHeader_limits', 'fromHeader_only_valid',
    'member_roundtrip', 'toHeader_spec', 'fromHeader_toHeader', 'built_entries', 'fromHeader_toHeader_built',
    'fromHeader_toHeader_trailing_space_witness', 'fromHeader_toHeader_comma_in_metadata_witness',
    'toHeader_eq_nil_iff', 'baggage_extract_eq', 'extract_empty_leaves_context', 'extract_installs_parsed', 'baggage_inject_eq',
    'baggage_propagator_roundtrip', 'composite_inject_eq_foldl', 'composite_extract_eq_foldl', 'composite_empty_identity',
    'composite_append', 'builtin_extract_ok', 'composite_builtin_never_faults',
    'ofPairs_eq', 'ofPairs_printable', 'fromHeader_toHeader_ofPairs', 'visit_never', 'visit_stops', 'visit_beyond',
    'fieldsOf_never', 'compositeFields_never', 'compositeFields_false_sticky', 'noop_identity', 'composite_noop_cons')] + ['Otel.Tab.' + t for t in (
    'tab_bgEncode', 'tab_bgDecode1', 'tab_bgDecodePct1', 'tab_bgValidKey1', 'tab_bgValidValue1', 'tab_bgDecodePct_digits', 'tab_bgDecodePct_cross', 'tab_trimDrops', 'tab_trimShort', 'tab_trim3Short', 'tab_kvTokSep', 'tab_kvTokShort')]
HARNESSES = [Harness('f_c15', ['harness/f_c15.cc'])]
H = 'f_c15'
RULE = ('Set/Delete/Get/ToHeader/round-trip sequences over a small key pool with printable keys and values (spaces, = , % + ; in keys, '
        'metadata after ;); every printable byte in key and in value position; every byte through UrlEncode / UrlDecode; % escapes valid, '
        'truncated (%4, %) and malformed (%zz) at every position; header sizes 8191/8192/8193, 179/180/181 members, 4095/4096/4097-byte '
        'members; mostly-valid headers with OWS, empty members, missing =, metadata, NUL and >=0x80 bytes, and mutations of them; all 326 '
        'ordered subsets of {HttpTraceContext, B3 single, B3 multi, Jaeger, Baggage} as a composite (installed through the global '
        'propagator slot): inject, round trip, extract with a different id per header, extract of junk, Fields() with a callback that declines at every position; NoOpPropagator '
        'as a part and the never-set global propagator; baggages obtained through the container constructor (vector / list / deque / map of '
        'string or string_view pairs, every byte, 0..400 entries), Baggage(size_t), GetDefault, read back with an early-stopping '
        'GetAllEntries callback. '
        'non-trivial = a non-empty baggage / header / propagator list is involved; distinct = distinct case line')
TRUSTED = ['memory safety of the C++ (no out-of-bounds read) is shown by ASan/UBSan runs on exact-size buffers; decode_never_oob / '
           'fromHeader_never_oob are about the index-explicit model of UrlDecode, StringUtil::Trim and KeyValueStringTokenizer::next '
           '(string_view::find and NumTokens, which index nothing themselves, are taken at list level)',
           'std::isalnum / isspace / isdigit / toupper of the C library in the "C" locale']
ASSUMPTIONS = ['the round trip requires that the metadata part of a value does not end in white space (D18: the tokenizer trims list members) '
               'and holds no unescaped ","; both excluded points are run on the real code and proved as witnesses in the model',
               'entries are observed through the C-string API of KeyValueProperties: metadata taken from a header is seen up to its first NUL byte']
WS = b' \t\n\v\f\r'
PRINTABLE = bytes(range(0x20, 0x7f))
UNRES = set(b'ABCDEFGHIJKLMNOPQRSTUVWXYZabcdefghijklmnopqrstuvwxyz0123456789-_.~')


def hx(b):
    return b.hex() if b else '-'


def unhx(t):
    return b'' if t == '-' else bytes.fromhex(t)


# ------------------------------------------------------------------------------------------------ the spec, in Python

def pct_encode(bs):
    out = bytearray()
    for c in bs:
        if c in UNRES:
            out.append(c)
        elif c == 0x20:
            out += b'+'
        else:
            out += b'%%%02X' % c
    return bytes(out)


def pct_decode(bs):
    out = bytearray(); i = 0
    while i < len(bs):
        c = bs[i]
        if c == 0x25:
            h = bs[i + 1:i + 3]
            if len(h) < 2 or not all(x in b'0123456789abcdefABCDEF' for x in h):
                return None
            out.append(int(h, 16)); i += 3
        elif c == 0x2b:
            out.append(0x20); i += 1
        elif c in UNRES:
            out.append(c); i += 1
        else:
            return None
    return bytes(out)


def printable(bs):
    return all(0x20 <= c <= 0x7e for c in bs)


def split_meta(v):
    i = v.find(b';')
    return (v, b'') if i < 0 else (v[:i], v[i:])


def cstr(b):
    i = b.find(b'\0')
    return b if i < 0 else b[:i]


def spec_parse(h):
    """entries of the baggage a header denotes: valid members only, first 180, nothing for an over-long header"""
    if len(h) > 8192:
        return []
    out = []
    for tok in h.split(b','):
        m = tok.strip(WS)
        if not m or len(out) >= 180:
            continue
        if b'=' not in m:
            continue
        k, v = m.split(b'=', 1)
        if len(k) + len(v) > 4096:
            continue
        val, meta = split_meta(v)
        ks, vs = pct_decode(k.strip(WS)), pct_decode(val.strip(WS))
        if ks is None or vs is None or not ks or not printable(ks) or not printable(vs):
            continue
        out.append((cstr(ks), cstr(vs + meta)))
    return out


def spec_header(es):
    return b','.join(pct_encode(k) + b'=' + pct_encode(split_meta(v)[0]) + split_meta(v)[1] for k, v in es)


def spec_set(es, k, v):
    if k and printable(k) and printable(v):
        return [(k, v)] + [e for e in es if e[0] != k]
    return list(es)


def roundtrip_expectation(es):
    """what FromHeader(ToHeader(es)) must give; None = outside the property's quantifier (skip)"""
    if len(es) > 180 or len(spec_header(es)) > 8192:
        return None
    exp = []
    for k, v in es:
        val, meta = split_meta(v)
        if not k or not printable(k) or not printable(v) or b',' in meta:
            return None
        if len(pct_encode(k)) + len(pct_encode(val)) + len(meta) > 4096:
            return None
        # D18, the excluded point: trailing white space of the metadata (of the member) is trimmed on re-parse
        exp.append((k, val + meta.rstrip(b' ')))
    return exp


def parse_entries(s):
    if not (s.startswith('[') and s.endswith(']')):
        return None
    body = s[1:-1]
    if not body:
        return []
    out = []
    for mem in body.split(','):
        k, _, v = mem.partition(':')
        out.append((unhx(k), unhx(v)))
    return out


def show_entries(es):
    return '[' + ','.join(f'{hx(k)}:{hx(v)}' for k, v in es) + ']'


# ------------------------------------------------------------------------------------------------ corpus

def corpus():
    out = []
    # D18 excluded point: metadata with trailing white space is trimmed on re-parse
    out.append(Case(f'bg set 0 {hx(b"k")} {hx(b"v;meta ")} ; hdr 1 ; rt 1', H, ('corpus', 'D18-excluded-point'), 'corpus'))
    out.append(Case(f'bg set 0 {hx(b"k")} {hx(b"v;m  ")} ; set 1 {hx(b"z")} {hx(b"1; ")} ; hdr 2 ; rt 2', H, ('corpus', 'D18-excluded-point'), 'corpus'))
    out.append(Case(f'bg set 0 {hx(b"k")} {hx(b"v;m,x")} ; hdr 1 ; rt 1', H, ('corpus', 'comma-in-metadata'), 'corpus'))
    # truncated escapes at the very end of the buffer
    for s in (b'%', b'%4', b'%zz', b'a%4', b'a%', b'%41', b'k=%', b'k=%4', b'k=v%', b'%4=v', b'k=v;%'):
        out.append(Case(f'bg dec {hx(s)} ; from {hx(s)}', H, ('corpus', 'truncated-escape'), 'corpus'))
    out.append(Case(f'bg from {hx(b"k=v;m" + bytes([0]) + b"xyz, a = b ; p=1 ,,x")} ; hdr 1', H, ('corpus', 'nul-in-metadata'), 'corpus'))
    out.append(Case(f'bg set 0 {hx(b"a b=,%+;")} {hx(b"~ =,%+")} ; hdr 1 ; rt 1 ; get 1 {hx(b"a b=,%+;")}', H, ('corpus', 'specials'), 'corpus'))
    return out


# ------------------------------------------------------------------------------------------------ generators

KEYS = [b'a', b'b', b'key', b'user id', b'k=1', b'x,y', b'50%', b'a+b', b's;t', b'~', b'Z-_.', b' ', b'  lead', b'trail ', b'"q"']


def rand_printable(rng, lo, hi, alpha=PRINTABLE):
    return bytes(rng.choice(alpha) for _ in range(rng.randrange(lo, hi)))


def rand_value(rng):
    r = rng.random()
    v = rand_printable(rng, 0, 8)
    if r < 0.35:
        v = rand_printable(rng, 0, 6, PRINTABLE.replace(b';', b'')) + b';' + rand_printable(rng, 0, 8, PRINTABLE.replace(b',', b''))
        if rng.random() < 0.85:
            v = v.rstrip(b' ')
    elif r < 0.42:
        v = rand_printable(rng, 0, 5) + b';' + rand_printable(rng, 0, 6)      # may hold ',' or end in ' '
    return v


def gen_sequence(rng, n):
    ops = []; nstates = 1
    pairs = []
    for _ in range(n):
        r = rng.random()
        i = rng.randrange(nstates) if rng.random() < 0.3 else nstates - 1
        if r < 0.45:
            k = rng.choice(KEYS) if rng.random() < 0.8 else rand_printable(rng, 1, 6)
            v = rand_value(rng)
            if pairs and rng.random() < 0.2:
                k, v = rng.choice(pairs)        # re-state an entry that is there already, with exactly this value
            elif rng.random() < 0.5:
                pairs.append((k, v))
            if rng.random() < 0.06:
                k = rng.choice([b'', b'\x00', b'k\x7f', b'\xc3\xa9', b'a\nb', b'k\x00x'])
            if rng.random() < 0.05:
                v = rng.choice([b'\x00', b'v\x7f', b'\xff', b'a\tb', b'v\x00x'])
            ops.append(f'set {i} {hx(k)} {hx(v)}'); nstates += 1
        elif r < 0.6:
            ops.append(f'del {i} {hx(rng.choice(KEYS))}'); nstates += 1
        elif r < 0.72:
            ops.append(f'get {i} {hx(rng.choice(KEYS))}')
        elif r < 0.85:
            ops.append(f'hdr {i}')
        else:
            ops.append(f'rt {i}'); nstates += 1
    return 'bg ' + ' ; '.join(ops)


MK_VARIANTS = 'vsldm'


def gen_mk(rng, n=None):
    """the container constructor: mostly valid pairs, duplicates, empty / non-printable / NUL-holding keys and values"""
    n = rng.choice([0, 1, 1, 2, 3, 5, 9]) if n is None else n
    kvs = []
    for _ in range(n):
        k = rng.choice(KEYS) if rng.random() < 0.7 else rand_printable(rng, 0, 6)
        v = rand_value(rng)
        if rng.random() < 0.08:
            k = rng.choice([b'', b'\x00', b'k\x7f', b'\xc3\xa9', b'a\nb', b'k\x00x', b'\x01'])
        if rng.random() < 0.08:
            v = rng.choice([b'\x00', b'v\x7f', b'\xff', b'a\tb', b'v\x00x;m', b'v;m\x00x'])
        kvs.append((k, v))
    var = rng.choice(MK_VARIANTS)
    if var == 'm':                                  # a std::map: strictly ascending keys
        d = {}
        for k, v in kvs:
            d.setdefault(k, v)
        kvs = sorted(d.items())
    return 'mk ' + var + ''.join(f' {hx(k)} {hx(v)}' for k, v in kvs)


def gen_sequence2(rng, n):
    """histories that start from and mix in the other ways to obtain a baggage (container constructor, Baggage(size_t),
    GetDefault, FromHeader) and read it back entry by entry with an early-stopping callback"""
    ops = []; nstates = 1
    for j in range(n):
        r = rng.random()
        i = rng.randrange(nstates) if rng.random() < 0.3 else nstates - 1
        if j == 0 or r < 0.12:
            q = rng.random()
            if q < 0.55:
                ops.append(gen_mk(rng))
            elif q < 0.7:
                ops.append(f'new {rng.choice([0, 1, 2, 7, 180, 181, 1000])}')
            elif q < 0.85:
                ops.append('dflt')
            else:
                ops.append(f'from {hx(rand_header(rng))}')
            nstates += 1
        elif r < 0.4:
            k = rng.choice(KEYS) if rng.random() < 0.85 else rand_printable(rng, 1, 6)
            ops.append(f'set {i} {hx(k)} {hx(rand_value(rng))}'); nstates += 1
        elif r < 0.52:
            ops.append(f'del {i} {hx(rng.choice(KEYS))}'); nstates += 1
        elif r < 0.62:
            ops.append(f'get {i} {hx(rng.choice(KEYS + [b"", b"nope"]))}')
        elif r < 0.8:
            ops.append(f'all {i} {rng.choice([0, 1, 1, 2, 3, 4, 6, 10, 200])}')
        elif r < 0.9:
            ops.append(f'hdr {i}')
        else:
            ops.append(f'rt {i}'); nstates += 1
    return 'bg ' + ' ; '.join(ops)


def rand_member(rng):
    r = rng.random()
    k = pct_encode(rng.choice(KEYS)) if rng.random() < 0.7 else rand_printable(rng, 0, 5)
    v = pct_encode(rand_printable(rng, 0, 6))
    if rng.random() < 0.3:
        v += b';' + rand_printable(rng, 0, 8, PRINTABLE.replace(b',', b''))
    m = k + b'=' + v
    if r < 0.08:
        m = k                                  # no '='
    elif r < 0.14:
        m = b''                                # empty member
    elif r < 0.2:
        m = bytes(rng.choice(WS) for _ in range(rng.randrange(1, 3)))
    elif r < 0.3:
        m = k + rng.choice([b' = ', b'= ', b' =', b'\t=\t']) + v
    elif r < 0.36:
        m = k + b'=' + rng.choice([b'%', b'%4', b'%zz', b'%4g', b'a%', b'%00', b'%ff', b'%7F', b'%20', b'%2C', b'%41%4', b'"q"', b'a b', b'\xc3\xa9', b'v\x00'])
    elif r < 0.4:
        m = rng.choice([b'%', b'%4', b'%zz', b'%3D', b'%00', b'', b'%20', b'a,b'.replace(b',', b'%2C')]) + b'=' + v
    elif r < 0.44:
        m = k + b'=' + v + b';' + bytes(rng.choice(b'\x00\x01\xff ;=p') for _ in range(rng.randrange(0, 5)))
    if rng.random() < 0.3:
        m = bytes(rng.choice(WS) for _ in range(rng.randrange(0, 3))) + m + bytes(rng.choice(WS) for _ in range(rng.randrange(0, 3)))
    return m


def rand_header(rng):
    return b','.join(rand_member(rng) for _ in range(rng.choice([0, 1, 1, 2, 3, 5, 8])))


def mutate(rng, s):
    s = bytearray(s)
    for _ in range(rng.randrange(1, 4)):
        pos = rng.randrange(len(s) + 1)
        r = rng.random()
        alpha = b',=;%+ \t\x00\xff\x80a4Zz' + bytes([rng.randrange(256)])
        if r < 0.25 and s:
            del s[min(pos, len(s) - 1)]
        elif r < 0.55:
            s.insert(pos, rng.choice(alpha))
        elif r < 0.75 and s:
            s[min(pos, len(s) - 1)] = rng.choice(alpha)
        elif r < 0.9:
            s = s[:pos]
        else:
            s += bytes(rng.choice(alpha) for _ in range(rng.randrange(1, 6)))
    return bytes(s)


def sized_header(n_members, total=None, rng=None):
    """n distinct valid members k<i>=v; with `total`, further valid members p<j>=xxx… (each below the 4096-byte member
    limit) bring the header to exactly `total` bytes"""
    ms = [b'k%d=v' % i for i in range(n_members)]
    h = b','.join(ms)
    j = 0
    while total is not None and len(h) < total:
        room = total - len(h) - (1 if h else 0)
        if room < 4:                                   # too small for another member: pad with optional white space
            h += b' ' * (total - len(h))
            break
        pre = b'p%d=' % j
        m = pre + b'x' * min(room - len(pre), 3000)
        h = h + (b',' if h else b'') + m
        j += 1
    return h


PROPS = ['w3c', 'b3s', 'b3m', 'jg', 'bag']
# what each propagator announces through Fields(), in its order (W3C Trace Context, B3, Jaeger and W3C Baggage header names)
FIELDS = {'w3c': [b'traceparent', b'tracestate'], 'b3s': [b'b3'], 'b3m': [b'X-B3-TraceId', b'X-B3-SpanId', b'X-B3-Sampled'],
          'jg': [b'uber-trace-id'], 'bag': [b'baggage'], 'noop': []}
ORDERED_SUBSETS = [list(p) for k in range(6) for p in itertools.permutations(PROPS, k)]   # 326, the empty one included


def comp_carrier(rng, junk=False, with_b3=True):
    """eight header values with a different trace id in each trace header"""
    def ids():
        return bytes(rng.randrange(1, 256) for _ in range(16)), bytes(rng.randrange(1, 256) for _ in range(8))
    (t1, s1), (t2, s2), (t3, s3), (t4, s4) = ids(), ids(), ids(), ids()
    tp = b'00-' + t1.hex().encode() + b'-' + s1.hex().encode() + b'-' + rng.choice([b'00', b'01', b'03'])
    ts = rng.choice([b'', b'a=1', b'v1=x,v2=y'])
    b3 = t2.hex().encode() + b'-' + s2.hex().encode() + rng.choice([b'', b'-1', b'-0', b'-d']) if with_b3 else b''
    xt, xs, xf = t3.hex().encode(), s3.hex().encode(), rng.choice([b'1', b'0', b'', b'd'])
    ub = t4.hex().encode() + b':' + s4.hex().encode() + b':0:' + rng.choice([b'1', b'0', b'03', b'00'])
    bg = rng.choice([b'k=v', b'a=1,b=2;m', b'user+id=al%2Cice', b'', b'k=v, bad, =x'])
    if junk:
        tp, ts, b3, xt, xs, xf, ub, bg = b'00-zz', b'=', b'nope', b'xyz', b'-', b'2', b'a:b', b',,=,%4'
    return ' '.join(hx(x) for x in (tp, ts, b3, xt, xs, xf, ub, bg))


def generate(rng, tier):
    big = tier == 'thorough'
    out = []
    # ---- Set/Delete/Get/ToHeader/round-trip histories
    for _ in range(120000 if big else 2500):
        out.append(Case(gen_sequence(rng, rng.randrange(2, 25)), H, ('sequence',)))
    for _ in range(40000 if big else 900):
        out.append(Case(gen_sequence2(rng, rng.randrange(2, 16)), H, ('sequence', 'constructors-and-visit')))
    # ---- the container constructor: every byte in key and value position, every container type; sizes around the limits
    for b in range(256):
        c = bytes([b]); var = MK_VARIANTS[b % len(MK_VARIANTS)]
        out.append(Case(f'bg mk {var} {hx(b"k" + c)} {hx(b"v" + c + b"w")} ; hdr 1 ; rt 1 ; get 1 {hx(b"k" + c)} ; set 1 {hx(b"k" + c)} {hx(b"n")} ; all 3 1',
                        H, ('alphabet', 'all-bytes-constructor')))
    for n in (0, 1, 179, 180, 181, 400):
        for var in MK_VARIANTS:
            kvs = ''.join(f' {hx(b"k%03d" % i)} {hx(b"v")}' for i in range(n))
            out.append(Case(f'bg mk {var}{kvs} ; rt 1 ; all 1 {max(n - 1, 0)} ; all 1 {n} ; all 1 {n + 1} ; set 1 {hx(b"k000")} {hx(b"w")} ; del 1 {hx(b"k%03d" % max(n - 1, 0))}',
                            H, ('limits', 'constructor-member-count')))
    # ---- every printable byte in key position and in value position (and in metadata)
    for b in PRINTABLE:
        c = bytes([b])
        for k, v in ((c, b'v'), (b'k' + c, b'v'), (c + b'k', b'v' + c), (b'k', c), (b'k', b'v' + c + b'w'), (b'k', c * 3), (c * 2, c * 2),
                     (b'k', b'v;' + c + b'm'), (b'k', b'v;m' + c)):
            out.append(Case(f'bg set 0 {hx(k)} {hx(v)} ; hdr 1 ; rt 1 ; get 2 {hx(k)}', H, ('alphabet', 'printable-sweep')))
    # ---- every byte through encode, and decode of the encoding; every byte raw through decode / in key, value of a header
    for b in range(256):
        c = bytes([b])
        out.append(Case(f'bg enc {hx(c)} ; enc {hx(b"a" + c + b"z")} ; dec {hx(pct_encode(c))} ; dec {hx(c)} ; dec {hx(b"a" + c)} ; dec {hx(b"%" + c + b"1")} ; dec {hx(b"%4" + c)}',
                        H, ('alphabet', 'all-bytes-codec')))
        out.append(Case(f'bg from {hx(c + b"=v")} ; from {hx(b"k=" + c)} ; from {hx(b"k=v;" + c)} ; from {hx(b"k" + c + b"=v" + c + b",a=b")} ; set 0 {hx(c)} {hx(c)} ; set 0 {hx(b"k")} {hx(b"v" + c)}',
                        H, ('alphabet', 'all-bytes-header')))
        out.append(Case(f'bg from {hx(b"k=%%%02x" % b)} ; from {hx(b"%%%02X=v" % b)} ; dec {hx(b"%%%02x" % b)}', H, ('alphabet', 'all-escapes')))
    for _ in range(5000 if big else 400):
        s = bytes(rng.randrange(256) for _ in range(rng.randrange(0, 12)))
        out.append(Case(f'bg enc {hx(s)} ; dec {hx(pct_encode(s))}', H, ('codec', 'random-bytes')))
    # ---- % escapes: valid, truncated, malformed at every position of a short string
    for _ in range(20000 if big else 1500):
        s = bytearray(rand_printable(rng, 0, 6, b'abcXYZ019-_.~+'))
        for _k in range(rng.randrange(1, 3)):
            s[rng.randrange(len(s) + 1):0] = rng.choice([b'%41', b'%4', b'%', b'%zz', b'%4z', b'%z4', b'%2c', b'%2C', b'%00', b'%FF', b'%%', b'%+1', b' ', b'=', b'\xff'])
        out.append(Case(f'bg dec {hx(bytes(s))} ; from {hx(b"k=" + bytes(s))} ; from {hx(bytes(s) + b"=v")}', H, ('codec', 'escapes')))
    # ---- limits: header size, member count, member size
    for total in (8190, 8191, 8192, 8193, 8194, 9000, 16384):
        for n in (1, 3, 100):
            out.append(Case(f'bg from {hx(sized_header(n, total))} ; rt 1', H, ('limits', 'header-size')))
    for n in (0, 1, 2, 178, 179, 180, 181, 182, 200, 400):
        out.append(Case(f'bg from {hx(sized_header(n))} ; hdr 1 ; rt 1', H, ('limits', 'member-count')))
        out.append(Case(f'bg from {hx(b"," .join([b"bad"] * 5 + [b"k%d=v" % i for i in range(n)]))}', H, ('limits', 'member-count')))
        out.append(Case(f'bg from {hx(b" , ".join([b"k%d=v" % i for i in range(n)]) + b",,")}', H, ('limits', 'member-count')))
    for sz in (4094, 4095, 4096, 4097, 4098, 5000):
        for klen in (1, 10, 2000):
            k = b'k' * klen; v = b'v' * (sz - klen)
            out.append(Case(f'bg from {hx(b"a=1," + k + b"=" + v + b",z=2")} ; rt 1', H, ('limits', 'member-size')))
            vm = b'v' * (sz - klen - 6) + b';meta1'
            out.append(Case(f'bg from {hx(k + b"=" + vm + b",z=2")} ; rt 1', H, ('limits', 'member-size')))
            out.append(Case(f'bg from {hx(b" " + k + b" = " + v + b" ,z=2")}', H, ('limits', 'member-size')))
        # Set has no size limit: ToHeader then writes a member FromHeader must skip
        out.append(Case(f'bg set 0 {hx(b"k")} {hx(b"v" * (sz - 1))} ; set 1 {hx(b"z")} {hx(b"2")} ; rt 2', H, ('limits', 'member-size')))
        out.append(Case(f'bg set 0 {hx(b"k")} {hx(b" " * ((sz - 1) // 3))} ; rt 1', H, ('limits', 'member-size')))
    # ---- headers: mostly valid, and mutations
    for _ in range(200000 if big else 3000):
        h = rand_header(rng)
        out.append(Case(f'bg from {hx(h)} ; hdr 1 ; rt 1', H, ('header', 'mostly-valid')))
    for _ in range(200000 if big else 3000):
        h = mutate(rng, rand_header(rng))
        out.append(Case(f'bg from {hx(h)} ; hdr 1', H, ('header', 'mutation')))
    for n in range(0, 60):
        for alpha in (b',', b'=', b';', b'%', b' ', b',=;% a', bytes(range(256))):
            out.append(Case(f'bg from {hx(bytes(rng.choice(alpha) for _ in range(n)))}', H, ('header', 'junk-sweep')))
    # ---- composite: all 326 ordered subsets
    for ps in ORDERED_SUBSETS:
        pl = ','.join(ps) if ps else '-'
        for _ in range(3 if big else 1):
            tid = bytes(rng.randrange(1, 256) for _ in range(16)).hex(); sid = bytes(rng.randrange(1, 256) for _ in range(8)).hex()
            fl = rng.choice(['00', '01', '03', 'ff', 'fe', '%02x' % rng.randrange(256)])
            ts = rng.choice([b'', b'a=1', b'v1=x,v2=y'])
            bag = rng.choice([b'k=v', b'a=1,b=2;m', b'user+id=al%2Cice;p=1', b''])
            out.append(Case(f'comp inject {pl} {tid} {sid} {fl} {hx(ts)} {hx(bag)}', H, ('composite', 'inject')))
            out.append(Case(f'comp rt {pl} {tid} {sid} {fl} {hx(ts)} {hx(bag)}', H, ('composite', 'roundtrip')))
            out.append(Case(f'comp extract {pl} {comp_carrier(rng)}', H, ('composite', 'extract')))
            out.append(Case(f'comp extract {pl} {comp_carrier(rng, with_b3=False)}', H, ('composite', 'extract')))
        out.append(Case(f'comp rt {pl} - - - - {hx(b"k=v")}', H, ('composite', 'roundtrip-no-span')))
        out.append(Case(f'comp inject {pl} {"00" * 16} {"01" * 8} 01 - -', H, ('composite', 'inject-invalid-span')))
        out.append(Case(f'comp extract {pl} {comp_carrier(rng, junk=True)}', H, ('composite', 'extract-junk')))
        out.append(Case(f'comp extract {pl} - - - - - - - -', H, ('composite', 'extract-empty')))
        # Fields(): every name, and a callback that stops at each position
        total = sum(len(FIELDS[p]) for p in ps)
        out.append(Case(f'comp fields {pl} 0', H, ('composite', 'fields')))
        out.append(Case(f'comp fields {pl} {rng.randrange(1, total + 2)}', H, ('composite', 'fields-stopped')))
    for ps in [list(p) for k in range(4) for p in itertools.permutations(PROPS, k)][:86]:
        total = sum(len(FIELDS[p]) for p in ps)
        for stop in range(1, total + 2):
            out.append(Case(f'comp fields {",".join(ps) if ps else "-"} {stop}', H, ('composite', 'fields-stopped')))
    # ---- NoOpPropagator as a part, and the propagator the global slot holds before anything is installed ('@')
    for _ in range(600 if big else 120):
        ps = list(rng.choice(ORDERED_SUBSETS))
        for _k in range(rng.randrange(1, 3)):
            ps.insert(rng.randrange(len(ps) + 1), 'noop')
        out += comp_cases(rng, ','.join(ps), 'noop-part')
    for _ in range(20 if big else 5):
        out += comp_cases(rng, '@', 'global-default')
    return out


def comp_cases(rng, pl, tag):
    tid = bytes(rng.randrange(1, 256) for _ in range(16)).hex(); sid = bytes(rng.randrange(1, 256) for _ in range(8)).hex()
    fl = rng.choice(['00', '01', '03', 'ff'])
    ts = rng.choice([b'', b'a=1', b'v1=x,v2=y'])
    bag = rng.choice([b'k=v', b'a=1,b=2;m', b'user+id=al%2Cice;p=1', b''])
    return [Case(f'comp inject {pl} {tid} {sid} {fl} {hx(ts)} {hx(bag)}', H, ('composite', tag, 'inject')),
            Case(f'comp rt {pl} {tid} {sid} {fl} {hx(ts)} {hx(bag)}', H, ('composite', tag, 'roundtrip')),
            Case(f'comp extract {pl} {comp_carrier(rng)}', H, ('composite', tag, 'extract')),
            Case(f'comp extract {pl} {comp_carrier(rng, junk=True)}', H, ('composite', tag, 'extract-junk')),
            Case(f'comp fields {pl} {rng.choice([0, 0, 1, 2, 3])}', H, ('composite', tag, 'fields'))]


# ------------------------------------------------------------------------------------------------ oracle

def oracle_bg(case, out):
    ops = case.line[3:].split(' ; ')
    outs = out.split(' ; ')
    if len(ops) != len(outs):
        return ('one-observation-per-op', out[:200])
    states = [[]]
    for op, o in zip(ops, outs):
        t = op.split()
        if 'MUTATED' in o:
            return ('set-delete-leave-the-original-unchanged', f'{op} -> {o[:200]}')
        if o.startswith('FAULT') or o.startswith('ERR'):
            return ('decode-never-out-of-bounds', f'{op} -> {o}')
        if o == 'bad-op':
            return ('bad-case', op)
        if t[0] == 'set':
            i, k, v = int(t[1]), unhx(t[2]), unhx(t[3])
            exp = spec_set(states[i], k, v)
            got = parse_entries(o)
            if got != exp:
                valid = bool(k) and printable(k) and printable(v)
                return ('set-replaces-existing-key-new-entry-first' if valid else 'set-invalid-gives-copy', f'{op}: got {o[:300]} want {show_entries(exp)[:300]}')
            states.append(exp)
        elif t[0] == 'del':
            i, k = int(t[1]), unhx(t[2])
            exp = [e for e in states[i] if e[0] != k]
            if parse_entries(o) != exp:
                return ('delete-removes-the-key-only', f'{op}: got {o[:300]} want {show_entries(exp)[:300]}')
            states.append(exp)
        elif t[0] == 'get':
            i, k = int(t[1]), unhx(t[2])
            vals = [v for kk, v in states[i] if kk == k]
            exp = ('v=' + hx(vals[0])) if vals else 'none'
            if o != exp:
                return ('get-returns-the-value-set', f'{op}: got {o} want {exp}')
        elif t[0] == 'hdr':
            exp = 'h=' + hx(spec_header(states[int(t[1])]))
            if o != exp:
                return ('header-is-percent-encoded-members', f'{op}: got {o[:300]} want {exp[:300]}')
        elif t[0] == 'rt':
            cur = states[int(t[1])]
            got = parse_entries(o)
            if got is None:
                return ('roundtrip-observation', o[:200])
            exp = roundtrip_expectation(cur)
            if exp is None:
                # outside the quantifier (',' in metadata, beyond the limits): what comes back must still be what the header denotes
                exp = spec_parse(spec_header(cur))
                if got != exp:
                    return ('fromHeader-keeps-exactly-the-valid-members', f'{op}: got {o[:300]} want {show_entries(exp)[:300]}')
            elif got != exp and got != cur:          # `cur` verbatim would satisfy the property as well (D18 point)
                return ('roundtrip-rebuilds-the-same-entries-in-order', f'{op}: got {o[:300]} want {show_entries(exp)[:300]}')
            states.append(got)
        elif t[0] == 'from':
            h = unhx(t[1])
            got = parse_entries(o)
            exp = spec_parse(h)
            if got is None:
                return ('fromHeader-observation', o[:200])
            if len(h) > 8192 and got:
                return ('limit-8192-byte-header', f'{len(h)} bytes -> {len(got)} entries')
            if len(got) > 180:
                return ('limit-180-members', f'{len(got)} entries')
            for k, v in got:
                if not k or not printable(k) or not printable(split_meta(v)[0]):
                    return ('only-valid-members-kept', f'{hx(k)}:{hx(v)}')
            if got != exp:
                return ('fromHeader-keeps-exactly-the-valid-members', f'from {t[1][:200]}: got {o[:300]} want {show_entries(exp)[:300]}')
            states.append(exp)
        elif t[0] == 'mk':
            kvs = [(unhx(t[j]), unhx(t[j + 1])) for j in range(2, len(t) - 1, 2)]
            exp = [(cstr(k), cstr(v)) for k, v in kvs]
            if parse_entries(o) != exp:
                return ('constructor-keeps-the-given-entries-in-order', f'{op[:200]}: got {o[:300]} want {show_entries(exp)[:300]}')
            states.append(exp)
        elif t[0] in ('new', 'dflt'):
            if o != '[]':
                return ('new-and-default-baggage-are-empty', f'{op}: got {o[:300]}')
            states.append([])
        elif t[0] == 'all':
            cur, stop = states[int(t[1])], int(t[2])
            stopped = 1 <= stop <= len(cur)
            exp = 'seen=' + show_entries(cur[:stop] if stopped else cur) + ' ret=' + ('0' if stopped else '1')
            if o != exp:
                return ('getAllEntries-visits-in-order-until-the-callback-declines', f'{op}: got {o[:300]} want {exp[:300]}')
        elif t[0] == 'enc':
            exp = 'e=' + hx(pct_encode(unhx(t[1])))
            if o != exp:
                return ('characters-outside-the-token-set-are-percent-encoded', f'{op}: got {o} want {exp}')
        elif t[0] == 'dec':
            d = pct_decode(unhx(t[1]))
            exp = 'err' if d is None else 'd=' + hx(d)
            if o != exp:
                return ('percent-decoding-is-strict-and-inverse', f'{op}: got {o} want {exp}')
        else:
            return ('bad-case', op)
    return None


NAMES = [b'baggage', b'b3', b'traceparent', b'tracestate', b'uber-trace-id', b'X-B3-TraceId', b'X-B3-SpanId', b'X-B3-Sampled']
CTX_RE = re.compile(r'span=<(.*)> bag=(\S+) same=([01])')


def parse_carrier(s):
    m = re.fullmatch(r'\[(.*)\]', s)
    if not m:
        return None
    d = {}
    if m.group(1):
        for kv in m.group(1).split(','):
            k, _, v = kv.partition(':')
            d[bytes.fromhex(k)] = unhx(v)
    return d


def oracle_comp(case, out):
    """the composite against its parts applied by hand (both observed on the implementation), plus what C15 itself says about
    the baggage part and the empty composite.  What the individual trace propagators write / accept is C09's and C16's business."""
    t = case.line.split()
    ps = [] if t[2] in ('-', '@') else t[2].split(',')
    if out.startswith('FAULT'):
        return ('decode-never-out-of-bounds', out)
    whole, sep, parts = out.partition(' parts=')
    if not sep:
        return ('composite-observation', out[:300])
    for h in (whole, parts):
        if h.startswith('ERR') or h.startswith('installed-invalid'):
            return ('callers-context-unchanged-or-valid-context', h)
    if t[1] == 'fields':
        stop = int(t[3])
        names = [n for p in ps for n in FIELDS[p]]
        stopped = 1 <= stop <= len(names)
        exp = 'f=[' + ','.join(hx(n) for n in (names[:stop] if stopped else names)) + '] ret=' + ('0' if stopped else '1')
        if whole != parts:
            return ('composite-fields-asks-every-part-in-order', f'composite {whole[:300]} / parts by hand {parts[:300]}')
        if whole != exp:
            return ('fields-are-the-header-names-of-the-parts', f'got {whole[:300]} want {exp[:300]}')
        return None
    if t[1] == 'inject':
        if ' extra=' in whole or any(k not in [n for p in ps for n in FIELDS[p]] for k in (parse_carrier(whole) or {})):
            return ('composite-injects-only-headers-its-parts-announce', whole[:300])
        if whole != parts:
            return ('composite-injects-with-every-part', f'composite {whole[:300]} / parts by hand {parts[:300]}')
        car = parse_carrier(whole)
        if car is None:
            return ('composite-observation', whole[:300])
        if not ps and car:
            return ('empty-composite-is-identity', whole[:300])
        bag = spec_header(spec_parse(unhx(t[7])))
        want = bag if ('bag' in ps and bag) else None
        if car.get(b'baggage') != want:
            return ('baggage-header-injected-iff-nonempty', f'got {car.get(b"baggage")!r} want {want!r}')
        return None
    if whole != parts:
        return ('composite-extract-threads-the-context-in-order', f'composite {whole[:300]} / parts by hand {parts[:300]}')
    m = CTX_RE.fullmatch(whole)
    if not m:
        return ('composite-observation', whole[:300])
    span, bag, same = m.group(1), m.group(2), m.group(3)
    if not ps and whole != 'span=<none> bag=none same=1':
        return ('empty-composite-is-identity', whole)
    if (same == '1') != (span == 'none' and bag == 'none'):
        return ('callers-context-unchanged-iff-nothing-extracted', whole)
    if t[1] == 'extract':
        hdr = unhx(t[10])
    else:
        hdr = spec_header(spec_parse(unhx(t[7])))          # what the baggage part injected
    es = spec_parse(hdr) if 'bag' in ps else []
    want = show_entries(es) if es else 'none'
    if bag != want:
        return ('baggage-extracted-iff-something-valid-remains', f'got bag={bag[:300]} want {want[:300]}')
    if not any(p in ps for p in ('w3c', 'b3s', 'b3m', 'jg')) and span != 'none':
        return ('no-trace-propagator-no-span', whole)
    return None


def oracle(case, out):
    if out.startswith('CRASH'):
        return ('never-crashes-or-reads-out-of-bounds', out)
    if case.line.startswith('bg '):
        return oracle_bg(case, out)
    if case.line.startswith('comp '):
        return oracle_comp(case, out)
    return ('bad-case', out)


def signature(case, out, clause):
    return clause


def nontrivial(case, out):
    if 'bad-op' in out:
        return False
    if case.line.startswith('comp '):
        return case.line.split()[2] not in ('-', '@')
    return any(tok not in ('-',) for op in case.line[3:].split(' ; ') for tok in op.split()[1:])


LEVEL_TEXT = ('Lean 4 theorems over an executable model of baggage.h / kv_properties.h / baggage_propagator.h / composite_propagator.h: '
              'urlDecode_urlEncode and urlEncodeByte_spec (percent-encoding, every byte), urlDecode_eq / decode_never_oob (the index-explicit '
              'UrlDecode never reads outside the string - truncated %4 included - and is strict decoding), fromHeader_eq (FromHeader = the valid '
              'members in order, first min(tokens,180), nothing beyond 8192 bytes), fromHeader_limits, fromHeader_only_valid, '
              'fromHeader_toHeader (+ _built: every baggage built by Set/Delete from RoundTrippable entries - a decidable predicate, inhabited - '
              'round-trips), set_eq / set_replaces / delete_removes / set_delete_pure, extract_empty_leaves_context, '
              'baggage_propagator_roundtrip, composite_inject_eq_foldl / composite_extract_eq_foldl / composite_empty_identity. Limits, '
              'separators, printable range, kept characters and digit table are re-extracted from the source each run; the model is tied '
              'to the code by a differential run (alphabet sweeps, limit boundaries, all 326 ordered propagator subsets) under ASan/UBSan.')
LEVEL_NOTE = ('Trusted: Lean kernel; axioms propext/Quot.sound/Classical.choice at most; tools/gen_c15.py; harness and generators; the C '
              'library character classes. Partial: memory safety of the C++ and "the original baggage is unchanged" as a fact about heap '
              'objects are shown by sanitizer runs and re-reading every earlier baggage after every operation, not by a theorem (the model is '
              'functional). The round-trip theorem carries the explicit hypothesis that metadata holds '
              'no "," and does not end in white space (D18, spec-conformant trimming): both excluded points are kernel-checked witnesses and '
              'corpus cases. Metadata taken from a header is observed up to its first NUL byte (C-string storage).')
DESIGN_REF = 'DESIGN.md section 4, C15; section 5, D18'
TECHNIQUE = 'proof + differential correspondence'
