"""C03 - Exporters are driven one call at a time and within the configured batch bounds."""
from vcore import Case
from props import batchcommon as B
from props import readercommon as RD
import importlib, os

ID = 'C03'
GEN = ['Batch', 'SpinLock', 'Ring']
LEAN_TARGETS = ['OtelVerif.Props.C03'] + RD.LEAN_TARGETS
THEOREMS = ['Otel.C03.' + t for t in ('gen_batch_shape', 'batch_bounds', 'export_not_reentrant_batch', 'exports_are_consumed',
                                      'export_not_reentrant_simple')] + ['Otel.Batch.reachable_inv', 'Otel.Batch.inv_astep']
THEOREMS = THEOREMS + RD.THEOREMS_C03
HARNESSES = [B.H_BSP, B.H_BLP, B.H_SSP, B.H_SLP] + RD.HARNESSES
SUBS = [importlib.import_module('props.' + n) for n in () if os.path.exists(os.path.join(os.path.dirname(__file__), n + '.py'))]
for _m in SUBS:
    LEAN_TARGETS = LEAN_TARGETS + list(_m.LEAN_TARGETS)
    THEOREMS = THEOREMS + list(_m.THEOREMS)
    HARNESSES = HARNESSES + [h for h in _m.HARNESSES if h.name not in {x.name for x in HARNESSES}]
    GEN = GEN + [g for g in (_m.GEN or []) if g not in GEN]
ENGINE = 'lean-proof + deterministic-scheduler refinement check (Engine D)'
RULE = ('schedules of the UNMODIFIED batch_span_processor.cc / batch_log_record_processor.cc (worker + 1-3 producers + 0-2 ForceFlush '
        'callers + 0-2 Shutdown callers + destructor, queue 1-4, batch 1-queue, exporter scripts, timer / spurious wake-up / '
        'spurious CAS actions) and of the simple processors (2-3 threads) under the scheduler shim; the implementation trace is '
        'abstracted to protocol events and replayed on the Lean model (refinement check), plus an implementation-side oracle. '
        'non-trivial = at least two threads act; distinct = distinct case line')
TRUSTED = ['the scheduler shim (sequentially consistent atomics; std::mutex / condition_variable / thread semantics with timeouts and '
           'spurious wake-ups as explicit actions)', 'props/batchcommon.py::abstract (which trace events are protocol events)']
ASSUMPTIONS = ['sequential consistency', 'the periodic reader\'s OnShutDown is serialized by shutdown_m_ (D82 repair): the test of joinable() and the join() are one step of the model']


def corpus():
    return B.batch_corpus() + RD.corpus() + [c for m in SUBS for c in m.corpus()]


def generate(rng, tier):
    return B.gen_schedules(rng, tier) + B.gen_simple(rng, tier) + RD.generate(rng, tier) + [c for m in SUBS for c in m.generate(rng, tier)]


def oracle(case, out):
    if out == 'bad-op':
        return ('harness-rejected-case', out)
    w = case.line.split()[0]
    if w in RD.WORDS:
        return RD.oracle(case, out, ('c03',))
    for m in SUBS:
        if w in m.WORDS:
            return m.oracle(case, out)
    if case.line.split()[0] in ('ssp', 'slp'):
        return B.oracle_simple(case, out)
    return B.oracle_c03(case, out)


def model_line(case, out):
    w = case.line.split()[0]
    if w in RD.WORDS:
        return RD.model_line(case, out)
    for m in SUBS:
        if w in m.WORDS:
            return m.model_line(case, out) if hasattr(m, 'model_line') else case.line
    return B.model_line(case, out)


def agree(case, out, mout):
    w = case.line.split()[0]
    if w in RD.WORDS:
        return RD.agree(case, out, mout)
    for m in SUBS:
        if w in m.WORDS:
            return m.agree(case, out, mout) if hasattr(m, 'agree') else out == mout
    return B.agree(case, out, mout)


def signature(case, out, clause):
    return clause


def nontrivial(case, out):
    toks = case.line.split(' ; ')[1:]
    return len({t.rstrip('!')[1:] for t in toks}) >= 2


LEVEL_TEXT = ('Lean 4: one inductive invariant over the batch processors\' protocol model (any number of producers / ForceFlush / '
              'Shutdown callers, every schedule) gives batch_bounds (every delivered batch has 1..max_export_batch_size records, '
              'also after ForceFlush), export_not_reentrant_batch (at most one Export in flight, only inside the worker), '
              'exports_are_consumed; for the simple processors the C11 spin-lock mutual-exclusion theorem with the exporter call '
              'as critical section. Tie: the real processors run under a deterministic scheduler; every execution is abstracted '
              'to protocol events and replayed on the model (each observed value compared), inv_astep proves the replay only '
              'takes protocol steps.')
LEVEL_NOTE = ('Trusted: Lean kernel; scheduler shim (SC); the event abstraction. Partial: weak memory orders; concurrent Shutdown calls on one periodic reader.')
DESIGN_REF = 'DESIGN.md section 4, C03; Appendix C'
