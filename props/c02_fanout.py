"""C02, fan-out clause: ForceFlush / Shutdown / destruction through MultiSpanProcessor, MultiLogRecordProcessor, the
Tracer/Logger/Meter providers and contexts, MetricReader, and the simple processors' latch.  Merged into props/c02.py
(engine word `fan`); not a property id of its own."""
import re
from vcore import Case, Harness, sdk_sources, SDK_INCLUDES

WORDS = {'fan'}
GEN = []
LEAN_TARGETS = ['OtelVerif.Props.C02Fanout']
THEOREMS = ['Otel.C02.Fanout.' + t for t in (
    'fold_calls_every_child', 'fold_result', 'fold_in_order', 'fold_events_of_child',
    'fanout_flush_calls_every_child', 'fanout_flush_sound', 'fanout_flush_complete_batch', 'fanout_flush_false_of_failing_child',
    'fanout_shutdown_calls_every_child', 'fanout_shutdown_result', 'fanout_shutdown_latches_every_child',
    'child_inv_run', 'exporter_shutdown_at_most_once_through_provider', 'exporter_shutdown_exactly_once_through_provider',
    'exporter_shutdown_exactly_once_after_shutdown', 'no_layer_latch_witness',
    'late_calls_after_shutdown', 'late_batch_no_exporter_call', 'late_simple_flush_reaches_exporter_witness',
    'batch_shutdown_drains_through_provider',
    'meter_shutdown_once', 'meter_late_shutdown_returns_true', 'meter_flush_every_reader', 'meter_flush_sound',
    'reader_shutdown_not_latched_witness', 'reader_collect_after_shutdown_not_refused',
    'later_children_get_zero_after_deadline',
    'Latch.inv_run', 'Latch.latch_forwards_once', 'Latch.loser_returns_before_forwarding_witness')]
_SRCS = sdk_sources('common', 'resource', 'version', 'trace', 'logs', 'metrics')
H = Harness('s_fanout', ['harness/s_fanout.cc'], sdk_srcs=_SRCS, includes=SDK_INCLUDES)
HARNESSES = [H]
RULE = ('fan-out: the real Tracer/Logger/Meter providers, contexts, MultiSpanProcessor, MultiLogRecordProcessor with 0-4 children '
        '(scripted harness processors / readers that log every call, real Simple processors over scripted exporters, real Batch '
        'processors with their worker threads over harness exporters) driven by sequences of ForceFlush / Shutdown (timeouts '
        'zero, 20 ms, 1 h, max) / emit / destroy / direct reader calls in any order and repetition; every case ends destroyed. '
        'non-trivial = at least two children and at least two flush/shutdown/destroy ops')

LAYERS = ('ms', 'tp', 'ml', 'lp', 'mp')
# how a provider is built: from a context (plain), the vector-of-processors constructor (v), the single-processor constructor +
# AddProcessor for the rest (p), the default constructor + AddProcessor (d); MeterProvider: default, from a MeterContext (c), the
# (views, resource) constructor (v).  "The provider that owns them" is whichever of these the application used.
HOW = {'ms': [''], 'ml': ['', 'f'], 'tp': ['', 'v', 'p', 'f', 'g'], 'lp': ['', 'v', 'p', 'd', 'f', 'g'], 'mp': ['', 'c', 'v', 'f', 'g']}
# f = through the factory (TracerProviderFactory / LoggerProviderFactory / MeterProviderFactory / MultiLogRecordProcessorFactory ::Create),
# g = the provider's factory over the context's factory (TracerContextFactory / LoggerContextFactory / MeterContextFactory)


def _case(line, *tags, origin='gen'):
    return Case(line, 's_fanout', tags, origin)


def corpus():
    c = []
    # D02: a failing child must make the provider's ForceFlush / Shutdown false (was `result |=` from true)
    c.append(_case('fan tp r:f:-,r:-:- ; fm', 'corpus', 'D02-flush', origin='corpus'))
    c.append(_case('fan ms r:-:-,r:f:- ; fm', 'corpus', 'D02-flush', origin='corpus'))
    c.append(_case('fan tp r:-:f,r:-:- ; sm', 'corpus', 'D02-shutdown', origin='corpus'))
    # D81: the same in MultiLogRecordProcessor::Shutdown
    c.append(_case('fan lp r:-:-,r:-:f ; sm', 'corpus', 'D81-log-shutdown', origin='corpus'))
    c.append(_case('fan ml r:-:f ; sm', 'corpus', 'D81-log-shutdown', origin='corpus'))
    # every layer: repeated shutdown, late flush, destroy
    for l in LAYERS:
        kinds = 'r:tf:tf,r:-:-' if l == 'mp' else 'r:tf:tf,s:ft:f,b:-:t'
        c.append(_case(f'fan {l} {kinds} ; e ; fm ; e ; fl ; sm ; fm ; sm ; e ; d ; fm', 'corpus', 'all-layers', origin='corpus'))
        c.append(_case(f'fan {l} - ; fm ; sm ; d', 'corpus', 'no-children', origin='corpus'))
        c.append(_case(f'fan {l} {kinds} ; e ; e', 'corpus', 'destroy-only', origin='corpus'))
        for h in HOW[l][1:]:
            c.append(_case(f'fan {l}{h} {kinds} ; e ; fm ; e ; fl ; sm ; fm ; sm ; e ; d ; fm', 'corpus', 'all-constructors', origin='corpus'))
            c.append(_case(f'fan {l}{h} - ; fm ; sm ; d', 'corpus', 'all-constructors', origin='corpus'))
    # a failing child behind every constructor: the result is the conjunction, every child is still called
    c.append(_case('fan tpv r:f:-,r:-:- ; fm ; sm', 'corpus', 'all-constructors', origin='corpus'))
    c.append(_case('fan tpp r:-:-,r:f:f,r:-:- ; fm ; sm', 'corpus', 'all-constructors', origin='corpus'))
    c.append(_case('fan lpd r:-:f,r:-:- ; fm ; sm', 'corpus', 'all-constructors', origin='corpus'))
    c.append(_case('fan ml r:T:-,r:-:-,r:-:- ; fk ; fz ; fl ; fm', 'corpus', 'deadline', origin='corpus'))
    c.append(_case('fan mp r:T:-,r:-:-,r:-:- ; fk ; fz ; fl ; fm ; sk ; sm', 'corpus', 'deadline', origin='corpus'))
    c.append(_case('fan mp r:-:tf,r:-:- ; sm ; c0 ; rs0 ; rs0 ; rf1 ; c1 ; sm ; fm', 'corpus', 'reader-direct', origin='corpus'))
    c.append(_case('fan tp b:-:f,b:-:t ; e ; e ; e ; e ; e ; fm ; e ; sm ; e ; fm ; sm', 'corpus', 'real-batch', origin='corpus'))
    c.append(_case('fan lp b:-:t,s:-:-,b:-:- ; e ; e ; e ; e ; fm ; e ; e ; d', 'corpus', 'real-batch', origin='corpus'))
    return c


def _script(rng, alphabet, pfail):
    n = rng.choice([0, 0, 1, 2, 3, 5])
    s = ''.join(rng.choice(alphabet[1]) if rng.random() < pfail else alphabet[0] for _ in range(n))
    return s or '-'


def generate(rng, tier):
    big = tier == 'thorough'
    out = []
    n_seq = 40000 if big else 1500
    for _ in range(n_seq):
        layer = rng.choice(LAYERS)
        n = rng.choice([0, 1, 1, 2, 2, 3, 3, 4])
        pfail = rng.choice([0.0, 0.2, 0.5, 1.0])
        kids = []
        for _k in range(n):
            kind = 'r' if layer == 'mp' else rng.choice('rrrs')
            kids.append(f'{kind}:{_script(rng, ("t", "f"), pfail)}:{_script(rng, ("t", "f"), pfail)}')
        nops = rng.randrange(1, 12)
        ops = []
        for _k in range(nops):
            r = rng.random()
            t = rng.choice('zlmmm')
            if r < 0.35:
                ops.append('f' + t)
            elif r < 0.6:
                ops.append('s' + t)
            elif r < 0.72:
                ops.append('e')
            elif r < 0.8:
                ops.append('d')
            elif layer == 'mp':
                ops.append(rng.choice(['c', 'rs', 'rf']) + str(min(3, rng.randrange(0, max(1, n) + (1 if rng.random() < 0.1 else 0)))))
            else:
                ops.append(rng.choice(['fm', 'sm', 'e']))
        out.append(_case(f'fan {layer}{rng.choice(HOW[layer])} {",".join(kids) or "-"} ; ' + ' ; '.join(ops), 'sequential', layer))
    # the deadline arithmetic: short timeout, slow children (each slow call sleeps 25 ms)
    for _ in range(240 if big else 12):
        layer = rng.choice(['ml', 'lp', 'mp', 'ms'])
        n = rng.randrange(2, 5)
        kids = []
        for k in range(n):
            f = ''.join(rng.choice('tfTF' if rng.random() < 0.5 else 'tf') for _x in range(2))
            kids.append(f'r:{f}:-')
        ops = [rng.choice(['fk', 'fk', 'sk', 'fl', 'fz']) for _x in range(2)]
        out.append(_case(f'fan {layer}{rng.choice(HOW[layer])} {",".join(kids)} ; ' + ' ; '.join(ops), 'deadline', layer))
    # real batch processors (worker threads) behind the providers
    for _ in range(4000 if big else 150):
        layer = rng.choice(['ms', 'tp', 'ml', 'lp'])
        n = rng.randrange(1, 4)
        kids = []
        for _k in range(n):
            kind = rng.choice('bbbsr')
            if kind == 'b':
                kids.append(f'b:-:{_script(rng, ("t", "f"), 0.3)}')
            else:
                kids.append(f'{kind}:{_script(rng, ("t", "f"), 0.3)}:{_script(rng, ("t", "f"), 0.3)}')
        ops = []
        for _k in range(rng.randrange(2, 14)):
            r = rng.random()
            ops.append('e' if r < 0.5 else 'fm' if r < 0.75 else 'sm' if r < 0.93 else 'd')
        out.append(_case(f'fan {layer}{rng.choice(HOW[layer])} {",".join(kids)} ; ' + ' ; '.join(ops), 'real-batch', layer))
    # malformed
    for _ in range(40 if big else 10):
        out.append(_case(rng.choice(['fan xx - ; fm', 'fan tp r:t ; fm', 'fan mp s:-:- ; fm', 'fan tp b:t:- ; fm', 'fan tp r:-:- ; fq',
                                     'fan tp r:-:- ; c9', 'fan tp r:x:- ; fm', 'fan tp r:-:-,r:-:-,r:-:-,r:-:-,r:-:- ; fm', 'fan tp', 'fan tpd - ; fm', 'fan msv - ; fm', 'fan mpp - ; fm']),
                         'malformed'))
    return out


# ------------------------------------------------------------------------------------------------------------------
# implementation-side oracle: the fan-out clauses evaluated on the implementation's own call log

class Parsed:
    def __init__(self, line, out):
        toks = line.split(' ; ')
        head = toks[0].split()
        self.layer = head[1][:2]          # the suffix says how the provider was built; the clauses are the same
        self.kinds = [] if head[2] == '-' else [k.split(':')[0] for k in head[2].split(',')]
        self.ops = toks[1:]
        self.segs = []
        self.sums = None
        for s in out.split(' ; '):
            t = s.split()
            if t[0] == 'sum':
                self.sums = {}
                for x in t[1:]:
                    m = re.fullmatch(r'c(\d+):F(\d+):S(\d+):X(\d+)', x)
                    self.sums[int(m.group(1))] = (int(m.group(2)), int(m.group(3)), int(m.group(4)))
            else:
                self.segs.append((t[0], t[1:]))


_EV = re.compile(r'([cx])(\d+):(.*)')


def _events(evs):
    """[(who 'c'|'x', child, body)]"""
    res = []
    for e in evs:
        m = _EV.fullmatch(e)
        if not m:
            raise ValueError('event ' + e)
        res.append((m.group(1), int(m.group(2)), m.group(3)))
    return res


def oracle(case, out):
    if case.tags and case.tags[0] == 'malformed':
        return None if out == 'bad-op' else ('malformed-case-rejected', out[:80])
    if out == 'bad-op':
        return ('harness-rejected-case', out)
    if out.startswith('CRASH'):
        return ('no-crash', out)
    p = Parsed(case.line, out)
    n = len(p.kinds)
    ops = list(p.ops)
    if len(p.segs) not in (len(ops), len(ops) + 1):
        return ('one-segment-per-op', f'{len(p.segs)} segments for {len(ops)} ops')
    names = ops + ['end'] * (len(p.segs) - len(ops))
    xshut = [0] * n           # exporter Shutdown calls (s, b children)
    proc_shut_returned = [False] * n
    rshut = [0] * n           # reader OnShutDown calls (mp)
    direct_reader_shutdown = False
    prov_shutdown_seen = False
    destroyed = False
    for name, (obs, evs) in zip(names, p.segs):
        E = _events(evs)
        if 'LATE' in ' '.join(evs):
            return ('no-exporter-call-after-shutdown-returned', f'{name}: {" ".join(evs)}')
        # exporter calls of a batch child after its Shutdown returned (seen from the calling thread)
        for who, i, body in E:
            if who == 'x' and p.kinds[i] == 'b' and proc_shut_returned[i]:
                return ('no-exporter-call-after-shutdown-returned', f'{name}: x{i}:{body}')
            if who == 'x' and body.startswith('S=') and p.kinds[i] in 'sb':
                xshut[i] += 1
                if xshut[i] > 1:
                    return ('exporter-shut-down-exactly-once', f'child {i}: second exporter Shutdown in `{name}`')
        if obs == 'gone' or obs == 'na':
            if evs:
                return ('no-effect-when-not-applicable', f'{name}: {evs}')
            continue
        is_flush = obs.startswith('f=') and name != 'end'
        is_shut = obs.startswith('s=')
        if is_flush or is_shut:
            letter = 'F' if is_flush else 'S'
            res = obs.endswith('1')
            calls = {i: [b for w, j, b in E if w == 'c' and j == i and b.startswith(letter + ':')] for i in range(n)}
            latched_meter = is_shut and p.layer == 'mp' and prov_shutdown_seen
            for i in range(n):
                if latched_meter:
                    if calls[i]:
                        return ('meter-shutdown-forwarded-once', f'reader {i} shut down again by a later provider Shutdown')
                    continue
                if len(calls[i]) != 1:
                    return ('flush-calls-every-child' if is_flush else 'shutdown-calls-every-child',
                            f'`{name}`: child {i} received {len(calls[i])} {letter} calls')
                child_res = calls[i][0].endswith('=1')
                if res and not child_res:
                    return ('flush-true-means-every-child-flushed' if is_flush else 'shutdown-true-means-every-child-shut-down',
                            f'`{name}` returned true, child {i} returned false')
                if is_flush and child_res and p.layer != 'mp' and p.kinds[i] in 'sb':
                    if not any(w == 'x' and j == i and b.startswith('F=') for w, j, b in E):
                        return ('flush-true-means-exporter-forceflush-invoked', f'`{name}`: child {i}')
                if p.kinds[i] == 'b':
                    st = [b for w, j, b in E if w == 'c' and j == i and b.startswith('q')]
                    if not st:
                        return ('batch-state-reported', f'`{name}`: child {i}')
                    q = int(st[-1].split(':')[0][1:])
                    if is_flush and child_res and q != 0:
                        return ('flush-true-means-everything-before-was-exported', f'`{name}`: child {i} still holds {q} records')
                    if is_shut and q != 0:
                        return ('shutdown-exports-everything-produced-before', f'`{name}`: child {i} still holds {q} records')
                    if is_flush and proc_shut_returned[i] and child_res:
                        return ('late-forceflush-returns-false', f'`{name}`: child {i}')
                    if is_shut and proc_shut_returned[i] and not child_res:
                        return ('late-shutdown-returns-true', f'`{name}`: child {i}')
                if is_shut and p.kinds[i] in 'sb' and xshut[i] != 1:
                    return ('exporter-shut-down-exactly-once', f'after `{name}`: child {i} exporter Shutdown count {xshut[i]}')
            if latched_meter and not res:
                return ('late-shutdown-returns-true', f'`{name}` on a shut-down MeterProvider returned false')
            if not res and n > 0 and not latched_meter and all(calls[i] and calls[i][0].endswith('=1') for i in range(n)):
                return ('result-false-only-if-a-child-failed', f'`{name}`')
            if not res and n == 0:
                return ('result-false-only-if-a-child-failed', f'`{name}` with no children')
            if is_shut:
                prov_shutdown_seen = True
                for i in range(n):
                    proc_shut_returned[i] = True
        if name.startswith('rs') and obs.startswith('rs='):
            direct_reader_shutdown = True
        if name == 'd' or name == 'end':
            destroyed = True
            for i in range(n):
                if not any(w == 'c' and j == i and b == '~' for w, j, b in E):
                    return ('children-destroyed-with-the-provider', f'child {i}')
                proc_shut_returned[i] = True
        for w, i, b in E:
            if w == 'c' and b.startswith('S:') and p.layer == 'mp':
                rshut[i] += 1
    # the children's own counters (kept apart from the event log by the harness) say the same
    if p.sums is None or sorted(p.sums) != list(range(n)):
        return ('per-child-counters-reported', out[-120:])
    for i in range(n):
        if p.kinds[i] in 'sb' and p.sums[i][2] != xshut[i]:
            return ('exporter-shut-down-exactly-once', f'child {i}: counter says {p.sums[i][2]} exporter Shutdown calls, log {xshut[i]}')
    if destroyed:
        for i in range(n):
            if p.kinds[i] in 'sb' and p.sums[i][2] != 1:
                return ('exporter-shut-down-exactly-once', f'child {i}: {p.sums[i][2]} exporter Shutdown calls over the whole life')
            if p.kinds[i] in 'sb' and xshut[i] != 1:
                return ('exporter-shut-down-exactly-once', f'child {i}: {xshut[i]} exporter Shutdown calls over the whole life')
            if p.layer == 'mp' and not direct_reader_shutdown and rshut[i] != 1:
                return ('meter-shutdown-forwarded-once', f'reader {i}: OnShutDown called {rshut[i]} times')
    return None


def signature(case, out, clause):
    return clause


def nontrivial(case, out):
    toks = case.line.split(' ; ')
    head = toks[0].split()
    if len(head) < 3 or head[2] == '-':
        return False
    return head[2].count(',') >= 1 and sum(1 for o in toks[1:] if o[0] in 'fsd') >= 2
