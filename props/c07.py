"""C07 - histogram points are exact summaries of the recorded values; merging intervals is lossless."""
import bisect, math, re, struct
from fractions import Fraction
from vcore import Case, Harness, SDK_INCLUDES, sdk_sources

ID = 'C07'
GEN = ['Histogram']
LEAN_TARGETS = ['OtelVerif.Props.C07']
THEOREMS = ['Otel.C07.' + t for t in (
    'bucket_le_length', 'bucket_spec', 'bucket_inBucket', 'bucket_unique', 'bucket_last_iff',
    'hist_eq_closed', 'hist_wf', 'boundaries_eq', 'counts_eq_spec', 'counts_eq_spec_double', 'counts_eq_spec_long', 'counts_sum_eq_count', 'count_eq', 'sum_eq',
    'min_eq', 'max_eq', 'min_max_double', 'min_max_long', 'isDouble_range', 'long_in_range',
    'doubleMinInit_eq', 'doubleMaxInit_eq', 'longMinInit_eq', 'longMaxInit_eq',
    'long_default_boundaries', 'double_default_boundaries', 'default_boundaries_sorted', 'recordMinMax_defaults',
    'conv_double', 'conv_long', 'boundaryLess_iff', 'bucketLong_eq_bucket', 'aggregateLongC_eq', 'histLongC_eq', 'bucket_spec_long', 'bucket_long_aswas_witness',
    'merge_hom', 'merge_new_left', 'mergeL_hom', 'mergeR_hom', 'hist_perm',
    'storage_conserves_count', 'storage_conserves_sum', 'storage_series_count_and_sum', 'histHom', 'storage_series_point')] + [
    'Otel.Series.run_map', 'Otel.Series.run_key_totals', 'Otel.Series.run_totals', 'Otel.Series.run_nodup']
HARNESSES = [Harness('s_c07', ['harness/s_c07.cc'], sdk_srcs=sdk_sources('common', 'resource', 'version', 'metrics'),
                     includes=SDK_INCLUDES)]
H = 's_c07'
RULE = ('agg: (kind, boundary list, value groups, merge shape) through the real Long/DoubleHistogramAggregation classes '
        '(Aggregate, Merge, ToPoint); sdk: the same through MeterProvider + view + 1-3 explicit readers (delta/cumulative) '
        'over record/collect histories. Boundary lists: default, empty, single, fractional, denormal, huge (DBL_MAX), '
        'duplicates, random sorted; values: 0, -0.0, equal to / one ulp around boundaries, denormals, DBL_MAX, random; '
        'counts/min/max compared for all doubles, sum only where exact (values k*2^-10, bounded; int64 bounded). '
        'non-trivial = at least one value recorded and not rejected as malformed; distinct = distinct case line')
TRUSTED = ['std::lower_bound (modelled by its specification on a sorted range)',
           'IEEE-754 double comparison = comparison of the denoted rationals; frexp/ldexp used by the harness to print doubles exactly',
           'floating-point summation error and int64 overflow are outside the model (generators stay in the exact range)']
ASSUMPTIONS = ['boundary lists are sorted (the SDK does not validate them); values are finite (no NaN/inf)',
               'the storage-level merge order (hash-map enumeration) does not matter for histograms: hist_perm']

DEFAULT_B = [Fraction(x) for x in (0, 5, 10, 25, 50, 75, 100, 250, 500, 750, 1000, 2500, 5000, 7500, 10000)]   # OTel spec default
DBL_MAX = 1.7976931348623157e308
DENORM_MIN = 5e-324
DBL_MIN = 2.2250738585072014e-308


def bits(x):
    return '%016x' % struct.unpack('>Q', struct.pack('>d', x))[0]


def unbits(h):
    return struct.unpack('>d', struct.pack('>Q', int(h, 16)))[0]


def ulp_up(x):
    return math.nextafter(x, math.inf)


def ulp_dn(x):
    return math.nextafter(x, -math.inf)


def cfg_tok(bs, mm):
    return f'{int(mm)}:' + (','.join(bits(b) for b in bs) if bs else '-')


# ------------------------------------------------------------------------------------------------ corpus

def corpus():
    out = []
    c = lambda line, *tags: out.append(Case(line, H, ('corpus',) + tags, 'corpus'))
    # D07: max of {0.0} (and of denormals) must be the value, not numeric_limits<double>::min()
    c(f'hist agg d def L s1 {bits(0.0)}', 'D07-max-of-zero')
    c(f'hist agg d 1:- L s1 {bits(0.0)},{bits(0.0)}', 'D07-max-of-zero')
    c(f'hist agg d def N s1 {bits(DENORM_MIN)}', 'D07-max-of-denormal')
    c(f'hist sdk d def D s1 rec - {bits(0.0)} ; col 0', 'D07-max-of-zero')
    c(f'hist sdk d def C s1 rec 1 {bits(0.0)} ; col 0 ; rec 1 {bits(0.0)} ; col 0', 'D07-max-of-zero')
    c(f'hist agg d def L s0 {bits(-1.5)},{bits(-3.0)}', 'negative-direct')
    # values equal to boundaries
    c('hist agg l def L s1 0,5,10,25,50,75,100,250,500,750,1000,2500,5000,7500,10000,10001', 'boundary-equal')
    c('hist agg d def L s1 ' + ','.join(bits(float(b)) for b in DEFAULT_B) + '/' + bits(10000.5), 'boundary-equal')
    c(f'hist agg d {cfg_tok([], True)} L s1 {bits(1.0)},{bits(2.0)}/-/{bits(0.0)}', 'empty-boundaries')
    c(f'hist agg d {cfg_tok([DBL_MAX], True)} L s0 {bits(DBL_MAX)},{bits(ulp_dn(DBL_MAX))}', 'huge')
    c(f'hist agg l {cfg_tok([2.0 ** 53], True)} L s1 9007199254740991,9007199254740992', 'long-2^53')
    # D24 (repaired): int64 values no double represents, next to the boundary they used to be rounded onto
    c(f'hist agg l {cfg_tok([2.0 ** 60], True)} L s1 {2 ** 60 + 19},{2 ** 60}', 'D24-long-beyond-2^53')
    c(f'hist agg l {cfg_tok([2.0 ** 53, 2.0 ** 63, 1e300], True)} L s1 {2 ** 53 + 1},{2 ** 62 + 1},{-2 ** 62 - 1},{-2 ** 53 - 1}', 'D24-long-extremes')
    c(f'hist agg l {cfg_tok([-1e300, 2.0 ** 63], True)} L s1 {2 ** 63 - 1}/-9223372036854775808', 'D24-long-extremes')
    return out


# ------------------------------------------------------------------------------------------------ generators

def rand_boundaries(rng):
    """returns (list of floats sorted non-decreasing, tag)"""
    r = rng.random()
    if r < 0.12:
        return None, 'b-default'
    if r < 0.20:
        return [], 'b-empty'
    if r < 0.30:
        return [rng.choice([0.0, 1.0, 5.0, 0.5, 1e-3, 1e300, DBL_MAX, DENORM_MIN, DBL_MIN, 2.0 ** 53, float(rng.randrange(1, 1000))])], 'b-single'
    if r < 0.42:
        k = rng.randrange(2, 12)
        return sorted({rng.randrange(1, 4096) / 1024.0 for _ in range(k)}), 'b-fractional'
    if r < 0.50:
        return sorted({rng.choice([1e300, 1e307, DBL_MAX, ulp_dn(DBL_MAX), 2.0 ** 1000, 1e150, 2.0 ** 53, 2.0 ** 63]) for _ in range(rng.randrange(1, 5))}), 'b-huge'
    if r < 0.56:
        return sorted({rng.choice([DENORM_MIN, 2 * DENORM_MIN, DBL_MIN, ulp_dn(DBL_MIN), 1e-310, 0.0]) for _ in range(rng.randrange(1, 5))}), 'b-denormal'
    if r < 0.64:
        base = sorted(float(rng.randrange(0, 50)) for _ in range(rng.randrange(2, 8)))      # duplicates likely
        return base, 'b-duplicates'
    if r < 0.72:
        return sorted({float(rng.randrange(-20, 20)) for _ in range(rng.randrange(1, 8))}), 'b-negative-too'
    k = rng.randrange(1, 24)
    s = set()
    for _ in range(k):
        m = rng.random()
        if m < 0.5:
            s.add(float(rng.randrange(0, 2000)))
        elif m < 0.8:
            s.add(rng.randrange(0, 1 << 20) / 1024.0)
        else:
            s.add(unbits('%016x' % rng.randrange(0, 0x7ff0000000000000)))
    return sorted(s), 'b-random'


def rand_double_value(rng, bs, exact):
    if exact:
        r = rng.random()
        if r < 0.15:
            return 0.0
        if r < 0.45 and bs:
            b = rng.choice(bs)
            if 0 <= b < 2 ** 29 and b * 1024 == int(b * 1024):
                return b + rng.choice([0, 0, 1 / 1024.0, -1 / 1024.0]) if b >= 1 / 1024.0 else b
        return rng.randrange(0, 1 << rng.choice([4, 11, 20, 30, 39])) / 1024.0
    r = rng.random()
    if r < 0.1:
        return rng.choice([0.0, -0.0])
    if r < 0.45 and bs:
        b = rng.choice(bs)
        c = rng.random()
        if c < 0.4:
            return b
        v = ulp_up(b) if c < 0.7 else ulp_dn(b)
        return v if math.isfinite(v) else b
    if r < 0.55:
        return rng.choice([DENORM_MIN, 3 * DENORM_MIN, DBL_MIN, ulp_dn(DBL_MIN), 1e-310])
    if r < 0.65:
        return rng.choice([DBL_MAX, ulp_dn(DBL_MAX), 1e308, 2.0 ** 1023])
    if r < 0.8:
        return rng.random() * rng.choice([1, 10, 1000, 1e5, 1e10])
    return unbits('%016x' % rng.randrange(0, 0x7ff0000000000000))


def rand_long_value(rng, bs, nonneg, big_ok):
    r = rng.random()
    if r < 0.12:
        return 0
    if r < 0.5 and bs:
        b = rng.choice(bs)
        if abs(b) < 2 ** 52:
            v = int(math.floor(b)) + rng.choice([-1, 0, 0, 1])
            return max(v, 0) if nonneg else v
    if r < 0.6:
        return rng.randrange(0, 1 << 52)
    if r < 0.65 and not nonneg:
        return -rng.randrange(0, 1 << 40)
    if r < 0.70 and big_ok:
        return rng.choice([2 ** 53 - 1, 2 ** 53, 2 ** 53 + 1, 2 ** 55 + 3, 2 ** 55 + 4, 2 ** 56, 2 ** 57 - 1])   # also values no double represents
    return rng.randrange(0, rng.choice([10, 100, 2000, 20000]))


def groups_of(rng, vals):
    """split a list arbitrarily into 1-5 consecutive groups (some possibly empty)"""
    n = rng.choice([1, 1, 2, 2, 3, 4, 5])
    cuts = sorted(rng.randrange(0, len(vals) + 1) for _ in range(n - 1))
    gs, prev = [], 0
    for c in cuts + [len(vals)]:
        gs.append(vals[prev:c]); prev = c
    return gs


def gen_agg(rng, out, n):
    for _ in range(n):
        kind = rng.choice('ld')
        bs, btag = rand_boundaries(rng)
        mm = rng.random() < 0.85
        cfg = 'def' if bs is None else cfg_tok(bs, mm)
        bl = [float(b) for b in DEFAULT_B] if bs is None else bs
        nv = rng.choice([0, 1, 1, 2, 3, 5, 8, 13, 30, 60])
        tags = ['agg', 'kind-' + kind, btag]
        if kind == 'd':
            exact = rng.random() < 0.5
            vals = [rand_double_value(rng, bl, exact) for _ in range(nv)]
            if not exact and rng.random() < 0.15:
                vals = [-abs(v) if rng.random() < 0.3 else v for v in vals]      # the class accepts negatives; the instrument does not
                tags.append('negative-direct')
            toks = [bits(v) for v in vals]
            sf = 's1' if exact else 's0'
            tags.append('sum-exact' if exact else 'sum-not-compared')
        else:
            vals = [rand_long_value(rng, bl, False, True) for _ in range(nv)]
            toks = [str(v) for v in vals]
            sf = 's1'
        if nv == 0:
            tags.append('no-values')
        gs = groups_of(rng, toks)
        fold = rng.choice('LLRN')
        tags.append('fold-' + fold); tags.append(f'groups-{min(len(gs), 3)}{"+" if len(gs) > 3 else ""}')
        out.append(Case(f'hist agg {kind} {cfg} {fold} {sf} ' + '/'.join(','.join(g) if g else '-' for g in gs), H, tags))


def gen_long_beyond_2_53(rng, out, n):
    """int64 values that are not exactly representable as double, next to a boundary (D24: bucketed by their rounded value before the repair)"""
    for _ in range(n):
        e = rng.randrange(53, 62)
        b = float(2 ** e)
        v = 2 ** e + rng.choice([1, -1]) * rng.randrange(1, 2 ** (e - 53) + 1)
        out.append(Case(f'hist agg l {cfg_tok([b], True)} L s1 {v},{2 ** e}', H, ('agg', 'kind-l', 'long-beyond-2^53')))


def gen_sdk(rng, out, n):
    for _ in range(n):
        kind = rng.choice('ld')
        bs, btag = rand_boundaries(rng)
        mm = rng.random() < 0.85
        cfg = 'def' if bs is None else cfg_tok(bs, mm)
        bl = [float(b) for b in DEFAULT_B] if bs is None else bs
        readers = rng.choice(['D', 'C', 'D', 'C', 'DC', 'CD', 'DD', 'CC', 'DCD', 'CDC'])
        exact = kind == 'l' or rng.random() < 0.5
        ops = []
        nops = rng.choice([2, 4, 8, 16, 30])
        attrs = ['-'] + [str(i) for i in range(rng.randrange(0, 4))]
        for _k in range(nops):
            if rng.random() < 0.3:
                ops.append(f'col {rng.randrange(len(readers))}')
            else:
                if kind == 'd':
                    v = rand_double_value(rng, bl, exact)
                    if rng.random() < 0.03:
                        v = -abs(v) - 1.0 if not exact else -1.0          # rejected by the instrument
                    tok = bits(v)
                else:
                    tok = str(rand_long_value(rng, bl, True, True))
                ops.append(f'rec {rng.choice(attrs)} {tok}')
        ops.append(f'col {rng.randrange(len(readers))}')
        tags = ['sdk', 'kind-' + kind, btag, 'readers-' + readers, 'sum-exact' if exact else 'sum-not-compared']
        out.append(Case(f'hist sdk {kind} {cfg} {readers} {"s1" if exact else "s0"} ' + ' ; '.join(ops), H, tags))


def gen_malformed(rng, out, n):
    pool = ['hist agg d def L s1 7ff0000000000000', 'hist agg d def L s1 7ff8000000000000', 'hist agg d def L s1 zz',
            'hist agg l def L s1 9223372036854775808', 'hist agg l def X s1 1', 'hist agg x def L s1 1', 'hist agg d 2:- L s1 -',
            'hist agg d 1:7ff0000000000000 L s1 -', 'hist sdk d def - s1 col 0', 'hist sdk d def D s1 col 1', 'hist sdk l def D s1 rec - -1 ; col 0',
            'hist sdk d def D s1 rec a 0000000000000000', 'hist agg d def L s2 -', 'hist', 'hist agg', 'hist sdk d def D s1']
    for i in range(n):
        out.append(Case(pool[i % len(pool)], H, ('malformed',)))


def generate(rng, tier):
    big = tier == 'thorough'
    out = []
    gen_agg(rng, out, 250000 if big else 20000)
    gen_sdk(rng, out, 60000 if big else 5000)
    gen_long_beyond_2_53(rng, out, 400 if big else 40)
    gen_malformed(rng, out, 32)
    return out


# ------------------------------------------------------------------------------------------------ oracle (the spec, by hand)

def parse_dy(s):
    if s == '0':
        return Fraction(0)
    m = re.fullmatch(r'(-?\d+)p(-?\d+)', s)
    if not m:
        raise ValueError('dy ' + s)
    mant, e = int(m.group(1)), int(m.group(2))
    return Fraction(mant) * (Fraction(2) ** e)


def parse_point(s):
    f = dict(x.split('=', 1) for x in s.split('|'))
    return {'b': [] if f['b'] == '-' else [parse_dy(x) for x in f['b'].split(',')],
            'c': [] if f['c'] == '-' else [int(x) for x in f['c'].split(',')],
            'n': int(f['n']), 's': None if f['s'] == '?' else parse_dy(f['s']),
            'mn': None if f['mn'] == '-' else parse_dy(f['mn']), 'mx': None if f['mx'] == '-' else parse_dy(f['mx'])}


def val_of(kind, tok):
    return Fraction(int(tok)) if kind == 'l' else Fraction(unbits(tok))


def parse_cfg(tok):
    if tok == 'def':
        return list(DEFAULT_B), True
    mm, bs = tok.split(':')
    return ([] if bs == '-' else [Fraction(unbits(b)) for b in bs.split(',')]), mm == '1'


def spec_counts(bs, vals):
    """bucket i holds the values v with b[i-1] < v <= b[i]; the last bucket everything above the top boundary"""
    counts = [0] * (len(bs) + 1)
    for v in vals:
        for i in range(len(bs) + 1):
            lo_ok = i == 0 or bs[i - 1] < v
            hi_ok = i == len(bs) or v <= bs[i]
            if lo_ok and hi_ok:
                counts[i] += 1
                break
        else:
            raise AssertionError('unsorted boundaries in a generated case')
    return counts


def check_point(p, bs, mm, vals, with_sum, kind):
    if p['b'] != bs:
        return ('boundaries-are-the-configured-ones', f'{p["b"]} != {bs}')
    if len(p['c']) != len(bs) + 1:
        return ('one-more-bucket-than-boundaries', str(p['c']))
    if sum(p['c']) != p['n']:
        return ('bucket-counts-add-up-to-count', f'{p["c"]} vs {p["n"]}')
    if p['n'] != len(vals):
        return ('count-is-number-of-recorded-values', f'{p["n"]} vs {len(vals)}')
    exp = spec_counts(bs, vals)
    if p['c'] != exp:
        return ('each-value-in-its-bucket', f'{p["c"]} vs {exp}')
    if with_sum and p['s'] != sum(vals, Fraction(0)):
        return ('sum-is-sum-of-values', f'{p["s"]} vs {sum(vals, Fraction(0))}')
    if mm and vals:
        if p['mn'] != min(vals):
            return ('min-is-smallest-recorded-value', f'{p["mn"]} vs {min(vals)}')
        if p['mx'] != max(vals):
            return ('max-is-largest-recorded-value', f'{float(p["mx"])!r} vs {float(max(vals))!r}')
    if not mm and (p['mn'] is not None or p['mx'] is not None):
        return ('min-max-only-when-enabled', str(p))
    return None


def oracle(case, out):
    if out.startswith('CRASH'):
        return ('no-crash', out)
    t = case.line.split()
    if 'malformed' in case.tags:
        return None if out == 'bad-op' else ('malformed-line-rejected', out)
    if out == 'bad-op':
        return ('harness-accepts-generated-case', out)
    kind = t[2]
    bs, mm = parse_cfg(t[3])
    with_sum = t[5] == 's1'
    if t[1] == 'agg':
        vals = [val_of(kind, x) for g in t[6].split('/') if g != '-' for x in g.split(',')]
        return check_point(parse_point(out), bs, mm, vals, with_sum, kind)
    # sdk: histories
    ops = ' '.join(t[6:]).split(' ; ')
    readers = t[4]
    allv = {}                  # attr -> all values so far
    since = [dict() for _ in readers]
    outs = out.split(' ; ')
    oi = 0
    for op in ops:
        f = op.split()
        if f[0] == 'rec':
            v = val_of(kind, f[2])
            if v < 0:
                continue       # a histogram records non-negative values only
            allv.setdefault(f[1], []).append(v)
            for s in since:
                s.setdefault(f[1], []).append(v)
        else:
            r = int(f[1])
            if oi >= len(outs):
                return ('one-observation-per-collect', out)
            o = outs[oi]; oi += 1
            exp = dict(allv) if readers[r] == 'C' else dict(since[r])
            since[r] = {}
            got = {}
            if o not in ('none', 'empty'):
                for ps in o.split(' '):
                    m = re.fullmatch(r'\[([^\]]*)\](.*)', ps)
                    if m.group(1) in got:
                        return ('one-point-per-attribute-set', o)
                    got[m.group(1)] = parse_point(m.group(2))
            if set(got) != set(exp):
                return ('a-point-for-exactly-the-recorded-attribute-sets', f'collect #{oi} reader {r}: {sorted(got)} vs {sorted(exp)}')
            for a, p in got.items():
                res = check_point(p, bs, mm, exp[a], with_sum, kind)
                if res:
                    return (res[0], f'collect #{oi} reader {r} ({readers[r]}) attr {a}: {res[1]}')
    return None


def signature(case, out, clause):
    return clause


def nontrivial(case, out):
    if out == 'bad-op' or out.startswith('CRASH'):
        return False
    t = case.line.split()
    if t[1] == 'agg':
        return any(g != '-' for g in t[6].split('/'))
    return ' rec ' in case.line and 'n=' in out


LEVEL_TEXT = ('Lean 4 theorems over an executable model of Long/DoubleHistogramAggregation (exact rationals): bucket_spec / '
              'bucket_unique (b[i-1] < v <= b[i], last bucket above the top, exactly one bucket) for every sorted boundary list; '
              'counts_eq_spec, counts_sum_eq_count, count_eq, sum_eq, min_eq / max_eq for every value list; merge_hom, mergeL_hom, '
              'mergeR_hom (merge of the points of arbitrary splits = the point of all values) and hist_perm; storage_series_point: '
              'through the series storage, for every history of collection cycles and delta/cumulative readers, the point reported '
              'for an attribute set is hist of the values recorded for it in the interval (below the cardinality limit); sentinels and '
              'default boundary lists re-extracted from the source each run. Tied to the code by a differential run through the '
              'aggregation classes and through MeterProvider + view + explicit delta/cumulative readers under ASan/UBSan.')
LEVEL_NOTE = ('Trusted: Lean kernel; tools/gen_c07.py; harness, generators; std::lower_bound modelled by its specification. '
              'Partial: floating-point rounding of sum_ and int64 overflow are not modelled (sum compared only in the exact range); '
              'int64 values are compared with the double boundaries exactly (boundaryLess_iff, bucket_spec_long for every int64, '
              'also beyond 2^53, since the repair D24; bucket_long_aswas_witness keeps the old behaviour kernel-checked); storage_series_point assumes fewer '
              'measurements than the cardinality limit (no folding) and an enumeration order of the hash tables that does not depend '
              'on the aggregation values; beyond the limit only count and sum totals are carried (storage_conserves_count/_sum).')
DESIGN_REF = 'DESIGN.md section 4, C07'
TECHNIQUE = 'proof (Lean 4) + correspondence'
