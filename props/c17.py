"""C17 - gauges report the latest value; observables are read once per collection."""
import re
from vcore import Case, Harness, SDK_INCLUDES, sdk_sources

ID = 'C17'
GEN = ['MetricsTemporal']
LEAN_TARGETS = ['OtelVerif.Props.C17', 'OtelVerif.Props.C17Meter']
THEOREMS = ['Otel.C17.' + t for t in (
    # ObservableRegistry: every history of AddCallback / RemoveCallback / instrument destruction
    'invocations_count', 'registered_once_invoked_once', 'removed_never_invoked', 'destroyed_instrument_never_invoked',
    'meter_registry', 'each_callback_once_per_collect',
    # observable counters / up-down counters: refinement to C06's storage, telescoping
    'recordAll_clean', 'async_refines_sync', 'cycleOut_eq', 'lastObs_eq_recorded', 'recSince_translate',
    'observable_cumulative_is_reported_total', 'observable_cumulative_reports_this_cycle',
    'observable_delta_is_diff_from_own_last', 'observable_delta_sums_to_given', 'reader_noninterference_async',
    'D21_witness',
    # gauges: last-value aggregation through the temporal storage, every history
    'before_lt_since', 'linv_run', 'gauge_reports_latest', 'gauge_points_nodup', 'gauge_reports_latest_sync',
    'gauge_reports_latest_observable_cycle', 'gauge_reports_this_cycle',
    'gen_async_facts',
    # the meter: projection of a meter history on one observable instrument (Props/C17Meter.lean)
    'foldl_observe_sums', 'meter_sum_storage', 'meter_sum_output', 'recsFor_length',
    'meter_observable_cumulative', 'meter_observable_delta',
    'sginv_run', 'latestRec_lopsOf', 'meter_sync_gauge_reports_latest',
    'foldl_observe_gauge', 'increasing_gobs', 'gginv_run', 'meter_observable_gauge_reports_latest',
)]
_SRCS = sdk_sources('common', 'resource', 'version', 'metrics')
HARNESSES = [Harness('s_c17', ['harness/s_c17.cc'], sdk_srcs=_SRCS, includes=SDK_INCLUDES),
             Harness('s_c17v2', ['harness/s_c17.cc'], sdk_srcs=_SRCS, includes=SDK_INCLUDES,
                     flags=['-UOPENTELEMETRY_ABI_VERSION_NO', '-DOPENTELEMETRY_ABI_VERSION_NO=2'])]
H1, H2 = 's_c17', 's_c17v2'
import importlib, os
SUBS = [importlib.import_module('props.' + n) for n in ('c17_race',) if os.path.exists(os.path.join(os.path.dirname(__file__), n + '.py'))]
for _m in SUBS:
    LEAN_TARGETS = LEAN_TARGETS + list(_m.LEAN_TARGETS)
    THEOREMS = THEOREMS + list(_m.THEOREMS)
    HARNESSES = HARNESSES + [h for h in _m.HARNESSES if h.name not in {x.name for x in HARNESSES}]
    GEN = GEN + [g for g in (_m.GEN or []) if g not in GEN]


def _sub(case):
    w = case.line.split()[0] if case.line.split() else ''
    for m in SUBS:
        if w in m.WORDS:
            return m
    return None

RULE = ('histories of 10-80 operations on a real MeterProvider with 1-3 explicit readers of mixed temporality: create '
        'observable counter / up-down counter / gauge (and, in the ABI v2 build, synchronous gauge), each in the long and (40%) the double flavour, through the (name) / (name, description) / (name, description, unit) forms, AddCallback / '
        'RemoveCallback / instrument destruction, gauge Record, Collect with a script saying what each callback observes in '
        'that cycle (monotone and non-monotone totals, attribute sets appearing and disappearing); callback invocations are '
        'logged by the harness. non-trivial = at least one registered callback and two collections; distinct = distinct line')
TRUSTED = ['system_clock advances between collections and between gauge records (the harness waits for it), so last-value sample times are strictly increasing across them',
           'observations from harness s_c17 are from the ABI v1 build, from s_c17v2 (all cases with a synchronous gauge, and a share of the others) from the same sources built with -DOPENTELEMETRY_ABI_VERSION_NO=2']
ASSUMPTIONS = ['within one collection no attribute set is reported twice for one instrument (two callbacks, or one callback registered twice): '
               'the second Record overwrites the first delta (D21); such cases are generated and compared with the model, but the '
               'value clauses of the oracle skip the instrument from then on',
               'view attribute filters are not applied on the observable path (D22, belongs to C08/C19); no views are configured here']


def line(readers, ops):
    return 'obs cfg ' + ','.join(readers) + ' ; ' + ' ; '.join(ops)


def corpus():
    out = []
    c = lambda l, tag, h=H1: out.append(Case(l, h, ('corpus', tag), 'corpus'))
    c(line(['D', 'C'], ['create oc', 'addcb 0 1', 'collect 0 1=3:10', 'collect 1 1=3:15', 'collect 0 1=3:18,4:2', 'rmcb 0 1', 'collect 0 1=3:99', 'collect 1']), 'remove-callback')
    c(line(['C'], ['create og', 'addcb 0 0', 'collect 0 0=1:4', 'collect 0 0=1:3', 'destroy 0', 'collect 0 0=1:9']), 'destroy-instrument')
    c(line(['D'], ['create ou', 'addcb 0 0', 'addcb 0 0', 'collect 0 0=1:10', 'collect 0 0=1:4']), 'D21-registered-twice')
    c(line(['D', 'D', 'C'], ['create og', 'create ou', 'addcb 0 0', 'addcb 1 0', 'addcb 1 3', 'collect 0 0=1:10,2:5 3=5:1', 'collect 1 0=1:4',
                             'collect 2 0=2:8 3=5:-4,5:7', 'collect 0', 'collect 1 0=0:1']), 'mixed')
    c(line(['C', 'D'], ['create sg', 'create og', 'addcb 1 0', 'grec 0 2 5', 'grec 0 2 7', 'collect 0 0=1:4', 'grec 0 3 1', 'collect 1 0=1:3', 'collect 0', 'grec 0 2 -1', 'collect 1', 'collect 0']), 'sync-gauge', H2)
    # the double flavours (CreateDoubleObservable*, ObserverResultT<double>, double sum / last-value aggregations, CreateDoubleGauge)
    c(line(['D', 'C'], ['create ocd', 'create oud', 'create ogd', 'addcb 0 0', 'addcb 1 1', 'addcb 2 2', 'collect 0 0=1:10,2:3 1=1:-5,0:7 2=3:4,0:1', 'collect 1 0=1:12,2:3 1=1:-9 2=3:2',
                             'collect 0 0=1:15,2:4,3:1 1=1:2,0:7 2=3:9', 'rmcb 1 1', 'collect 1 0=1:15 1=1:99 2=0:5', 'destroy 2', 'collect 0 0=1:16 2=0:6']), 'double-flavour')
    c(line(['C', 'D'], ['create sgd', 'create ogd', 'create sg', 'addcb 1 0', 'grec 0 2 5', 'grec 0 2 -7', 'grec 2 1 3', 'collect 0 0=1:4', 'grec 0 0 1', 'grec 0 3 1024', 'collect 1 0=1:3', 'collect 0', 'grec 0 2 -1', 'grec 2 0 8', 'collect 1', 'collect 0']), 'double-flavour', H2)
    c(line(['D'], ['create oc', 'create oc', 'create oc', 'create ocd', 'create ocd', 'create ocd', 'addcb 0 0', 'addcb 1 0', 'addcb 2 0', 'addcb 3 0', 'addcb 4 0', 'addcb 5 0', 'collect 0 0=0:1,1:2,2:3,3:4,4:5,5:6', 'collect 0 0=0:2,1:2,2:4,3:4,4:6,5:6']), 'one-callback-on-several-instruments')
    # two handles for one observable instrument: one storage, callbacks registered / removed / cleaned up per handle
    c(line(['D', 'C'], ['create oc', 'dup 0', 'addcb 0 0', 'addcb 1 1', 'collect 0 0=1:10 1=2:5', 'collect 1 0=1:12 1=2:6', 'rmcb 1 0', 'collect 0 0=1:15 1=2:9',
                             'destroy 0', 'collect 0 0=1:99 1=2:11', 'collect 1 0=1:99 1=2:12', 'destroy 1', 'collect 0 1=2:50', 'collect 1']), 'second-handle')
    c(line(['C'], ['create ogd', 'create ou', 'dup 0', 'dup 1', 'dup 1', 'addcb 2 0', 'addcb 3 1', 'addcb 4 2', 'addcb 1 3', 'collect 0 0=1:4 1=2:-3 2=3:7 3=4:1', 'destroy 1',
                        'collect 0 0=1:5 1=2:-4 2=3:8 3=4:2', 'rmcb 3 1', 'collect 0 0=1:6 1=2:0 2=3:9']), 'second-handle')
    c('obs cfg D ; create oc ; destroy 0 ; dup 0', 'malformed')
    c('obs cfg D ; create odd', 'malformed')
    c('obs cfg D ; create ocx', 'malformed')
    c('obs cfg D ; addcb 0 0', 'malformed')
    c('obs cfg D ; create oc ; collect 0 9=1:1', 'malformed')
    return out + [c for m in SUBS for c in m.corpus()]


def gen_history(rng, nops, allow_sg):
    nr = rng.choice([1, 1, 2, 2, 3])
    readers = [rng.choice('DC') for _ in range(nr)]
    overlap = rng.random() < 0.12          # allow two invocations to report one attribute set (D21)
    kinds = []
    alive = []
    regs = []                              # (instr, cb)
    totals = {}                            # (cb, a) -> running value for monotone scripts
    ops = []
    ncb = rng.choice([1, 2, 3, 4])
    pool_all = [0, 1, 2, 3, 4, 5]
    monotone = rng.random() < 0.5
    uses_sg = False
    dups = rng.random() < 0.3              # histories with several handles per observable instrument
    for _ in range(nops):
        r = rng.random()
        obs_alive = [i for i, k in enumerate(kinds) if k[:2] != 'sg' and alive[i]]
        if not kinds or r < 0.06:
            ks = ['oc', 'ou', 'og'] + (['sg', 'sg'] if allow_sg else [])
            k = rng.choice(ks)
            uses_sg |= k == 'sg'
            if rng.random() < 0.4:
                k += 'd'                       # the double flavour of the instrument
            ops.append(f'create {k}'); kinds.append(k); alive.append(True)
        elif r < 0.09 and obs_alive and dups:
            # a further handle for an instrument that exists: it shares the instrument's storage, callbacks go per handle
            i = rng.choice(obs_alive)
            ops.append(f'dup {i}'); kinds.append(kinds[i]); alive.append(True)
        elif r < 0.18 and obs_alive:
            i = rng.choice(obs_alive); cb = rng.randrange(ncb)
            if not overlap and any(x == (i, cb) or (x[0] == i) for x in regs) and rng.random() < 0.8:
                # clean mode: one callback per instrument
                continue
            ops.append(f'addcb {i} {cb}'); regs.append((i, cb))
        elif r < 0.24 and obs_alive:
            if regs and rng.random() < 0.8:
                i, cb = rng.choice(regs)
                if not alive[i]:
                    continue
            else:
                i = rng.choice(obs_alive); cb = rng.randrange(ncb)
            ops.append(f'rmcb {i} {cb}'); regs = [x for x in regs if x != (i, cb)]
        elif r < 0.27 and obs_alive:
            i = rng.choice(obs_alive)
            ops.append(f'destroy {i}'); alive[i] = False; regs = [x for x in regs if x[0] != i]
        elif r < 0.45 and any(k[:2] == 'sg' for k in kinds):
            i = rng.choice([i for i, k in enumerate(kinds) if k[:2] == 'sg'])
            ops.append(f'grec {i} {rng.choice(pool_all)} {rng.randrange(-50, 1000)}')
        else:
            rd = rng.randrange(nr)
            parts = []
            for cb in range(ncb):
                if rng.random() < 0.15:
                    continue
                pool = pool_all if overlap else [a for a in pool_all if a % ncb == cb]
                obs = []
                for a in pool:
                    if rng.random() < 0.6:
                        if monotone:
                            totals[(cb, a)] = totals.get((cb, a), 0) + rng.randrange(0, 50)
                            v = totals[(cb, a)]
                        else:
                            v = rng.randrange(-100, 1000) if rng.random() < 0.3 else rng.randrange(0, 1000)
                        obs.append(f'{a}:{v}')
                if rng.random() < 0.05 and obs:
                    obs.append(obs[0].split(':')[0] + ':' + str(rng.randrange(0, 9)))   # same set twice in one invocation: last wins
                parts.append(f'{cb}=' + (','.join(obs) if obs else '-'))
            ops.append(' '.join([f'collect {rd}'] + parts))
    return line(readers, ops), uses_sg


def generate(rng, tier):
    big = tier == 'thorough'
    out = []
    for i in range(80000 if big else 8000):
        nops = rng.choice([10, 20, 40, 80])
        allow_sg = rng.random() < 0.4
        l, sg = gen_history(rng, nops, allow_sg)
        h = H2 if sg or rng.random() < 0.15 else H1
        out.append(Case(l, h, ('history', 'abi-v2' if h == H2 else 'abi-v1', 'sync-gauge' if sg else 'observable-only', f'ops<={nops}')))
    for i in range(40):
        l, sg = gen_history(rng, 10, False)
        toks = l.split(' ')
        j = rng.randrange(1, len(toks))
        toks[j] = rng.choice(['x', '-1', '99', 'collect', '', '1=1', '0=1:x'])
        out.append(Case(' '.join(t for t in toks if t != ''), H1, ('malformed-mutation',)))
    return out + [c for m in SUBS for c in m.generate(rng, tier)]


# ------------------------------------------------------------------------------------------------
# implementation-side oracle

COL_RE = re.compile(r'^calls=\[([0-9,]*)\] \[(.*)\]$')
MD_RE = re.compile(r'^(\d+)\.(\w+) ([DC?]) (\S+) (\S+) \{(.*)\}$')


def parse_script(toks):
    sc = {}
    for t in toks:
        cb, obs = t.split('=')
        lst = []
        if obs != '-':
            for kv in obs.split(','):
                a, v = kv.split(':')
                lst.append((a, int(v)))
        sc[int(cb)] = lst
    return sc


def oracle(case, out):
    m = _sub(case)
    if m:
        return m.oracle(case, out)                     # the sub-check has its own malformed stream
    return _oracle(case, out)


def model_line(case, out):
    m = _sub(case)
    return m.model_line(case, out) if m and hasattr(m, 'model_line') else case.line


def agree(case, out, mout):
    m = _sub(case)
    return m.agree(case, out, mout) if m and hasattr(m, 'agree') else out == mout


def _oracle(case, out):
    if out.startswith('CRASH'):
        return ('never-crashes', out)
    toks = case.line.split(' ')
    ops = ' '.join(toks[1:]).split(' ; ')
    if out == 'bad-op':
        return None if bad_case(ops, case.harness) else ('wellformed-history-is-executed', out)
    obs = out.split(' ; ')
    if len(obs) != len(ops):
        return ('one-observation-per-operation', f'{len(obs)} observations for {len(ops)} operations')
    readers = ops[0].split(' ')[1].split(',')
    nr = len(readers)
    kinds = []                 # per handle
    canon = []                 # handle -> the handle that created its instrument (`dup` makes further handles of one instrument)
    regs = []                  # active registrations (handle, cb), with multiplicity
    removed = set()            # (instr, cb) removed and not re-added
    destroyed = set()
    latest = {}                # instr -> {a: latest observed / recorded value}
    given = [dict() for _ in range(nr)]   # reader -> instr -> {a: sum of delta points handed to it}
    tainted = set()            # instruments for which one cycle reported a set twice (D21)
    ncollect = 0
    for op, ob in zip(ops[1:], obs[1:]):
        t = op.split(' ')
        if t[0] == 'create':
            kinds.append(t[1]); canon.append(len(kinds) - 1)
            if ob != f'i{len(kinds) - 1}':
                return ('create-returns-a-handle', ob)
        elif t[0] == 'dup':
            kinds.append(kinds[int(t[1])]); canon.append(canon[int(t[1])])
            if ob != f'i{len(kinds) - 1}':
                return ('create-returns-a-handle', ob)
        elif t[0] == 'addcb':
            regs.append((int(t[1]), int(t[2]))); removed.discard((int(t[1]), int(t[2])))
        elif t[0] == 'rmcb':
            regs = [x for x in regs if x != (int(t[1]), int(t[2]))]; removed.add((int(t[1]), int(t[2])))
        elif t[0] == 'destroy':
            regs = [x for x in regs if x[0] != int(t[1])]; destroyed.add(int(t[1]))
        elif t[0] == 'grec':
            latest.setdefault(int(t[1]), {})[t[2]] = int(t[3])
        elif t[0] == 'collect':
            r = int(t[1]); ncollect += 1; stamp = f'#{ncollect}'
            script = parse_script(t[2:])
            m = COL_RE.match(ob)
            if not m:
                return ('collection-output-wellformed', ob)
            calls = [int(x) for x in m.group(1).split(',')] if m.group(1) else []
            want_calls = sorted(cb for (_, cb) in regs)
            if sorted(calls) != want_calls:
                active = {cb for (_, cb) in regs}
                extra = [cb for cb in calls if cb not in active]
                if extra:
                    cb = extra[0]
                    if any(c == cb for (i, c) in removed):
                        return ('removed-callback-never-invoked', f'callback {cb} invoked in collection {stamp} after RemoveCallback')
                    return ('destroyed-instrument-never-invoked', f'callback {cb} invoked in collection {stamp}, its instrument was destroyed')
                return ('each-callback-once-per-collect', f'collection {stamp}: invoked {sorted(calls)}, registered {want_calls}')
            # what each instrument was told in this cycle
            reported = {}
            for (hd, cb) in regs:
                i = canon[hd]                       # what a callback reports goes to the instrument of its handle
                ms = {}
                for a, v in script.get(cb, []):
                    ms[a] = v                       # one invocation: a repeated set keeps the last value
                for a, v in ms.items():
                    if a in reported.setdefault(i, {}):
                        tainted.add(i)
                    if kinds[i][:2] == 'oc' and v < 0:
                        tainted.add(i)              # a negative "running total" of a monotonic counter is not a total
                    reported[i][a] = v
            for i, d in reported.items():
                for a, v in d.items():
                    latest.setdefault(i, {})[a] = v
            got = {}
            if m.group(2):
                for part in m.group(2).split(' | '):
                    mm = MD_RE.match(part)
                    if not mm:
                        return ('collection-output-wellformed', part)
                    pts = {}
                    if mm.group(6):
                        for kv in mm.group(6).split(','):
                            a, v = kv.split('=')
                            if a in pts:
                                return ('one-point-per-attribute-set', part)
                            pts[a] = v
                    i = int(mm.group(1))
                    if i in got or i >= len(kinds) or mm.group(2) != kinds[i] or canon[i] != i:
                        return ('one-metricdata-per-instrument', part)
                    got[i] = (mm.group(3), mm.group(4), mm.group(5), pts)
            for i, kf in enumerate(kinds):
                if canon[i] != i:
                    continue                                 # a further handle of an instrument: no stream of its own
                k = kf[:2]                                   # the double flavour obeys the same clauses
                md = got.get(i)
                pts = md[3] if md else {}
                temp = readers[r] if k != 'sg' else 'C'      # a synchronous gauge is always reported cumulatively
                if md:
                    if md[0] != temp:
                        return ('temporality-of-the-reader', f'instrument {i}: {md[0]} for reader {r} ({readers[r]})')
                    if md[2] != stamp or (temp == 'C' and md[1] != 'sdk'):
                        return ('interval-of-the-collection', f'instrument {i}: [{md[1]},{md[2]}] in collection {stamp}')
                if i in tainted:
                    continue
                rep = reported.get(i, {})
                if k in ('oc', 'ou'):
                    g = given[r].setdefault(i, {})
                    for a, v in rep.items():
                        if temp == 'C':
                            if pts.get(a) != str(v):
                                return ('observable-cumulative-is-reported-total', f'collection {stamp} reader {r} instrument {i} attrs {a}: got {pts.get(a)}, callback reported {v}')
                        else:
                            if pts.get(a, '0') != str(v - g.get(a, 0)):
                                return ('observable-delta-is-diff-from-own-last', f'collection {stamp} reader {r} instrument {i} attrs {a}: got {pts.get(a)}, reported {v}, this reader was given {g.get(a, 0)} so far')
                    if temp == 'D':
                        for a, v in pts.items():
                            g[a] = g.get(a, 0) + int(v)
                else:
                    lt = latest.get(i, {})
                    must = rep if (k == 'og' and temp == 'D') else lt
                    for a in must:
                        if pts.get(a) != str(lt[a]):
                            return ('gauge-reports-latest', f'collection {stamp} reader {r} instrument {i} ({k}) attrs {a}: got {pts.get(a)}, latest value {lt[a]}')
                    for a, v in pts.items():
                        if a not in lt or v != str(lt[a]):
                            return ('gauge-reports-latest', f'collection {stamp} reader {r} instrument {i} ({k}) attrs {a}: got {v}, latest value {lt.get(a)}')
        else:
            return ('bad-case', op)
    return None


def bad_case(ops, harness):
    try:
        cfg = ops[0].split(' ')
        if len(cfg) != 2 or cfg[0] != 'cfg':
            return True
        readers = cfg[1].split(',')
        if not readers or len(readers) > 4 or any(r not in ('D', 'C') for r in readers):
            return True
        kinds = []
        dead = set()
        for op in ops[1:]:
            t = op.split(' ')
            if t[0] == 'create' and len(t) == 2:
                if t[1] not in ('oc', 'ou', 'og', 'sg', 'ocd', 'oud', 'ogd', 'sgd') or (t[1][:2] == 'sg' and harness == H1):
                    return True
                kinds.append(t[1][:2])
            elif t[0] == 'dup' and len(t) == 2:
                if not t[1].isdigit() or int(t[1]) >= len(kinds) or kinds[int(t[1])] == 'sg' or int(t[1]) in dead:
                    return True
                kinds.append(kinds[int(t[1])])
            elif t[0] in ('addcb', 'rmcb') and len(t) == 3:
                if not t[1].isdigit() or not t[2].isdigit() or int(t[1]) >= len(kinds) or int(t[2]) >= 8:
                    return True
                if kinds[int(t[1])] == 'sg' or int(t[1]) in dead:
                    return True
            elif t[0] == 'destroy' and len(t) == 2:
                if not t[1].isdigit() or int(t[1]) >= len(kinds) or kinds[int(t[1])] == 'sg':
                    return True
                dead.add(int(t[1]))
            elif t[0] == 'grec' and len(t) == 4:
                if not t[1].isdigit() or not t[2].isdigit() or not re.fullmatch(r'-?\d{1,14}', t[3]):
                    return True
                if int(t[1]) >= len(kinds) or kinds[int(t[1])] != 'sg' or int(t[2]) >= 16 or abs(int(t[3])) > (1 << 40):
                    return True
            elif t[0] == 'collect' and len(t) >= 2:
                if not t[1].isdigit() or int(t[1]) >= len(readers):
                    return True
                seen = set()
                for tok in t[2:]:
                    mm = re.fullmatch(r'(\d+)=(-|(\d+:-?\d{1,14})(,\d+:-?\d{1,14})*)', tok)
                    if not mm or int(mm.group(1)) >= 8 or mm.group(1) in seen:
                        return True
                    seen.add(mm.group(1))
                    if mm.group(2) != '-':
                        for kv in mm.group(2).split(','):
                            a, v = kv.split(':')
                            if int(a) >= 16 or abs(int(v)) > (1 << 40):
                                return True
            else:
                return True
        return False
    except Exception:
        return True


def signature(case, out, clause):
    m = _sub(case)
    if m and hasattr(m, 'signature'):
        return m.signature(case, out, clause)
    return clause


def nontrivial(case, out):
    m = _sub(case)
    if m and hasattr(m, 'nontrivial'):
        return m.nontrivial(case, out)
    return ' addcb ' in case.line and case.line.count('; collect ') >= 2 and not out.startswith('bad-op')


LEVEL_TEXT = ('Lean 4 theorems over an executable model of ObservableRegistry, ObserverResultT, AsyncMetricStorage, the last-value '
              'aggregation and TemporalMetricStorage::buildMetrics, for EVERY history: invocations_count / '
              'each_callback_once_per_collect / removed_never_invoked / destroyed_instrument_never_invoked (registry); '
              'async_refines_sync (an AsyncMetricStorage is C06\'s SyncMetricStorage fed with differences of successive '
              'observations) and by telescoping observable_cumulative_is_reported_total, observable_delta_is_diff_from_own_last, '
              'observable_delta_sums_to_given, reader_noninterference_async, with the D21 hypothesis explicit and D21_witness '
              'showing it is needed; gauge_reports_latest (one inductive invariant over the last-value temporal storage), '
              'gauge_reports_latest_sync and gauge_reports_latest_observable_cycle. Tied to the code by differential runs on a '
              'real MeterProvider (ABI v1 build, and ABI v2 build for synchronous gauges) with scripted callbacks whose '
              'invocations are logged.')
LEVEL_NOTE = ('Trusted: Lean kernel (axioms propext/Quot.sound/Classical.choice at most); harness, generators, canonicalisation. '
              'Hypotheses in the statements: (D21) within one collection no attribute set is reported twice to one instrument - '
              'otherwise the second Record overwrites the first delta (D21_witness; the unchanged code behaves so, semantics open); '
              'sample times of last-value aggregations strictly increase from one record to the next (the real clock can tie: the '
              'harness waits for the clock to advance between operations, the baseline marks the last-value tests flaky). '
              'Partial: the liftings to meter histories are proved for observable counters, synchronous gauges and observable gauges '
              '(Props/C17Meter.lean; the increasing sample times are derived from the meter clock); the observable-gauge statement at '
              'the meter names the latest observation through the stamped projection gcyclesOf (a value-only restatement exists for '
              'synchronous gauges: latestGaugeValue). A negative '
              '"total" on a monotonic observable counter is recorded as 0 (modelled, excluded from the value clauses). View '
              'attribute filters are ignored on the observable path (D22, belongs to C08/C19). FP rounding and int64 overflow are not generated.')
DESIGN_REF = 'DESIGN.md section 4, C17; Appendix D'
for _m in SUBS:
    RULE = RULE + ' | ' + getattr(_m, 'RULE', '')
    LEVEL_TEXT = LEVEL_TEXT + getattr(_m, 'LEVEL_TEXT_ADD', '')
    LEVEL_NOTE = LEVEL_NOTE + getattr(_m, 'LEVEL_NOTE_ADD', '')
