"""C17 - gauges report the latest value; observables are read once per collection."""
import re
from vcore import Case, Harness, SDK_INCLUDES, sdk_sources

ID = 'C17'
GEN = []
LEAN_TARGETS = ['OtelVerif.Props.C17']
THEOREMS = []
_SRCS = sdk_sources('common', 'resource', 'version', 'metrics')
HARNESSES = [Harness('s_c17', ['harness/s_c17.cc'], sdk_srcs=_SRCS, includes=SDK_INCLUDES),
             Harness('s_c17v2', ['harness/s_c17.cc'], sdk_srcs=_SRCS, includes=SDK_INCLUDES,
                     flags=['-UOPENTELEMETRY_ABI_VERSION_NO', '-DOPENTELEMETRY_ABI_VERSION_NO=2'])]
H1, H2 = 's_c17', 's_c17v2'


def corpus():
    return []


def generate(rng, tier):
    return []


def oracle(case, out):
    return None


def signature(case, out, clause):
    return clause


def nontrivial(case, out):
    return True
