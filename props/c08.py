"""C08 - metric series are keyed by attribute-set value; filters and limits lose nothing."""
import re, struct
from fractions import Fraction
from vcore import Case, Harness, SDK_INCLUDES, sdk_sources

ID = 'C08'
GEN = ['Series', 'Histogram']
LEAN_TARGETS = ['OtelVerif.Props.C08']
THEOREMS = ['Otel.C08.' + t for t in (
    'bytesLt_irrefl', 'bytesLt_trans', 'bytesLt_trichotomy',
    'canon_sorted', 'canon_lookup', 'canon_eq_iff', 'canon_perm', 'lastWrite_dedupLast', 'canon_dedup', 'dedupLast_nodup',
    'filter_looks_up_by_value', 'keyOf_eq_canon_filter', 'lastWrite_filter', 'keyOf_lookup', 'same_key_iff',
    'hash_of_equal_sets_equal',
    'seriesOf_self', 'overflow_folds_into_one_series', 'same_series_iff', 'one_series_per_attribute_set',
    'series_le_limit', 'series_le_limit_pos', 'table_inv_record', 'table_inv_mergeEntry', 'limits_are_kept', 'default_limit', 'overflow_key',
    'total_record', 'total_mergeEntry', 'total_mergeTables', 'overflow_conserves_total', 'overflow_conserves_total_counter',
    'series_exact_below_limit', 'series_exact_counter')] + [
    'Otel.Series.run_key_totals', 'Otel.Series.sinvK_collect',
    'Otel.Series.sinv_collect', 'Otel.Series.run_totals', 'Otel.Series.run_series_le_limit', 'Otel.Series.collect_spec',
    'Otel.Attr.sorted_ext', 'Otel.Attr.insertKV_sorted', 'Otel.Attr.lookup_insertKV']
HARNESSES = [Harness('s_c08', ['harness/s_c08.cc'], sdk_srcs=sdk_sources('common', 'resource', 'version', 'metrics'),
                     includes=SDK_INCLUDES)]
H = 's_c08'
RULE = ('attr: pairs of attribute lists (random permutations, overridden duplicates, all 16 value types, keys with NUL / high bytes / '
        'prefixes of each other / empty, passed as string_views that are not NUL-terminated at their length: exact-size heap blocks for all '
        'cases without an allow-list and a sample with one, guarded blocks for the rest) under the default processor and allow-lists, through '
        'FilteredOrderedAttributeMap, operator==, the hash and an AttributesHashMap lookup; series: record/collect histories over a '
        'real SyncMetricStorage with limits 1-8 (and 0) and over MeterProvider + view (default limit 2000, thorough: > 2000 sets), '
        '1-3 delta/cumulative readers, 1-6+ collection cycles. non-trivial = at least one attribute pair / one recorded '
        'measurement and one collect; distinct = distinct case line')
TRUSTED = ['std::map / std::string ordering and std::hash (the model hash is a function of the canonical set; the real hash is only '
           'checked equal on equal sets)', 'the enumeration order of std::unordered_map is abstracted: theorems hold for every '
           'permutation, the differential run compares order-independent observations when a merged table overflows']
ASSUMPTIONS = ['attribute values are finite (no NaN); counter values are non-negative and sums stay far below 2^63',
               'observable instruments ignore the view\'s attribute filter (D22) - that path belongs to C17/C19 and is not exercised here']


def bits(x):
    return '%016x' % struct.unpack('>Q', struct.pack('>d', x))[0]


def unbits(h):
    return struct.unpack('>d', struct.pack('>Q', int(h, 16)))[0]


OVF = b'otel.metrics.overflow'
OVF_SHOWN = '{' + OVF.hex() + '=b:1}'


# ------------------------------------------------------------------------------------------------ tokens <-> spec values

def dy(q):
    q = Fraction(q)
    if q == 0:
        return '0'
    n, d = q.numerator, q.denominator
    if d == 1:
        e = 0
        a = abs(n)
        while a % 2 == 0:
            a //= 2; e += 1
        return ('-' if n < 0 else '') + f'{a}p{e}'
    return f'{n}p-{d.bit_length() - 1}'


def norm_value(tok):
    """value token -> (canonical text as the harness prints an OwnedAttributeValue)"""
    ty, p = tok.split(':')
    if ty == 'd':
        return 'd:' + dy(Fraction(unbits(p)))
    if ty == 'ad':
        return 'ad:' + '+'.join(dy(Fraction(unbits(x))) for x in p.split('+')) if p else 'ad:'
    if ty == 'cs':
        return 's:' + p
    return tok


def parse_attrs(tok):
    if tok in ('-', '~', '~c'):          # "~", "~c": the overloads taking no attributes (= the empty attribute set)
        return []
    out = []
    for kv in tok.split(','):
        k, v = kv.split('=')
        out.append((bytes.fromhex(k), v))
    return out


def parse_filter(tok):
    if tok == '*':
        return None
    if tok == '-':
        return set()
    return {b'' if k == '_' else bytes.fromhex(k) for k in tok.split(',')}


def spec_key(flt, attrs):
    """the attribute set as a key->value map: filter, then last write wins; rendered with keys in bytewise order"""
    d = {}
    for k, v in attrs:
        if flt is None or k in flt:
            d[k] = norm_value(v)
    return '{' + ','.join(f'{k.hex()}={d[k]}' for k in sorted(d)) + '}'


# ------------------------------------------------------------------------------------------------ generators

KEYS = [b'a', b'b', b'ab', b'abc', b'abd', b'a\x00', b'a\x00b', b'', b'\x80', b'\xff', b'\x7f', b'k', b'key', b'key1', b'key10', b'key2',
        b'http.method', b'http.status_code', OVF, b'otel.metrics.overflo', b'A', b'Z', b'z', b' ', b'a b', b'\x00', b'\x00\x00']


def rand_value(rng):
    t = rng.randrange(17)
    ri = lambda lo, hi: rng.choice([lo, hi - 1, 0, 1, rng.randrange(lo, hi)])
    rs = lambda: bytes(rng.choice(b'ab\x00\xffz') for _ in range(rng.randrange(0, 4)))
    rd = lambda: rng.choice([0.0, -0.0, 1.0, 0.5, -2.5, 1e300, 5e-324, float(rng.randrange(100))])
    if t == 0: return f'b:{rng.randrange(2)}'
    if t == 1: return f'i32:{ri(-2 ** 31, 2 ** 31)}'
    if t == 2: return f'u32:{ri(0, 2 ** 32)}'
    if t == 3: return f'i64:{ri(-2 ** 63, 2 ** 63)}'
    if t == 4: return f'u64:{ri(0, 2 ** 64)}'
    if t == 5: return f'd:{bits(rd())}'
    if t == 6: return f's:{rs().hex()}'
    if t == 7: return f'cs:{rs().replace(bytes([0]), b"").hex()}'
    if t == 8: return 'ab:' + ''.join(rng.choice('01') for _ in range(rng.randrange(0, 4)))
    if t == 9: return 'ai32:' + '+'.join(str(ri(-2 ** 31, 2 ** 31)) for _ in range(rng.randrange(0, 3)))
    if t == 10: return 'au32:' + '+'.join(str(ri(0, 2 ** 32)) for _ in range(rng.randrange(0, 3)))
    if t == 11: return 'ai64:' + '+'.join(str(ri(-2 ** 63, 2 ** 63)) for _ in range(rng.randrange(0, 3)))
    if t == 12: return 'au64:' + '+'.join(str(ri(0, 2 ** 64)) for _ in range(rng.randrange(0, 3)))
    if t == 13: return 'ad:' + '+'.join(bits(rd()) for _ in range(rng.randrange(0, 3)))
    if t == 14: return 'as:' + '+'.join((rs().hex() or '-') for _ in range(rng.randrange(0, 3)))
    if t == 15: return 'au8:' + rs().hex()
    return f'i64:{rng.randrange(4)}'


def attrs_tok(pairs):
    return ','.join(f'{k.hex()}={v}' for k, v in pairs) if pairs else '-'


def scramble(rng, base):
    """a caller-side listing of the map `base` (list of distinct (key, value)): random order, with overridden duplicates"""
    final = list(base)
    rng.shuffle(final)
    out = []
    for k, v in final:
        out.append((k, v))
    # insert earlier, overridden writes for some keys
    for k, v in base:
        if rng.random() < 0.3:
            pos = next(i for i, (kk, _) in enumerate(out) if kk == k)          # before the (first) final write of k ...
            # ... must stay before the LAST write of k: insert at a position <= pos
            out.insert(rng.randrange(0, pos + 1), (k, rand_value(rng)))
    return out


def rand_filter(rng, keys):
    r = rng.random()
    if r < 0.4:
        return '*'
    if r < 0.47:
        return '-'
    pool = list(keys) + rng.sample(KEYS, 3)
    ks = {k for k in pool if rng.random() < 0.5}
    if not ks:
        return '-'
    return ','.join((k.hex() or '_') for k in sorted(ks))


EXACT_BUDGET = [0]


def key_mode(rng, flt, op, tags):
    """keys in exact-size blocks (an out-of-bounds / C-string read is a sanitizer abort) for every case without an
    allow-list and for a bounded sample of those with one; the rest use guarded blocks (see harness/s_c08.cc)"""
    if flt == '*':
        tags.append('keys-exact')
        return op
    if EXACT_BUDGET[0] > 0 and rng.random() < 0.03:
        EXACT_BUDGET[0] -= 1
        tags.append('keys-exact')
        return op
    tags.append('keys-guarded')
    return op + 'g'


def gen_attr(rng, out, n):
    for _ in range(n):
        nk = rng.choice([0, 1, 1, 2, 3, 4, 6])
        keys = rng.sample(KEYS, nk)
        base = [(k, rand_value(rng)) for k in keys]
        flt = rand_filter(rng, keys)
        a = scramble(rng, base)
        r = rng.random()
        tags = ['attr']
        if r < 0.06:
            # the same map with an equal value in another representation: the sign of a zero double
            z = rng.choice(['0000000000000000', '8000000000000000']); z2 = '8000000000000000' if z[0] == '0' else '0000000000000000'
            k = rng.choice([k for k in KEYS if k not in keys])
            arr = rng.random() < 0.3
            a = scramble(rng, base + [(k, ('ad:3ff0000000000000+' + z) if arr else 'd:' + z)])
            b = scramble(rng, base + [(k, ('ad:3ff0000000000000+' + z2) if arr else 'd:' + z2)]); tags.append('equal-value-other-representation')
        elif r < 0.5:
            b = scramble(rng, base); tags.append('same-map-other-listing')
        elif r < 0.62 and base:
            b = list(base); i = rng.randrange(len(b)); b[i] = (b[i][0], rand_value(rng)); b = scramble(rng, b); tags.append('one-value-changed')
        elif r < 0.72 and base:
            b = list(base); del b[rng.randrange(len(b))]; b = scramble(rng, b); tags.append('one-key-dropped')
        elif r < 0.84:
            extra = rng.choice([k for k in KEYS if k not in keys])
            b = scramble(rng, base + [(extra, rand_value(rng))]); tags.append('one-key-added')
        elif r < 0.92 and base:
            # duplicate whose LAST write differs
            b = scramble(rng, base); k = rng.choice(base)[0]; b.append((k, rand_value(rng))); tags.append('last-write-differs')
        else:
            b = scramble(rng, [(k, rand_value(rng)) for k in rng.sample(KEYS, rng.randrange(0, 4))]); tags.append('unrelated')
        tags.append('filter-' + ('all' if flt == '*' else 'empty' if flt == '-' else 'allow'))
        op = key_mode(rng, flt, 'eq', tags)
        out.append(Case(f'attr {op} {flt} {attrs_tok(a)} {attrs_tok(b)}', H, tags))


def rand_history(rng, nreaders, pool, flt_keys, nops, ncol_min):
    ops = []
    for _ in range(nops):
        if rng.random() < 0.25:
            ops.append(f'col {rng.randrange(nreaders)}')
        else:
            base = rng.choice(pool)
            tok = attrs_tok(scramble(rng, base))
            if rng.random() < 0.08:
                tok = rng.choice(['~', '~c', '-'])      # the empty attribute set, through the attribute-less overloads too
            ops.append(f'rec {tok} {rng.choice([1, 1, 2, 5, 100, rng.randrange(0, 1000)])}')
    for _ in range(ncol_min):
        ops.append(f'col {rng.randrange(nreaders)}')
    return ops


def gen_series(rng, out, n, big):
    for _ in range(n):
        readers = rng.choice(['D', 'C', 'D', 'C', 'DC', 'CD', 'DD', 'CC', 'DCD', 'CCD'])
        nsets = rng.choice([1, 2, 3, 4, 6, 9, 12])
        pool = []
        for i in range(nsets):
            nk = rng.choice([0, 1, 1, 2, 3])
            keys = rng.sample(KEYS[:18], nk)
            pool.append([(k, rng.choice([f'i64:{i}', f's:{bytes([97 + i]).hex()}', rand_value(rng)])) for k in keys])
        if rng.random() < 0.08:
            pool.append([(OVF, 'b:1')])                   # the caller uses the overflow attribute itself
        flt = rand_filter(rng, [k for s in pool for k, _ in s])
        nops = rng.choice([4, 8, 16, 30, 60])
        ops = rand_history(rng, len(readers), pool, None, nops, rng.randrange(1, 4))
        if rng.random() < 0.8:
            limit = rng.choice([1, 2, 2, 3, 3, 4, 5, 6, 7, 8])
            tags = ['series', 'store', f'limit-{limit}', 'readers-' + readers]
            op = key_mode(rng, flt, 'store', tags)
            if op == 'store' and rng.random() < 0.25:
                op = 'stored'; tags.append('double-valued')
            out.append(Case(f'series {op} {limit} {flt} {readers} ' + ' ; '.join(ops), H, tags))
        else:
            tags = ['series', 'sdk', 'limit-default', 'readers-' + readers]
            op = key_mode(rng, flt, 'sdk', tags)
            if op == 'sdk' and rng.random() < 0.25:
                op = 'sdkd'; tags.append('double-valued')
            out.append(Case(f'series {op} {flt} {readers} ' + ' ; '.join(ops), H, tags))
    # many distinct sets against small limits, several cycles (recn)
    for _ in range(n // 10):
        readers = rng.choice(['D', 'C', 'DC', 'CC', 'CD'])
        limit = rng.choice([0, 1, 2, 3, 5, 8, 16])
        ops = []
        for _c in range(rng.randrange(1, 7)):
            lo = rng.randrange(0, 40)
            ops.append(f'recn 6b {lo} {lo + rng.randrange(0, 40)} {rng.randrange(1, 5)}')
            ops.append(f'col {rng.randrange(len(readers))}')
        out.append(Case(f'series store {limit} * {readers} ' + ' ; '.join(ops), H,
                        ('series', 'store', 'many-sets', f'limit-{limit}', 'readers-' + readers)))
    # observable counters, below the default limit (beyond it: CANDIDATE_FINDING_CASES)
    for _ in range(n // 40):
        readers = rng.choice(['D', 'C', 'DC', 'CC', 'CD', 'DD'])
        ops = []
        for _c in range(rng.randrange(1, 6)):
            lo = rng.randrange(0, 60)
            ops.append(f'recn {rng.choice(["6b", "6b", "61"])} {lo} {lo + rng.randrange(0, 60)} {rng.randrange(1, 5)}')
            ops.append(f'col {rng.randrange(len(readers))}')
        out.append(Case(f'series obs {readers} ' + ' ; '.join(ops), H, ('series', 'observable', 'below-default-limit', 'readers-' + readers)))
    # the default limit exceeded through the provider (quick tier: a few; thorough: below)
    for _ in range(2):
        readers = rng.choice(['D', 'C', 'DC'])
        cnt = rng.choice([1999, 2000, 2001, 2100])
        out.append(Case(f'series {rng.choice(["sdk", "sdkd"])} * {readers} recn 6b 0 {cnt} 1 ; col 0 ; recn 6b {cnt // 2} {cnt + 150} 2 ; col {len(readers) - 1} ; col 0', H,
                        ('series', 'sdk', 'default-limit-exceeded', 'readers-' + readers)))
    if big:
        for _ in range(12):
            readers = rng.choice(['D', 'C', 'DC', 'CC'])
            ops = []
            base = 0
            for _c in range(rng.randrange(2, 5)):
                cnt = rng.choice([500, 1500, 1999, 2000, 2001, 2500])
                ops.append(f'recn 6b {base} {base + cnt} 1')
                if rng.random() < 0.7:
                    base += rng.choice([0, cnt // 2, cnt])
                ops.append(f'col {rng.randrange(len(readers))}')
            out.append(Case(f'series sdk * {readers} ' + ' ; '.join(ops), H, ('series', 'sdk', 'default-limit-exceeded', 'readers-' + readers)))


def gen_malformed(rng, out):
    for ln in ['attr eq * 61=x:1 -', 'attr eq * 61=i32:2147483648 -', 'attr eq * 6=i64:1 -', 'attr eq * - ', 'attr eq', 'attr eq * 61=cs:6100 -',
               'attr eq 6 - -', 'attr eq * 61=d:7ff0000000000000 -', 'attr eq * 61=u64:-1 -', 'series store x * D col 0', 'series store 3 * - col 0',
               'series store 3 * D col 1', 'series store 3 * D rec - -5 ; col 0', 'series obs D rec 61=i64:1 1 ; col 0', 'series obs X col 0', 'series stored x * D col 0', 'series sdk * D', 'series sdk * X col 0', 'series nope', 'series']:
        out.append(Case(ln, H, ('malformed',)))


def corpus():
    out = []
    c = lambda line, *tags: out.append(Case(line, H, ('corpus',) + tags, 'corpus'))
    # D11: allow-list lookup must use the key's own length (key "ab" handed over as an unterminated view)
    c('attr eq 6162 6162=i64:1 6162=i64:1', 'D11-unterminated-key')
    c('attr eq 61 61=i64:1,6162=i64:2 61=i64:1', 'D11-unterminated-key')
    c('series store 4 6162 D rec 6162=i64:1 5 ; rec 6162=i64:2 6 ; col 0', 'D11-unterminated-key')
    c('attr eq 6100 6100=i64:1 61=i64:1', 'D11-key-with-NUL')
    c('attr eqg 6162 6162=i64:1 6162=i64:1', 'D11-unterminated-key')
    c('series storeg 4 6162 D rec 6162=i64:1 5 ; rec 6162=i64:2 6 ; col 0', 'D11-unterminated-key')
    # +0.0 and -0.0 are equal values: one key, one hash, one series (scalars and array elements)
    c('attr eq * 61=d:0000000000000000 61=d:8000000000000000', 'zero-sign')
    c('attr eq * 61=ad:8000000000000000+3ff0000000000000,62=i64:1 62=i64:1,61=ad:0000000000000000+3ff0000000000000', 'zero-sign')
    c('series store 4 * D rec 61=d:0000000000000000 5 ; rec 61=d:8000000000000000 6 ; col 0', 'zero-sign')
    c('series sdk * C rec 61=d:8000000000000000 5 ; col 0 ; rec 61=d:0000000000000000 6 ; col 0', 'zero-sign')
    # the empty attribute set is one series whichever overload recorded it (no attributes / no attributes + context / empty list / all keys filtered)
    c('series store 4 * D rec ~ 5 ; rec - 6 ; rec ~c 1 ; col 0', 'empty-set-overloads')
    c('series sdk * C rec ~ 5 ; rec - 6 ; col 0 ; rec ~c 1 ; col 0', 'empty-set-overloads')
    c('series sdk 6b D rec ~ 5 ; rec 61=i64:1 6 ; rec ~c 1 ; col 0', 'empty-set-overloads')
    c('series store 4 6b CD rec 61=i64:1 2 ; rec ~ 5 ; col 0 ; rec - 1 ; col 1 ; col 0', 'empty-set-overloads')
    # D10a: the limit must survive the first Collect
    c('series store 3 * D recn 6b 0 9 1 ; col 0 ; recn 6b 0 9 1 ; col 0', 'D10a-limit-after-first-collect')
    # D10b: cumulative / multi-reader output stays within the configured limit
    c('series store 3 * C recn 6b 0 2 1 ; col 0 ; recn 6b 2 4 1 ; col 0 ; recn 6b 4 6 1 ; col 0', 'D10b-merged-table-limit')
    # D10c: folded series are added to the overflow series, not written over it
    c('series store 3 * C recn 6b 0 9 1 ; col 0 ; recn 6b 9 18 1 ; col 0', 'D10c-overflow-total')
    c('series store 2 * DC recn 6b 0 5 1 ; col 1 ; recn 6b 5 9 1 ; col 0 ; col 1', 'D10c-overflow-total')
    c('series sdk * C recn 6b 0 1500 1 ; col 0 ; recn 6b 1500 3000 1 ; col 0 ; recn 6b 3000 4500 1 ; col 0', 'D10c-overflow-total-default-limit')
    # the double-valued twins of the two paths (RecordDouble / DoubleCounter::Add): same keys, same tables
    c('series stored 3 61 DC rec 61=i64:1,62=i64:9 5 ; rec 62=i64:8,61=i64:1 6 ; rec ~ 1 ; col 0 ; recn 61 0 9 1 ; col 1 ; col 0', 'double-valued')
    c('series sdkd 6b C rec ~ 5 ; rec 61=i64:1 6 ; rec ~c 1 ; rec 6b=d:0000000000000000 2 ; rec 6b=d:8000000000000000 3 ; col 0 ; recn 6b 0 2100 1 ; col 0', 'double-valued')
    # an observable counter below the default limit: the same series as the synchronous counter
    c('series obs DC recn 6b 0 30 2 ; col 0 ; recn 6b 10 40 1 ; col 1 ; col 0 ; col 1', 'observable-below-limit')
    c('attr eq * 62=i64:1,61=s:6869 61=cs:6869,62=i64:2,62=i64:1', 'order-and-duplicates')
    c(f'attr eq * {"ff"}=i64:1,{"7f"}=i64:2 {"7f"}=i64:2,{"ff"}=i64:1', 'bytewise-order')
    return out


# CANDIDATE FINDING (not in corpus() / generate(): the unchanged tree fails them; see coverage/AUDIT_B.md "candidate findings").
# An observable counter that reports more distinct attribute sets than the default cardinality limit: AsyncMetricStorage::Record
# goes through AttributesHashMap::Set, which at the limit REPLACES the overflow series by the latest excess measurement, so the
# total over the reported series is no longer everything reported by the callback.
CANDIDATE_FINDING_CASES = [
    'series obs C recn 6b 0 2001 1 ; col 0',
    'series obs D recn 6b 0 2100 1 ; col 0',
    'series obs DC recn 6b 0 2500 1 ; col 0 ; recn 6b 0 2500 1 ; col 1 ; col 0',
]


def generate(rng, tier):
    big = tier == 'thorough'
    out = []
    EXACT_BUDGET[0] = 150
    gen_attr(rng, out, 400000 if big else 25000)
    gen_series(rng, out, 120000 if big else 8000, big)
    gen_malformed(rng, out)
    return out


# ------------------------------------------------------------------------------------------------ oracle

def check_attr(t, out):
    flt = parse_filter(t[2])
    a, b = parse_attrs(t[3]), parse_attrs(t[4])
    ka, kb = spec_key(flt, a), spec_key(flt, b)
    m = re.fullmatch(r'a=(\S+) b=(\S+) eq=([01]) hasheq=([01-])', out)
    if not m:
        return ('well-formed-observation', out)
    if m.group(1) != ka or m.group(2) != kb:
        return ('series-key-is-the-filtered-map-last-write-wins', f'got {m.group(1)} / {m.group(2)} want {ka} / {kb}')
    want_eq = '1' if ka == kb else '0'
    if m.group(3) != want_eq:
        return ('same-series-iff-equal-as-maps', f'eq={m.group(3)} for {ka} vs {kb}')
    if want_eq == '1' and m.group(4) != '1':
        return ('equal-sets-hash-equally', out)
    return None


def expand_ops(flt, toks):
    """-> list of ('rec', key_text, value) / ('col', reader)"""
    ops = []
    for op in ' '.join(toks).split(' ; '):
        f = op.split()
        if f[0] == 'rec':
            ops.append(('rec', spec_key(flt, parse_attrs(f[1])), int(f[2])))
        elif f[0] == 'recn':
            pre = bytes.fromhex(f[1])
            for i in range(int(f[2]), int(f[3])):
                ops.append(('rec', spec_key(flt, [(pre, f'i64:{i}')]), int(f[4])))
        else:
            ops.append(('col', int(f[1])))
    return ops


def check_series(t, out):
    if t[1] in ('store', 'storeg', 'stored'):
        limit, flt, readers, rest = int(t[2]), parse_filter(t[3]), t[4], t[5:]
    elif t[1] == 'obs':
        # an observable counter reporting running totals: per reader what a synchronous counter with the same additions gives
        limit, flt, readers, rest = 2000, parse_filter('*'), t[2], t[3:]
    else:
        limit, flt, readers, rest = 2000, parse_filter(t[2]), t[3], t[4:]
    cap = max(limit, 1)
    fast = readers == 'D'
    allv = {}
    pend = [dict() for _ in readers]
    outs = out.split(' ; ')
    oi = 0
    for op in expand_ops(flt, rest):
        if op[0] == 'rec':
            _, k, v = op
            allv[k] = allv.get(k, 0) + v
            for p in pend:
                p[k] = p.get(k, 0) + v
            continue
        r = op[1]
        if oi >= len(outs):
            return ('one-observation-per-collect', out)
        o = outs[oi]; oi += 1
        exp = dict(allv) if readers[r] == 'C' else pend[r]
        if readers[r] == 'D':
            pend[r] = {}
        total = sum(exp.values())
        where = f'collect #{oi} reader {r} ({readers[r]}), limit {limit}'
        if o == 'none':
            if total != 0 or any(exp.values()):
                return ('total-over-reported-series-equals-everything-recorded', f'{where}: nothing reported, {total} recorded')
            continue
        f = o.split(' ')
        kv = dict(x.split('=', 1) for x in f[1:] if '=' in x and not x.startswith('{'))
        if int(kv['tot']) != total:
            return ('total-over-reported-series-equals-everything-recorded', f'{where}: reported total {kv["tot"]}, recorded {total}')
        if f[0] == 'red':
            if kv['le'] != '1' and limit >= 1:
                return ('series-count-within-limit', f'{where}: more than {limit} series')
            continue
        n = int(kv['n'])
        if n > cap:
            return ('series-count-within-limit', f'{where}: {n} series')
        if f[0] == 'big':
            if kv['ovf'] == '-' and n != len(exp):
                return ('one-series-per-distinct-attribute-set', f'{where}: {n} series for {len(exp)} sets')
            continue
        pts = {}
        for x in f[3:]:
            k, _, v = x.rpartition(':')
            if k in pts:
                return ('one-series-per-distinct-attribute-set', f'{where}: {k} twice')
            pts[k] = int(v)
        if len(pts) != n:
            return ('well-formed-observation', o)
        explicit_ovf = OVF_SHOWN in exp
        for k, v in pts.items():
            if k == OVF_SHOWN and not (explicit_ovf and len(exp) < limit):
                continue
            if k not in exp:
                return ('reported-series-are-recorded-attribute-sets', f'{where}: {k}')
            if v != exp[k]:
                return ('series-value-is-the-sum-for-its-attribute-set', f'{where}: {k} = {v}, recorded {exp[k]}')
        if OVF_SHOWN not in pts or (explicit_ovf and len(exp) < limit):
            if set(pts) != set(exp):
                return ('one-series-per-distinct-attribute-set', f'{where}: {sorted(pts)} vs {sorted(exp)}')
        if len(exp) < limit and OVF_SHOWN in pts and not explicit_ovf:
            return ('overflow-only-beyond-the-limit', f'{where}: {len(exp)} sets folded under limit {limit}')
    return None


def model_line(case, out):
    """the model has one way of recording the empty attribute set"""
    return re.sub(r' rec ~c? ', ' rec - ', case.line)


def agree(case, out, mout):
    return out == mout


def oracle(case, out):
    if out.startswith('CRASH'):
        return ('no-crash-no-out-of-bounds-read', out)
    if out.startswith('ERR'):
        return ('table-lookup-agrees-with-equality', out)
    if 'malformed' in case.tags:
        return None if out == 'bad-op' else ('malformed-line-rejected', out)
    if out == 'bad-op':
        return ('harness-accepts-generated-case', out)
    t = case.line.split()
    if t[0] == 'attr':
        return check_attr(t, out)
    return check_series(t, out)


def signature(case, out, clause):
    return clause


def nontrivial(case, out):
    if out == 'bad-op' or out.startswith('CRASH'):
        return False
    t = case.line.split()
    if t[0] == 'attr':
        return t[3] != '-' or t[4] != '-'
    return ' rec' in case.line and 'col' in case.line


LEVEL_TEXT = ('Lean 4 theorems over executable models of OrderedAttributeMap / FilteredOrderedAttributeMap / the attributes processors '
              '(canon_eq_iff: equal keys iff equal as key->value maps, last write wins; canon_perm, canon_dedup; same_key_iff with the '
              'filter; hash_of_equal_sets_equal) and of AttributesHashMap + SyncMetricStorage::Collect + TemporalMetricStorage::buildMetrics '
              '(same_series_iff, overflow_folds_into_one_series; series_exact_below_limit: per series exactly the measurements of its '
              'attribute set, for every history below the limit; series_le_limit and overflow_conserves_total for every history, every '
              'reader, delta and cumulative, every enumeration order of the hash tables). Limits, the overflow attribute and the shape of '
              'the overflow test / table creation are re-extracted from the source each run; tied to the code by a differential run under '
              'ASan/UBSan with unterminated keys.')
LEVEL_NOTE = ('Trusted: Lean kernel; tools/gen_c08.py; harness, generators, canonicalisation; std::map/std::string/std::hash. The model '
              'mirrors the code with fixes D10a/D10b/D10c/D11 applied (without them the witnesses in corpus() fail). Partial: the real '
              'hash function is only checked equal on equal sets; which series are folded when a *merged* table overflows depends on the '
              'unordered_map enumeration order, so for those collects only the series count bound and the total are compared; int64 '
              'overflow of sums is outside the model; D22 (observable instruments ignore the view filter) is outside this check.')
DESIGN_REF = 'DESIGN.md section 4, C08; Appendix D'
TECHNIQUE = 'proof (Lean 4) + correspondence'
