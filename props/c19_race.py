"""C19, concurrency reading of its last clause ("requesting the same name/version/schema/attributes returns the same tracer,
meter or logger"): first requests for one scope made by several threads at once on ONE TracerProvider / MeterProvider /
LoggerProvider of the unmodified sdk/src/trace/tracer_provider.cc, sdk/src/metrics/meter_provider.cc (+ meter_context.cc),
sdk/src/logs/logger_provider.cc under the deterministic scheduler (Engine D).  Merged into props/c19.py (engine words `gsc`,
`gsc2`); not a property id of its own."""
import itertools, re
from vcore import Case, Harness, sdk_sources, SDK_INCLUDES

WORDS = {'gsc', 'gsc2'}      # gsc2 = the same harness source built with OPENTELEMETRY_ABI_VERSION_NO=2 (tracer / meter requests carry attributes)
GEN = ['GetScopeLock']
LEAN_TARGETS = ['OtelVerif.Props.C19Race']
THEOREMS = ['Otel.C19Race.' + t for t in (
    'mutual_exclusion', 'list_keys_nodup', 'list_ids_nodup', 'returned_in_list_with_requested_key', 'same_key_same_object',
    'same_key_same_object_later', 'different_keys_different_objects', 'about_to_return_is_listed', 'constructs_only_when_absent',
    'list_only_grows', 'returned_stays_in_list', 'walk_finds_iff_present', 'constructed_eq_listed', 'replay_sound',
    'split_lock_witness', 'gen_getscope_lock_facts')] + [
    'Otel.GetScopeLock.reachable_inv', 'Otel.GetScopeLock.inv_step', 'Otel.GetScopeLock.inv_arun']
SHIM = ['-include', 'harness/shim/detsched.h', '-DNDEBUG']
_SRCS = sdk_sources('common', 'resource', 'version', 'trace', 'metrics', 'logs')
H = Harness('d_gsc', ['harness/d_getscope.cc'], flags=SHIM, includes=SDK_INCLUDES, plain_srcs=['harness/shim/detsched.cc'], sdk_srcs=_SRCS)
H2 = Harness('d_gsc2', ['harness/d_getscope.cc'], flags=SHIM + ['-UOPENTELEMETRY_ABI_VERSION_NO', '-DOPENTELEMETRY_ABI_VERSION_NO=2'],
             includes=SDK_INCLUDES, plain_srcs=['harness/shim/detsched.cc'], sdk_srcs=_SRCS)
HARNESSES = [H, H2]
HN, HN2 = 'd_gsc', 'd_gsc2'
RULE = ('race: 1-4 managed threads run scripted GetTracer / GetMeter / GetLogger requests on ONE TracerProvider, MeterProvider and '
        'LoggerProvider of the UNMODIFIED tracer_provider.cc / meter_provider.cc / meter_context.cc / logger_provider.cc under the '
        'deterministic scheduler (scheduling points: the begin of every request, lock / unlock of the provider\'s lock_, the '
        'MeterContext spin lock, and the scope configurator, which runs inside the constructor of a new Tracer / Meter / Logger); '
        'scopes from a pool of ten (pairs that differ only in the version / the schema url / one attribute value / one more '
        'attribute / the logger name, the empty name), request strings in exact-size blocks freed when the call has returned: all '
        'interleavings of two short scripts, preemption-bounded block schedules, then random scripts and schedules; ABI v1 and '
        'ABI v2 builds. The trace is replayed on the Lean get-or-create model. non-trivial (race cases) = two threads request one '
        'scope of one kind and both are stepped before the drain')
LEVEL_TEXT_ADD = (' Concurrency (Props/C19Race.lean): a lock-protocol model of GetTracer / GetMeter / GetLogger with any number of threads, '
                  'one step per lock / walk over the list (found or not) / construction / push_back / unlock / return; one inductive '
                  'invariant over ALL interleavings gives: the list never holds two entries of one scope key, every request returns an '
                  'entry of the list created for the requested key, two requests with equal keys return the same object (at any later '
                  'time, in any continuation), different keys give different objects, nothing ever leaves the list, every constructed '
                  'object is appended; split_lock_witness shows that the walk and the push_back under separate lock scopes break all of '
                  'it. Tied to the code by gen_getscope_lock_facts (one lock guard on lock_ before the first use of the list, held to '
                  'the return, one loop that returns from inside then one append) and by replaying real schedules of the unmodified '
                  'files under the deterministic scheduler on the model.')
LEVEL_NOTE_ADD = (' Race sub-check: trusted = the scheduler shim (sequentially consistent, one runnable thread; lock / unlock, the '
                  'spin lock of MeterContext and the harness scope configurator are the scheduling points - the walk over the list and '
                  'the push_back are plain memory accesses, a data race on them shows only through its effect at the next point), '
                  'props/c19_race.py::abstract, tools/gen_c19race.py. One model instance per provider; the spin lock around '
                  'MeterContext::AddMeter (always taken inside lock_) is not modelled. RemoveMeter (ABI v2) and provider shutdown racing a '
                  'request are not generated.')

# the pool of harness/d_getscope.cc: (name, version, schema url, attributes, logger name)
POOL = [
    ('lib', '', '', (), 'lg'),
    ('lib', '1.0', '', (), 'lg'),
    ('lib', '1.0', 'http://x', (), 'lg'),
    ('', '', '', (), 'lg'),
    ('lib', '1.0', 'http://x', (('k', 'v'),), 'lg'),
    ('lib', '1.0', 'http://x', (('k', 'w'),), 'lg'),
    ('lib', '', '', (), 'lg2'),
    ('lg', '', '', (), 'lg'),
    ('lib', '1.0', 'http://y', (), 'lg'),
    ('lib', '1.0', 'http://x', (('j', 'u'), ('k', 'v')), 'lg'),
]
KINDS = {'t': 'tracer', 'm': 'meter', 'l': 'logger'}
LOCKS = {'tl': 't', 'ml': 'm', 'll': 'l'}


def scope_key(word, kind, sid):
    """what a request of this kind for pool entry sid names (the property's "same name/version/schema/attributes"): a tracer /
    meter request carries attributes only under ABI v2 and never a logger name; a logger request with an empty library name
    uses the logger name as the scope name"""
    n, v, s, a, ln = POOL[sid]
    if kind == 'l':
        return (n or ln, v, s, tuple(sorted(a)), ln)
    return (n, v, s, tuple(sorted(a)) if word == 'gsc2' else ())


def canon(word, kind, sid):
    k = scope_key(word, kind, sid)
    return min(i for i in range(len(POOL)) if scope_key(word, kind, i) == k)


def _case(line, *tags, origin='gen'):
    return Case(line, HN2 if line.startswith('gsc2') else HN, tags, origin)


def line(scripts, sched, word='gsc'):
    return word + ' ' + ' '.join(','.join(s) if s else '-' for s in scripts) + (' ; ' + ' ; '.join(f't{t}' for t in sched) if sched else '')


def corpus():
    c = []
    # two first requests for one scope: thread 0 takes the lock, misses and is parked inside the constructor (the scope
    # configurator) while thread 1 asks; then thread 1 first
    for k in 'tml':
        c.append(_case(line([[k + '0'], [k + '0']], [0, 1, 0, 1, 0, 0, 1, 1, 0, 1, 1]), 'corpus', 'race-first-request', origin='corpus'))
        c.append(_case(line([[k + '0'], [k + '0']], [0, 1, 0, 1, 0, 1, 1, 0, 0, 1, 1]), 'corpus', 'race-first-request', origin='corpus'))
    c.append(_case(line([['l3'], ['l7']], [0, 1, 0, 1, 0, 0, 1, 0, 1, 1]), 'corpus', 'race-first-request', 'logger-empty-name', origin='corpus'))
    c.append(_case(line([['t3', 't3'], ['t3'], ['m3']], [0, 1, 2] * 8), 'corpus', 'empty-name', origin='corpus'))
    c.append(_case(line([['t0', 't1', 't2', 't8', 't0'], ['t2', 't1', 't0', 't6']], [0, 1] * 14), 'corpus', 'differ-in-one-field', origin='corpus'))
    c.append(_case(line([['t2', 't4', 't5', 't9'], ['t9', 't5', 't4', 't2']], [0, 0, 1, 1] * 8, 'gsc2'), 'corpus', 'abi2-attributes', origin='corpus'))
    c.append(_case(line([['m4'], ['m5'], ['m4']], [0, 1, 2, 0, 1, 2, 0, 0, 0, 2, 2, 1, 1, 1], 'gsc2'), 'corpus', 'abi2-attributes', origin='corpus'))
    c.append(_case(line([['l4', 'l5', 'l9', 'l2'], ['l2', 'l9', 'l5', 'l4']], [1, 0] * 14), 'corpus', 'logger-attributes', origin='corpus'))
    c.append(_case(line([['t0', 'm0', 'l0', 't0', 'm0', 'l0', 'l6', 'l0']], []), 'corpus', 'single-thread', origin='corpus'))
    return c


def block_schedules(nthreads, nblocks, lens):
    for order in itertools.product(range(nthreads), repeat=nblocks):
        if any(order[i] == order[i + 1] for i in range(nblocks - 1)):
            continue
        for ls in itertools.product(lens, repeat=nblocks):
            yield [t for t, n in zip(order, ls) for _ in range(n)]


def wellformed(ln):
    toks = ln.split()
    if not toks or toks[0] not in WORDS:
        return False
    ops = ' '.join(toks[1:]).split(' ; ') if len(toks) > 1 else ['']
    head = ops[0].split()
    if not 1 <= len(head) <= 4:
        return False
    for s in head:
        if s == '-':
            continue
        o = s.split(',')
        if len(o) > 8 or not all(re.fullmatch(r'[tml][0-9]', x) for x in o):
            return False
    return all(re.fullmatch(r't\d{1,3}', a) for a in ops[1:])


def steps_of(kind, found):
    """scheduler steps of one request after the thread's start step: call, lock, [create, (meter: 2 spin lock accesses)], unlock"""
    return 3 if found else (6 if kind == 'm' else 4)


def generate(rng, tier):
    big = tier == 'thorough'
    out = []
    # all interleavings of two one-request scripts (the two start steps first): both create-or-find the same scope, or scopes
    # that differ in one field
    pairs = {'t': [(0, 0), (0, 1), (3, 3), (2, 8)], 'l': [(0, 0), (3, 7), (0, 6), (4, 5)], 'm': [(0, 0)] + ([(3, 3), (1, 2)] if big else [])}
    for k, ps in pairs.items():
        for a, b in ps:
            n = steps_of(k, False)
            for pos in itertools.combinations(range(2 * n), n):
                out.append(_case(line([[f'{k}{a}'], [f'{k}{b}']], [0, 1] + [1 if i in pos else 0 for i in range(2 * n)]), 'race', 'all-interleavings'))
    # a thread that asks twice against one that asks once
    for k in 'tl':
        n0, n1 = steps_of(k, False) + steps_of(k, True), steps_of(k, False)
        for pos in itertools.combinations(range(n0 + n1), n1):
            out.append(_case(line([[f'{k}0', f'{k}0'], [f'{k}0']], [0, 1] + [1 if i in pos else 0 for i in range(n0 + n1)]), 'race', 'all-interleavings'))
    lens = [1, 2, 3, 4, 5, 7, 10] if big else [1, 2, 3, 5, 8]
    cfgs = [[['t0', 'm0', 'l0'], ['l0', 'm0', 't0']], [['m1', 'm2', 'm1'], ['m2', 'm1']], [['t3', 't0', 't3'], ['t0', 't3']],
            [['l3', 'l6', 'l0'], ['l7', 'l0', 'l6']]]
    if big:
        cfgs += [[['t0', 't1', 't2', 't8'], ['t8', 't2', 't1', 't0']], [['m0', 'm3', 'm0'], ['m3', 'm0', 'm3']], [['l4', 'l5', 'l9'], ['l9', 'l5', 'l4']]]
    for sc in cfgs:
        for sched in block_schedules(2, 4 if big else 3, lens):
            out.append(_case(line(sc, [0, 1] + sched), 'race', 'preempt-bounded'))
    for sched in block_schedules(3, 3, [2, 4, 7] if not big else [1, 2, 4, 5, 7]):
        out.append(_case(line([['t0', 'm0'], ['m0', 't0'], ['t0', 'm0']], [0, 1, 2] + sched), 'race', 'preempt-bounded'))
        out.append(_case(line([['l3'], ['l7'], ['l3', 'l7']], [0, 1, 2] + sched), 'race', 'preempt-bounded'))
    for sc in ([['t2', 't4'], ['t4', 't2']], [['m4', 'm5', 'm9'], ['m9', 'm4']], [['t3', 't3'], ['t3']]):
        for sched in block_schedules(2, 3, lens):
            out.append(_case(line(sc, [0, 1] + sched, 'gsc2'), 'race', 'preempt-bounded', 'abi2'))
    for i in range(24000 if big else 1800):
        word = 'gsc2' if i % 4 == 3 else 'gsc'
        nt = rng.choice([2, 2, 3, 3, 4])
        kinds = rng.choice(['t', 'm', 'l', 'tm', 'tl', 'ml', 'tml'])
        ids = rng.sample(range(10), rng.choice([1, 2, 2, 3]))
        scripts = [[rng.choice(kinds) + str(rng.choice(ids)) for _k in range(rng.choice([1, 1, 2, 3, 4]))] for _t in range(nt)]
        n = rng.randrange(4, 70)
        if rng.random() < 0.5:
            sched = [rng.randrange(nt) for _k in range(n)]
        else:
            cur = rng.randrange(nt); sched = []
            for _k in range(n):
                if rng.random() < 0.25:
                    cur = rng.randrange(nt)
                sched.append(cur)
        if rng.random() < 0.03:
            sched[rng.randrange(n)] = 7
        ln = line(scripts, list(range(nt)) + sched, word)
        assert wellformed(ln), ln
        out.append(_case(ln, 'race', 'random', f'threads={nt}', 'abi2' if word == 'gsc2' else 'abi1'))
    for _ in range(40 if big else 10):
        out.append(_case(rng.choice(['gsc', 'gsc t0 t0 t0 t0 t0 ; t0', 'gsc x0 ; t0', 'gsc t ; t0', 'gsc t10 ; t0', 'gsc t0,,t1 ; t0', 'gsc t0 ; u0',
                                     'gsc t0 ; t', 'gsc t0,t0,t0,t0,t0,t0,t0,t0,t0 ; t0', 'gsc2 T0 ; t0', 'gsc t0 ; t0 t1', 'gsc m0, ; t0']), 'race', 'malformed'))
    return out


# ------------------------------------------------------------------------------------------------------------------
# parsing the implementation's trace

class Bad(Exception):
    pass


def parse_line(ln):
    toks = ln.split()
    ops = ' '.join(toks[1:]).split(' ; ')
    scripts = [[] if s == '-' else s.split(',') for s in ops[0].split()]
    return toks[0], scripts, ops[1:]


def steps(case_line, out):
    word, scripts, acts = parse_line(case_line)
    parts = out.split(' ; ')
    summary = parts[-1]
    body = parts[:-1]
    if len(body) < len(acts):
        raise Bad('fewer step traces than actions')
    res = []
    for a, tr in zip(acts, body[:len(acts)]):
        if tr in ('x', '-'):
            continue
        res.append((int(a[1:]), tr.split(',')))
    for tr in body[len(acts):]:
        m = re.match(r'd(\d+):(.*)', tr)
        if not m:
            raise Bad('bad drain segment ' + tr[:60])
        if m.group(2) != '-':
            res.append((int(m.group(1)), m.group(2).split(',')))
    return res, summary


IGNORED = re.compile(r'end$|yield$|sleep$|(ld|st|xchg|casw|cass|fadd|fsub) (msl|o\d+)( |$)|(lock|unlock|trylock) o\d+( |$)')


def abstract(case_line, out):
    """the events the model replays: call / lock / create / unlock / ret of each provider; accesses of the MeterContext spin lock
    (taken inside lock_) and of objects the harness did not name are not part of the protocol"""
    word, scripts, acts = parse_line(case_line)
    st, _ = steps(case_line, out)
    cur = {}
    ev = []
    for tid, notes in st:
        for n in notes:
            t = n.split()
            k = t[0]
            if k == 'call':
                cur[tid] = t[1]
                ev.append(f'{tid}:{t[1]}:call:{canon(word, t[1], int(t[2]))}')
            elif k in ('lock', 'unlock') and t[1] in LOCKS:
                if cur.get(tid) != LOCKS[t[1]]:
                    raise Bad(f'T{tid}: {n} outside a request of that provider')
                ev.append(f'{tid}:{LOCKS[t[1]]}:{k}')
            elif k == 'create':
                if cur.get(tid) != t[1]:
                    raise Bad(f'T{tid}: {n} outside a request of that provider')
                ev.append(f'{tid}:{t[1]}:create:{t[2][1:]}')
            elif k == 'ret':
                if cur.pop(tid, None) != t[1] or t[3] == 's?':
                    raise Bad(f'T{tid}: {n}')
                ev.append(f'{tid}:{t[1]}:ret:{t[2][1:]}:{t[3][1:]}')
            elif IGNORED.match(n):
                pass
            else:
                raise Bad('note ' + n)
    return 'gscrace ' + ' ; '.join(ev)


def model_line(case, out):
    if out == 'bad-op' or out.startswith('CRASH'):
        return case.line
    return abstract(case.line, out)


SUM_RE = re.compile(r'done=(\d)(?: t=\[([os\d:,?]*)\] m=\[([os\d:,?]*)\] l=\[([os\d:,?]*)\])?$')


def agree(case, out, mout):
    if out == 'bad-op':
        return mout == 'bad-op'
    if out.startswith('CRASH'):
        return True
    m = SUM_RE.search(out.split(' ; ')[-1])
    mm = re.match(r'ok t=\[([os\d:,]*)\] m=\[([os\d:,]*)\] l=\[([os\d:,]*)\] locks=000 rets=(\d+)$', mout)
    return bool(m and mm and m.group(1) == '1' and (m.group(2), m.group(3), m.group(4)) == (mm.group(1), mm.group(2), mm.group(3))
                and int(mm.group(4)) == sum(len(s) for s in parse_line(case.line)[1]))


# ------------------------------------------------------------------------------------------------------------------
# implementation-side oracle: the property evaluated on the implementation's own trace

def oracle(case, out):
    if not wellformed(case.line):
        return None if out == 'bad-op' else ('malformed-case-rejected', out[:80])
    if out.startswith('CRASH'):
        return ('no-crash-when-scopes-are-requested-concurrently', out)
    if out == 'bad-op':
        return ('harness-rejected-case', out)
    try:
        word, scripts, acts = parse_line(case.line)
        st, summary = steps(case.line, out)
    except Bad as e:
        return ('trace-readable', str(e))
    m = SUM_RE.fullmatch(summary)
    if not m:
        return ('trace-readable', summary[:120])
    if m.group(1) != '1':
        return ('every-request-returns', summary)
    pending = {}            # thread -> (kind, scope id) of the request in progress
    nreq = {}               # thread -> requests made so far
    rets = []               # (thread, kind, scope id, object, content id, time)
    tm = 0
    for tid, notes in st:
        for n in notes:
            tm += 1
            t = n.split()
            if t[0] == 'call':
                if tid in pending:
                    return ('trace-readable', f'T{tid}: {n} inside another request')
                k = nreq.get(tid, 0)
                if k >= len(scripts[tid]) or scripts[tid][k] != t[1] + t[2]:
                    return ('trace-readable', f'T{tid}: {n} is not request {k} of its script')
                nreq[tid] = k + 1
                pending[tid] = (t[1], int(t[2]))
            elif t[0] == 'ret':
                rq = pending.pop(tid, None)
                if rq is None or rq[0] != t[1]:
                    return ('trace-readable', f'T{tid}: {n} without a request')
                rets.append((tid, rq[0], rq[1], t[2], t[3], tm))
    if pending or any(nreq.get(i, 0) != len(s) for i, s in enumerate(scripts)):
        return ('every-request-returns', f'requests made {nreq}, still inside {pending}')
    lists = {}
    for k, g in zip('tml', m.groups()[1:]):
        lists[k] = [tuple(x.split(':')) for x in g.split(',')] if g else []
    for (tid, k, sid, obj, content, when) in rets:
        want = f's{canon(word, k, sid)}'
        if content != want:
            return ('returned-object-has-the-requested-scope', f'{KINDS[k]}: T{tid} asked for scope {sid} (= {want}) and got {obj} whose scope is {content}')
    for i, a in enumerate(rets):
        for b in rets[i + 1:]:
            if a[1] != b[1]:
                continue
            same = scope_key(word, a[1], a[2]) == scope_key(word, b[1], b[2])
            if same and a[3] != b[3]:
                return ('same-scope-same-instance', f'{KINDS[a[1]]}: T{a[0]} asked for scope {a[2]} and got {a[3]} (returned at {a[5]}), '
                        f'T{b[0]} asked for scope {b[2]} (the same name/version/schema/attributes) and got {b[3]} (at {b[5]})')
            if not same and a[3] == b[3]:
                return ('different-scope-different-instance', f'{KINDS[a[1]]}: T{a[0]} asked for scope {a[2]}, T{b[0]} for scope {b[2]}, both got {a[3]}')
    for k, l in lists.items():
        scopes = [c for _, c in l]
        objs = [o for o, _ in l]
        if len(set(scopes)) != len(scopes) or len(set(objs)) != len(objs) or 's?' in scopes:
            return ('provider-list-has-one-entry-per-scope', f'{KINDS[k]}: the provider holds {",".join(o + ":" + c for o, c in l)}')
    for (tid, k, sid, obj, content, when) in rets:
        if (obj, content) not in lists[k]:
            return ('returned-object-is-in-the-provider-list', f'{KINDS[k]}: T{tid} got {obj} ({content}), the provider holds {",".join(o + ":" + c for o, c in lists[k])}')
    for k, l in lists.items():
        asked = {f's{canon(word, k, sid)}' for (_, kk, sid, _, _, _) in rets if kk == k}
        extra = [c for _, c in l if c not in asked]
        if extra:
            return ('provider-list-holds-only-requested-scopes', f'{KINDS[k]}: {extra} never requested')
    return None


def signature(case, out, clause):
    if clause in ('same-scope-same-instance', 'different-scope-different-instance', 'provider-list-has-one-entry-per-scope',
                  'returned-object-is-in-the-provider-list', 'returned-object-has-the-requested-scope'):
        r = oracle(case, out)
        kind = r[1].split(':')[0] if r else '?'
        return f'{clause}-across-threads/{kind}'
    return clause


def nontrivial(case, out):
    if out == 'bad-op' or out.startswith('CRASH'):
        return False
    word, scripts, acts = parse_line(case.line)
    parts = out.split(' ; ')
    stepped = {int(a[1:]) for a, tr in zip(acts, parts) if tr not in ('x', '-')}
    asks = {}
    for i, s in enumerate(scripts):
        for x in s:
            asks.setdefault((x[0], scope_key(word, x[0], int(x[1]))), set()).add(i)
    return any(len(ts & stepped) >= 2 for ts in asks.values())
