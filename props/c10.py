"""C10 - Contexts are immutable values and the runtime context is a per-thread stack."""
import re
from vcore import Case, Harness

ID = 'C10'
GEN = ['ContextKeys']
LEAN_TARGETS = ['OtelVerif.Props.C10']
THEOREMS = ['Otel.C10.' + t for t in (
    'lookup_eq_most_recent', 'get_set_same', 'get_set_other', 'hasKey_set_same', 'setValues_shadow', 'setValues_empty_keeps',
    'setValue_refines_map', 'setValues_refines_map',
    'older_unaffected_step', 'older_unaffected', 'older_unaffected_answers', 'new_context_fresh',
    'attach_makes_current', 'detach_attach_restores', 'detach_out_of_order_unwinds', 'detach_most_recent_first', 'detach_foreign_noop',
    'detach_foreign_result', 'detach_eq_spec', 'balanced_restores', 'attach_above_detach_restores', 'step_attach_stack', 'step_detach_stack', 'step_drop_stack',
    'program_attach_detach_restores',
    'scope_open_activates_span', 'scope_release_restores_span', 'scope_release_after_program', 'scope_nested_release_reactivates',
    'thread_isolation_step', 'thread_isolation', 'ctxSpanKey_eq')]
# the same harness source twice: ASan+UBSan (all programs) and ThreadSanitizer (programs rich in truly concurrent `conc` rounds);
# the later -fno-sanitize/-fsanitize flags override vcore's BASE_FLAGS at compile and (through `libs`) at link time
TSAN = ['-fno-sanitize=address,undefined', '-fsanitize=thread']
HARNESSES = [Harness('f_c10', ['harness/f_c10.cc']),
             Harness('f_c10_tsan', ['harness/f_c10.cc'], flags=TSAN, libs=['-pthread'] + TSAN)]
H = 'f_c10'
HT = 'f_c10_tsan'
HARNESS_ENV = {'TSAN_OPTIONS': 'halt_on_error=1:exitcode=97:report_signal_unsafe=0'}
RULE = ('programs of 50-400 operations (SetValue / SetValues incl. empty and duplicate-key containers / Context(kvs) / '
        'Context(k,v) / GetValue+HasKey / RuntimeContext::SetValue,GetValue / trace::SetSpan,GetSpan,IsRootSpan / a user-provided '
        'RuntimeContextStorage installed first (15 % of the programs) / Attach / Detach in arbitrary order incl. stale, '
        'twice-attached and foreign tokens / token destruction / GetCurrent / GetCurrentSpan / Scope open, close out of order '
        'and from another thread / full stack dumps) over a growing family of contexts on 1-3 real threads sequentialised by '
        'a baton; keys with embedded NULs, prefixes of one another, empty and null-data keys; stack depths to 300 (every '
        'Resize 2,6,14,30,62,126,254,510 crossed); after EVERY operation EVERY earlier context is re-queried on all pool '
        'keys (chk=n) and every other thread\'s depth/top is re-read; `conc` operations start fresh OS threads that run attach/'
        'scope/out-of-order-detach rounds truly concurrently over the shared contexts, each checking its own observations against '
        'the stack rule. non-trivial = a well-formed program that creates a '
        'context and attaches; distinct = distinct program line')
TRUSTED = ['ThreadSanitizer / AddressSanitizer / UBSan runtimes of g++ 12', 'harness reads Stack::size_/base_ through `#define private public` (depth and dumps only; top is GetCurrent())',
           'the program interleaving is sequentialised by a baton (an input); truly concurrent execution only inside `conc` operations']
ASSUMPTIONS = ['a SetValues container listing a key twice: the first listed pair wins (what the constructor does); the property '
               'text does not say', 'Detach of a default-context token on an empty stack returns true and changes nothing']
SPAN_KEY = b'active_span'
ROOT_KEY = b'is_root_span'
POOL = 4
KEY_FAMILY = [b'', b'k', b'k\x00', b'k\x00a', b'ke', b'key', b'key2', SPAN_KEY, b'active_spa', b'active_span\x00', b'\xff\xfe',
              b'K', b'a' * 40, b'is_root_span', b'\x00']


def hx(b):
    return b.hex() if b else '-'


# --------------------------------------------------------------------------------------------------
# generator

def rand_val(rng):
    r = rng.random()
    if r < 0.08: return 'n'
    if r < 0.16: return 'b:' + rng.choice('01')
    if r < 0.40:
        return 'i:' + str(rng.choice([0, -1, 1, 2 ** 63 - 1, -2 ** 63, rng.randrange(-1000, 1000), rng.randrange(-2 ** 63, 2 ** 63)]))
    if r < 0.52:
        return 'u:' + str(rng.choice([0, 1, 2 ** 64 - 1, 2 ** 63, rng.randrange(2 ** 64)]))
    if r < 0.62:
        return 'd:' + rng.choice(['0000000000000000', '8000000000000000', '3ff0000000000000', '7ff8000000000000',
                                  '7ff0000000000000', 'fff0000000000001', '%016x' % rng.randrange(2 ** 64)])
    if r < 0.80: return f'sp:{rng.randrange(POOL)}'
    if r < 0.90: return f'sc:{rng.randrange(POOL)}'
    return f'bg:{rng.randrange(POOL)}'


class Gen:
    """builds a well-formed program while tracking just enough state to keep references valid"""

    def __init__(self, rng, nthreads, pool):
        self.rng, self.n, self.pool = rng, nthreads, pool
        self.ops = []
        self.nctx = 1
        self.toks = []      # alive?
        self.tokctx = []
        self.scopes = []    # open?
        self.depth = [0] * nthreads
        self.maxdepth = 0
        self.flags = set()

    def key(self):
        r = self.rng.random()
        if r < 0.75: return hx(self.rng.choice(self.pool))
        if r < 0.78: return '~'
        if r < 0.95: return hx(self.rng.choice(KEY_FAMILY))
        return hx(bytes(self.rng.randrange(256) for _ in range(self.rng.randrange(0, 5))))

    def ctx(self):
        # recent contexts more often, but every earlier one stays reachable
        if self.rng.random() < 0.5:
            return max(0, self.nctx - 1 - self.rng.randrange(min(self.nctx, 4)))
        return self.rng.randrange(self.nctx)

    def t(self):
        return self.rng.randrange(self.n)

    def kvs(self):
        r = self.rng.random()
        if r < 0.2:
            self.flags.add('empty-container')
            return '{}'
        m = self.rng.choice([1, 1, 2, 2, 3, 5])
        items = []
        for _ in range(m):
            items.append(self.key().replace('~', '-') + '=' + rand_val(self.rng))
        if m > 1 and self.rng.random() < 0.3:
            items.append(items[0].split('=')[0] + '=' + rand_val(self.rng))
            self.flags.add('duplicate-key-container')
        return ','.join(items)

    def emit(self, kind):
        rng = self.rng
        t = self.t()
        if kind == 'set':
            self.ops.append(f'set {t} {self.ctx()} {self.key()} {rand_val(rng)}'); self.nctx += 1
        elif kind == 'setm':
            self.ops.append(f'setm {t} {self.ctx()} {self.kvs()}'); self.nctx += 1
        elif kind == 'mk':
            self.ops.append(f'mk {t} {self.kvs()}'); self.nctx += 1
        elif kind == 'mk1':
            self.ops.append(f'mk1 {t} {self.key()} {rand_val(rng)}'); self.nctx += 1
        elif kind == 'get':
            self.ops.append(f'get {t} {self.ctx()} {self.key()}')
        elif kind == 'rset':
            self.ops.append(f'rset {t} {self.key()} {rand_val(rng)}' + (f' {self.ctx()}' if rng.random() < 0.3 else '')); self.nctx += 1
        elif kind == 'rget':
            self.ops.append(f'rget {t} {self.key()}' + (f' {self.ctx()}' if rng.random() < 0.3 else ''))
        elif kind == 'attach':
            c = self.ctx()
            if self.tokctx and rng.random() < 0.25:
                c = rng.choice(self.tokctx)      # a context attached more than once
                self.flags.add('re-attach')
            self.ops.append(f'attach {t} {c}'); self.toks.append(True); self.tokctx.append(c)
            self.depth[t] += 1; self.maxdepth = max(self.maxdepth, self.depth[t])
        elif kind in ('detach', 'drop'):
            alive = [i for i, a in enumerate(self.toks) if a]
            if not alive:
                return self.emit('attach')
            r = rng.random()
            m = alive[-1] if r < 0.5 else rng.choice(alive[-6:]) if r < 0.8 else rng.choice(alive)
            self.ops.append(f'{kind} {t} {m}')
            if kind == 'drop':
                self.toks[m] = False
        elif kind == 'scope':
            self.ops.append(f'scope {t} {rng.randrange(POOL)}'); self.scopes.append(True); self.nctx += 1
            self.depth[t] += 1; self.maxdepth = max(self.maxdepth, self.depth[t])
        elif kind == 'close':
            op = [i for i, a in enumerate(self.scopes) if a]
            if not op:
                return self.emit('scope')
            j = op[-1] if rng.random() < 0.6 else rng.choice(op)
            self.ops.append(f'close {t} {j}'); self.scopes[j] = False
        elif kind in ('cur', 'span', 'dump'):
            self.ops.append(f'{kind} {t}')
        elif kind == 'sspan':      # trace::SetSpan(context, span)
            self.ops.append(f'sspan {t} {self.ctx()} {rng.randrange(POOL)}'); self.nctx += 1; self.flags.add('trace-context-helpers')
        elif kind in ('gspan', 'isroot'):      # trace::GetSpan(context) / trace::IsRootSpan(context)
            self.ops.append(f'{kind} {t} {self.ctx()}'); self.flags.add('trace-context-helpers')
        elif kind == 'conc':
            self.ops.append(f'conc {t} {self.rng.choice([1, 2, 3, 5, 8])}'); self.flags.add('true-concurrency')

    def line(self):
        return f'ctx {self.n} {",".join(hx(k) for k in self.pool)} ; ' + ' ; '.join(self.ops)


WEIGHTS = {
    'mixed': dict(set=14, setm=6, mk=2, mk1=1, get=12, rset=3, rget=4, attach=14, detach=12, drop=3, scope=6, close=5, cur=5, span=6, dump=2, conc=0.15,
                  sspan=2, gspan=2, isroot=1),
    'contexts': dict(set=30, setm=14, mk=4, mk1=2, get=30, rset=4, rget=4, attach=3, detach=2, cur=1, span=1, sspan=4, gspan=5, isroot=3),
    'stack': dict(set=4, get=2, attach=30, detach=26, drop=5, scope=6, close=5, cur=8, span=6, dump=4, rget=3),
    'scopes': dict(set=4, attach=6, detach=5, scope=28, close=24, span=22, cur=5, dump=3, rset=3, sspan=4, gspan=4),
    'concurrent': dict(set=8, setm=2, get=4, attach=16, detach=12, drop=2, scope=8, close=6, cur=4, span=4, dump=2, conc=8),
}


def pick_pool(rng):
    pool = rng.sample(KEY_FAMILY, rng.randrange(3, 7))
    if rng.random() < 0.6 and SPAN_KEY not in pool:
        pool[0] = SPAN_KEY
    if rng.random() < 0.5 and b'' not in pool:
        pool[-1] = b''
    return pool


def gen_program(rng, style, nthreads, nops):
    g = Gen(rng, nthreads, pick_pool(rng))
    if rng.random() < 0.15:
        # a user-provided RuntimeContextStorage, installed before anything is attached (0 = another ThreadLocalContextStorage,
        # 1 = a subclass that forwards and counts, 2 = the current one again)
        g.ops.append(f'storage {g.t()} {rng.randrange(3)}'); g.flags.add('custom-storage')
    w = WEIGHTS[style]
    kinds, weights = list(w), list(w.values())
    while len(g.ops) < nops:
        g.emit(rng.choices(kinds, weights)[0])
    for t in range(nthreads):
        g.ops.append(f'dump {t}')
    return g


def gen_deep(rng, nthreads, depth):
    """drive one thread's stack to `depth` (crossing every Resize), then detach in an arbitrary order"""
    g = Gen(rng, nthreads, pick_pool(rng))
    for _ in range(rng.randrange(2, 8)):
        g.emit('set')
    t = rng.randrange(nthreads)
    for i in range(depth):
        r = rng.random()
        if r < 0.1:
            g.ops.append(f'scope {t} {rng.randrange(POOL)}'); g.scopes.append(True); g.nctx += 1
        else:
            c = g.ctx()
            g.ops.append(f'attach {t} {c}'); g.toks.append(True); g.tokctx.append(c)
        if rng.random() < 0.05:
            g.emit('set')
        if rng.random() < 0.03 and nthreads > 1:
            g.emit(rng.choice(['attach', 'cur', 'scope']))
    g.maxdepth = depth
    g.ops.append(f'dump {t}')
    # unwinding: random order, with stale tokens and other threads' detaches in between
    while len(g.ops) < depth + 120:
        r = rng.random()
        if r < 0.55:
            alive = [i for i, a in enumerate(g.toks) if a]
            if not alive:
                g.emit('attach')
                continue
            m = rng.choice(alive) if rng.random() < 0.5 else alive[-1 - rng.randrange(min(len(alive), 30))]
            g.ops.append(f'{"detach" if rng.random() < 0.85 else "drop"} {t} {m}')
            if g.ops[-1].startswith('drop'):
                g.toks[m] = False
        elif r < 0.65:
            g.emit('close')
        elif r < 0.75:
            c = g.ctx(); g.ops.append(f'attach {t} {c}'); g.toks.append(True); g.tokctx.append(c)
        elif r < 0.85:
            g.ops.append(f'{rng.choice(["cur", "span", "dump"])} {t}')
        else:
            g.emit(rng.choice(['detach', 'cur', 'get', 'set']))
    for u in range(nthreads):
        g.ops.append(f'dump {u}')
    return g


def case_of(g, *tags):
    extra = []
    for lim in (254, 126, 62, 30, 14, 6, 2):
        if g.maxdepth > lim:
            extra.append(f'depth>{lim}')
            break
    return Case(g.line(), H, tuple(tags) + (f'threads={g.n}',) + tuple(extra) + tuple(sorted(g.flags)))


def corpus():
    out = []
    c = lambda line, *tags: out.append(Case(line, H, ('corpus',) + tags, 'corpus'))
    # D19 witness: an empty key-value container must not shadow a bound "" key (and no null pointer goes to memcmp)
    c('ctx 1 -,6b ; set 0 0 - i:7 ; setm 0 1 {} ; get 0 2 -', 'D19-empty-container')
    c('ctx 1 -,6b ; mk 0 {} ; get 0 1 - ; set 0 1 - b:1 ; get 0 2 -', 'D19-empty-container')
    c('ctx 1 -,6b ; set 0 0 ~ i:8 ; get 0 1 ~ ; get 0 1 - ; mk1 0 ~ u:1 ; get 0 2 ~', 'D19-null-data-key')
    # detach: a context attached twice is matched most-recent-first; out of order unwinds; foreign token
    c('ctx 1 6b ; set 0 0 6b i:1 ; set 0 1 6b i:2 ; attach 0 1 ; attach 0 2 ; attach 0 1 ; dump 0 ; detach 0 0 ; dump 0 ; detach 0 0 ; dump 0 ; detach 0 0 ; dump 0', 'twice-attached')
    c('ctx 1 6b ; set 0 0 6b i:1 ; set 0 1 6b i:2 ; set 0 2 6b i:3 ; attach 0 1 ; attach 0 2 ; attach 0 3 ; detach 0 0 ; dump 0 ; detach 0 1 ; detach 0 2', 'out-of-order')
    c('ctx 2 6b ; set 0 0 6b i:1 ; set 1 0 6b i:2 ; attach 0 1 ; attach 1 2 ; detach 1 0 ; detach 0 1 ; dump 0 ; dump 1 ; cur 0 ; cur 1', 'foreign-token')
    c('ctx 1 6b ; attach 0 0 ; detach 0 0 ; detach 0 0 ; dump 0', 'default-context-token')
    c('ctx 2 6163746976655f7370616e ; span 0 ; scope 0 1 ; span 0 ; span 1 ; scope 0 2 ; span 0 ; close 0 0 ; span 0 ; dump 0 ; close 1 1 ; span 0', 'scope')
    c('ctx 1 6163746976655f7370616e ; set 0 0 6163746976655f7370616e i:5 ; attach 0 1 ; span 0 ; scope 0 3 ; span 0 ; close 0 0 ; span 0', 'scope')
    c('ctx 3 6b,6163746976655f7370616e ; set 0 0 6b i:1 ; set 1 1 6b i:2 ; attach 0 1 ; attach 2 2 ; conc 1 20 ; dump 0 ; dump 1 ; dump 2 ; get 0 2 6b', 'true-concurrency')
    # trace/context.h helpers: SetSpan = SetValue(kSpanKey, span); GetSpan / IsRootSpan read one key and fall back on any other alternative
    sk, rk = SPAN_KEY.hex(), b'is_root_span'.hex()
    c(f'ctx 1 {sk},{rk} ; gspan 0 0 ; isroot 0 0 ; sspan 0 0 2 ; gspan 0 1 ; set 0 1 {sk} i:5 ; gspan 0 2 ; gspan 0 1 ; set 0 2 {rk} b:1 ; isroot 0 3 ; '
      f'set 0 3 {rk} i:1 ; isroot 0 4 ; set 0 4 {rk} b:0 ; isroot 0 5 ; isroot 0 3 ; sspan 0 5 0 ; gspan 0 6 ; attach 0 6 ; span 0 ; set 0 6 {sk} sc:1 ; gspan 0 7', 'trace-context-helpers')
    # a user-provided storage behind RuntimeContext: per-thread stacks, attach / detach / scope as before
    for k in (0, 1, 2):
        c(f'ctx 2 6b,{sk} ; storage 0 {k} ; set 0 0 6b i:1 ; attach 0 1 ; attach 1 0 ; scope 1 2 ; span 1 ; span 0 ; cur 0 ; detach 0 0 ; close 0 0 ; dump 0 ; dump 1 ; conc 0 3', 'custom-storage')
    return out


def generate(rng, tier):
    big = tier == 'thorough'
    out = []
    n_mixed = 12000 if big else 1100
    for _ in range(n_mixed):
        style = rng.choices(['mixed', 'contexts', 'stack', 'scopes'], [5, 3, 3, 2])[0]
        nthreads = rng.choice([1, 1, 2, 3, 3])
        nops = rng.choice([50, 60, 80, 100, 120, 150, 200, 300, 400] if big else [50, 50, 60, 80, 100, 120, 150, 200, 400])
        out.append(case_of(gen_program(rng, style, nthreads, nops), style))
    for _ in range(1500 if big else 60):
        depth = rng.choice([3, 7, 15, 31, 63, 127, 255, 256, 280, 300])
        out.append(case_of(gen_deep(rng, rng.choice([1, 2, 3]), depth), 'deep'))
    # ThreadSanitizer build: real threads handing the baton over, and truly concurrent rounds
    for _ in range(3000 if big else 60):
        g = gen_program(rng, 'concurrent', rng.choice([2, 3, 3]), rng.choice([30, 60, 100]))
        c = case_of(g, 'tsan')
        out.append(Case(c.line, HT, c.tags))
    # small programs (many of them: every short interleaving of the stack operations matters)
    for _ in range(20000 if big else 800):
        g = gen_program(rng, rng.choice(['stack', 'scopes', 'mixed']), rng.choice([1, 2]), rng.randrange(4, 25))
        out.append(case_of(g, 'short'))
    # malformed: references to things that do not exist, dropped tokens, closed scopes, foreign thread ids, broken tokens
    for _ in range(2000 if big else 150):
        g = gen_program(rng, 'mixed', rng.choice([1, 2, 3]), rng.randrange(3, 30))
        bad = rng.choice([f'get 0 {g.nctx + rng.randrange(3)} 6b', f'detach 0 {len(g.toks)}', f'attach {g.n} 0', 'set 0 0 6b',
                          'set 0 0 6 i:1', 'set 0 0 6b i:01', 'set 0 0 6b u:-1', 'set 0 0 6b sp:4', 'frob 0', 'set 0 0 6b d:00',
                          f'close 0 {len(g.scopes)}', 'setm 0 0 6b', 'setm 0 0 6b=i:1,', 'set 0 0 6b i:9223372036854775808',
                          'set 0 0 6b u:18446744073709551616', 'attach 0 00', 'cur', 'drop 0 999999999999'])
        pos = rng.randrange(len(g.ops) + 1)
        g.ops.insert(pos, bad)
        out.append(Case(g.line(), H, ('malformed',)))
    for _ in range(200 if big else 30):
        g = gen_program(rng, 'stack', 1, rng.randrange(5, 30))
        dead = [i for i, a in enumerate(g.toks) if not a]
        closed = [i for i, a in enumerate(g.scopes) if not a]
        if dead:
            g.ops.append(f'detach 0 {rng.choice(dead)}')
        elif closed:
            g.ops.append(f'close 0 {rng.choice(closed)}')
        else:
            g.ops.append('detach 0 77')
        out.append(Case(g.line(), H, ('malformed', 'dead-reference')))
    return out


# --------------------------------------------------------------------------------------------------
# implementation-side oracle: the property, evaluated by a small reference of the SPEC
#   contexts = immutable maps (a new context = the old map with the new bindings laid over it),
#   one stack of context identities per thread.

VAL_RE = re.compile(r'n|b:[01]|i:(0|-?[1-9]\d*)|u:(0|[1-9]\d*)|d:[0-9a-fA-F]{16}|(sp|sc|bg):(0|[1-9]\d*)')
NAT_RE = re.compile(r'0|[1-9]\d{0,8}')


class Bad(Exception):
    pass


def p_nat(s):
    if not NAT_RE.fullmatch(s):
        raise Bad(s)
    return int(s)


def p_key(s):
    if s in ('~', '-'):
        return b''
    if len(s) % 2 or not re.fullmatch(r'[0-9a-fA-F]*', s):
        raise Bad(s)
    return bytes.fromhex(s)


def p_val(s):
    if not VAL_RE.fullmatch(s):
        raise Bad(s)
    tag, _, x = s.partition(':')
    if tag == 'i' and not -2 ** 63 <= int(x) < 2 ** 63: raise Bad(s)
    if tag == 'u' and not int(x) < 2 ** 64: raise Bad(s)
    if tag in ('sp', 'sc', 'bg') and not int(x) < POOL: raise Bad(s)
    if tag == 'd':
        return 'd:' + x.lower()
    return s


def p_kvs(s):
    if s == '{}':
        return []
    out = []
    for e in s.split(','):
        kv = e.split('=')
        if len(kv) != 2:
            raise Bad(s)
        out.append((p_key(kv[0]), p_val(kv[1])))
    return out


def reference(line):
    """expected observation line according to the property (or 'bad-op' for an ill-formed program)"""
    try:
        toks = line.split()
        if toks[0] != 'ctx':
            return 'bad-op'
        groups = ' '.join(toks[1:]).split(' ; ')
        head = groups[0].split()
        if len(head) != 2:
            return 'bad-op'
        n = p_nat(head[0])
        if not 1 <= n <= 3:
            return 'bad-op'
        pool = [p_key(k) for k in head[1].split(',')]
        ctxs = [{}]                 # identity = index
        stacks = [[] for _ in range(n)]
        toks_, scopes = [], []      # (ctx, alive)
        outs = []

        def show(c):
            return '[' + ','.join(ctxs[c].get(k, 'n') + ('+' if ctxs[c].get(k, 'n') != 'n' else '-') for k in pool) + ']'

        def top(t):
            return stacks[t][-1] if stacks[t] else 0

        def new(parent, binds):
            d = dict(ctxs[parent])
            for k, v in reversed(binds):    # the first listed binding of a key is the one that counts
                d[k] = v
            ctxs.append(d)
            return len(ctxs) - 1

        def detach(t, c):
            st = stacks[t]
            if c in st:
                i = len(st) - 1 - st[::-1].index(c)      # most recent occurrence
                del st[i:]                                 # ... and everything attached above it
                return True
            return not st and c == 0

        def ctx_arg(s):
            p = p_nat(s)
            if p >= len(ctxs):
                raise Bad(s)
            return p

        for g in groups[1:]:
            op = g.split()
            if len(op) < 2:
                raise Bad(g)
            name, t = op[0], p_nat(op[1])
            if t >= n:
                raise Bad(g)
            before = len(ctxs)
            a = op[2:]
            if name == 'set' and len(a) == 3:
                k, v = p_key(a[1]), p_val(a[2]); c = new(ctx_arg(a[0]), [(k, v)]); obs = f'c{c}' + show(c)
            elif name == 'setm' and len(a) == 2:
                kv = p_kvs(a[1]); c = new(ctx_arg(a[0]), kv); obs = f'c{c}' + show(c)
            elif name == 'mk' and len(a) == 1:
                c = new(0, p_kvs(a[0])); obs = f'c{c}' + show(c)
            elif name == 'mk1' and len(a) == 2:
                c = new(0, [(p_key(a[0]), p_val(a[1]))]); obs = f'c{c}' + show(c)
            elif name == 'get' and len(a) == 2:
                p, k = ctx_arg(a[0]), p_key(a[1]); v = ctxs[p].get(k, 'n'); obs = v + ('+' if v != 'n' else '-')
            elif name == 'rset' and len(a) in (2, 3):
                k, v = p_key(a[0]), p_val(a[1]); p = ctx_arg(a[2]) if len(a) == 3 else top(t)
                c = new(p, [(k, v)]); obs = f'c{c}' + show(c)
            elif name == 'rget' and len(a) in (1, 2):
                k = p_key(a[0]); p = ctx_arg(a[1]) if len(a) == 2 else top(t)
                v = ctxs[p].get(k, 'n'); obs = v + ('+' if v != 'n' else '-')
            elif name == 'attach' and len(a) == 1:
                p = ctx_arg(a[0]); stacks[t].append(p); toks_.append([p, True]); obs = f'k{len(toks_) - 1}'
            elif name in ('detach', 'drop') and len(a) == 1:
                m = p_nat(a[0])
                if m >= len(toks_) or not toks_[m][1]:
                    raise Bad(g)
                r = detach(t, toks_[m][0])
                if name == 'drop':
                    toks_[m][1] = False; obs = 'ok'
                else:
                    obs = '1' if r else '0'
            elif name == 'cur' and not a:
                obs = f'cur=c{top(t)}'
            elif name == 'span' and not a:
                v = ctxs[top(t)].get(SPAN_KEY, 'n'); obs = v if v.startswith('sp:') else 'invalid'
            elif name == 'sspan' and len(a) == 2:
                i = p_nat(a[1])
                if i >= POOL:
                    raise Bad(g)
                c = new(ctx_arg(a[0]), [(SPAN_KEY, f'sp:{i}')]); obs = f'c{c}' + show(c)
            elif name == 'gspan' and len(a) == 1:
                v = ctxs[ctx_arg(a[0])].get(SPAN_KEY, 'n'); obs = v if v.startswith('sp:') else 'invalid'
            elif name == 'isroot' and len(a) == 1:
                obs = 'root=1' if ctxs[ctx_arg(a[0])].get(ROOT_KEY, 'n') == 'b:1' else 'root=0'
            elif name == 'storage' and len(a) == 1:
                if p_nat(a[0]) >= 3:
                    raise Bad(g)
                obs = f'cur=c{top(t)}'      # another storage object: the thread's stack is what it was
            elif name == 'scope' and len(a) == 1:
                i = p_nat(a[0])
                if i >= POOL:
                    raise Bad(g)
                c = new(top(t), [(SPAN_KEY, f'sp:{i}')]); stacks[t].append(c); scopes.append([c, True])
                obs = f's{len(scopes) - 1}=c{c}' + show(c)
            elif name == 'close' and len(a) == 1:
                j = p_nat(a[0])
                if j >= len(scopes) or not scopes[j][1]:
                    raise Bad(g)
                detach(t, scopes[j][0]); scopes[j][1] = False; obs = 'ok'
            elif name == 'dump' and not a:
                obs = '[' + ','.join(f'c{c}' for c in reversed(stacks[t])) + ']'
            elif name == 'conc' and len(a) == 1:
                if p_nat(a[0]) > 50:
                    raise Bad(g)
                obs = 'conc=ok'      # balanced rounds on fresh threads: nothing of it may remain visible
            else:
                raise Bad(g)
            outs.append((name, f'{obs} @{len(stacks[t])}:c{top(t)} chk={before}'))
        return outs
    except (Bad, IndexError, ValueError):
        return 'bad-op'


CLAUSE = {'set': 'new-context-shadows-and-inherits', 'setm': 'new-context-shadows-and-inherits', 'mk': 'new-context-shadows-and-inherits',
          'mk1': 'new-context-shadows-and-inherits', 'rset': 'new-context-shadows-and-inherits',
          'get': 'most-recent-binding-returned', 'rget': 'most-recent-binding-returned',
          'attach': 'attach-makes-current', 'detach': 'detach-restores-previous', 'drop': 'detach-restores-previous',
          'cur': 'current-is-top-of-stack', 'dump': 'stack-discipline', 'span': 'scope-release-restores-span',
          'scope': 'scope-activates-span', 'close': 'scope-release-restores-span',
          'conc': 'threads-concurrently-isolated',
          'sspan': 'new-context-shadows-and-inherits', 'gspan': 'most-recent-binding-returned', 'isroot': 'most-recent-binding-returned',
          'storage': 'custom-storage-keeps-the-per-thread-stacks'}


def oracle(case, out):
    if out.startswith('CRASH'):
        if case.harness == HT:
            return ('no-data-race (ThreadSanitizer)', out)
        return ('no-crash-or-undefined-behaviour', out)
    exp = reference(case.line)
    if exp == 'bad-op':
        return None if out == 'bad-op' else ('ill-formed-program-rejected', out[:200])
    got = out.split(' ; ') if out else []
    if out == 'bad-op':
        return ('well-formed-program-runs', out)
    for i, (name, e) in enumerate(exp):
        if i >= len(got):
            return ('observation-missing', f'op {i} {name}')
        g = got[i]
        if g == e:
            continue
        if 'CHANGED' in g:
            return ('older-context-unaffected', f'op {i} {name}: {g}')
        if 'LEAK' in g:
            return ('thread-isolation', f'op {i} {name}: {g}')
        return (CLAUSE[name], f'op {i} {name}: got {g[:160]} want {e[:160]}')
    if len(got) != len(exp):
        return ('observation-surplus', str(len(got)))
    return None


def signature(case, out, clause):
    if out.startswith('CRASH') and case.harness == HT:
        return 'tsan/' + (out.split(' ', 1)[1][:60] if ' ' in out else '')
    if out.startswith('CRASH'):
        return 'crash/' + out.split(' ', 1)[1][:80] if ' ' in out else 'crash'
    return clause


def nontrivial(case, out):
    return out != 'bad-op' and not out.startswith('CRASH') and ' attach ' in case.line and (' set ' in case.line or ' setm ' in case.line)


LEVEL_TEXT = ('Lean 4 theorems over an executable model of context.h / runtime_context.h / scope.h / Tracer::GetCurrentSpan: '
              'lookup = most recent binding (refinement to an abstract map: setValue = point update, setValues = overlay, empty '
              'container = identity), older contexts answer exactly as before after ANY program (induction over op lists), new '
              'identities are fresh; Detach = truncate at the most recent occurrence (attach/detach restores, out-of-order unwinds, '
              'twice-attached matched most-recent-first, foreign token no-op, balanced programs restore the stack), Scope open/'
              'release activates / re-activates the span, and an op of thread t changes only stack t (for every program). The '
              'span key is re-extracted from the source. Tie: differential run of whole programs on 1-3 real threads '
              '(baton-sequentialised, thread_local real) with every earlier context re-queried after every op, depth to 300.')
LEVEL_NOTE = ('Trusted: Lean kernel; axioms propext/Quot.sound/Classical.choice at most; tools/gen_c10.py; harness, generators, '
              'canonicalisation; private access to Stack::size_/base_ for depth and dumps. Partial: true thread-locality and '
              'data-race freedom are runtime facts (threads are real; the interleaving of the program is sequentialised by a baton, the '
              '`conc` operations run truly concurrent rounds under ASan/UBSan; no TSan run in this check); memory '
              'safety (owned key copies, Resize) is shown by ASan/UBSan runs, not by a theorem; address reuse of freed head nodes '
              'is excluded because tokens keep their context alive. Models the code after fix D19 (key-less node of an empty '
              'container binds nothing; no memcmp/memcpy on null for zero-length keys).')
DESIGN_REF = 'DESIGN.md section 4, C10'
TECHNIQUE = 'proof + differential correspondence'
