"""C01 - Batch processors hand every accepted span/log to the exporter exactly once."""
from props import batchcommon as B

ID = 'C01'
GEN = ['Batch', 'Ring']
LEAN_TARGETS = ['OtelVerif.Props.C01', 'OtelVerif.Props.C01Compose']
THEOREMS = ['Otel.C01.' + t for t in (
    'exports_are_consumed', 'batch_in_hand', 'accepted_delivered_at_shutdown', 'drop_only_when_full', 'no_drop_between_flushes',
    'producer_never_waits', 'commit_enabled_when_room', 'queue_exactly_once')] + ['Otel.Batch.reachable_inv', 'Otel.Batch.inv_astep',
    'Otel.C11.add_fails_only_when_full', 'Otel.C11.consumed_is_log_prefix'] + ['Otel.C01.' + t for t in (
    # the protocol model composed with the fine-grained ring model (Model/BatchRing.lean, Props/C01Compose.lean)
    'delivered_is_log_prefix', 'per_producer_order', 'accepted_delivered_at_shutdown_e2e', 'queue_bounded', 'drop_is_a_failed_add')] + [
    'Otel.BatchRing.' + t for t in ('reachable', 'proj', 'commit_enabled', 'drop_enabled', 'consume_enabled', 'add_begins', 'clearing_progress')]
HARNESSES = [B.H_BSP, B.H_BLP]
ENGINE = 'lean-proof + deterministic-scheduler refinement check (Engine D)'
RULE = ('schedules of the UNMODIFIED batch processors (1-3 producers with 1-4 records each tagged producer/sequence, queue 1-4, batch '
        '1-queue, flushers, shutdown callers, spurious weak-CAS failures in the queue); the exporter log is checked against the '
        'OnEnd call/return events. non-trivial = at least two threads act')
TRUSTED = ['the scheduler shim', 'props/batchcommon.py::abstract']
ASSUMPTIONS = ['sequential consistency']


def corpus():
    return B.batch_corpus()


def generate(rng, tier):
    return B.gen_schedules(rng, tier)


def oracle(case, out):
    if out == 'bad-op':
        return ('harness-rejected-case', out)
    return B.oracle_c01(case, out)


model_line = B.model_line
agree = B.agree


def signature(case, out, clause):
    return clause


def nontrivial(case, out):
    toks = case.line.split(' ; ')[1:]
    return len({t.rstrip('!')[1:] for t in toks}) >= 2


LEVEL_TEXT = ('Lean 4, two layers: C11 (queue: accepted elements consumed exactly once, commit order, per-producer order, Add fails '
              'only when full) and the protocol model (the worker exports exactly what it consumes, everything committed before '
              'shutdown is exported, a drop needs the capacity justification - never when at most max_queue_size records are '
              'produced since a completed flush - producers take no lock and wait for nobody), and their composition (Model/BatchRing: '
              'Add runs access by access on the ring, the protocol model sees only its outcome; coupling invariant + both invariants '
              'for every reachable state; the pairing never blocks; delivered_is_log_prefix, accepted_delivered_at_shutdown_e2e '
              'end to end). Tie: refinement check of real '
              'executions under the deterministic scheduler; exporter log vs OnEnd events oracle.')
LEVEL_NOTE = ('Trusted: Lean kernel; scheduler shim (SC); event abstraction; the composition (queue counters of the protocol '
              'model = head/tail of the C11 model) is proved (Props/C01Compose.lean); that OnEnd calls Add once and the worker calls '
              'Consume then Export - the pairing of the composed model - is the call structure read off the source and exercised by the refinement check. A record whose OnEnd races '
              'Shutdown is outside the property.')
DESIGN_REF = 'DESIGN.md section 4, C01; Appendix C'
