"""C05 - new spans get correct identity, parentage, flags and trace state."""
import re
from vcore import Case, Harness, sdk_sources, SDK_INCLUDES
from props.c12 import rand_ratio, rand_entries, b16, dbl

ID = 'C05'
GEN = ['Hex', 'Sampler', 'Tracer']
LEAN_TARGETS = ['OtelVerif.Props.C05']
THEOREMS = ['Otel.C05.' + t for t in (
    # parentage
    'resolveParent_eq_spec', 'parent_precedence', 'root_marker_forces_new_trace', 'root_marker_with_valid_span_witness',
    # one StartSpan: identity, flags, trace state, recording
    'started_ghosts', 'child_identity', 'root_identity', 'new_context_not_remote', 'gen_constants', 'flags_eq_spec', 'flags_w3c1',
    'sampled_flag_eq_decision', 'only_w3c1_flag_bits', 'd03_asis_witness', 'tracestate_precedence', 'recording_iff_decision',
    'dropped_span_valid_context',
    # every program (induction over operation sequences)
    'step_cases', 'run_all_spans', 'step_inv', 'run_inv', 'run_spans_ids', 'run_span_ids_fresh', 'run_root_trace_ids_fresh',
    'run_child_identity', 'run_flags_and_tracestate', 'run_contexts_valid', 'run_exported_recording',
    'dropped_span_valid_context_not_exported', 'run_exported_nodup',
    # threads
    'stacks_general', 'threads_have_own_active_stack', 'start_uses_own_thread_only',
    # a tracer disabled by the ScopeConfigurator (the API no-op span)
    'disabled_start_frame', 'disabled_span_never_exported', 'disabled_span_context_invalid_witness', 'disabled_span_active_gives_root')]
HARNESSES = [Harness('s_c05', ['harness/s_c05.cc'], sdk_srcs=sdk_sources('common', 'resource', 'version', 'trace'),
                     includes=SDK_INCLUDES)]
H = 's_c05'
RULE = ('programs of start / scope (WithActiveSpan) / endscope / end on 1-3 real threads run one operation at a time, 8-45 ops, scope depth <= 6; '
        'parents: default, explicit SpanContext (literal remote/local incl. invalid ids, or another span\'s), explicit Context (empty or '
        'current, root marker absent/false/true, span kept / another span / DefaultSpan of a literal); samplers: on, off, ratio, '
        'parent-based over each, constant custom with/without trace state, by-name custom (per-span decision and trace state); '
        'counter id generators incl. bases that emit a zero id; all 256 parent flag bytes x samplers x both explicit mechanisms; '
        'a seventh of the programs also start spans on a tracer that the provider\'s ScopeConfigurator disables (startx); the harness rotates '
        'provider constructors / factories, the global Provider, every usable StartSpan overload with non-empty attributes and links, '
        'span kinds, explicit start times, Scope vs WithActiveSpan and cross-checks every accessor of the new context. '
        'non-trivial = a program with at least one span that has a valid parent and one that has none; distinct = distinct case line')
TRUSTED = ['freshness of ids is relative to the hypothesis that the IdGenerator returns non-zero, pairwise distinct ids; the random generator '
           '(random_id_generator.cc, random.cc) is not modelled (its output distribution and the 2^-64 zero id are outside the theorems)',
           'thread-locality of the RuntimeContext stack is exercised with real threads run one at a time, not proved of the C++']
ASSUMPTIONS = ['IdGenerator answers are non-zero and pairwise distinct (explicit hypothesis of the freshness theorems)',
               'a Context carrying both a valid span and the root marker: the span is the parent (order documented in span_startoptions.h)',
               'trace states in generated cases are canonical W3C lists (parsing is C14\'s)']
SHRINK = True


def hexid(rng, n, zero_p=0.0):
    if rng.random() < zero_p:
        return '00' * n
    return bytes(rng.randrange(256) for _ in range(n)).hex()


def rand_lit(rng, flags=None):
    """span-context literal; sometimes invalid"""
    r = rng.random()
    tid = hexid(rng, 16); sid = hexid(rng, 8)
    if r < 0.08:
        tid = '00' * 16
    elif r < 0.16:
        sid = '00' * 8
    f = rng.randrange(256) if flags is None else flags
    if flags is None and rng.random() < 0.5:
        f = rng.choice([0, 1, 1, 2, 3, 0xff, 0xfe])
    return f'{tid}.{sid}.{f:02x}.{rng.randrange(2)}.{rand_entries(rng)}'


SAMPLERS = ['on', 'off', 'pb/on', 'pb/off', 'pb/pb/off', 'byname', 'byname', 'pb/byname', 'pb/byname']


def rand_sampler(rng):
    r = rng.random()
    if r < 0.55:
        return rng.choice(SAMPLERS)
    if r < 0.75:
        b = rand_ratio(rng) if rng.random() < 0.5 else rng.choice([0x3fe0000000000000, 0x3fd0000000000000, 0x3fe8000000000000])
        return rng.choice(['', 'pb/']) + 'ratio=' + b16(b)
    return rng.choice(['', 'pb/']) + f'custom={rng.randrange(3)}=' + (rng.choice(['null', '-']) if rng.random() < 0.4 else rand_entries(rng))


def rand_name(rng, sampler):
    if 'byname' in sampler:
        return f'{rng.choice([0, 0, 1, 2, 2])}=' + (rng.choice(['null', 'null', '-']) if rng.random() < 0.5 else rand_entries(rng))
    return ''.join(rng.choice('abcdefghijklmnopqrstuvwxyz_-0123456789') for _ in range(rng.randrange(1, 9)))


def rand_parent(rng, nspans, flags=None):
    r = rng.random()
    if r < 0.45 or (nspans == 0 and r < 0.6):
        return 'def'
    if r < 0.57:
        return 'sc:' + rand_lit(rng, flags)
    if r < 0.67 and nspans:
        return f'scof:{rng.randrange(nspans)}'
    base = rng.choice('ec')
    root = rng.choice('nn01')
    s = rng.random()
    if s < 0.35:
        sp = 'keep'
    elif s < 0.65 and nspans:
        sp = f'of{rng.randrange(nspans)}'
    else:
        sp = 'lit' + rand_lit(rng, flags)
    return f'ctx:{base}:{root}:{sp}'


def header(rng, sampler=None):
    sampler = sampler or rand_sampler(rng)
    sb = rng.choice([1, 1, rng.getrandbits(64), rng.getrandbits(32), 0, 2 ** 64 - 2])
    tb = rng.choice([1, 1, rng.getrandbits(128), rng.getrandbits(64), 0, 2 ** 128 - 1])
    return sampler, f'tr {sampler} {rng.randrange(2)} {sb:x} {tb:x}'


def program(rng, tags, nops=None, sampler=None, flags=None, off_p=None):
    sampler, head = header(rng, sampler)
    # some programs also use a tracer of the same provider that its ScopeConfigurator disables
    if off_p is None:
        off_p = 0.25 if rng.random() < 1 / 7 else 0.0
    nt = rng.choice([1, 1, 2, 3])
    ops = []
    nspans = 0
    depth = [0] * nt
    ended = set()
    nops = nops or rng.randrange(8, 46)
    for _ in range(nops):
        r = rng.random()
        t = rng.randrange(nt)
        if r < 0.5 or nspans == 0:
            word = 'startx' if off_p and rng.random() < off_p else 'start'
            ops.append(f'{word} {t} {rand_parent(rng, nspans, flags)} {rand_name(rng, sampler)}')
            nspans += 1
            # usually make the new span active right away: that is how trees get deep
            if rng.random() < 0.55 and depth[t] < 6:
                ops.append(f'scope {t} {nspans - 1}')
                depth[t] += 1
        elif r < 0.62 and depth[t] < 6:
            ops.append(f'scope {t} {rng.randrange(nspans)}')
            depth[t] += 1
        elif r < 0.8:
            cand = [u for u in range(nt) if depth[u] > 0]
            if cand:
                u = rng.choice(cand)
                ops.append(f'endscope {u}')
                depth[u] -= 1
        else:
            k = rng.randrange(nspans)
            ops.append(f'end {k}')
    return Case(f'{head} {nt} ; ' + ' ; '.join(ops), H, tags)


def corpus():
    out = []
    rp = '0102030405060708090a0b0c0d0e0f10.0102030405060708'
    # D03: a span dropped by the sampler under a sampled parent must not carry sampled=1
    out.append(Case(f'tr off 1 1 1 1 ; start 0 sc:{rp}.01.1.- child', H, ('corpus', 'D03-dropped-child-of-sampled-remote-parent'), 'corpus'))
    out.append(Case(f'tr byname 1 1 1 1 ; start 0 def 2=null ; scope 0 0 ; start 0 def 0=null ; start 0 def 1=null ; end 2', H,
                    ('corpus', 'D03-dropped-child-of-sampled-local-parent'), 'corpus'))
    out.append(Case(f'tr ratio=0000000000000000 0 1 1 1 ; start 0 ctx:e:n:lit{rp}.ff.1.6b:76 child', H, ('corpus', 'D03-ratio-zero'), 'corpus'))
    # precedence
    out.append(Case(f'tr on 1 1 100 2 ; start 0 def a ; scope 0 0 ; start 0 sc:{rp}.00.1.- b ; start 0 ctx:e:n:lit{rp}.01.0.- c ; '
                    f'start 0 ctx:e:n:keep d ; start 0 ctx:e:1:keep e ; start 0 ctx:c:1:keep f ; start 0 ctx:c:0:keep g ; start 1 def h ; '
                    f'start 0 sc:{"00" * 16}.0102030405060708.01.1.- i ; end 0 ; end 1 ; end 2 ; end 3 ; end 4', H, ('corpus', 'precedence'), 'corpus'))
    # a tracer disabled by the ScopeConfigurator: no-op span, no ids drawn, nothing exported; made active it hides the outer span
    out.append(Case(f'tr on 1 1 100 1 ; start 0 def a ; scope 0 0 ; startx 0 def lib ; start 0 def b ; scope 0 1 ; start 0 def c ; '
                    f'startx 0 sc:{rp}.01.1.- d ; startx 0 ctx:c:1:of0 e ; end 1 ; end 3 ; endscope 0 ; start 0 def f ; end 0', H,
                    ('corpus', 'disabled-tracer'), 'corpus'))
    out.append(Case(f'tr pb/off 0 ffffffffffffffff 1 2 ; startx 1 def x ; start 0 scof:0 y ; scope 1 0 ; start 1 def z ; startx 0 ctx:e:n:of2 w ; end 0',
                    H, ('corpus', 'disabled-tracer'), 'corpus'))
    return out


# Candidate findings (NOT generated by default; see coverage/AUDIT_C05.md).  Read literally, the statement wants every started span
# to carry its valid parent's trace id / a fresh valid context ("a span that is not recorded ... still exposes this valid context
# for propagation").  A tracer disabled through the ScopeConfigurator answers the API's NoopTracer span instead, whose context
# is SpanContext(false, false): propagation is cut at a disabled instrumentation scope (a span started under that no-op span,
# by an enabled tracer, becomes the root of a new trace).  `oracle(case, out, strict_disabled=True)` judges these lines by the literal reading.
CANDIDATE_FINDINGS = [
    'tr on 1 1 1 1 ; startx 0 sc:0102030405060708090a0b0c0d0e0f10.0102030405060708.01.1.- x',
    'tr on 1 1 1 1 ; start 0 def a ; scope 0 0 ; startx 0 def lib ; scope 0 1 ; start 0 def b',
]


def generate(rng, tier):
    big = tier == 'thorough'
    out = []
    # the real RandomIdGenerator sampled from several threads and across fork (fresh, non-zero ids)
    for _ in range(200 if big else 25):
        out.append(Case(f'rid {rng.randrange(1, 9)} {rng.randrange(1, 65)} {rng.randrange(2)}', HARNESSES[0].name, ('random-id', 'threads+fork')))
    for _ in range(60000 if big else 3000):
        out.append(program(rng, ('program', 'mixed')))
    # all 256 parent flag bytes, both explicit mechanisms, every sampler family
    fams = ['on', 'off', 'pb/on', 'pb/off', 'ratio=3fe0000000000000', 'pb/ratio=3fe0000000000000', 'byname', 'pb/byname',
            'custom=0=null', 'custom=1=6b:76', 'pb/custom=2=-']
    for f in range(256):
        for s in (fams if big else [fams[f % len(fams)], fams[(f * 7 + 3) % len(fams)]]):
            out.append(program(rng, ('program', 'all-flags'), nops=rng.randrange(4, 12), sampler=s, flags=f))
    for _ in range(5000 if big else 300):   # long, deep single-thread trees
        out.append(program(rng, ('program', 'long'), nops=rng.randrange(45, 90)))
    for _ in range(2000 if big else 120):   # enabled and disabled tracers of one provider, heavily mixed
        out.append(program(rng, ('program', 'disabled-tracer'), off_p=rng.choice([0.2, 0.4, 0.6])))
    return out


# ------------------------------------------------------------------------------------------------
# oracle: the property evaluated on the implementation's observation (a reference of the SPEC)

def parse_lit(s):
    tid, sid, fl, rem, ts = s.split('.')
    return {'tid': tid, 'sid': sid, 'flags': int(fl, 16), 'remote': rem == '1', 'ts': ts}


def valid(c):
    return c is not None and int(c['tid'], 16) != 0 and int(c['sid'], 16) != 0


def spec_decision(parts, parent, name):
    """the sampler's answer per the property / sampler spec: (decision or None when not fixed, trace state: 'null' = not given,
    None = 'the parent's or empty' (on/off), else the entries text)"""
    if len(parts) > 1:
        if valid(parent):
            return (2 if parent['flags'] & 1 else 0, parent['ts'])
        return spec_decision(parts[1:], parent, name)
    kind = parts[0].split('=')
    if kind[0] == 'on':
        return (2, None)
    if kind[0] == 'off':
        return (0, None)
    if kind[0] == 'custom':
        return (int(kind[1]), kind[2])
    if kind[0] == 'byname':
        m = re.fullmatch(r'([012])=(null|-|[0-9a-f:,]+)', name)
        return (int(m.group(1)), m.group(2)) if m else (2, 'null')
    r = dbl(int(kind[1], 16))
    return (0 if r <= 0 else 2 if r >= 1 else None, 'null')


def oracle(case, out, strict_disabled=False):
    if out.startswith('CRASH'):
        return ('never-crashes', out)
    if '!' in out:
        # the harness found an accessor of a context (IsSampled, IsRandom, ToLowerBase16, CopyBytesTo, ==, Id(), IsValid) that
        # contradicts the fields it printed, or the exporter saw a SpanData whose context disagrees with its identity fields
        return ('context-accessors-agree-with-the-context', out[max(0, out.index('!') - 80):out.index('!') + 40])
    if case.line.startswith('rid '):
        return None if out == 'dups=0 zero=0 forkclash=0' else ('fresh-non-zero-ids-across-threads-and-fork', out)
    groups = case.line.split(' ; ')
    head = groups[0].split()
    if out == 'bad-op':
        return ('bad-case', out)
    obs = out.split(' ; ')
    ops = [g.split() for g in groups[1:]]
    if len(obs) != len(ops) + 1:
        return ('one-observation-per-operation', out[:200])
    sampler = head[1].split('/')
    sbase, tbase, nt = int(head[3], 16), int(head[4], 16), int(head[5])
    nstarts = sum(1 for o in ops if o[0] == 'start')    # `startx` (disabled tracer) must not draw ids
    # hypothesis of the freshness clauses: the generator never answers a zero id in this case
    gen_ok = all((sbase + i) % 2 ** 64 != 0 for i in range(nstarts)) and all((tbase + i) % 2 ** 128 != 0 for i in range(nstarts))
    stacks = [[] for _ in range(nt)]
    spans = []     # dict(ctx, rec, parent (expected), ended)
    seen_sids, seen_tids = set(), set()
    for i, (op, o) in enumerate(zip(ops, obs)):
        where = f'op #{i} `{" ".join(op)}`'
        if op[0] in ('start', 'startx'):
            t = int(op[1]); p = op[2]; name = op[3]
            m = re.fullmatch(r's=(\S+) rec=([01])', o)
            if not m:
                return ('start-observation-well-formed', f'{where}: {o}')
            ctx = parse_lit(m.group(1)); rec = m.group(2) == '1'
            active = spans[stacks[t][-1]]['ctx'] if stacks[t] else None
            # --- the parent per the property: explicit SpanContext > span in explicit Context > active span
            if p == 'def':
                cand, root = None, False
            elif p.startswith('sc:'):
                cand, root = parse_lit(p[3:]), False
            elif p.startswith('scof:'):
                cand, root = spans[int(p[5:])]['ctx'], False
            else:
                _, base, rt, sp = p.split(':', 3)
                root = rt == '1'
                if sp == 'keep':
                    cand = active if base == 'c' else None
                elif sp.startswith('of'):
                    cand = spans[int(sp[2:])]['ctx']
                else:
                    cand = parse_lit(sp[3:])
            if valid(cand):
                parent = cand
            elif root:
                parent = None
            else:
                parent = active if valid(active) else None
            if op[0] == 'startx' and not strict_disabled:
                # a tracer disabled by the ScopeConfigurator is the API's no-op tracer: nothing is recorded or exported (checked at
                # `end` / teardown through rec=False) and its span carries no identity of its own - the invalid context.  (The
                # literal reading - valid context even then - is CANDIDATE_FINDINGS, strict_disabled=True.)
                if rec:
                    return ('disabled-tracer-records-nothing', f'{where}: {o}')
                if int(ctx['tid'], 16) != 0 or int(ctx['sid'], 16) != 0 or ctx['flags'] != 0 or ctx['remote'] or ctx['ts'] != '-':
                    return ('disabled-tracer-span-has-no-identity-of-its-own', f'{where}: {o}')
                spans.append({'ctx': ctx, 'rec': False, 'parent': None, 'ended': False})
                continue
            # --- identity
            if int(ctx['sid'], 16) == 0 and gen_ok:
                return ('fresh-non-zero-span-id', f'{where}: {o}')
            if ctx['sid'] in seen_sids and gen_ok:
                return ('fresh-non-zero-span-id', f'{where}: span id {ctx["sid"]} used before')
            if parent is not None:
                if ctx['tid'] != parent['tid']:
                    return ('child-has-the-parents-trace-id', f'{where}: got {ctx["tid"]} parent {parent["tid"]}.{parent["sid"]}')
            else:
                if gen_ok and (int(ctx['tid'], 16) == 0 or ctx['tid'] in seen_tids):
                    return ('root-starts-a-new-trace-with-fresh-non-zero-ids', f'{where}: {o}')
            if ctx['remote']:
                return ('new-span-context-is-local', f'{where}: {o}')
            # --- flags
            if ctx['flags'] & ~1:
                return ('only-w3c-level1-flag-bits', f'{where}: flags {ctx["flags"]:02x}')
            dec, sts = spec_decision(sampler, parent, name)
            sampled = bool(ctx['flags'] & 1)
            if dec is not None:
                if sampled != (dec == 2):
                    return ('sampled-flag-equals-sampler-decision', f'{where}: decision {dec}, flags {ctx["flags"]:02x}, parent flags '
                            + (f'{parent["flags"]:02x}' if parent else 'none'))
                if rec != (dec != 0):
                    return ('recording-iff-sampler-records', f'{where}: decision {dec}, rec {rec}')
            elif sampled != rec:
                return ('sampled-flag-equals-sampler-decision', f'{where}: ratio sampler: rec {rec} flags {ctx["flags"]:02x}')
            # --- trace state: the sampler's if given else the parent's
            want_ts = sts if sts not in ('null', None) else (parent['ts'] if parent is not None else '-')
            if ctx['ts'] != want_ts:
                return ('trace-state-is-the-samplers-if-given-else-the-parents', f'{where}: got {ctx["ts"]} want {want_ts}')
            if gen_ok and not valid(ctx):
                return ('every-started-span-exposes-a-valid-context', f'{where}: {o}')
            # "custom id generators": the ids are the configured generator's (here: the counter generator of the case header)
            if (int(ctx['sid'], 16) - sbase) % 2 ** 64 >= nstarts or (parent is None and (int(ctx['tid'], 16) - tbase) % 2 ** 128 >= nstarts):
                return ('ids-come-from-the-configured-generator', f'{where}: {o} (span base {sbase:x}, trace base {tbase:x}, {nstarts} starts)')
            seen_sids.add(ctx['sid']); seen_tids.add(ctx['tid'])
            spans.append({'ctx': ctx, 'rec': rec, 'parent': parent, 'ended': False})
        elif op[0] in ('scope', 'endscope'):
            t = int(op[1])
            if op[0] == 'scope':
                stacks[t].append(int(op[2]))
            else:
                stacks[t].pop()
            want = spans[stacks[t][-1]]['ctx']['sid'] if stacks[t] else '00' * 8
            if o != 'act=' + want:
                return ('each-thread-has-its-own-active-span-stack', f'{where}: got {o} want act={want}')
        elif op[0] == 'end':
            s = spans[int(op[1])]
            if s['rec'] and not s['ended']:
                c = s['ctx']
                psid = s['parent']['sid'] if s['parent'] is not None else '00' * 8
                want = f'exp={c["tid"]}.{c["sid"]}.{psid}.{c["flags"]:02x}.{c["ts"]}'
                if o != want:
                    if o.startswith('exp=') and o.split('.')[2] != psid:
                        return ('exported-parent-span-id-is-the-parents', f'{where}: got {o} want {want}')
                    return ('recorded-span-exported-once-with-its-identity', f'{where}: got {o} want {want}')
            elif o != 'noexp':
                return ('unrecorded-span-never-exported' if not s['rec'] else 'recorded-span-exported-once-with-its-identity', f'{where}: got {o}')
            s['ended'] = True
    want_final = [str(k) for k, s in enumerate(spans) if s['rec'] and not s['ended']]
    if obs[-1] != 'final=' + (','.join(want_final) or '-'):
        return ('unrecorded-span-never-exported', f'teardown: got {obs[-1]} want final={",".join(want_final) or "-"}')
    return None


def signature(case, out, clause):
    return clause


def nontrivial(case, out):
    if out.startswith('bad-op') or out.startswith('CRASH'):
        return False
    starts = re.findall(r's=(\S+) rec', out)
    tids = [s.split('.')[0] for s in starts]
    return len(tids) >= 2 and len(set(tids)) >= 2 and len(set(tids)) < len(tids)


LEVEL_TEXT = ('Lean 4 theorems over an executable model of Tracer::StartSpan (parent resolution, id draw order, flag and trace-state '
              'derivation, Span vs NoopSpan) and of the per-thread active-span stacks (Scope), for every sampler (built-in, parent-based, '
              'arbitrary custom function), every id-generator stream and every operation sequence: parent precedence explicit SpanContext > '
              'span in explicit Context > active span with the root marker suppressing the fallback; child/root identity; sampled flag = '
              'sampler decision and only the W3C level-1 bit (after the D03 repair; the pre-fix variant has a kernel-checked witness); trace '
              'state = sampler\'s if given else parent\'s; by induction over programs: span ids are the generator\'s successive answers, hence '
              'fresh, non-zero and contexts valid under the stated generator hypothesis, exported spans are exactly recorded ones, at most '
              'once, a dropped span still has a valid context; a thread\'s stack depends only on its own scope operations. Flag constants '
              'and the applied mask are re-extracted from the source each run; the model is tied to the code by differential runs of span-tree '
              'programs on real threads with a real TracerProvider under ASan/UBSan.')
LEVEL_NOTE = ('Trusted: Lean kernel; axioms propext/Quot.sound/Classical.choice at most; tools/gen_c05.py; harness, generators. Partial: '
              'freshness/non-zero ids are relative to the hypothesis that the IdGenerator returns non-zero pairwise-distinct ids (the random '
              'generator is only run, not modelled); thread-locality is exercised on real threads run one at a time, data races are not '
              'covered; a Context holding both a valid span and the root marker yields a child of that span (documented order in '
              'span_startoptions.h) - the theorem states this explicitly.')
DESIGN_REF = 'DESIGN.md section 4, C05; section 5, D03'
