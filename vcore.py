"""Core of the /verif machinery: one check run = DESIGN.md section 2.4.

 1 extract Gen/*.lean from the repo's working tree          (broken -> tie broken)
 2 lake build the property's theorems and the model driver  (broken -> proof broken)
 3 audit: #print axioms on every property theorem, forbidden tokens, census
 4 build the harness(es) from the repo's working tree (content-addressed cache)
 5 run corpus + generated cases: implementation || model, diff, implementation-side oracle
 6 evidence, verdict
"""
import fcntl, hashlib, importlib, json, os, random, re, shutil, subprocess, sys, threading, time, traceback
from concurrent.futures import ThreadPoolExecutor

VERIF = os.path.dirname(os.path.abspath(__file__))
LEAN = os.path.join(VERIF, 'lean')
CACHE = os.path.join(VERIF, '.cache')
REPO = os.environ.get('VERIF_REPO', '/repo')
DRIVER = os.path.join(LEAN, '.lake', 'build', 'bin', 'otel_model')
STATE = {'driver': DRIVER}
ALLOWED_AXIOMS = {'propext', 'Classical.choice', 'Quot.sound'}
FORBIDDEN = re.compile(r'\bsorry\b|\badmit\b|^\s*axiom\s|\bnative_decide\b|\bbv_decide\b|implemented_by|\bunsafe\s|maxHeartbeats\s+0\b', re.M)

sys.path.insert(0, os.path.join(VERIF, 'tools'))
import extract  # noqa: E402

CXX = os.environ.get('VERIF_CXX', 'g++')
BASE_FLAGS = ['-std=gnu++17', '-O1', '-g', '-fsanitize=address,undefined', '-fno-sanitize-recover=all',
              '-fno-omit-frame-pointer', '-DOPENTELEMETRY_ABI_VERSION_NO=1', '-Wno-deprecated-declarations']
# side mode of tools/covaudit.py ONLY (never set in a check run): harnesses are built with gcov instrumentation, -O0 and
# without sanitizers into their own object cache, so that the normal objects / binaries are not disturbed
COV = os.environ.get('VERIF_COVERAGE') == '1'
COV_DIR = os.environ.get('VERIF_COVERAGE_DIR') or os.path.join(CACHE, 'covobj')
COV_KEEP_INLINE = os.environ.get('VERIF_COVERAGE_KEEP_INLINE', '1') == '1'


def _cov_flags(flags, keep_inline=False):
    out = [f for f in flags if not (f in ('-O1', '-O2') or f.startswith('-fsanitize') or f.startswith('-fno-sanitize'))]
    return out + ['-O0', '--coverage', '-fprofile-abs-path'] + (['-fkeep-inline-functions'] if keep_inline else [])


SAN_ENV = {'ASAN_OPTIONS': 'detect_leaks=0:abort_on_error=0:exitcode=99:allocator_may_return_null=1',
           'UBSAN_OPTIONS': 'print_stacktrace=1:halt_on_error=1:exitcode=98'}


def log(*a):
    print('[check]', *a, file=sys.stderr, flush=True)


class Lock:
    def __init__(self, name):
        os.makedirs(CACHE, exist_ok=True)
        self.path = os.path.join(CACHE, name + '.lock')

    def __enter__(self):
        self.f = open(self.path, 'w')
        fcntl.flock(self.f, fcntl.LOCK_EX)
        return self

    def __exit__(self, *a):
        fcntl.flock(self.f, fcntl.LOCK_UN)
        self.f.close()


# ------------------------------------------------------------------------------------------------
# cases

class Case:
    __slots__ = ('line', 'harness', 'tags', 'origin')

    def __init__(self, line, harness, tags=(), origin='gen'):
        self.line = line
        self.harness = harness
        self.tags = tuple(tags)
        self.origin = origin


class Harness:
    """a C++ harness built from the repo's working tree.
    srcs: harness .cc files (relative to /verif); sdk_srcs: repo-relative .cc files compiled with it;
    flags: extra flags; pre_include: a header forced in front (Engine D shim)."""

    def __init__(self, name, srcs, sdk_srcs=(), flags=(), includes=('api/include',), libs=('-pthread',), sdk_flags=(), plain_srcs=()):
        self.name = name
        self.srcs = list(srcs)
        self.sdk_srcs = list(sdk_srcs)
        self.flags = list(flags)
        self.includes = list(includes)
        self.libs = list(libs)
        self.sdk_flags = list(sdk_flags)
        self.plain_srcs = list(plain_srcs)   # /verif-relative sources compiled with BASE_FLAGS only (e.g. the scheduler)


class BuildError(Exception):
    pass


SDK_INCLUDES = ('api/include', 'sdk/include', 'sdk', 'ext/include', 'exporters/memory/include', 'exporters/ostream/include')
_SDK_SKIP = {'sdk/src/common/platform/fork_windows.cc'}


def sdk_sources(*groups, repo=None):
    """repo-relative .cc files of sdk/src/<group> (recursively), e.g. sdk_sources('common', 'resource', 'trace', 'version').
    The set is globbed from the working tree on every run, so added/removed files are followed."""
    repo = repo or REPO
    out = []
    for g in groups:
        base = os.path.join(repo, 'sdk', 'src', g)
        for dp, _, fns in os.walk(base):
            for fn in sorted(fns):
                if fn.endswith('.cc'):
                    rel = os.path.relpath(os.path.join(dp, fn), repo)
                    if rel not in _SDK_SKIP:
                        out.append(rel)
    return sorted(out)


def _run(cmd, **kw):
    return subprocess.run(cmd, stdout=subprocess.PIPE, stderr=subprocess.PIPE, text=True, **kw)


def _compile_obj(src_abs, flags, incs):
    """content-addressed: key = sha256(preprocessed TU + flags)"""
    if COV:
        return _compile_obj_cov(src_abs, flags, incs)
    os.makedirs(os.path.join(CACHE, 'obj'), exist_ok=True)
    cmd = [CXX] + flags + incs
    pp = subprocess.run(cmd + ['-E', '-P', src_abs], stdout=subprocess.PIPE, stderr=subprocess.PIPE)
    if pp.returncode != 0:
        raise BuildError(f'preprocess {src_abs}:\n' + pp.stderr.decode(errors='replace')[-4000:])
    key = hashlib.sha256(pp.stdout + b'\0' + ' '.join(flags).encode()).hexdigest()[:32]
    obj = os.path.join(CACHE, 'obj', key + '.o')
    if os.path.exists(obj):
        return obj, True
    tmp = obj + f'.tmp{os.getpid()}'
    r = _run(cmd + ['-c', src_abs, '-o', tmp])
    if r.returncode != 0:
        raise BuildError(f'compile {src_abs}:\n' + r.stderr[-6000:])
    os.replace(tmp, obj)
    return obj, False


def _compile_obj_cov(src_abs, flags, incs):
    """coverage side mode: same content addressing, objects (+ .gcno / .gcda beside them) under COV_DIR; compiled straight
    to the final name because gcc derives the .gcno / .gcda names from the output name"""
    os.makedirs(COV_DIR, exist_ok=True)
    cmd = [CXX] + flags + incs
    pp = subprocess.run(cmd + ['-E', '-P', src_abs], stdout=subprocess.PIPE, stderr=subprocess.PIPE)
    if pp.returncode != 0:
        raise BuildError(f'preprocess {src_abs}:\n' + pp.stderr.decode(errors='replace')[-4000:])
    key = hashlib.sha256(pp.stdout + b'\0' + ' '.join(flags).encode()).hexdigest()[:32]
    obj = os.path.join(COV_DIR, key + '.o')
    if os.path.exists(obj) and os.path.exists(obj[:-2] + '.gcno'):
        return obj, True
    r = _run(cmd + ['-c', src_abs, '-o', obj])
    if r.returncode != 0:
        for f in (obj, obj[:-2] + '.gcno'):
            if os.path.exists(f):
                os.remove(f)
        raise BuildError(f'compile {src_abs}:\n' + r.stderr[-6000:])
    with open(obj[:-2] + '.src', 'w') as f:
        f.write(src_abs + '\n')
    return obj, False


def build_harness(h: Harness, repo=None):
    repo = repo or REPO
    if COV:
        return _build_harness_cov(h, repo)
    incs = ['-I' + os.path.join(repo, i) for i in h.includes] + ['-I' + os.path.join(VERIF, 'harness')]
    jobs = [(os.path.join(VERIF, s), BASE_FLAGS + h.flags) for s in h.srcs]
    jobs += [(os.path.join(repo, s), BASE_FLAGS + h.flags + h.sdk_flags) for s in h.sdk_srcs]
    jobs += [(os.path.join(VERIF, s), BASE_FLAGS) for s in h.plain_srcs]
    t0 = time.time()
    with ThreadPoolExecutor(max_workers=16) as ex:
        futs = [ex.submit(_compile_obj, s, f, incs) for s, f in jobs]
        res = []
        errs = []
        for f in futs:
            try:
                res.append(f.result())
            except BuildError as e:
                errs.append(str(e))
        if errs:
            raise BuildError('\n'.join(errs))
    objs = [o for o, _ in res]
    key = hashlib.sha256((' '.join(objs) + ' '.join(h.libs)).encode()).hexdigest()[:24]
    os.makedirs(os.path.join(CACHE, 'bin'), exist_ok=True)
    exe = os.path.join(CACHE, 'bin', f'{h.name}-{key}')
    if not os.path.exists(exe):
        tmp = exe + f'.tmp{os.getpid()}'
        r = _run([CXX] + BASE_FLAGS + objs + h.libs + ['-o', tmp])
        if r.returncode != 0:
            raise BuildError('link:\n' + r.stderr[-4000:])
        os.replace(tmp, exe)
    log(f'harness {h.name}: {sum(1 for _, c in res if c)}/{len(res)} objects cached, {time.time() - t0:.1f}s')
    return exe


def _build_harness_cov(h, repo):
    incs = ['-I' + os.path.join(repo, i) for i in h.includes] + ['-I' + os.path.join(VERIF, 'harness')]
    jobs = [(os.path.join(VERIF, s), _cov_flags(BASE_FLAGS + h.flags, COV_KEEP_INLINE)) for s in h.srcs]
    jobs += [(os.path.join(repo, s), _cov_flags(BASE_FLAGS + h.flags + h.sdk_flags)) for s in h.sdk_srcs]
    jobs += [(os.path.join(VERIF, s), _cov_flags(BASE_FLAGS)) for s in h.plain_srcs]
    jobs += [(os.path.join(VERIF, 'harness', 'cov_exit.cc'), ['-O0', '-g'])]     # __wrap__exit: flush counters before _exit
    t0 = time.time()
    with ThreadPoolExecutor(max_workers=16) as ex:
        futs = [ex.submit(_compile_obj, s, f, incs) for s, f in jobs]
        res, errs = [], []
        for f in futs:
            try:
                res.append(f.result())
            except BuildError as e:
                errs.append(str(e))
        if errs:
            raise BuildError('\n'.join(errs))
    objs = [o for o, _ in res]
    key = hashlib.sha256((' '.join(objs) + ' '.join(h.libs)).encode()).hexdigest()[:24]
    os.makedirs(os.path.join(COV_DIR, 'bin'), exist_ok=True)
    exe = os.path.join(COV_DIR, 'bin', f'{h.name}-{key}')
    if not os.path.exists(exe):
        r = _run([CXX, '-O0', '-g', '--coverage', '-Wl,--wrap=_exit'] + objs + h.libs + ['-o', exe])
        if r.returncode != 0:
            raise BuildError('link:\n' + r.stderr[-4000:])
    log(f'harness {h.name} (coverage build): {sum(1 for _, c in res if c)}/{len(res)} objects cached, {time.time() - t0:.1f}s')
    return exe


# ------------------------------------------------------------------------------------------------
# Lean side

def lean_strip_comments(txt):
    out = []
    i, n, depth = 0, len(txt), 0
    while i < n:
        if txt.startswith('/-', i):
            depth += 1; i += 2; continue
        if depth and txt.startswith('-/', i):
            depth -= 1; i += 2; continue
        if depth:
            if txt[i] == '\n':
                out.append('\n')
            i += 1; continue
        if txt.startswith('--', i):
            j = txt.find('\n', i)
            i = n if j < 0 else j
            continue
        if txt[i] == '"':
            j = i + 1
            while j < n and txt[j] != '"':
                j += 2 if txt[j] == '\\' else 1
            out.append('""'); i = j + 1; continue
        out.append(txt[i]); i += 1
    return ''.join(out)


def forbidden_tokens():
    hits = []
    for root in (os.path.join(LEAN, 'OtelVerif'), os.path.join(LEAN, 'Driver')):
        for dp, _, fns in os.walk(root):
            for fn in fns:
                if fn.endswith('.lean'):
                    p = os.path.join(dp, fn)
                    body = lean_strip_comments(open(p, encoding='utf-8').read())
                    for m in FORBIDDEN.finditer(body):
                        ln = body.count('\n', 0, m.start()) + 1
                        hits.append(f'{os.path.relpath(p, LEAN)}:{ln}: {m.group(0).strip()}')
    return hits


def lake_build(targets):
    t0 = time.time()
    r = _run(['lake', 'build'] + list(targets), cwd=LEAN)
    ok = r.returncode == 0
    out = (r.stdout + r.stderr)
    log(f'lake build {" ".join(targets)}: {"ok" if ok else "FAILED"} {time.time() - t0:.1f}s')
    return ok, out


def audit_axioms(prop_id, imports, theorems):
    """returns (per-theorem axioms dict, problems list)"""
    os.makedirs(os.path.join(CACHE, 'audit'), exist_ok=True)
    path = os.path.join(CACHE, 'audit', f'{prop_id}.lean')
    with open(path, 'w') as f:
        for i in imports:
            f.write(f'import {i}\n')
        for t in theorems:
            f.write(f'#print axioms {t}\n')
    r = _run(['lake', 'env', 'lean', path], cwd=LEAN)
    out = r.stdout + r.stderr
    axioms, problems = {}, []
    # "'X' depends on axioms: [a, b]"   or   "'X' does not depend on any axioms"
    for m in re.finditer(r"'([^']+)' depends on axioms: \[([^\]]*)\]", out, re.S):
        axioms[m.group(1)] = [a.strip() for a in m.group(2).replace('\n', ' ').split(',') if a.strip()]
    for m in re.finditer(r"'([^']+)' does not depend on any axioms", out):
        axioms[m.group(1)] = []
    for t in theorems:
        if t not in axioms:
            problems.append(f'theorem {t} missing or not checkable')
        else:
            bad = [a for a in axioms[t] if a not in ALLOWED_AXIOMS]
            if bad:
                problems.append(f'theorem {t} depends on disallowed axioms {bad}')
    if r.returncode != 0 and not problems:
        problems.append('audit file failed: ' + out[-1500:])
    return axioms, problems, out


# ------------------------------------------------------------------------------------------------
# running cases

def _run_proc(exe, data, env, total, stall):
    """run one harness / driver process on `data`; kill it when it has written nothing for `stall` seconds (a hang: every
    answer line is flushed as soon as it is computed) or after `total` seconds.  returns (rc, stdout, stderr); rc -999 = killed"""
    rd = os.path.join(CACHE, 'run')
    os.makedirs(rd, exist_ok=True)
    tag = f'{os.getpid()}.{threading.get_ident()}'
    fi, fo, fe = (os.path.join(rd, f'{k}.{tag}') for k in ('in', 'out', 'err'))
    with open(fi, 'wb') as f:
        f.write(data)
    killed = False
    with open(fi, 'rb') as i, open(fo, 'wb') as o, open(fe, 'wb') as e:
        p = subprocess.Popen([exe], stdin=i, stdout=o, stderr=e, env=env)
        t0 = last = time.time()
        size = 0
        while True:
            try:
                p.wait(timeout=0.25)
                break
            except subprocess.TimeoutExpired:
                pass
            now = time.time()
            sz = os.path.getsize(fo)
            if sz != size:
                size, last = sz, now
            if now - last > stall or now - t0 > total:
                p.kill()
                p.wait()
                killed = True
                break
    so = open(fo, 'rb').read()
    se = open(fe, 'rb').read()
    for f in (fi, fo, fe):
        try:
            os.remove(f)
        except OSError:
            pass
    return (-999 if killed else p.returncode), so, se + (b'\nTIMEOUT' if killed else b'')


def run_lines(exe, lines, env_extra=None, timeout=None, stall=45, max_crashes=8, max_hangs=3):
    """feed lines, one output line per input line.  A crash (sanitizer abort, signal) or a hang is attributed to
    the case after the last complete output line; that case gets 'CRASH …' and the run resumes in a fresh process.  After
    `max_crashes` of them the call returns what it has (the remaining lines are not evaluated): a tree on which every
    other case hangs or aborts has been shown broken long before, and the check must end."""
    outs = []
    crashes = []
    env = dict(os.environ)
    env.update(SAN_ENV)
    if env_extra:
        env.update(env_extra)
    i = 0
    n = len(lines)
    while i < n:
        if len(crashes) >= max_crashes or sum(1 for c in crashes if c['kind'] == 'timeout') >= max_hangs:
            break
        chunk = lines[i:]
        data = ('\n'.join(chunk) + '\n').encode()
        rc, so, se = _run_proc(exe, data, env, timeout or max(90, 0.02 * len(chunk)), stall)
        # the piece after the last newline is a partial line (or empty): drop it
        complete = so.decode(errors='replace').split('\n')[:-1]
        complete = complete[:len(chunk)]
        outs.extend(complete)
        i += len(complete)
        if len(complete) < len(chunk) and rc == 77:
            continue   # the harness asked for a fresh process after answering its last case (e.g. parked threads left over)
        if len(complete) < len(chunk):
            err = se.decode(errors='replace')
            kind = 'timeout' if rc == -999 else classify_crash(err, rc)
            if kind == 'timeout':
                # silent for `stall` seconds: the case hangs - or the machine was busy.  Run the one case alone, with twice the
                # patience, before calling it a hang; if it answers, that answer stands
                rc2, so2, _se2 = _run_proc(exe, (lines[i] + '\n').encode(), env, 300, stall * 2)
                alone = so2.decode(errors='replace').split('\n')[:-1]
                if alone:
                    outs.append(alone[0])
                    i += 1
                    continue
            outs.append('CRASH ' + kind)
            crashes.append({'index': i, 'line': lines[i], 'rc': rc, 'kind': kind, 'stderr_tail': err[-3000:]})
            i += 1
        elif rc != 0:
            # all lines answered but the process ended abnormally (e.g. at exit)
            err = se.decode(errors='replace')
            crashes.append({'index': None, 'line': None, 'rc': rc, 'kind': classify_crash(err, rc), 'stderr_tail': err[-3000:]})
            break
    return outs, crashes


def classify_crash(err, rc):
    m = re.search(r'ERROR: AddressSanitizer: ([\w-]+)', err)
    if m:
        return 'asan:' + m.group(1)
    m = re.search(r'runtime error: ([^\n]{0,80})', err)
    if m:
        return 'ubsan:' + re.sub(r'0x[0-9a-f]+', 'ADDR', m.group(1)).strip().replace(' ', '_')[:60]
    if 'terminate called' in err:
        return 'terminate'
    return f'exit:{rc}'


# ------------------------------------------------------------------------------------------------
# known findings

def load_known(prop_id):
    path = os.path.join(VERIF, 'KNOWN_FINDINGS.txt')
    res = []
    if os.path.exists(path):
        for ln in open(path, encoding='utf-8'):
            ln = ln.strip()
            m = re.match(r'finding:\s+property=(\S+)\s+sig=(\S+)\s+(.*)', ln)
            if m and m.group(1) == prop_id:
                res.append({'sig': m.group(2), 'what': m.group(3)})
    return res


# ------------------------------------------------------------------------------------------------
# shrinking (generic): drop ops, then shorten hex tokens

def shrink_line(line, still_fails, budget=150):
    best = line
    used = 0

    def attempt(cand):
        nonlocal best, used
        if used >= budget or cand == best:
            return False
        used += 1
        if still_fails(cand):
            best = cand
            return True
        return False

    # 1. ops
    changed = True
    while changed and used < budget:
        changed = False
        toks = best.split(' ')
        head, ops = toks[0], ' '.join(toks[1:]).split(' ; ')
        if len(ops) > 1:
            for i in range(len(ops) - 1, -1, -1):
                cand = head + ' ' + ' ; '.join(ops[:i] + ops[i + 1:])
                if attempt(cand):
                    changed = True
                    break
    # 2. hex tokens: halve, then drop single bytes
    changed = True
    while changed and used < budget:
        changed = False
        toks = best.split(' ')
        for ti, t in enumerate(toks):
            if len(t) >= 4 and re.fullmatch(r'[0-9a-f]+', t) and len(t) % 2 == 0:
                nb = len(t) // 2
                for a, b in ((0, nb // 2), (nb // 2, nb)):
                    cand_t = t[:2 * a] + t[2 * b:]
                    cand = ' '.join(toks[:ti] + [cand_t or '-'] + toks[ti + 1:])
                    if attempt(cand):
                        changed = True
                        break
                if changed:
                    break
    return best


# ------------------------------------------------------------------------------------------------
# the check

class Result:
    pass


def write_json(path, obj):
    os.makedirs(os.path.dirname(path), exist_ok=True)
    tmp = path + '.tmp'
    with open(tmp, 'w') as f:
        json.dump(obj, f, indent=1, sort_keys=False)
        f.write('\n')
    os.replace(tmp, path)


def _oracle_fails(P, c, io):
    try:
        res = P.oracle(c, io)
    except Exception as e:
        res = ('oracle-exception', f'{type(e).__name__}: {e}')
    if io.startswith('CRASH') and res is None:
        res = ('no-crash', io)
    return res


def evaluate(P, cases, exes, want_model=True, budget_s=600, stop_after=40, chunk=1000, known_sigs=()):
    """run cases on implementation and model, chunk by chunk.  Stops early (remaining cases stay None = not
    evaluated) once `stop_after` oracle failures are in hand or the wall-clock budget is used up: a broken tree must
    not turn a 1-minute check into hours."""
    t_end = time.time() + budget_s
    by_h = {}
    for idx, c in enumerate(cases):
        by_h.setdefault(c.harness, []).append(idx)
    impl = [None] * len(cases)
    crashes = []
    nfail = 0
    stopped = None
    for hname, idxs in by_h.items():
        for off in range(0, len(idxs), chunk):
            if nfail >= stop_after:
                stopped = stopped or f'stopped after {nfail} oracle failures'
                break
            if sum(1 for c in crashes if c.get('kind') == 'timeout') >= 3:
                stopped = stopped or 'stopped after 3 hangs (each one costs the stall timeout)'
                break
            if time.time() > t_end:
                stopped = stopped or f'time budget of {budget_s}s used up'
                break
            part = idxs[off:off + chunk]
            outs, cr = run_lines(exes[hname], [cases[i].line for i in part], env_extra=getattr(P, 'HARNESS_ENV', None),
                                 timeout=max(60, 0.2 * len(part)))
            for i, o in zip(part, outs):
                impl[i] = o
                rf = _oracle_fails(P, cases[i], o)
                if rf is not None:
                    sg = P.signature(cases[i], o, rf[0]) if hasattr(P, 'signature') else rf[0]
                    if sg not in known_sigs:      # listed findings must not cut the run short
                        nfail += 1
            for c in cr:
                if c['index'] is not None:
                    c['case_index'] = part[c['index']]
                crashes.append(c)
    model = [None] * len(cases)
    model_crashes = []
    if want_model:
        done = [i for i, o in enumerate(impl) if o is not None]
        for off in range(0, len(done), 5000):
            part = done[off:off + 5000]
            if hasattr(P, 'model_line'):
                # the model runs on the implementation's own history (refinement check): its input is derived from
                # the case and the implementation's trace
                mlines = []
                for i in part:
                    try:
                        mlines.append(P.model_line(cases[i], impl[i]))
                    except Exception as e:
                        mlines.append('unabstractable ' + type(e).__name__)
            else:
                mlines = [cases[i].line for i in part]
            outs, mc = run_lines(STATE['driver'], mlines, timeout=max(60, 0.05 * len(part)))
            for i, o in zip(part, outs):
                model[i] = o
            model_crashes.extend(mc)
    if stopped:
        log('evaluation', stopped, f'({sum(1 for o in impl if o is not None)}/{len(cases)} cases evaluated)')
    return impl, model, crashes, model_crashes


def run_check(prop_id, tier, seed, replay=None):
    t0 = time.time()
    P = importlib.import_module('props.' + prop_id.lower())
    rng = random.Random(seed * 1000003 + int(prop_id[1:]))
    ev_path = os.path.join(os.environ.get('VERIF_EVIDENCE_DIR') or os.path.join(VERIF, 'evidence'), f'{prop_id}.json')   # the override is for runs against scratch trees (seedcheck)
    broken = []       # reasons the proof/tie is broken (strings)
    notes = []
    lean_log = ''

    # 1-3: Lean side, under a lock (Gen files and .lake are shared)
    with Lock('lean'):
        changed, errs = extract.extract_all(REPO, only=set(P.GEN) if getattr(P, 'GEN', None) is not None else None)
        if changed:
            notes.append(f'Gen fragments changed since last run: {changed}')
            log('Gen changed:', changed)
        shape_changed = [e[6:] for e in errs if e.startswith('SHAPE ')]
        for e in errs:
            if not e.startswith('SHAPE '):
                broken.append({'kind': 'extraction', 'what': e})
        for e in shape_changed:
            notes.append(f'source text changed shape, committed fragment kept, correspondence run escalated: {e}')
            log('shape changed (not a verdict; the correspondence run is escalated):', e)
        STATE['shape_changed'] = shape_changed
        ok, out = lake_build(list(P.LEAN_TARGETS) + ['otel_model'])
        lean_log = out
        proof_ok = ok
        if not ok:
            # which theorem/module?
            errs_found = re.findall(r'error: ([^\n]*\.lean:\d+:\d+:[^\n]*)', out)
            broken.append({'kind': 'lean-build', 'what': '; '.join(errs_found[:6]) or out[-1500:]})
        axioms, problems, audit_out = ({}, [], '')
        if ok:
            axioms, problems, audit_out = audit_axioms(prop_id, P.LEAN_TARGETS, P.THEOREMS)
            for p in problems:
                broken.append({'kind': 'audit', 'what': p})
        fb = forbidden_tokens()
        for h in fb:
            broken.append({'kind': 'forbidden-token', 'what': h})
        driver_ok = os.path.exists(DRIVER) and ok
        if tier == 'thorough' and ok and not os.environ.get('VERIF_NO_LEANCHECKER'):
            for mod in P.LEAN_TARGETS:
                r = _run(['lake', 'env', 'leanchecker', mod], cwd=LEAN)
                if r.returncode != 0:
                    broken.append({'kind': 'leanchecker', 'what': f'{mod}: ' + (r.stdout + r.stderr)[-800:]})
                else:
                    notes.append(f'leanchecker {mod}: ok')
        if not driver_ok:
            # try to build just the driver so the correspondence can still run
            ok2, out2 = lake_build(['otel_model'])
            driver_ok = ok2 and os.path.exists(DRIVER)
        # snapshot the driver so that a concurrent check of another property cannot swap it under us
        drv = None
        if driver_ok:
            os.makedirs(os.path.join(CACHE, 'run'), exist_ok=True)
            drv = os.path.join(CACHE, 'run', f'otel_model.{prop_id}.{os.getpid()}')
            shutil.copy2(DRIVER, drv)
    if drv:
        STATE['driver'] = drv
    try:
        return _run_cases(P, prop_id, tier, seed, rng, t0, broken, notes, axioms, drv is not None, ev_path, replay, lean_log)
    finally:
        STATE['driver'] = DRIVER
        if drv and os.path.exists(drv):
            os.unlink(drv)


def _run_cases(P, prop_id, tier, seed, rng, t0, broken, notes, axioms, driver_ok, ev_path, replay, lean_log):
    # 4: harnesses
    exes = {}
    for h in P.HARNESSES:
        try:
            with Lock('h_' + h.name):
                exes[h.name] = build_harness(h)
        except BuildError as e:
            broken.append({'kind': 'harness-build', 'what': f'{h.name}: does not compile against the current tree', 'log': str(e)[-4000:]})
    # 5: cases
    cases = []
    if replay:
        rp = json.load(open(replay))
        for ln in rp.get('case', []):
            hn = rp.get('harness') or P.HARNESSES[0].name
            cases.append(Case(ln, hn, ('replay',), 'replay'))
    else:
        cases.extend(P.corpus())
        # entries on which the code's tabulated graph and the model's graph differ (tools/tabdiff.py): empty on an unchanged
        # or harmlessly rewritten tree; otherwise the differing inputs are judged by the oracle like any other case
        try:
            import tabdiff
            for hn, ln, tb in tabdiff.cases(prop_id, REPO, STATE['driver'] if driver_ok else None):
                cases.append(Case(ln, hn, ('tabdiff', tb), 'tabdiff'))
        except Exception as e:
            notes.append(f'tabdiff failed: {type(e).__name__}: {e}')
        cdir = os.path.join(VERIF, 'corpus', prop_id)
        if os.path.isdir(cdir):
            for fn in sorted(os.listdir(cdir)):
                if fn.endswith('.case'):
                    for ln in open(os.path.join(cdir, fn)):
                        ln = ln.rstrip('\n')
                        if ln and not ln.startswith('#'):
                            hn, _, body = ln.partition('\t')
                            cases.append(Case(body, hn, ('corpus', fn), 'corpus'))
        cases.extend(P.generate(rng, tier))
    cases = [c for c in cases if c.harness in exes]
    impl, model, crashes, model_crashes = evaluate(P, cases, exes, want_model=driver_ok, budget_s=(420 if tier == 'quick' else 5400),
                                                   known_sigs={k['sig'] for k in load_known(prop_id)})
    not_evaluated = sum(1 for o in impl if o is None)
    if not_evaluated:
        notes.append(f'{not_evaluated} generated cases were not evaluated (early stop after failures / time budget)')
    if model_crashes:
        broken.append({'kind': 'model-driver', 'what': f'model driver failed on {len(model_crashes)} case(s): ' + str(model_crashes[0])[:500]})

    known = load_known(prop_id)
    failures = []      # oracle failures: dict(case, impl, model, clause, detail, sig)
    disagreements = []
    nontrivial = set()
    tagcount = {}
    for c, io, mo in zip(cases, impl, model):
        for t in c.tags:
            tagcount[t] = tagcount.get(t, 0) + 1
        if io is None:
            continue
        res = _oracle_fails(P, c, io)
        if res is not None:
            clause, detail = res
            failures.append({'case': c, 'impl': io, 'model': mo, 'clause': clause, 'detail': detail,
                             'sig': P.signature(c, io, clause) if hasattr(P, 'signature') else clause})
        if mo is not None and not (P.agree(c, io, mo) if hasattr(P, 'agree') else io == mo):
            disagreements.append({'case': c, 'impl': io, 'model': mo})
        try:
            if P.nontrivial(c, io):
                nontrivial.add(hashlib.sha1(c.line.encode()).hexdigest())
        except Exception:
            pass

    # escalation: an extractor no longer found the text it looks for (tools/extract.py ShapeChanged).  Nothing is known to
    # have changed in value; what has to be re-established is that the model still mirrors the code, and that is what the
    # differential run shows - so run more of it (fresh generated cases, model AND implementation, oracle on every case).
    escalated = 0
    _known_sigs0 = {k0['sig'] for k0 in known}
    if STATE.get('shape_changed') and not [f for f in failures if f['sig'] not in _known_sigs0] and not disagreements and not broken and not replay and exes and driver_ok:
        budget_s = 240 if tier == 'quick' else 1800
        ts = time.time()
        k = 0
        while time.time() - ts < budget_s and not [f for f in failures if f['sig'] not in _known_sigs0] and not disagreements and k < 6:
            k += 1
            r2 = random.Random(rng.random())
            extra = [c for c in P.generate(r2, 'quick') if c.harness in exes]
            im2, mo2, _, mc2 = evaluate(P, extra, exes, want_model=True, budget_s=max(30, budget_s - (time.time() - ts)))
            if mc2:
                broken.append({'kind': 'model-driver', 'what': f'model driver failed on {len(mc2)} case(s): ' + str(mc2[0])[:500]})
            for c, io, mo in zip(extra, im2, mo2):
                if io is None:
                    continue
                escalated += 1
                res = _oracle_fails(P, c, io)
                if res is not None:
                    failures.append({'case': c, 'impl': io, 'model': mo, 'clause': res[0], 'detail': res[1],
                                     'sig': P.signature(c, io, res[0]) if hasattr(P, 'signature') else res[0]})
                if mo is not None and not (P.agree(c, io, mo) if hasattr(P, 'agree') else io == mo):
                    disagreements.append({'case': c, 'impl': io, 'model': mo})
        known0 = {k0['sig'] for k0 in known}
        if any(f['sig'] not in known0 for f in failures) or disagreements:
            broken.append({'kind': 'extraction', 'what': 'shape changed and the escalated correspondence run no longer agrees: ' + '; '.join(STATE['shape_changed'])})
        notes.append(f'escalated correspondence run: {escalated} further cases, {len(disagreements)} disagreements, {len(failures)} oracle failures')
        log(f'escalated correspondence run: {escalated} further cases, {len(disagreements)} disagreements, {len(failures)} oracle failures')

    # search when the proof or the tie is broken but no failing input is in hand
    searched = 0
    if not failures and (disagreements or broken) and not replay and exes:
        log('proof/tie broken without a failing input in hand: searching')
        budget_s = 150 if tier == "quick" else 900
        ts = time.time()
        k = 0
        while time.time() - ts < budget_s and not failures:
            k += 1
            r2 = random.Random(rng.random())
            extra = []
            if hasattr(P, 'mutate_around'):
                for d in disagreements[:20]:
                    extra.extend(P.mutate_around(d['case'], r2))
            extra.extend(P.generate(r2, 'quick'))
            extra = [c for c in extra if c.harness in exes]
            im2, _, _, _ = evaluate(P, extra, exes, want_model=False, budget_s=max(20, budget_s - (time.time() - ts)), stop_after=1)
            searched += len(extra)
            for c, io in zip(extra, im2):
                if io is None:
                    continue
                res = _oracle_fails(P, c, io)
                if res is not None:
                    failures.append({'case': c, 'impl': io, 'model': None, 'clause': res[0], 'detail': res[1],
                                     'sig': P.signature(c, io, res[0]) if hasattr(P, 'signature') else res[0]})
            if k >= 8:
                break

    known_sigs = {k['sig']: k for k in known}
    known_hit = {}
    new_fail = []
    for f in failures:
        if f['sig'] in known_sigs:
            known_hit.setdefault(f['sig'], f)
        else:
            new_fail.append(f)

    wall = time.time() - t0
    violation = None
    exit_code = 0
    for sig, f in known_hit.items():
        print(f'KNOWN-FINDING: property={prop_id} sig={sig} {known_sigs[sig]["what"]}')
    rdir = os.path.join(VERIF, 'replays', prop_id)
    if new_fail:
        f = new_fail[0]
        hname = f['case'].harness
        line = f['case'].line

        def still(cand):
            o, _ = run_lines(exes[hname], [cand], env_extra=getattr(P, 'HARNESS_ENV', None))
            cc = Case(cand, hname, f['case'].tags)
            try:
                r = P.oracle(cc, o[0])
            except Exception:
                return False
            if o[0].startswith('CRASH') and r is None:
                r = ('no-crash', o[0])
            if r is None or o[0].startswith('bad-op'):
                return False
            s = P.signature(cc, o[0], r[0]) if hasattr(P, 'signature') else r[0]
            return s == f['sig']
        small = line
        try:
            if getattr(P, 'SHRINK', True):
                small = shrink_line(line, still)
        except Exception as e:
            notes.append(f'shrink failed: {e}')
        o_small, _ = run_lines(exes[hname], [small], env_extra=getattr(P, 'HARNESS_ENV', None))
        m_small = None
        if driver_ok:
            try:
                ml = P.model_line(Case(small, hname), o_small[0]) if hasattr(P, 'model_line') else small
                ms, _ = run_lines(STATE['driver'], [ml])
                m_small = ms[0] if ms else None
            except Exception:
                m_small = None
        h = hashlib.sha1(small.encode()).hexdigest()[:12]
        rpath = os.path.join(rdir, f'{h}.json')
        write_json(rpath, {
            'property': prop_id, 'kind': 'failing-input', 'harness': hname,
            'harness_cmd': f'python3 check.py {prop_id} --replay replays/{prop_id}/{h}.json',
            'case': [small], 'observed': o_small[0] if o_small else None, 'expected_by_model': m_small,
            'oracle_clause': f['clause'], 'detail': f['detail'], 'signature': f['sig'], 'seed': seed,
            'shrunk_from': line if small != line else None,
            'broken': broken, 'other_failures': len(new_fail) - 1})
        violation = f'VIOLATION property={prop_id} replay={rpath}'
        exit_code = 1
    elif disagreements or broken:
        d = disagreements[0] if disagreements else None
        what = json.dumps([b['what'] for b in broken] + ([d['case'].line] if d else []))
        h = hashlib.sha1(what.encode()).hexdigest()[:12]
        rpath = os.path.join(rdir, f'broken-{h}.json')
        write_json(rpath, {
            'property': prop_id, 'kind': 'broken-tie',
            'theorem_or_correspondence': ([b for b in broken] or []) + (
                [{'kind': 'correspondence', 'what': f'model and implementation differ on {len(disagreements)} case(s)',
                  'harness': d['case'].harness, 'first': {'case': d['case'].line, 'implementation': d['impl'], 'model': d['model']}}] if d else []),
            'case': [d['case'].line] if d else [], 'harness': d['case'].harness if d else None,
            'searched_cases_without_oracle_failure': searched + len(cases), 'seed': seed,
            'lean_log_tail': lean_log[-3000:] if any(b['kind'] == 'lean-build' for b in broken) else None})
        violation = f'VIOLATION property={prop_id} replay={rpath} no-failing-input-found'
        exit_code = 1

    # evidence
    n_thm = len(P.THEOREMS)
    discharged = sum(1 for t in P.THEOREMS if t in axioms and all(a in ALLOWED_AXIOMS for a in axioms[t])) \
        if not any(b['kind'] in ('lean-build', 'forbidden-token') for b in broken) else 0
    used_axioms = sorted({a for t in P.THEOREMS for a in axioms.get(t, [])})
    samples = []
    seen_tags = set()
    for c, io, mo in zip(cases, impl, model):
        key = c.tags[:1]
        if key not in seen_tags and len(samples) < 12:
            seen_tags.add(key)
            samples.append({'case': c.line[:600], 'implementation': (io or '')[:600], 'model': (mo or '')[:600], 'tags': list(c.tags)})
    ev = {
        'property_id': prop_id, 'tier': tier, 'seed': seed, 'level': 'proof',
        'coverage': {
            'obligations': n_thm, 'discharged': discharged,
            'checker_cmd': f'cd lean && lake build {" ".join(P.LEAN_TARGETS)} && lake env lean .cache/audit/{prop_id}.lean  (#print axioms on every listed theorem)'
                           + (' && lake env leanchecker <module>' if tier == 'thorough' else ''),
            'trusted_base': ['Lean 4.33 kernel', 'axioms used by the listed theorems: ' + (', '.join(used_axioms) or 'none'),
                             'tools/extract.py (source -> Gen fragments)', 'correspondence harness + generators + canonicalisation',
                             'Lean compiler/runtime for the executable model driver'] + list(getattr(P, 'TRUSTED', [])),
            'theorems': {t: axioms.get(t) for t in P.THEOREMS},
            'evaluations': sum(1 for o in impl if o is not None) + searched, 'distinct_nontrivial': len(nontrivial),
            'rule': getattr(P, 'RULE', ''), 'samples': samples,
            'traces_validated_against_impl': sum(1 for c, io, mo in zip(cases, impl, model) if io is not None and mo is not None and (P.agree(c, io, mo) if hasattr(P, 'agree') else io == mo)),
            'disagreements': len(disagreements), 'oracle_failures': len(failures),
            'known_findings_reproduced': sorted(known_hit), 'sanitizer_or_crash_cases': len(crashes),
            'case_tag_distribution': dict(sorted(tagcount.items(), key=lambda kv: -kv[1])[:40]),
            'broken': [b['what'][:300] for b in broken], 'notes': notes,
            'harnesses': {k: os.path.basename(v) for k, v in exes.items()},
            'repo': REPO,
        },
        'assumptions': list(getattr(P, 'ASSUMPTIONS', [])),
        'wall_s': round(wall, 2), 'violations': (1 if violation else 0),
    }
    write_json(ev_path, ev)
    log(f'{prop_id} {tier}: {len(cases)} cases, {len(disagreements)} disagreements, {len(failures)} oracle failures '
        f'({len(new_fail)} new), theorems {discharged}/{n_thm}, broken={len(broken)}, {wall:.1f}s')
    if violation:
        print(violation)
    else:
        print(f'OK property={prop_id} tier={tier} theorems={discharged}/{n_thm} cases={len(cases)} agree={len(cases) - len(disagreements)}')
    return exit_code
