// Engine D harness for the "several handles of one instrument" clause of C06 under concurrency: the UNMODIFIED meter.cc
// (Meter::RegisterSyncMetricStorage and its storage registry under storage_lock_, a SpinLockMutex = std::atomic<bool>,
// therefore shimmed), sync_metric_storage.cc, meter_context.cc, meter_provider.cc … with threads that each obtain their own
// handle for an instrument for the first time and record through it, under an explicit schedule.
//   mrg <nthreads 1-4> <names e.g. aab: the instrument thread i creates> <adds each> <kind: c|u|h>[+] ; t<i> ; ...
//     `+` after the kind: thread <nthreads> is a collector (two Collect calls of the cumulative reader) racing the others
//     thread i: CreateUInt64Counter / CreateInt64UpDownCounter / CreateUInt64Histogram("i_<names[i]>"), then `adds` times Add /
//     Record(1 + i).  After the schedule everything is drained and one cumulative reader collects.
// Output: per action the trace of the step; then `done=1 rec=<name>:<total recorded>,… got=<name>:<total collected>,…`.
#include "common.h"

#include "opentelemetry/metrics/meter.h"
#include "opentelemetry/metrics/sync_instruments.h"
#include "opentelemetry/sdk/common/global_log_handler.h"
#include "opentelemetry/sdk/metrics/data/point_data.h"
#include "opentelemetry/sdk/metrics/export/metric_producer.h"
#define private public
#include "opentelemetry/sdk/metrics/meter.h"
#undef private
#include "opentelemetry/sdk/metrics/meter_provider.h"
#include "opentelemetry/sdk/metrics/metric_reader.h"

namespace sm    = opentelemetry::sdk::metrics;
namespace am    = opentelemetry::metrics;
namespace nostd = opentelemetry::nostd;

class TestReader : public sm::MetricReader
{
public:
  sm::AggregationTemporality GetAggregationTemporality(sm::InstrumentType) const noexcept override
  {
    return sm::AggregationTemporality::kCumulative;
  }

private:
  bool OnForceFlush(std::chrono::microseconds) noexcept override { return true; }
  bool OnShutDown(std::chrono::microseconds) noexcept override { return true; }
};

static std::string handle(const std::vector<std::string> &t)
{
  auto ops = vh::split_ops(t, 1);
  if (ops.empty() || ops[0].size() != 4) return "bad-op";
  auto num = [](const std::string &s, unsigned long &v) {
    char *e = nullptr;
    v       = strtoul(s.c_str(), &e, 10);
    return !s.empty() && *e == 0;
  };
  unsigned long nth, adds;
  if (!num(ops[0][0], nth) || !num(ops[0][2], adds)) return "bad-op";
  const std::string names = ops[0][1];
  std::string kind        = ops[0][3];
  // `<kind>+`: one more thread (the last one) collects twice while the others create and record
  const bool collector = kind.size() == 2 && kind[1] == '+';
  if (collector) kind.pop_back();
  if (nth == 0 || nth > 4 || names.size() != nth || adds == 0 || adds > 5 || (kind != "c" && kind != "u" && kind != "h")) return "bad-op";
  // lower case a-c: the instrument "i_<letter>" on the shared meter "m"; upper case A-C: the instrument "i_<letter><i>" on a
  // meter "m<i>" of the thread's own that it obtains itself (MeterProvider::GetMeter racing the others and the collector)
  for (char c : names)
    if (!((c >= 'a' && c <= 'c') || (c >= 'A' && c <= 'C'))) return "bad-op";
  std::vector<int> acts;
  for (size_t i = 1; i < ops.size(); i++)
  {
    if (ops[i].size() != 1 || ops[i][0].size() < 2 || ops[i][0][0] != 't') return "bad-op";
    unsigned long v;
    if (!num(ops[i][0].substr(1), v)) return "bad-op";
    acts.push_back(v >= nth + (collector ? 1 : 0) ? -1 : (int)v);
  }
  detsched::reset();
  std::vector<std::string> outs;
  auto provider = std::make_shared<sm::MeterProvider>();
  auto reader   = std::make_shared<TestReader>();
  provider->AddMetricReader(reader);
  auto meter = provider->GetMeter("m", "1", "");
  detsched::name_object(&static_cast<sm::Meter *>(meter.get())->storage_lock_, "sl");
  std::map<std::string, long long> recorded;
  auto key_of = [&](size_t i) { return names[i] >= 'a' ? std::string(1, names[i]) : std::string(1, names[i]) + std::to_string(i); };
  for (size_t i = 0; i < nth; i++) recorded[key_of(i)] = 0;
  for (size_t i = 0; i < nth; i++)
  {
    detsched::spawn([&, i] {
      detsched::point("begin", nullptr);
      const std::string nm = std::string("i_") + key_of(i);
      nostd::shared_ptr<am::Meter> mine = meter;
      if (names[i] < 'a')
      {
        detsched::note("getmeter");
        mine = provider->GetMeter("m" + std::to_string(i), "1", "");
      }
      detsched::note(std::string("create ") + key_of(i));
      nostd::unique_ptr<am::Counter<uint64_t>> c;
      nostd::unique_ptr<am::UpDownCounter<int64_t>> u;
      nostd::unique_ptr<am::Histogram<uint64_t>> h;
      if (kind == "c") c = mine->CreateUInt64Counter(nm);
      else if (kind == "u") u = mine->CreateInt64UpDownCounter(nm);
      else h = mine->CreateUInt64Histogram(nm);
      detsched::note("created");
      for (unsigned long j = 0; j < adds; j++)
      {
        detsched::point("begin", nullptr);
        const long long v = 1 + static_cast<long long>(i);
        recorded[key_of(i)] += v;
        detsched::note("add " + std::to_string(v));
        if (c) c->Add(static_cast<uint64_t>(v));
        else if (u) u->Add(v);
        else h->Record(static_cast<uint64_t>(v), opentelemetry::context::Context{});
        detsched::note("added");
      }
    });
  }
  if (collector)
  {
    detsched::spawn([&] {
      for (int j = 0; j < 2; j++)
      {
        detsched::point("begin", nullptr);
        detsched::note("collect");
        size_t n = 0;
        reader->Collect([&](sm::ResourceMetrics &rm) {
          for (auto &sc : rm.scope_metric_data_) n += sc.metric_data_.size();
          return true;
        });
        detsched::note("collected " + std::to_string(n));
      }
    });
  }
  for (int a : acts) outs.push_back(a < 0 ? std::string("x") : detsched::run(a));
  std::string dtrace;
  bool done = detsched::drain(4000, &dtrace);
  if (!dtrace.empty()) outs.push_back(dtrace.substr(0, dtrace.size() - 3));
  if (!done)
  {
    outs.push_back("done=0");
    std::string o = vh::join(outs, " ; ");
    fputs(o.c_str(), stdout);
    fputc('\n', stdout);
    fflush(stdout);
    _exit(77);
  }
  // final, unmanaged: the reader collects; per instrument name the total it is given
  std::map<std::string, long long> got;
  std::map<std::string, int> streams;
  reader->Collect([&](sm::ResourceMetrics &rm) {
    for (auto &sc : rm.scope_metric_data_)
      for (auto &md : sc.metric_data_)
      {
        const std::string &n = md.instrument_descriptor.name_;
        if (n.size() < 3 || n.compare(0, 2, "i_") != 0) continue;
        const std::string key = n.substr(2);
        streams[key]++;
        for (auto &p : md.point_data_attr_)
        {
          if (nostd::holds_alternative<sm::SumPointData>(p.point_data))
            got[key] += nostd::get<int64_t>(nostd::get<sm::SumPointData>(p.point_data).value_);
          else if (nostd::holds_alternative<sm::HistogramPointData>(p.point_data))
            got[key] += nostd::get<int64_t>(nostd::get<sm::HistogramPointData>(p.point_data).sum_);
        }
      }
    return true;
  });
  std::string sum = "done=1 rec=";
  bool first      = true;
  for (auto &kv : recorded)
  {
    sum += std::string(first ? "" : ",") + kv.first + ":" + std::to_string(kv.second);
    first = false;
  }
  sum += " got=";
  first = true;
  for (auto &kv : recorded)
  {
    sum += std::string(first ? "" : ",") + kv.first + ":" + std::to_string(got[kv.first]) + "/" + std::to_string(streams[kv.first]);
    first = false;
  }
  outs.push_back(sum);
  meter = nostd::shared_ptr<am::Meter>(nullptr);
  provider.reset();
  detsched::reset();
  return vh::join(outs, " ; ");
}

int main()
{
  opentelemetry::sdk::common::internal_log::GlobalLogHandler::SetLogLevel(
      opentelemetry::sdk::common::internal_log::LogLevel::None);
  return vh::run_lines([](const std::vector<std::string> &t) -> std::string {
    if (t.empty()) return "bad-op";
    if (t[0] == "mrg") return handle(t);
    return "bad-op";
  });
}
