// Engine D token-renaming shim.  Force-included (`-include detsched.h`) in front of the UNMODIFIED sources:
// every standard header is included first, then `atomic`, `mutex`, `condition_variable`, `thread`,
// `this_thread`, `steady_clock` are renamed to scheduler-controlled replacements living in namespace std.
#pragma once
#include <bits/stdc++.h>
#include "detsched_api.h"

namespace std
{
template <class T>
struct verif_atomic
{
  T v_{};
  verif_atomic() noexcept = default;
  constexpr verif_atomic(T v) noexcept : v_(v) {}
  verif_atomic(const verif_atomic &)            = delete;
  verif_atomic &operator=(const verif_atomic &) = delete;

  static std::string show(const T &v)
  {
    if constexpr (std::is_pointer<T>::value)
      return v == nullptr ? std::string("null") : detsched::val_name(reinterpret_cast<uint64_t>(v));
    else if constexpr (std::is_same<T, bool>::value)
      return v ? "1" : "0";
    else if constexpr (std::is_integral<T>::value)
      return std::to_string(v);
    else if constexpr (std::is_enum<T>::value)
      return std::to_string(static_cast<long long>(v));
    else
      return "?";
  }
  std::string nm() const { return detsched::obj_name(this); }

  T load(std::memory_order = std::memory_order_seq_cst) const noexcept
  {
    detsched::point("load", this);
    T r = v_;
    detsched::note("ld " + nm() + " " + show(r));
    return r;
  }
  void store(T x, std::memory_order = std::memory_order_seq_cst) noexcept
  {
    detsched::point("store", this);
    v_ = x;
    detsched::note("st " + nm() + " " + show(x));
  }
  T exchange(T x, std::memory_order = std::memory_order_seq_cst) noexcept
  {
    detsched::point("xchg", this);
    T r = v_;
    v_  = x;
    detsched::note("xchg " + nm() + " " + show(x) + " " + show(r));
    return r;
  }
  bool compare_exchange_weak(T &exp, T des, std::memory_order = std::memory_order_seq_cst,
                             std::memory_order = std::memory_order_seq_cst) noexcept
  {
    int d = detsched::point("casw", this);
    if (d == detsched::kSpurious || !(v_ == exp))
    {
      detsched::note("casw " + nm() + " " + show(exp) + " " + show(des) + (d == detsched::kSpurious && v_ == exp ? " spur" : " no"));
      exp = v_;
      return false;
    }
    v_ = des;
    detsched::note("casw " + nm() + " " + show(exp) + " " + show(des) + " ok");
    return true;
  }
  bool compare_exchange_strong(T &exp, T des, std::memory_order = std::memory_order_seq_cst,
                               std::memory_order = std::memory_order_seq_cst) noexcept
  {
    detsched::point("cass", this);
    if (!(v_ == exp))
    {
      detsched::note("cass " + nm() + " " + show(exp) + " " + show(des) + " no");
      exp = v_;
      return false;
    }
    v_ = des;
    detsched::note("cass " + nm() + " " + show(exp) + " " + show(des) + " ok");
    return true;
  }
  template <class U = T>
  T fetch_add(U d, std::memory_order = std::memory_order_seq_cst) noexcept
  {
    detsched::point("fadd", this);
    T r = v_;
    v_  = static_cast<T>(v_ + d);
    detsched::note("fadd " + nm() + " " + std::to_string(static_cast<long long>(d)) + " " + show(r));
    return r;
  }
  template <class U = T>
  T fetch_sub(U d, std::memory_order = std::memory_order_seq_cst) noexcept
  {
    detsched::point("fsub", this);
    T r = v_;
    v_  = static_cast<T>(v_ - d);
    detsched::note("fsub " + nm() + " " + std::to_string(static_cast<long long>(d)) + " " + show(r));
    return r;
  }
  operator T() const noexcept { return load(); }
  T operator=(T x) noexcept
  {
    store(x);
    return x;
  }
  T operator++() noexcept { return fetch_add(1) + 1; }
  T operator++(int) noexcept { return fetch_add(1); }
  T operator--() noexcept { return fetch_sub(1) - 1; }
  T operator--(int) noexcept { return fetch_sub(1); }
  template <class U>
  T operator+=(U d) noexcept { return fetch_add(d) + d; }
  template <class U>
  T operator-=(U d) noexcept { return fetch_sub(d) - d; }
  bool is_lock_free() const noexcept { return true; }
};

struct verif_mutex
{
  verif_mutex() noexcept                      = default;
  verif_mutex(const verif_mutex &)            = delete;
  verif_mutex &operator=(const verif_mutex &) = delete;
  void lock() { detsched::mutex_lock(this); }
  bool try_lock() { return detsched::mutex_try_lock(this); }
  void unlock() { detsched::mutex_unlock(this); }
};

namespace chrono
{
struct verif_steady_clock
{
  using duration                  = std::chrono::nanoseconds;
  using rep                       = duration::rep;
  using period                    = duration::period;
  using time_point                = std::chrono::time_point<verif_steady_clock, duration>;
  static constexpr bool is_steady = true;
  static time_point now() noexcept { return time_point(duration(static_cast<rep>(detsched::now_ns()))); }
};
}  // namespace chrono

enum class verif_cv_status { no_timeout, timeout };

struct verif_condition_variable
{
  verif_condition_variable()                                            = default;
  verif_condition_variable(const verif_condition_variable &)            = delete;
  verif_condition_variable &operator=(const verif_condition_variable &) = delete;
  void notify_one() noexcept { detsched::cv_notify(this, false); }
  void notify_all() noexcept { detsched::cv_notify(this, true); }
  void wait(std::unique_lock<verif_mutex> &lk) { detsched::cv_wait(this, lk.mutex(), false); }
  template <class Pred>
  void wait(std::unique_lock<verif_mutex> &lk, Pred pred)
  {
    while (!pred()) wait(lk);
  }
  // timed waits: expiry is a schedule action (`timeout i`), not real time.  A zero / negative timeout is expired
  // as soon as the wait has started (libstdc++ would return timeout at once); it is still one scheduling point.
  template <class Rep, class Period>
  std::cv_status wait_for(std::unique_lock<verif_mutex> &lk, const std::chrono::duration<Rep, Period> &d)
  {
    auto ns = std::chrono::duration_cast<std::chrono::nanoseconds>(d).count();
    int r   = detsched::cv_wait(this, lk.mutex(), true, ns > 0 ? static_cast<uint64_t>(ns) : 0);
    return r == 1 ? std::cv_status::timeout : std::cv_status::no_timeout;
  }
  template <class Rep, class Period, class Pred>
  bool wait_for(std::unique_lock<verif_mutex> &lk, const std::chrono::duration<Rep, Period> &d, Pred pred)
  {
    // libstdc++: while (!pred()) if (wait_until(...) == timeout) return pred();  return true;
    while (!pred())
    {
      if (wait_for(lk, d) == std::cv_status::timeout) return pred();
    }
    return true;
  }
  template <class Clock, class Dur>
  std::cv_status wait_until(std::unique_lock<verif_mutex> &lk, const std::chrono::time_point<Clock, Dur> &)
  {
    int r = detsched::cv_wait(this, lk.mutex(), true);
    return r == 1 ? std::cv_status::timeout : std::cv_status::no_timeout;
  }
  template <class Clock, class Dur, class Pred>
  bool wait_until(std::unique_lock<verif_mutex> &lk, const std::chrono::time_point<Clock, Dur> &tp, Pred pred)
  {
    while (!pred())
    {
      if (wait_until(lk, tp) == std::cv_status::timeout) return pred();
    }
    return true;
  }
};

struct verif_thread
{
  int tid_      = -1;
  bool joining_ = false;
  struct id
  {
    int v = -1;
    bool operator==(const id &o) const { return v == o.v; }
    bool operator!=(const id &o) const { return v != o.v; }
  };
  verif_thread() noexcept = default;
  template <class F, class... A>
  explicit verif_thread(F &&f, A &&...a)
  {
    auto fn  = std::bind(std::forward<F>(f), std::forward<A>(a)...);
    auto fnp = std::make_shared<decltype(fn)>(std::move(fn));  // the callable may be move-only
    // spawning is a visible step of the spawning thread
    detsched::point("spawn", this);
    tid_ = detsched::spawn([fnp]() { (*fnp)(); });
    detsched::note("spawn T" + std::to_string(tid_));
  }
  verif_thread(verif_thread &&o) noexcept : tid_(o.tid_) { o.tid_ = -1; }
  verif_thread &operator=(verif_thread &&o) noexcept
  {
    tid_   = o.tid_;
    o.tid_ = -1;
    return *this;
  }
  verif_thread(const verif_thread &) = delete;
  ~verif_thread() {}
  bool joinable() const noexcept { return tid_ >= 0; }
  void join()
  {
    // as std::thread: joining a thread that is not joinable throws; a second join of the same object while the first is
    // still waiting is a data race on the object - reported the same way (libstdc++: EINVAL from pthread_join)
    if (tid_ < 0 || joining_)
    {
      detsched::note("join-of-a-thread-that-is-not-joinable");
      throw std::system_error(std::make_error_code(std::errc::invalid_argument));
    }
    joining_ = true;
    detsched::thread_join_point(tid_);
    tid_     = -1;
    joining_ = false;
  }
  void detach() { tid_ = -1; }
  id get_id() const noexcept { return id{tid_}; }
  static unsigned hardware_concurrency() noexcept { return 4; }
};

namespace verif_this_thread
{
inline void yield() noexcept
{
  detsched::point("yield", nullptr);
  detsched::note("yield");
}
template <class Rep, class Period>
inline void sleep_for(const std::chrono::duration<Rep, Period> &)
{
  detsched::point("sleep", nullptr);
  detsched::note("sleep");
}
template <class Clock, class Dur>
inline void sleep_until(const std::chrono::time_point<Clock, Dur> &)
{
  detsched::point("sleep", nullptr);
  detsched::note("sleep");
}
inline verif_thread::id get_id() noexcept { return verif_thread::id{detsched::self()}; }
}  // namespace verif_this_thread
}  // namespace std

namespace std
{
// promise<void> / future<void> on top of the shimmed mutex + condition variable: wait_for's expiry is a schedule action
struct verif_fstate
{
  verif_mutex m;
  verif_condition_variable cv;
  bool ready = false;
};
template <class T>
class verif_future;
template <class T>
class verif_promise;
template <>
class verif_future<void>
{
public:
  verif_future() = default;
  explicit verif_future(std::shared_ptr<verif_fstate> st) : st_(std::move(st)) {}
  bool valid() const noexcept { return static_cast<bool>(st_); }
  template <class Rep, class Period>
  std::future_status wait_for(const std::chrono::duration<Rep, Period> &d) const
  {
    std::unique_lock<verif_mutex> lk(st_->m);
    while (!st_->ready)
    {
      if (st_->cv.wait_for(lk, d) == std::cv_status::timeout)
        return st_->ready ? std::future_status::ready : std::future_status::timeout;
    }
    return std::future_status::ready;
  }
  void wait() const
  {
    std::unique_lock<verif_mutex> lk(st_->m);
    while (!st_->ready) st_->cv.wait(lk);
  }
  void get() { wait(); }

private:
  std::shared_ptr<verif_fstate> st_;
};
template <>
class verif_promise<void>
{
public:
  verif_promise() : st_(std::make_shared<verif_fstate>()) {}
  verif_promise(verif_promise &&) noexcept            = default;
  verif_promise &operator=(verif_promise &&) noexcept = default;
  verif_promise(const verif_promise &)                = delete;
  verif_future<void> get_future() { return verif_future<void>(st_); }
  void set_value()
  {
    std::unique_lock<verif_mutex> lk(st_->m);
    st_->ready = true;
    st_->cv.notify_all();
  }

private:
  std::shared_ptr<verif_fstate> st_;
};
}  // namespace std

#define atomic verif_atomic
#define promise verif_promise
#define future verif_future
#define mutex verif_mutex
#define condition_variable verif_condition_variable
#define thread verif_thread
#define this_thread verif_this_thread
#define steady_clock verif_steady_clock
