// Deterministic cooperative scheduler (Engine D) — API shared by the shim header and the harnesses.
// Real OS threads, exactly one runs at a time; every shimmed operation is a *scheduling point*:
// the calling thread announces the operation, parks, and performs it when the driver grants the step.
#pragma once
#include <cstdint>
#include <functional>
#include <string>

namespace detsched
{
enum Directive : int { kNormal = 0, kSpurious = 1 };

// ---- called by managed threads (no-ops returning kNormal when the caller is not a managed thread)
int point(const char *kind, const void *obj);        // announce + park; returns the directive of the granting action
void note(const std::string &s);                     // append to the trace of the current step
bool managed();                                      // is the calling thread managed?
int self();                                          // managed thread id or -1

// blocking primitives (used by the shim classes)
void mutex_lock(const void *m);                       // point("lock") enabled only when free
bool mutex_try_lock(const void *m);
void mutex_unlock(const void *m);
// condition variables: returns 0 = notified, 1 = timeout, 2 = spurious.  `timed`: a timeout action is allowed.
int cv_wait(const void *cv, const void *m, bool timed, uint64_t dur_ns = 0);   // a timeout wake-up advances the virtual clock by dur_ns
void cv_notify(const void *cv, bool all);
void thread_join_point(int tid);                      // enabled when thread `tid` finished
uint64_t now_ns();                                    // virtual steady clock
void advance_ns(uint64_t d);

// ---- called by the driver (the harness main thread)
int spawn(std::function<void()> fn, const char *name = nullptr);   // managed thread, parked before its first step
// one schedule action.  Returns the trace of the step, or "x" when the action is not enabled.
std::string run(int tid, int directive = kNormal);
std::string wake_timeout(int tid);                    // a timed cv wait of `tid` expires
std::string wake_spurious(int tid);                   // a cv wait of `tid` wakes spuriously
bool finished(int tid);
bool runnable(int tid);                               // parked with an enabled pending operation
bool waiting(int tid);                                // blocked in a cv wait
bool timed_waiting(int tid);
std::string pending(int tid);                         // "<kind> <obj>" of the parked operation
int nthreads();
void name_object(const void *p, const std::string &name);
std::string obj_name(const void *p);
void name_value(uint64_t v, const std::string &name); // pointers printed as names (element ids)
std::string val_name(uint64_t v);
void reset();                                         // forget threads/objects (all threads must be finished)
// run every unfinished thread to completion round-robin (used to drain at the end of a case); returns false if stuck
// `ignore`: a thread that need not finish (e.g. a worker that runs until shutdown); it is still stepped
bool drain(int max_steps, std::string *trace = nullptr, int ignore = -1);
}  // namespace detsched
