// Engine D scheduler implementation.  Compiled WITHOUT the renaming shim (uses the real std primitives).
#include "detsched_api.h"

#include <cassert>
#include <condition_variable>
#include <cstdio>
#include <cstdlib>
#include <map>
#include <memory>
#include <mutex>
#include <thread>
#include <vector>

namespace detsched
{
namespace
{
enum State { NEW, PARKED, RUNNING, CVWAIT, FINISHED };

struct Thr
{
  int id;
  std::thread th;
  std::condition_variable cv;
  State st = NEW;
  std::string kind;          // pending operation
  const void *obj = nullptr;
  int directive  = 0;
  // cv wait bookkeeping
  const void *wait_cv = nullptr;
  const void *wait_m  = nullptr;
  bool timed          = false;
  uint64_t dur_ns     = 0;
  int wake_reason     = -1;  // set when woken: 0 notify, 1 timeout, 2 spurious
  int join_target     = -1;
  std::function<void()> fn;
};

std::mutex g_mu;
std::condition_variable g_driver_cv;
std::vector<std::unique_ptr<Thr>> g_thr;
thread_local Thr *t_me = nullptr;
std::string g_step_trace;
std::map<const void *, int> g_mutex_owner;  // absent / -1 = free
std::map<const void *, std::string> g_names;
std::map<uint64_t, std::string> g_vals;
int g_auto = 0;
uint64_t g_now = 1000000000ull;

bool enabled_locked(Thr &t)
{
  if (t.st == NEW) return true;
  if (t.st != PARKED) return false;
  if (t.kind == "lock" || t.kind == "relock")
  {
    auto it = g_mutex_owner.find(t.obj);
    return it == g_mutex_owner.end() || it->second < 0;
  }
  if (t.kind == "join")
  {
    return t.join_target >= 0 && t.join_target < (int)g_thr.size() && g_thr[t.join_target]->st == FINISHED;
  }
  return true;
}

// park the calling managed thread with a pending op; returns when granted
int park(std::unique_lock<std::mutex> &lk, const char *kind, const void *obj)
{
  Thr &me = *t_me;
  me.kind = kind;
  me.obj  = obj;
  me.st   = PARKED;
  g_driver_cv.notify_all();
  me.cv.wait(lk, [&] { return me.st == RUNNING; });
  return me.directive;
}
}  // namespace

bool managed() { return t_me != nullptr; }
int self() { return t_me ? t_me->id : -1; }

std::string obj_name(const void *p)
{
  auto it = g_names.find(p);
  if (it != g_names.end()) return it->second;
  std::string n = "o" + std::to_string(g_auto++);
  g_names[p]    = n;
  return n;
}
void name_object(const void *p, const std::string &name) { g_names[p] = name; }
void name_value(uint64_t v, const std::string &name) { g_vals[v] = name; }
std::string val_name(uint64_t v)
{
  auto it = g_vals.find(v);
  if (it != g_vals.end()) return it->second;
  return std::to_string(v);
}

int point(const char *kind, const void *obj)
{
  if (!t_me) return kNormal;
  std::unique_lock<std::mutex> lk(g_mu);
  return park(lk, kind, obj);
}

void note(const std::string &s)
{
  if (!t_me) return;
  std::lock_guard<std::mutex> lk(g_mu);
  if (!g_step_trace.empty()) g_step_trace += ",";
  g_step_trace += s;
}

void mutex_lock(const void *m)
{
  if (!t_me)
  {
    return;  // unmanaged (driver) code runs alone: nothing to exclude
  }
  std::unique_lock<std::mutex> lk(g_mu);
  park(lk, "lock", m);
  g_mutex_owner[m] = t_me->id;
  if (!g_step_trace.empty()) g_step_trace += ",";
  g_step_trace += "lock " + obj_name(m);
}

bool mutex_try_lock(const void *m)
{
  if (!t_me) return true;
  std::unique_lock<std::mutex> lk(g_mu);
  park(lk, "trylock", m);
  auto it   = g_mutex_owner.find(m);
  bool free = it == g_mutex_owner.end() || it->second < 0;
  if (free) g_mutex_owner[m] = t_me->id;
  if (!g_step_trace.empty()) g_step_trace += ",";
  g_step_trace += "trylock " + obj_name(m) + (free ? " ok" : " no");
  return free;
}

void mutex_unlock(const void *m)
{
  if (!t_me) return;
  std::unique_lock<std::mutex> lk(g_mu);
  park(lk, "unlock", m);
  g_mutex_owner[m] = -1;
  if (!g_step_trace.empty()) g_step_trace += ",";
  g_step_trace += "unlock " + obj_name(m);
}

int cv_wait(const void *cv, const void *m, bool timed, uint64_t dur_ns)
{
  if (!t_me)
  {
    fprintf(stderr, "detsched: cv wait from an unmanaged thread\n");
    abort();
  }
  std::unique_lock<std::mutex> lk(g_mu);
  park(lk, "wait", cv);
  // the granted step: atomically release the mutex and start waiting
  Thr &me          = *t_me;
  g_mutex_owner[m] = -1;
  me.wait_cv       = cv;
  me.wait_m        = m;
  me.timed         = timed;
  me.dur_ns        = dur_ns;
  me.wake_reason   = -1;
  me.st            = CVWAIT;
  if (!g_step_trace.empty()) g_step_trace += ",";
  g_step_trace += std::string(timed ? "twait " : "wait ") + obj_name(cv);
  g_driver_cv.notify_all();
  // woken by notify / timeout / spurious: the waker sets wake_reason and state PARKED with pending "relock"
  me.cv.wait(lk, [&] { return me.st == RUNNING; });
  g_mutex_owner[m] = me.id;
  int r            = me.wake_reason;
  if (!g_step_trace.empty()) g_step_trace += ",";
  g_step_trace += "relock " + obj_name(m) + (r == 0 ? " notified" : r == 1 ? " timeout" : " spurious");
  return r;
}

void cv_notify(const void *cv, bool all)
{
  if (!t_me)
  {
    // unmanaged notify (e.g. from the driver thread in a destructor): wake without a step
    std::lock_guard<std::mutex> lk(g_mu);
    for (auto &t : g_thr)
      if (t->st == CVWAIT && t->wait_cv == cv)
      {
        t->wake_reason = 0; t->kind = "relock"; t->obj = t->wait_m; t->st = PARKED;
        if (!all) break;
      }
    return;
  }
  std::unique_lock<std::mutex> lk(g_mu);
  park(lk, all ? "notify_all" : "notify_one", cv);
  int n = 0;
  for (auto &t : g_thr)
    if (t->st == CVWAIT && t->wait_cv == cv)
    {
      t->wake_reason = 0;
      t->kind        = "relock";
      t->obj         = t->wait_m;
      t->st          = PARKED;
      n++;
      if (!all) break;  // notify_one wakes the lowest-numbered waiter (deterministic choice)
    }
  if (!g_step_trace.empty()) g_step_trace += ",";
  g_step_trace += std::string(all ? "notify_all " : "notify_one ") + obj_name(cv) + " " + std::to_string(n);
}

void thread_join_point(int tid)
{
  if (!t_me)
  {
    // unmanaged join: the driver must have drained the target; wait for the real thread below
    return;
  }
  std::unique_lock<std::mutex> lk(g_mu);
  t_me->join_target = tid;
  park(lk, "join", nullptr);
  if (!g_step_trace.empty()) g_step_trace += ",";
  g_step_trace += "join T" + std::to_string(tid);
}

uint64_t now_ns()
{
  std::lock_guard<std::mutex> lk(g_mu);
  return g_now;
}
void advance_ns(uint64_t d)
{
  std::lock_guard<std::mutex> lk(g_mu);
  g_now += d;
}

int spawn(std::function<void()> fn, const char *)
{
  std::unique_lock<std::mutex> lk(g_mu);
  int id = (int)g_thr.size();
  g_thr.emplace_back(new Thr());
  Thr *t = g_thr.back().get();
  t->id  = id;
  t->fn  = std::move(fn);
  t->st  = NEW;
  t->kind = "start";
  t->th  = std::thread([t] {
    t_me = t;
    {
      std::unique_lock<std::mutex> lk2(g_mu);
      t->cv.wait(lk2, [&] { return t->st == RUNNING; });
    }
    t->fn();
    {
      std::unique_lock<std::mutex> lk2(g_mu);
      t->st = FINISHED;
      if (!g_step_trace.empty()) g_step_trace += ",";
      g_step_trace += "end";
      g_driver_cv.notify_all();
    }
  });
  return id;
}

static std::string grant(std::unique_lock<std::mutex> &lk, Thr &t, int directive)
{
  g_step_trace.clear();
  t.directive = directive;
  t.st        = RUNNING;
  t.cv.notify_all();
  g_driver_cv.wait(lk, [&] { return t.st != RUNNING; });
  return g_step_trace.empty() ? std::string("-") : g_step_trace;
}

std::string run(int tid, int directive)
{
  std::unique_lock<std::mutex> lk(g_mu);
  if (tid < 0 || tid >= (int)g_thr.size()) return "x";
  Thr &t = *g_thr[tid];
  if (!enabled_locked(t)) return "x";
  return grant(lk, t, directive);
}

std::string wake_timeout(int tid)
{
  std::unique_lock<std::mutex> lk(g_mu);
  if (tid < 0 || tid >= (int)g_thr.size()) return "x";
  Thr &t = *g_thr[tid];
  if (t.st != CVWAIT || !t.timed) return "x";
  g_now += t.dur_ns;
  t.wake_reason = 1; t.kind = "relock"; t.obj = t.wait_m; t.st = PARKED;
  return "timeout T" + std::to_string(tid);
}

std::string wake_spurious(int tid)
{
  std::unique_lock<std::mutex> lk(g_mu);
  if (tid < 0 || tid >= (int)g_thr.size()) return "x";
  Thr &t = *g_thr[tid];
  if (t.st != CVWAIT) return "x";
  t.wake_reason = 2; t.kind = "relock"; t.obj = t.wait_m; t.st = PARKED;
  return "spurious T" + std::to_string(tid);
}

bool finished(int tid)
{
  std::lock_guard<std::mutex> lk(g_mu);
  return g_thr[tid]->st == FINISHED;
}
bool runnable(int tid)
{
  std::lock_guard<std::mutex> lk(g_mu);
  return enabled_locked(*g_thr[tid]);
}
bool waiting(int tid)
{
  std::lock_guard<std::mutex> lk(g_mu);
  return g_thr[tid]->st == CVWAIT;
}
bool timed_waiting(int tid)
{
  std::lock_guard<std::mutex> lk(g_mu);
  return g_thr[tid]->st == CVWAIT && g_thr[tid]->timed;
}
std::string pending(int tid)
{
  std::lock_guard<std::mutex> lk(g_mu);
  Thr &t = *g_thr[tid];
  if (t.st == FINISHED) return "finished";
  if (t.st == CVWAIT) return "cvwait " + obj_name(t.wait_cv);
  return t.kind + (t.obj ? " " + obj_name(t.obj) : std::string());
}
int nthreads()
{
  std::lock_guard<std::mutex> lk(g_mu);
  return (int)g_thr.size();
}

bool drain(int max_steps, std::string *trace, int ignore)
{
  for (int k = 0; k < max_steps; k++)
  {
    bool all_done = true, progressed = false;
    int n = nthreads();
    for (int i = 0; i < n; i++)
    {
      if (finished(i)) continue;
      if (i != ignore) all_done = false;
      if (runnable(i))
      {
        std::string s = run(i);
        if (trace) *trace += "d" + std::to_string(i) + ":" + s + " ; ";
        progressed = true;
      }
    }
    if (all_done) return true;
    if (!progressed)
    {
      // nothing can run: time passes — every timed wait expires (expiring only one of them could starve the others,
      // e.g. a ForceFlush caller that re-polls on its own timer while the worker's timer keeps firing)
      bool woke = false;
      for (int i = 0; i < n; i++)
        if (timed_waiting(i))
        {
          wake_timeout(i);
          woke = true;
        }
      if (!woke) return false;  // stuck: deadlock
    }
  }
  return false;
}

void reset()
{
  for (auto &t : g_thr)
  {
    if (t->th.joinable()) t->th.join();
  }
  g_thr.clear();
  g_mutex_owner.clear();
  g_names.clear();
  g_vals.clear();
  g_auto = 0;
  g_now  = 1000000000ull;
  g_step_trace.clear();
}
}  // namespace detsched
