// Engine D harness for C11: the UNMODIFIED circular_buffer.h / atomic_unique_ptr.h / spin_lock_mutex.h compiled with
// `-include shim/detsched.h` (std::atomic, std::this_thread token-renamed to scheduler-controlled replacements) and
// stepped by an explicit schedule.  Each schedule action prints the trace of the atomic access it executed.
#include "common.h"
#include <algorithm>

#define private public
#include "opentelemetry/sdk/common/atomic_unique_ptr.h"
#include "opentelemetry/sdk/common/circular_buffer.h"
#undef private
#include "opentelemetry/common/spin_lock_mutex.h"

using opentelemetry::sdk::common::AtomicUniquePtr;
using opentelemetry::sdk::common::CircularBuffer;
using opentelemetry::sdk::common::CircularBufferRange;

struct Elem
{
  static int live;
  static int next_id;
  static std::vector<int> *dlog;  // when set: ids in order of destruction
  int id;
  explicit Elem(int i) : id(i) { live++; }
  ~Elem()
  {
    live--;
    if (dlog) dlog->push_back(id);
  }
};
int Elem::live              = 0;
int Elem::next_id           = 0;
std::vector<int> *Elem::dlog = nullptr;

static std::string show_ids(const std::vector<int> &v)
{
  std::string s = "[";
  for (size_t i = 0; i < v.size(); i++)
  {
    if (i) s += ",";
    s += v[i] < 0 ? std::string("null") : "e" + std::to_string(v[i]);
  }
  return s + "]";
}

static std::string handle_ring(const std::vector<std::string> &t)
{
  auto ops = vh::split_ops(t, 1);
  if (ops.empty() || ops[0].size() != 5) return "bad-op";
  unsigned long cfg[5];
  // optional suffixes (the accesses under the scheduler are the same, so is the trace):
  //   <adds>m          producers use the rvalue overload Add(std::unique_ptr<T> &&)
  //   <rounds>q|k|n|d  after the drain, unmanaged: max_size / empty / production_count / consumption_count / Peek (Get, IsNull,
  //                    operator->, range size / empty, ForEach stopped by its callback) are printed as ` q=...`; then what is
  //                    left is taken out with Consume(n, callback) (q), Clear() (k), Consume(n) (n) or by destroying the
  //                    buffer with the elements still inside (d: order of destruction is the array's, printed sorted)
  char add_mode = 0, end_mode = 0;
  if (!ops[0][2].empty() && ops[0][2].back() == 'm') { add_mode = 'm'; ops[0][2].pop_back(); }
  if (!ops[0][4].empty() && std::string("qknd").find(ops[0][4].back()) != std::string::npos) { end_mode = ops[0][4].back(); ops[0][4].pop_back(); }
  for (int i = 0; i < 5; i++)
  {
    char *e = nullptr;
    cfg[i]  = strtoul(ops[0][i].c_str(), &e, 10);
    if (*e || ops[0][i].empty()) return "bad-op";
  }
  size_t max_size = cfg[0], nprod = cfg[1], adds = cfg[2], creq = cfg[3], rounds = cfg[4];
  if (max_size == 0 || nprod == 0 || nprod > 8) return "bad-op";
  // parse actions first: (thread, spurious)
  std::vector<std::pair<int, int>> acts;
  for (size_t i = 1; i < ops.size(); i++)
  {
    if (ops[i].size() != 1) return "bad-op";
    const std::string &a = ops[i][0];
    if (a == "c") { acts.push_back({(int)nprod, 0}); continue; }
    if (a.size() < 2 || a[0] != 'p') return "bad-op";
    std::string num = a.substr(1);
    int spur        = 0;
    if (num.back() == '!') { spur = 1; num.pop_back(); }
    char *e = nullptr;
    unsigned long v = strtoul(num.c_str(), &e, 10);
    if (*e || num.empty()) return "bad-op";
    acts.push_back({v >= nprod ? -1 : (int)v, spur});
  }

  detsched::reset();
  Elem::live    = 0;
  Elem::next_id = 0;
  std::vector<std::string> outs;
  std::vector<std::pair<int, bool>> rets;
  std::vector<int> consumed, rest;
  bool stuck = false;
  // the buffer is leaked on purpose when threads are left parked inside it (stuck == true)
  auto *bufp = new CircularBuffer<Elem>(max_size);
  {
    CircularBuffer<Elem> &buf = *bufp;
    detsched::name_object(&buf.head_, "head");
    detsched::name_object(&buf.tail_, "tail");
    for (size_t k = 0; k <= max_size; k++) detsched::name_object(&buf.data_[k].ptr_, "s" + std::to_string(k));

    for (size_t p = 0; p < nprod; p++)
    {
      detsched::spawn([&, p] {
        for (size_t j = 0; j < adds; j++)
        {
          detsched::point("begin", nullptr);
          int id = Elem::next_id++;
          std::unique_ptr<Elem> e(new Elem(id));
          detsched::name_value(reinterpret_cast<uint64_t>(e.get()), "e" + std::to_string(id));
          detsched::note("begin e" + std::to_string(id));
          bool ok;
          if (add_mode == 'm')
          {
            // the rvalue overload owns its argument whatever happens: a refused element is destroyed (live= at the end), not leaked
            ok = buf.Add(std::move(e));
            if (e != nullptr) detsched::note("OWNERSHIP-MISMATCH");
          }
          else
          {
            ok = buf.Add(e);
            // a failed Add leaves its element with the caller; a successful one must have taken it
            if (ok != (e == nullptr)) detsched::note("OWNERSHIP-MISMATCH");
          }
          rets.push_back({id, ok});
          detsched::note(ok ? "ret 1" : "ret 0");
        }
      });
    }
    detsched::spawn([&] {
      for (size_t r = 0; r < rounds; r++)
      {
        detsched::point("cround", nullptr);
        detsched::note("cround");
        size_t n = std::min(buf.size(), creq);
        if (n == 0) continue;
        buf.Consume(n, [&](CircularBufferRange<AtomicUniquePtr<Elem>> &range) noexcept {
          range.ForEach([&](AtomicUniquePtr<Elem> &ptr) noexcept {
            std::unique_ptr<Elem> x;
            ptr.Swap(x);
            consumed.push_back(x ? x->id : -1);
            return true;
          });
        });
      }
    });

    for (auto &a : acts)
    {
      if (a.first < 0) { outs.push_back("x"); continue; }
      outs.push_back(detsched::run(a.first, a.second));
    }
    std::string dtrace;
    bool done = detsched::drain(3000, &dtrace);
    stuck     = !done;
    if (!dtrace.empty()) outs.push_back(dtrace.substr(0, dtrace.size() - 3));
    // final, unmanaged: take out whatever is left
    size_t left = stuck ? 0 : buf.size();
    std::string q;
    if (end_mode && !stuck)
    {
      const CircularBuffer<Elem> &cb = buf;
      auto pk                        = cb.Peek();
      std::vector<int> seen;
      bool all = pk.ForEach([&](const AtomicUniquePtr<Elem> &ptr) noexcept {
        bool a = ptr.IsNull(), b = ptr.Get() == nullptr;
        seen.push_back(a || b ? -1 : (ptr->id == (*ptr).id ? ptr->id : -2));
        return true;
      });
      size_t calls = 0;
      bool whole   = pk.ForEach([&](const AtomicUniquePtr<Elem> &) noexcept { return ++calls < 2; });
      q = " q=max:" + std::to_string(cb.max_size()) + ",empty:" + (cb.empty() ? "1" : "0") + ",prod:" +
          std::to_string(cb.production_count()) + ",cons:" + std::to_string(cb.consumption_count()) + ",peek:" + show_ids(seen) +
          ",n:" + std::to_string(pk.size()) + ",pe:" + (pk.empty() ? "1" : "0") + ",all:" + (all ? "1" : "0") + ",stop:" +
          std::to_string(calls) + "/" + (whole ? "1" : "0");
      // AtomicUniquePtr on its own: the owning constructor, Swap, SwapIfNull on a non-null slot, destruction of the owned element
      bool aup   = true;
      int before = Elem::live;
      {
        AtomicUniquePtr<Elem> a(std::unique_ptr<Elem>(new Elem(-7)));
        if (a.IsNull() || a->id != -7 || Elem::live != before + 1) aup = false;
        std::unique_ptr<Elem> o(new Elem(-8));
        a.Swap(o);
        if (!o || o->id != -7 || a.Get() == nullptr || a->id != -8) aup = false;
        if (a.SwapIfNull(o) || !o) aup = false;  // occupied: refused, the caller keeps its element
        a.Reset();
        if (!a.IsNull() || !a.SwapIfNull(o) || o) aup = false;  // empty: taken
      }
      if (Elem::live != before) aup = false;
      q += std::string(",aup:") + (aup ? "1" : "0");
    }
    if (end_mode == 'k' || end_mode == 'n')
    {
      Elem::dlog = &rest;
      if (end_mode == 'k') buf.Clear();
      else buf.Consume(left);
      Elem::dlog = nullptr;
      if (!buf.empty() || buf.size() != 0) rest.push_back(-1);
    }
    else if (end_mode == 'd' && !stuck)
    {
      Elem::dlog = &rest;
      delete bufp;
      bufp       = nullptr;
      Elem::dlog = nullptr;
      std::sort(rest.begin(), rest.end());
    }
    else if (left)
      buf.Consume(left, [&](CircularBufferRange<AtomicUniquePtr<Elem>> &range) noexcept {
        range.ForEach([&](AtomicUniquePtr<Elem> &ptr) noexcept {
          std::unique_ptr<Elem> x;
          ptr.Swap(x);
          rest.push_back(x ? x->id : -1);
          return true;
        });
      });
    std::string res = "[";
    for (size_t i = 0; i < rets.size(); i++)
    {
      if (i) res += ",";
      res += "e" + std::to_string(rets[i].first) + ":" + (rets[i].second ? "1" : "0");
    }
    res += "]";
    outs.push_back(std::string("done=") + (done ? "1" : "0") + " res=" + res + " out=" + show_ids(consumed) +
                   " rest=" + show_ids(rest) + q);
  }
  if (!stuck && bufp) delete bufp;
  if (stuck)
  {
    outs.back() += " live=?";
    std::string o = vh::join(outs, " ; ");
    fputs(o.c_str(), stdout);
    fputc('\n', stdout);
    fflush(stdout);
    _exit(77);  // threads are still parked inside the buffer code: they cannot be joined; ask for a fresh process
  }
  detsched::reset();
  outs.back() += " live=" + std::to_string(Elem::live);
  return vh::join(outs, " ; ");
}

static std::string handle_spin(const std::vector<std::string> &t)
{
  auto ops = vh::split_ops(t, 1);
  if (ops.empty() || ops[0].empty() || ops[0].size() > 8) return "bad-op";
  std::vector<std::string> scripts;
  for (auto &sc : ops[0])
  {
    std::string f;
    for (char c : sc)
    {
      if (c == '-') continue;
      if (c != 'L' && c != 'T') return "bad-op";
      f.push_back(c);
    }
    scripts.push_back(f);
  }
  std::vector<int> acts;
  for (size_t i = 1; i < ops.size(); i++)
  {
    if (ops[i].size() != 1 || ops[i][0].size() < 2 || ops[i][0][0] != 't') return "bad-op";
    char *e = nullptr;
    unsigned long v = strtoul(ops[i][0].c_str() + 1, &e, 10);
    if (*e) return "bad-op";
    acts.push_back(v >= scripts.size() ? -1 : (int)v);
  }
  detsched::reset();
  std::vector<std::string> outs;
  {
    opentelemetry::common::SpinLockMutex mu;
    detsched::name_object(&mu, "flag");  // flag_ is the only member
    int occupancy = 0, viol = 0;
    std::vector<std::pair<int, bool>> tries;
    for (size_t p = 0; p < scripts.size(); p++)
    {
      detsched::spawn([&, p] {
        for (char c : scripts[p])
        {
          detsched::point("op", nullptr);
          bool got = false;
          if (c == 'L')
          {
            detsched::note("lock");
            mu.lock();
            got = true;
          }
          else
          {
            detsched::note("try");
            got = mu.try_lock();
            tries.push_back({(int)p, got});
            if (!got) detsched::note("try-fail");
          }
          if (got)
          {
            detsched::note("acq");
            occupancy++;
            detsched::point("cs", nullptr);
            detsched::note("cs " + std::to_string(occupancy));
            if (occupancy != 1) viol++;
            occupancy--;
            mu.unlock();
          }
        }
      });
    }
    for (int a : acts) outs.push_back(a < 0 ? std::string("x") : detsched::run(a));
    std::string dtrace;
    bool done = detsched::drain(3000, &dtrace);
    if (!dtrace.empty()) outs.push_back(dtrace.substr(0, dtrace.size() - 3));
    std::string tr;
    for (size_t i = 0; i < tries.size(); i++)
    {
      if (i) tr += ",";
      tr += "T" + std::to_string(tries[i].first) + ":" + (tries[i].second ? "1" : "0");
    }
    // read the flag without a scheduling point (unmanaged thread)
    bool flag = mu.try_lock() ? false : true;
    outs.push_back(std::string("done=") + (done ? "1" : "0") + " viol=" + std::to_string(viol) + " try=[" + tr + "] flag=" + (flag ? "1" : "0"));
    if (!done)
    {
      std::string o = vh::join(outs, " ; ");
      fputs(o.c_str(), stdout);
      fputc('\n', stdout);
      fflush(stdout);
      _exit(77);
    }
  }
  detsched::reset();
  return vh::join(outs, " ; ");
}

int main()
{
  return vh::run_lines([](const std::vector<std::string> &t) -> std::string {
    if (t.empty()) return "bad-op";
    if (t[0] == "ring") return handle_ring(t);
    if (t[0] == "spin") return handle_spin(t);
    return "bad-op";
  });
}
