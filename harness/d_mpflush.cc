// Engine D harness for the provider clause of C02 under concurrency ("ForceFlush ... on the provider that owns them returns
// true => everything recorded before the call began has been passed on"): the UNMODIFIED meter_provider.cc / meter_context.cc
// (forceflush_lock_ is a SpinLockMutex = std::atomic<bool>, therefore shimmed) with several threads that each record a
// measurement and then call MeterProvider::ForceFlush, and 1-2 harness readers whose OnForceFlush is two scheduling points.
//   mpf <nflushers 1-3> <nreaders 1-2> ; t<i> ; ...
// Output: per action the trace of the step (`record <k>`, `flush-begin <k>`, `rflush-begin r<j> seen=<k>`, `rflush-end r<j>`,
// `flush-ret <0|1>`); the drain; then `done=1 calls=<reader flush calls in total> rets=<flushers that returned true>`.
#include "common.h"

#include "opentelemetry/sdk/common/global_log_handler.h"
#include "opentelemetry/sdk/metrics/meter_provider.h"
#include "opentelemetry/sdk/metrics/metric_reader.h"

namespace sm = opentelemetry::sdk::metrics;

static int g_recorded = 0;
static int g_calls    = 0;

class Reader : public sm::MetricReader
{
public:
  explicit Reader(int id) : id_(id) {}
  sm::AggregationTemporality GetAggregationTemporality(sm::InstrumentType) const noexcept override
  {
    return sm::AggregationTemporality::kCumulative;
  }

private:
  bool OnForceFlush(std::chrono::microseconds) noexcept override
  {
    detsched::point("rflush", this);
    g_calls++;
    detsched::note("rflush-begin r" + std::to_string(id_) + " seen=" + std::to_string(g_recorded));
    detsched::point("rflush-end", this);
    detsched::note("rflush-end r" + std::to_string(id_));
    return true;
  }
  bool OnShutDown(std::chrono::microseconds) noexcept override { return true; }
  int id_;
};

static std::string handle(const std::vector<std::string> &t)
{
  auto ops = vh::split_ops(t, 1);
  if (ops.empty() || ops[0].size() != 2) return "bad-op";
  auto num = [](const std::string &s, unsigned long &v) {
    char *e = nullptr;
    v       = strtoul(s.c_str(), &e, 10);
    return !s.empty() && *e == 0;
  };
  unsigned long nfl, nrd;
  if (!num(ops[0][0], nfl) || !num(ops[0][1], nrd) || nfl == 0 || nfl > 3 || nrd == 0 || nrd > 2) return "bad-op";
  std::vector<int> acts;
  for (size_t i = 1; i < ops.size(); i++)
  {
    if (ops[i].size() != 1 || ops[i][0].size() < 2 || ops[i][0][0] != 't') return "bad-op";
    unsigned long v;
    if (!num(ops[i][0].substr(1), v)) return "bad-op";
    acts.push_back(v >= nfl ? -1 : (int)v);
  }
  detsched::reset();
  g_recorded = 0;
  g_calls    = 0;
  std::vector<std::string> outs;
  auto provider = std::make_shared<sm::MeterProvider>();
  for (unsigned long r = 0; r < nrd; r++) provider->AddMetricReader(std::make_shared<Reader>((int)r));
  int rets = 0;
  for (unsigned long i = 0; i < nfl; i++)
  {
    detsched::spawn([&] {
      detsched::point("begin", nullptr);
      g_recorded++;
      detsched::note("record " + std::to_string(g_recorded));
      detsched::point("call", nullptr);
      detsched::note("flush-begin " + std::to_string(g_recorded));
      bool ok = provider->ForceFlush();
      if (ok) rets++;
      detsched::note(std::string("flush-ret ") + (ok ? "1" : "0"));
    });
  }
  for (int a : acts) outs.push_back(a < 0 ? std::string("x") : detsched::run(a));
  std::string dtrace;
  bool done = detsched::drain(6000, &dtrace);
  if (!dtrace.empty()) outs.push_back(dtrace.substr(0, dtrace.size() - 3));
  if (!done)
  {
    outs.push_back("done=0");
    std::string o = vh::join(outs, " ; ");
    fputs(o.c_str(), stdout);
    fputc('\n', stdout);
    fflush(stdout);
    _exit(77);
  }
  outs.push_back("done=1 calls=" + std::to_string(g_calls) + " rets=" + std::to_string(rets));
  provider.reset();
  detsched::reset();
  return vh::join(outs, " ; ");
}

int main()
{
  opentelemetry::sdk::common::internal_log::GlobalLogHandler::SetLogLevel(
      opentelemetry::sdk::common::internal_log::LogLevel::None);
  return vh::run_lines([](const std::vector<std::string> &t) -> std::string {
    if (t.empty()) return "bad-op";
    if (t[0] == "mpf") return handle(t);
    return "bad-op";
  });
}
