// Tabulator for SDK sources: sdk/src/metrics/instrument_metadata_validator.cc, sdk/src/common/env_variables.cc (linked from the
// working tree).  See tab_common.h for the output format and tools/tabulate.py for its use.
#include "tab_common.h"

#include <chrono>
#include <cstdlib>
#include <cstring>
#include <string>

#include "opentelemetry/sdk/common/env_variables.h"
#include "opentelemetry/sdk/common/global_log_handler.h"
#include "opentelemetry/sdk/metrics/instrument_metadata_validator.h"

namespace nostd = opentelemetry::nostd;
namespace sdkc  = opentelemetry::sdk::common;
using tab::ch;
using tab::Obs;

static_assert(std::is_same<std::chrono::system_clock::duration, std::chrono::nanoseconds>::value,
              "the duration tables are in nanoseconds");

static const char *kVar = "OTEL_VERIF_TAB_VALUE";

static void tab_naming()
{
  opentelemetry::sdk::metrics::InstrumentMetaDataValidator v;
  tab::boolean("nameValid1", [&](int b) {
    char c = static_cast<char>(b);
    return v.ValidateName(nostd::string_view(&c, 1));
  });
  tab::boolean("nameValidA", [&](int b) {
    char c[2] = {'a', static_cast<char>(b)};
    return v.ValidateName(nostd::string_view(c, 2));
  });
  tab::boolean("nameValidB", [&](int b) {
    char c[2] = {static_cast<char>(b), 'a'};
    return v.ValidateName(nostd::string_view(c, 2));
  });
  tab::boolean("unitValid1", [&](int b) {
    char c = static_cast<char>(b);
    return v.ValidateUnit(nostd::string_view(&c, 1));
  });
  tab::boolean("unitValidA", [&](int b) {
    char c[2] = {'a', static_cast<char>(b)};
    return v.ValidateUnit(nostd::string_view(c, 2));
  });
  // length limits: input = the length as two bytes (high, low); the string is that many 'a'
  {
    std::vector<std::string> in;
    for (int n = 0; n <= 260; n++) in.push_back(ch(n >> 8) + ch(n & 255));
    tab::pairs("nameUnitLen", in, [&](const std::string &x) {
      size_t n = (static_cast<size_t>(static_cast<unsigned char>(x[0])) << 8) | static_cast<unsigned char>(x[1]);
      std::string s(n, 'a');
      return Obs{v.ValidateName(s) ? 1ull : 0ull, v.ValidateUnit(s) ? 1ull : 0ull};
    });
  }
}

// the environment value: the bytes given (never containing NUL); the empty string is a set, empty variable
static void set_env(const std::string &s) { setenv(kVar, s.c_str(), 1); }

static Obs env_bool(const std::string &s)
{
  set_env(s);
  bool value = true;
  bool r     = sdkc::GetBoolEnvironmentVariable(kVar, value);
  return Obs{r ? 1ull : 0ull, value ? 1ull : 0ull};
}

static const long long kSentinel = 12345;

static Obs env_dur(const std::string &s)
{
  set_env(s);
  std::chrono::system_clock::duration value{kSentinel};
  bool r = sdkc::GetDurationEnvironmentVariable(kVar, value);
  long long n = std::chrono::duration_cast<std::chrono::nanoseconds>(value).count();
  return Obs{r ? 1ull : 0ull, n < 0 ? 999999999999999999ull : static_cast<unsigned long long>(n)};
}

static Obs env_uint(const std::string &s)
{
  set_env(s);
  std::uint32_t value = 777;
  errno               = 0;
  bool r              = sdkc::GetUintEnvironmentVariable(kVar, value);
  return Obs{r ? 1ull : 0ull, value};
}

static void tab_env()
{
  // every case variant of "true" / "false", every one-byte value, near misses
  {
    std::vector<std::string> in;
    for (const char *w : {"true", "false"})
    {
      size_t n = std::strlen(w);
      for (unsigned m = 0; m < (1u << n); m++)
      {
        std::string s(w);
        for (size_t i = 0; i < n; i++)
          if (m & (1u << i)) s[i] = static_cast<char>(s[i] - 32);
        in.push_back(s);
      }
    }
    in.push_back("");
    for (int b = 1; b < 256; b++) in.push_back(ch(b));
    for (const char *w : {"yes", "no", "on", "off", "tru", "truee", "true ", " true", "fals", "falsee", "false ", "tr", "fa", "10", "01",
                          "t", "f", "y", "n", "True\t", "TRUE1", "0true"})
      in.push_back(w);
    tab::pairs("envBool", in, env_bool);
  }
  // the unit table: "1" followed by every string of length <= 2 over [a-z]
  {
    std::vector<std::string> in;
    for (const char *w : {"1", "1ns", "1us", "1ms", "1s", "1m", "1h", "1NS", "1Ms", "1S", "1 s", "1s ", "1sec", "1min", "1hr", "1nss", "1mss", "1uss",
                          "1d", "1n", "1u", "1sm", "1hs", "1sn"})
      in.push_back(w);
    for (const auto &u : tab::strings_upto("abcdefghijklmnopqrstuvwxyz", 2)) in.push_back("1" + u);
    tab::pairs("envDurUnit", in, env_dur);
  }
  // digit / white-space / sign acceptance per byte
  {
    std::vector<std::string> in{""};
    for (int b = 1; b < 256; b++)
    {
      in.push_back(ch(b));
      in.push_back("1" + ch(b));
      in.push_back(ch(b) + "1");
    }
    tab::pairs("envDurByte", in, env_dur);
  }
  {
    std::vector<std::string> in{""};
    for (int b = 1; b < 256; b++)
    {
      in.push_back(ch(b));
      in.push_back("1" + ch(b));
    }
    for (const char *w : {"4294967295", "4294967296", "18446744073709551615", "18446744073709551616", "00", "007", "1 ", " 1", "+1", "-1",
                          "-0", "0x10", "1e3", "1.0"})
      in.push_back(w);
    tab::pairs("envUintByte", in, env_uint);
  }
}

int main(int argc, char **argv)
{
  opentelemetry::sdk::common::internal_log::GlobalLogHandler::SetLogLevel(opentelemetry::sdk::common::internal_log::LogLevel::None);
  std::string which = argc > 1 ? argv[1] : "all";
  auto want         = [&](const char *g) { return which == "all" || which == g; };
  if (want("naming")) tab_naming();
  if (want("env")) tab_env();
  return 0;
}
