// Tabulator (tools/tabulate.py): calls REAL functions of the working tree on their WHOLE (finite, small) domain and prints
// their graphs.  One table per line:
//
//   u8     <name> v0 ... v255                 byte -> byte (decimal)
//   bool   <name> 0|1 x 256                   byte -> bool
//   nat    <name> n0 ... n255                 byte -> natural number
//   bytes  <name> hex0 ... hex255             byte -> byte string (hex, '-' = empty)
//   u8x2   <name> row0 ... row255             (byte, byte) -> byte; row = 512 hex digits
//   boolx2 <name> row0 ... row255             (byte, byte) -> bool; row = 256 characters 0|1
//   natx2  <name> row0 ... row255             (byte, byte) -> natural; row = comma separated
//   pairs  <name> in:o,o,o ...                byte string (hex, '-' = empty) -> list of naturals ('-' = empty list)
//
// Plain g++ -O1, no sanitizers; everything printed is a pure function of the source tree (no addresses, no time).
#pragma once
#include <cstdint>
#include <cstdio>
#include <functional>
#include <string>
#include <vector>

namespace tab
{
inline std::string hex(const std::string &s)
{
  if (s.empty()) return "-";
  static const char *d = "0123456789abcdef";
  std::string r;
  for (unsigned char c : s)
  {
    r.push_back(d[c >> 4]);
    r.push_back(d[c & 15]);
  }
  return r;
}

inline void u8(const char *name, const std::function<unsigned(int)> &f)
{
  std::printf("u8 %s", name);
  for (int b = 0; b < 256; b++) std::printf(" %u", f(b) & 0xFFu);
  std::printf("\n");
}
inline void boolean(const char *name, const std::function<bool(int)> &f)
{
  std::printf("bool %s", name);
  for (int b = 0; b < 256; b++) std::printf(" %d", f(b) ? 1 : 0);
  std::printf("\n");
}
inline void nat(const char *name, const std::function<unsigned long long(int)> &f)
{
  std::printf("nat %s", name);
  for (int b = 0; b < 256; b++) std::printf(" %llu", f(b));
  std::printf("\n");
}
inline void bytes(const char *name, const std::function<std::string(int)> &f)
{
  std::printf("bytes %s", name);
  for (int b = 0; b < 256; b++) std::printf(" %s", hex(f(b)).c_str());
  std::printf("\n");
}
inline void u8x2(const char *name, const std::function<unsigned(int, int)> &f)
{
  std::printf("u8x2 %s", name);
  for (int a = 0; a < 256; a++)
  {
    std::string row;
    for (int b = 0; b < 256; b++) row.push_back(static_cast<char>(f(a, b) & 0xFFu));
    std::printf(" %s", hex(row).c_str());
  }
  std::printf("\n");
}
inline void boolx2(const char *name, const std::function<bool(int, int)> &f)
{
  std::printf("boolx2 %s", name);
  for (int a = 0; a < 256; a++)
  {
    std::string row;
    for (int b = 0; b < 256; b++) row.push_back(f(a, b) ? '1' : '0');
    std::printf(" %s", row.c_str());
  }
  std::printf("\n");
}
inline void natx2(const char *name, const std::function<unsigned long long(int, int)> &f)
{
  std::printf("natx2 %s", name);
  for (int a = 0; a < 256; a++)
  {
    std::printf(" ");
    for (int b = 0; b < 256; b++) std::printf(b ? ",%llu" : "%llu", f(a, b));
  }
  std::printf("\n");
}
using Obs = std::vector<unsigned long long>;
inline void pairs(const char *name, const std::vector<std::string> &inputs, const std::function<Obs(const std::string &)> &f)
{
  std::printf("pairs %s", name);
  for (const auto &in : inputs)
  {
    Obs o = f(in);
    std::printf(" %s:", hex(in).c_str());
    if (o.empty()) std::printf("-");
    for (size_t i = 0; i < o.size(); i++) std::printf(i ? ",%llu" : "%llu", o[i]);
  }
  std::printf("\n");
}
inline void put_bytes(Obs &o, const char *p, size_t n)
{
  for (size_t i = 0; i < n; i++) o.push_back(static_cast<unsigned char>(p[i]));
}
// all strings of length <= maxlen over `alpha`, shortest first, in the order of `alpha`
inline std::vector<std::string> strings_upto(const std::string &alpha, int maxlen)
{
  std::vector<std::string> out{""};
  size_t from = 0;
  for (int l = 1; l <= maxlen; l++)
  {
    size_t to = out.size();
    for (size_t i = from; i < to; i++)
      for (char c : alpha) out.push_back(out[i] + c);
    from = to;
  }
  return out;
}
inline std::string ch(int b) { return std::string(1, static_cast<char>(b)); }
}  // namespace tab
