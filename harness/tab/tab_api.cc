// Tabulator for the header-only API: hex.h, string_util.h, trace ids / flags, trace_state.h, kv_properties.h, baggage.h,
// b3_propagator.h, jaeger.h, http_trace_context.h.  See tab_common.h for the output format and tools/tabulate.py for its use.
#include "tab_common.h"

#include <algorithm>
#include <array>
#include <cctype>
#include <cstring>
#include <map>
#include <memory>
#include <regex>
#include <sstream>
#include <string>
#include <type_traits>
#include <utility>

// private static helpers (Baggage::UrlEncode / UrlDecode / IsValidKey / IsValidValue, JaegerPropagator::GetTraceFlags) are called
// directly: this TU only, after every standard header it needs has been included
#define private public
#include "opentelemetry/baggage/baggage.h"
#include "opentelemetry/trace/propagation/jaeger.h"
#undef private

#include "opentelemetry/common/kv_properties.h"
#include "opentelemetry/common/string_util.h"
#include "opentelemetry/context/context.h"
#include "opentelemetry/context/propagation/text_map_propagator.h"
#include "opentelemetry/trace/context.h"
#include "opentelemetry/trace/default_span.h"
#include "opentelemetry/trace/propagation/b3_propagator.h"
#include "opentelemetry/trace/propagation/detail/hex.h"
#include "opentelemetry/trace/propagation/http_trace_context.h"
#include "opentelemetry/trace/span_context.h"
#include "opentelemetry/trace/span_id.h"
#include "opentelemetry/trace/trace_flags.h"
#include "opentelemetry/trace/trace_id.h"
#include "opentelemetry/trace/trace_state.h"

namespace nostd   = opentelemetry::nostd;
namespace trace   = opentelemetry::trace;
namespace prop    = opentelemetry::trace::propagation;
namespace detail  = opentelemetry::trace::propagation::detail;
namespace common  = opentelemetry::common;
namespace context = opentelemetry::context;
namespace baggage = opentelemetry::baggage;
using tab::ch;
using tab::Obs;

class Carrier : public context::propagation::TextMapCarrier
{
public:
  nostd::string_view Get(nostd::string_view key) const noexcept override
  {
    auto it = h.find(std::string(key));
    if (it == h.end()) return "";
    return nostd::string_view(it->second.data(), it->second.size());
  }
  void Set(nostd::string_view key, nostd::string_view value) noexcept override
  {
    h[std::string(key)] = std::string(value.data(), value.size());
  }
  std::map<std::string, std::string> h;
};

static const std::string kTid = "0102030405060708090a0b0c0d0e0f10";
static const std::string kSid = "1112131415161718";

// extraction result: the flags byte of the installed remote context, 256 = the caller's context came back
template <class P>
static unsigned long long extract_flags(P &p, Carrier &c)
{
  context::Context ctx;
  context::Context r = p.Extract(c, ctx);
  auto sp            = trace::GetSpan(r);
  auto sc            = sp->GetContext();
  if (!sc.IsValid()) return 256;
  return sc.trace_flags().flags();
}

template <class P>
static std::map<std::string, std::string> inject_with_flags(P &p, int f)
{
  uint8_t tid[16] = {1, 2, 3, 4, 5, 6, 7, 8, 9, 10, 11, 12, 13, 14, 15, 16};
  uint8_t sid[8]  = {17, 18, 19, 20, 21, 22, 23, 24};
  trace::SpanContext sc(trace::TraceId(tid), trace::SpanId(sid), trace::TraceFlags(static_cast<uint8_t>(f)), false);
  nostd::shared_ptr<trace::Span> sp{new trace::DefaultSpan(sc)};
  context::Context ctx;
  context::Context c2 = trace::SetSpan(ctx, sp);
  Carrier c;
  p.Inject(c, c2);
  return c.h;
}

static void tab_hex()
{
  tab::u8("hexToInt", [](int b) { return static_cast<unsigned>(static_cast<uint8_t>(detail::HexToInt(static_cast<char>(b)))); });
  tab::boolean("isValidHex1", [](int b) {
    char c = static_cast<char>(b);
    return detail::IsValidHex(nostd::string_view(&c, 1));
  });
  tab::u8("hexToBinary1", [](int a) {
    char s[1]   = {static_cast<char>(a)};
    uint8_t buf = 0x5a;
    detail::HexToBinary(nostd::string_view(s, 1), &buf, 1);
    return static_cast<unsigned>(buf);
  });
  tab::u8x2("hexToBinary2", [](int a, int b) {
    char s[2]   = {static_cast<char>(a), static_cast<char>(b)};
    uint8_t buf = 0x5a;
    detail::HexToBinary(nostd::string_view(s, 2), &buf, 1);
    return static_cast<unsigned>(buf);
  });
  // return value, length handling, left padding: input = buffer size (1|2) followed by the hex string
  {
    std::vector<std::string> in;
    for (int n = 1; n <= 2; n++)
      for (const auto &s : tab::strings_upto("0aF", 4)) in.push_back(ch(n) + s);
    tab::pairs("hexToBinaryShort", in, [](const std::string &x) {
      size_t n = static_cast<size_t>(x[0]);
      uint8_t buf[2] = {0x5a, 0x5a};
      bool r = detail::HexToBinary(nostd::string_view(x.data() + 1, x.size() - 1), buf, n);
      Obs o{r ? 1ull : 0ull};
      for (size_t i = 0; i < n; i++) o.push_back(buf[i]);
      return o;
    });
  }
  // every byte value once, at every position class: id k has the bytes 16k, 16k+1, ... (span ids: 8k, 8k+1, ...)
  {
    std::vector<std::string> in;
    for (int k = 0; k < 16; k++) in.push_back(ch(k));
    tab::pairs("traceIdLower", in, [](const std::string &x) {
      uint8_t id[16];
      for (int i = 0; i < 16; i++) id[i] = static_cast<uint8_t>(16 * x[0] + i);
      char out[32];
      trace::TraceId(id).ToLowerBase16(out);
      Obs o;
      tab::put_bytes(o, out, 32);
      return o;
    });
  }
  {
    std::vector<std::string> in;
    for (int k = 0; k < 32; k++) in.push_back(ch(k));
    tab::pairs("spanIdLower", in, [](const std::string &x) {
      uint8_t id[8];
      for (int i = 0; i < 8; i++) id[i] = static_cast<uint8_t>(8 * x[0] + i);
      char out[16];
      trace::SpanId(id).ToLowerBase16(out);
      Obs o;
      tab::put_bytes(o, out, 16);
      return o;
    });
  }
  tab::bytes("flagsLower", [](int b) {
    char out[2];
    trace::TraceFlags(static_cast<uint8_t>(b)).ToLowerBase16(out);
    return std::string(out, 2);
  });
  tab::boolean("flagsIsSampled", [](int b) { return trace::TraceFlags(static_cast<uint8_t>(b)).IsSampled(); });
  tab::boolean("flagsIsRandom", [](int b) { return trace::TraceFlags(static_cast<uint8_t>(b)).IsRandom(); });
}

static const std::string kTrimAlpha = std::string("\t a", 3) + std::string(1, '\0') + "\x85";

static void tab_trim()
{
  // the white-space predicate `Trim` really uses
  tab::boolean("trimDrops", [](int b) {
    char c = static_cast<char>(b);
    return common::StringUtil::Trim(nostd::string_view(&c, 1)).empty();
  });
  tab::pairs("trimShort", tab::strings_upto(kTrimAlpha, 3), [](const std::string &s) {
    auto r = common::StringUtil::Trim(nostd::string_view(s.data(), s.size()));
    Obs o;
    tab::put_bytes(o, r.data(), r.size());
    return o;
  });
  // Trim(str, left, right): input = left, right, then the string (all windows 0 <= left <= right < size)
  {
    std::vector<std::string> in;
    for (const auto &s : tab::strings_upto(std::string("\t a", 3) + "\x85", 3))
      for (size_t l = 0; l < s.size(); l++)
        for (size_t r = l; r < s.size(); r++) in.push_back(ch(static_cast<int>(l)) + ch(static_cast<int>(r)) + s);
    tab::pairs("trim3Short", in, [](const std::string &x) {
      auto r = common::StringUtil::Trim(nostd::string_view(x.data() + 2, x.size() - 2), static_cast<size_t>(x[0]),
                                        static_cast<size_t>(x[1]));
      Obs o;
      tab::put_bytes(o, r.data(), r.size());
      return o;
    });
  }
}

static Obs tokenize(const std::string &s)
{
  common::KeyValueStringTokenizer t(nostd::string_view(s.data(), s.size()));
  Obs o{t.NumTokens()};
  bool valid;
  nostd::string_view k, v;
  int guard = 0;
  while (t.next(valid, k, v) && guard++ < 16)
  {
    if (!valid)
    {
      o.push_back(0);
      continue;
    }
    o.push_back(1);
    o.push_back(k.size());
    tab::put_bytes(o, k.data(), k.size());
    o.push_back(v.size());
    tab::put_bytes(o, v.data(), v.size());
  }
  return o;
}

static void tab_tracestate()
{
  tab::boolean("tsKey1", [](int b) {
    char c = static_cast<char>(b);
    return trace::TraceState::IsValidKey(nostd::string_view(&c, 1));
  });
  tab::boolean("tsValue1", [](int b) {
    char c = static_cast<char>(b);
    return trace::TraceState::IsValidValue(nostd::string_view(&c, 1));
  });
  tab::boolx2("tsKey2", [](int a, int b) {
    char c[2] = {static_cast<char>(a), static_cast<char>(b)};
    return trace::TraceState::IsValidKey(nostd::string_view(c, 2));
  });
  tab::boolx2("tsValue2", [](int a, int b) {
    char c[2] = {static_cast<char>(a), static_cast<char>(b)};
    return trace::TraceState::IsValidValue(nostd::string_view(c, 2));
  });
  // a<byte>b: which byte separates members, which separates key and value, which is trimmed
  {
    std::vector<std::string> in;
    for (int b = 0; b < 256; b++) in.push_back("a" + ch(b) + "b");
    tab::pairs("kvTokSep", in, tokenize);
  }
  tab::pairs("kvTokShort", tab::strings_upto(std::string(",= a;", 5) + std::string(1, '\0'), 3), tokenize);
}

static void tab_baggage()
{
  tab::bytes("bgEncode", [](int b) {
    char c = static_cast<char>(b);
    return baggage::Baggage::UrlEncode(nostd::string_view(&c, 1));
  });
  // decode results: 256 = `err` was set, 257 = more than one byte came out (never), else the decoded byte; 258 = empty result
  auto dec = [](const std::string &s) -> unsigned long long {
    bool err      = false;
    std::string r = baggage::Baggage::UrlDecode(nostd::string_view(s.data(), s.size()), err);
    if (err) return 256;
    if (r.empty()) return 258;
    if (r.size() != 1) return 257;
    return static_cast<unsigned char>(r[0]);
  };
  tab::nat("bgDecode1", [&](int b) { return dec(ch(b)); });
  tab::nat("bgDecodePct1", [&](int b) { return dec("%" + ch(b)); });
  tab::natx2("bgDecodePct", [&](int a, int b) { return dec("%" + ch(a) + ch(b)); });
  tab::boolean("bgValidKey1", [](int b) {
    char c = static_cast<char>(b);
    return static_cast<bool>(baggage::Baggage::IsValidKey(nostd::string_view(&c, 1)));
  });
  tab::boolean("bgValidValue1", [](int b) {
    char c = static_cast<char>(b);
    return baggage::Baggage::IsValidValue(nostd::string_view(&c, 1));
  });
}

static void tab_b3()
{
  tab::u8("b3FlagsFromHex1", [](int b) {
    char c = static_cast<char>(b);
    return static_cast<unsigned>(prop::B3PropagatorExtractor::TraceFlagsFromHex(nostd::string_view(&c, 1)).flags());
  });
  tab::pairs("b3FlagsFromHexShort", tab::strings_upto("1d0t", 3), [](const std::string &s) {
    return Obs{prop::B3PropagatorExtractor::TraceFlagsFromHex(nostd::string_view(s.data(), s.size())).flags()};
  });
  tab::u8("b3InjectSingleChar", [](int f) {
    prop::B3Propagator p;
    auto h = inject_with_flags(p, f)["b3"];
    return h.empty() ? 0u : static_cast<unsigned>(static_cast<unsigned char>(h.back()));
  });
  tab::bytes("b3InjectMultiSampled", [](int f) {
    prop::B3PropagatorMultiHeader p;
    return inject_with_flags(p, f)["X-B3-Sampled"];
  });
  tab::nat("b3ExtractSingleFlag", [](int b) {
    prop::B3Propagator p;
    Carrier c;
    c.h["b3"] = kTid + "-" + kSid + "-" + ch(b);
    return extract_flags(p, c);
  });
  tab::nat("b3ExtractMultiFlag", [](int b) {
    prop::B3PropagatorMultiHeader p;
    Carrier c;
    c.h["X-B3-TraceId"] = kTid;
    c.h["X-B3-SpanId"]  = kSid;
    c.h["X-B3-Sampled"] = ch(b);
    return extract_flags(p, c);
  });
  tab::u8("jaegerGetTraceFlags",
          [](int b) { return static_cast<unsigned>(prop::JaegerPropagator::GetTraceFlags(static_cast<uint8_t>(b)).flags()); });
  tab::u8("jaegerInjectChar", [](int f) {
    prop::JaegerPropagator p;
    auto h = inject_with_flags(p, f)["uber-trace-id"];
    return h.empty() ? 0u : static_cast<unsigned>(static_cast<unsigned char>(h.back()));
  });
  tab::nat("jaegerExtractFlag1", [](int b) {
    prop::JaegerPropagator p;
    Carrier c;
    c.h["uber-trace-id"] = kTid + ":" + kSid + ":0:" + ch(b);
    return extract_flags(p, c);
  });
  // flags field = the two lower-case hex digits of the byte
  tab::nat("jaegerExtractFlagByte", [](int v) {
    prop::JaegerPropagator p;
    Carrier c;
    static const char *d = "0123456789abcdef";
    c.h["uber-trace-id"] = kTid + ":" + kSid + ":0:" + std::string(1, d[v >> 4]) + std::string(1, d[v & 15]);
    return extract_flags(p, c);
  });
}

static void tab_w3c()
{
  // version field: input = the two version characters and a suffix selector (0: none, 1: "-00", 2: "0")
  std::vector<std::string> in;
  const std::string hexd = "0123456789abcdefABCDEF";
  for (int b = 0; b < 256; b++)
  {
    in.push_back(ch(b) + "0" + ch(0));
    in.push_back("0" + ch(b) + ch(0));
  }
  for (char a : hexd)
    for (char b : std::string("f"))
    {
      in.push_back(std::string(1, a) + std::string(1, b) + ch(0));
      in.push_back(std::string(1, b) + std::string(1, a) + ch(0));
    }
  for (int sfx = 1; sfx < 3; sfx++)
    for (char a : std::string("0fF"))
      for (char b : std::string("0fF")) in.push_back(std::string(1, a) + std::string(1, b) + ch(sfx));
  tab::pairs("tpVersion", in, [](const std::string &x) {
    static const char *sfx[3] = {"", "-00", "0"};
    prop::HttpTraceContext p;
    Carrier c;
    c.h["traceparent"] = x.substr(0, 2) + "-" + kTid + "-" + kSid + "-01" + sfx[static_cast<int>(x[2])];
    return Obs{extract_flags(p, c)};
  });
  // flags field of a version-00 header: the two lower-case hex digits of the byte
  tab::nat("tpFlagsByte", [](int v) {
    prop::HttpTraceContext p;
    Carrier c;
    static const char *d = "0123456789abcdef";
    c.h["traceparent"] = "00-" + kTid + "-" + kSid + "-" + std::string(1, d[v >> 4]) + std::string(1, d[v & 15]);
    return extract_flags(p, c);
  });
  tab::bytes("tpInjectFlags", [](int f) {
    prop::HttpTraceContext p;
    auto h = inject_with_flags(p, f)["traceparent"];
    return h.size() >= 2 ? h.substr(h.size() - 2) : h;
  });
}

int main(int argc, char **argv)
{
  std::string which = argc > 1 ? argv[1] : "all";
  auto want         = [&](const char *g) { return which == "all" || which == g; };
  if (want("hex")) tab_hex();
  if (want("trim")) tab_trim();
  if (want("tracestate")) tab_tracestate();
  if (want("baggage")) tab_baggage();
  if (want("b3")) tab_b3();
  if (want("w3c")) tab_w3c();
  return 0;
}
