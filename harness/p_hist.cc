// observational extraction for Gen.Histogram: what a fresh Long/DoubleHistogramAggregation(nullptr) holds
#include <cinttypes>
#include <cstdio>
#include <cstring>
#include "opentelemetry/sdk/metrics/aggregation/histogram_aggregation.h"
#include "opentelemetry/sdk/metrics/aggregation/aggregation_config.h"
using namespace opentelemetry::sdk::metrics;
static void bits(double d) { uint64_t u; std::memcpy(&u, &d, 8); std::printf("%016" PRIx64, u); }
template <class A, class T> static void dump(const char *tag)
{
  A a(nullptr);
  auto p = opentelemetry::nostd::get<HistogramPointData>(a.ToPoint());
  std::printf("%s boundaries", tag);
  for (double b : p.boundaries_) { std::printf(" "); bits(b); }
  std::printf("\n%s counts %zu\n", tag, p.counts_.size());
  std::printf("%s record_min_max %d\n", tag, int(p.record_min_max_));
  if (std::is_same<T, int64_t>::value)
    std::printf("%s min %" PRId64 " max %" PRId64 "\n", tag, (int64_t)opentelemetry::nostd::get<int64_t>(p.min_), (int64_t)opentelemetry::nostd::get<int64_t>(p.max_));
  else { std::printf("%s min ", tag); bits(opentelemetry::nostd::get<double>(p.min_)); std::printf(" max "); bits(opentelemetry::nostd::get<double>(p.max_)); std::printf("\n"); }
}
int main()
{
  dump<LongHistogramAggregation, int64_t>("long");
  dump<DoubleHistogramAggregation, double>("double");
  HistogramAggregationConfig c;
  std::printf("config record_min_max %d\n", int(c.record_min_max_));
}
